package main

import (
	"bytes"
	"encoding/json"
	"fmt"
	"io"
	"math/rand"
	"net/http"
	"net/http/httptest"
	"os"
	"strings"
)

// ---------------------------------------------------------------------------------------------------
// rpcserver stream, request-size family (C18: "malformed, OVERSIZED or hostile JSON-RPC requests produce error responses
// and never terminate the server").
//
// The HTTP endpoint advertises one request limit (rpc/server/http.go maxRequestContentLength, 5 MiB; the constant is
// pinned by Gen/RpcServer.lean rpcsrvHttpConsts). Requests of limit-1, limit, limit+1, a random size in between and
// 2 x limit bytes are sent to both HTTP transports (the handler in-process and the real net/http server), once WITH an
// announced Content-Length and once WITHOUT one (chunked transfer encoding: net/http reports ContentLength -1 to the
// handler), as single calls and as batches, brought to the exact size by JSON whitespace before the value / inside the
// params array, by a long ignored string member placed before "method", by a long string parameter of an earlier batch
// element, or by many padded batch elements. Every body is ONE syntactically valid JSON value whose last byte closes
// it: no prefix of the body is a complete request, so a request longer than the limit can only be executed by a server
// that read past the limit. Every body holds one call of ledger.getFrontierMomentum with a fresh id - the answer to
// that call (result.height = the frontier) is the evidence of execution.
//
// Monitor (from the request alone):
//   size <= limit : served - HTTP 200, the answer the request asks for (judgeAnswer), the frontier call answered with the
//                   frontier;
//   size >  limit : refused - an HTTP error status, a JSON-RPC error object, or a dropped connection; NO response object
//                   with a `result` member may come back (the request was not executed);
//   afterwards the server still answers a valid call.
// (An oversized body whose first `limit` bytes are whitespace only is answered by the unchanged server with an empty
// HTTP 200 reply - counted as oversize-refused-empty-reply, not judged: it is not an execution.)
// ---------------------------------------------------------------------------------------------------

const rpcHTTPRequestLimit = 5 * 1024 * 1024

// unknownLength hides every method of the wrapped reader but Read: net/http cannot learn the length of the body
type unknownLength struct{ r io.Reader }

func (u unknownLength) Read(p []byte) (int, error) { return u.r.Read(p) }

// sendSized sends body with (announce=true) or without an announced length
func (t *httpDirect) sendSized(body []byte, announce bool) (resp string, how string) {
	how = "ok"
	if p := safely(func() {
		var req *http.Request
		if announce {
			req = httptest.NewRequest(http.MethodPost, "/", bytes.NewReader(body))
		} else {
			req = httptest.NewRequest(http.MethodPost, "/", unknownLength{bytes.NewReader(body)})
			req.ContentLength = -1
			req.TransferEncoding = []string{"chunked"}
		}
		req.Header.Set("Content-Type", "application/json")
		w := httptest.NewRecorder()
		t.srv.ServeHTTP(w, req)
		if w.Code != 200 {
			how = fmt.Sprintf("http-%d", w.Code)
		}
		resp = w.Body.String()
	}); p != "" {
		return "", "panic: " + p
	}
	return
}

func (t *httpReal) sendSized(body []byte, announce bool) (string, string) {
	var rd io.Reader = bytes.NewReader(body)
	if !announce {
		rd = unknownLength{rd}
	}
	req, err := http.NewRequest(http.MethodPost, t.ts.URL, rd)
	if err != nil {
		return "", "transport-error: " + err.Error()
	}
	req.Header.Set("Content-Type", "application/json")
	if !announce && req.ContentLength > 0 {
		return "", "harness: the request still announces a length"
	}
	r, err := t.client.Do(req)
	if err != nil {
		return "", "transport-error: " + err.Error()
	}
	defer r.Body.Close()
	b, err := io.ReadAll(r.Body)
	if err != nil {
		return string(b), "transport-error: reading the response body: " + err.Error()
	}
	if r.StatusCode != 200 {
		return string(b), fmt.Sprintf("http-%d", r.StatusCode)
	}
	return string(b), "ok"
}

type sizedSender interface {
	rpcTransport
	sendSized(body []byte, announce bool) (string, string)
}

var oversizeShapes = []string{"leading-whitespace", "whitespace-in-params", "long-ignored-member", "batch-long-string-param", "batch-padded-elements", "whitespace-after-brace"}

// sizedBody builds one JSON value of exactly L bytes that is complete only with its last byte and holds the frontier
// call with id sid.
func sizedBody(r *rand.Rand, shape string, L int, sid string) []byte {
	call := `{"jsonrpc":"2.0","id":` + sid + `,` + sentinelMethod + `}`
	ws := func(k int) []byte {
		if k < 0 {
			k = 0
		}
		b := bytes.Repeat([]byte{' '}, k)
		for i := 0; i < k; i += 1 + r.Intn(4096) {
			b[i] = " \n\t\r"[r.Intn(4)]
		}
		return b
	}
	fill := func(k int, ch byte) string {
		if k < 0 {
			k = 0
		}
		return string(bytes.Repeat([]byte{ch}, k))
	}
	var out []byte
	switch shape {
	case "leading-whitespace":
		out = append(ws(L-len(call)), call...)
	case "whitespace-in-params":
		head := `{"jsonrpc":"2.0","id":` + sid + `,"method":"ledger.getFrontierMomentum","params":[`
		out = append(append([]byte(head), ws(L-len(head)-2)...), "]}"...)
	case "whitespace-after-brace":
		tail := call[1:]
		out = append(append([]byte("{"), ws(L-1-len(tail))...), tail...)
	case "long-ignored-member":
		head, tail := `{"pad":"`, `","jsonrpc":"2.0","id":`+sid+`,`+sentinelMethod+`}`
		out = []byte(head + fill(L-len(head)-len(tail), 'x') + tail)
	case "batch-long-string-param":
		head, tail := `[{"jsonrpc":"2.0","id":1,"method":"embedded.pillar.checkNameAvailability","params":["`, `"]},`+call+`]`
		out = []byte(head + fill(L-len(head)-len(tail), 'z') + tail)
	default: // batch-padded-elements: 20-80 calls of the frontier, each carrying an ignored member, then the judged call
		m := 20 + r.Intn(61)
		eh, et := `{"pad":"`, `","jsonrpc":"2.0","id":%d,`+sentinelMethod+`},`
		per := (L - len(call) - 2) / m
		var sb strings.Builder
		sb.Grow(L)
		sb.WriteByte('[')
		for i := 0; i < m; i++ {
			t := fmt.Sprintf(et, 1000+i)
			sb.WriteString(eh + fill(per-len(eh)-len(t), 'p') + t)
		}
		rest := L - sb.Len() - len(call) - 1
		sb.Write(ws(rest))
		sb.WriteString(call + "]")
		out = []byte(sb.String())
	}
	return out
}

// rpcOversize: the request-size family, once per run, on both HTTP transports. false = stop the stream.
func rpcOversize(ts *rpcTransports, seed int64) bool {
	c := ts.c
	defer flushChildFails(c)
	r := rand.New(rand.NewSource(seed*7919 + 18)) // own source: the rest of the stream is what it was
	limit := rpcHTTPRequestLimit
	seq := 0
	shapeAt := r.Intn(len(oversizeShapes))
	for _, tr := range ts.list {
		t, ok := tr.(sizedSender)
		if !ok {
			continue
		}
		for _, announce := range []bool{true, false} {
			sizes := []int{limit - 1, limit, limit + 1, limit + 2 + r.Intn(limit-3), 2 * limit}
			if r.Intn(2) == 0 {
				sizes = append(sizes, limit+2+r.Intn(64), limit-2-r.Intn(64))
			}
			for _, L := range sizes {
				seq++
				shapeAt++
				shape := oversizeShapes[shapeAt%len(oversizeShapes)]
				sid := fmt.Sprintf(`"zvh-size-%d"`, seq)
				body := sizedBody(r, shape, L, sid)
				mode := map[bool]string{true: "content-length", false: "chunked"}[announce]
				desc := fmt.Sprintf("%s request of %d bytes (limit %d, %+d) over %s, %s, first bytes %.70q last bytes %q", shape, len(body), limit, len(body)-limit, t.name(), mode, string(body), string(body[len(body)-40:]))
				if len(body) != L {
					c.Fail("harness: oversize body of shape %s has %d bytes, wanted %d", shape, len(body), L)
					continue
				}
				e := expectFor(body)
				if !e.valid || e.answers == 0 {
					c.Fail("harness: oversize body of shape %s is not a request (%+v)", shape, e)
					continue
				}
				if cut := expectFor(body[:minInt(len(body)-1, limit)]); cut.valid {
					c.Fail("harness: a prefix of the oversize body of shape %s is a complete JSON value", shape)
					continue
				}
				fmt.Println("REQ " + desc)
				os.Stdout.Sync()
				resp, how := t.sendSized(body, announce)
				c.Hit("oversize-request")
				c.Hit("oversize-" + mode + "-" + t.name())
				c.Hit("oversize-shape-" + shape)
				if strings.HasPrefix(how, "harness") {
					c.Fail("%s: %s", how, desc)
					continue
				}
				if strings.HasPrefix(how, "panic") {
					c.Fail("C18: the JSON-RPC server panicked on the %s: %s", desc, how)
					return false
				}
				// every response object that came back, and the one that answers the frontier call
				var objs []json.RawMessage
				if tt := strings.TrimSpace(resp); strings.HasPrefix(tt, "[") {
					json.Unmarshal([]byte(tt), &objs)
				} else if strings.HasPrefix(tt, "{") {
					objs = []json.RawMessage{json.RawMessage(tt)}
				}
				results, sentinelHeight, sentinelAnswered := 0, uint64(0), false
				for _, o := range objs {
					var m map[string]json.RawMessage
					if json.Unmarshal(o, &m) != nil {
						continue
					}
					if _, has := m["result"]; has {
						results++
						if compactJSON(m["id"]) == sid {
							var fr struct {
								Height uint64 `json:"height"`
							}
							json.Unmarshal(m["result"], &fr)
							sentinelAnswered, sentinelHeight = true, fr.Height
						}
					}
				}
				if L <= limit {
					switch {
					case how != "ok":
						c.Fail("C18: size-limit: the %s is not larger than the limit and was not served: %s %.160s", desc, how, resp)
					case judgeAnswer(e, resp) != "":
						c.Fail("C18: size-limit: the %s is not larger than the limit: %s", desc, judgeAnswer(e, resp))
					case !sentinelAnswered || sentinelHeight != ts.H:
						c.Fail("C18: size-limit: the %s is not larger than the limit; its call of ledger.getFrontierMomentum is not answered with the frontier %d: %.200s", desc, ts.H, resp)
					default:
						c.Hit("oversize-within-limit-served-" + mode)
					}
				} else {
					switch {
					case results > 0:
						c.Fail("C18: size-limit: the %s is larger than the advertised limit and was EXECUTED: the reply (%s) holds %d result(s)%s: %.200s", desc, how, results,
							map[bool]string{true: fmt.Sprintf(", the call of ledger.getFrontierMomentum with id %s is answered with the frontier (height %d)", sid, sentinelHeight), false: ""}[sentinelAnswered], resp)
					case strings.HasPrefix(how, "http-"):
						c.Hit("oversize-refused-" + how)
					case strings.HasPrefix(how, "transport-error"):
						c.Hit("oversize-refused-connection-dropped")
					case strings.TrimSpace(resp) == "":
						c.Hit("oversize-refused-empty-reply")
					default:
						if _, isErr, prob := checkResponseObject(json.RawMessage(strings.TrimSpace(resp))); prob != "" || !isErr {
							c.Fail("C18: size-limit: the %s is larger than the advertised limit and is answered with something that is no error response: %.200s", desc, resp)
						} else {
							c.Hit("oversize-refused-error-object")
						}
					}
					c.Hit("oversize-above-limit-" + mode)
				}
				flushChildFails(c)
				if !ts.healthy(t, desc) {
					return false
				}
			}
		}
	}
	return true
}
