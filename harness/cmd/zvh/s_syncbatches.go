package main

// Stream `sync-batches` (C16): a mock producer A builds a tree of momentum histories (a trunk and side
// branches forking at several depths); follower nodes receive generated batches through the REAL
// chainBridge.InsertChain. Every call is one line
//
//	sync-insert <fid> <kind> <k> <height>:<hash8>:<prev8>:<valid> × k | <index> <class> <frontierHeight> <hash8,…>
//
// and model-free monitors evaluate the sentence of C16 on the real result.

import (
	"bytes"
	"encoding/hex"
	"encoding/json"
	"fmt"
	"sort"
	"strings"
	"time"

	"github.com/ethereum/go-ethereum/rlp"

	g "github.com/zenon-network/go-zenon/chain/genesis/mock"
	"github.com/zenon-network/go-zenon/chain/nom"
	"github.com/zenon-network/go-zenon/common/types"
	"github.com/zenon-network/go-zenon/consensus"
)

// ---- history tree --------------------------------------------------------------------------------------

type histNode struct {
	hash   types.Hash
	prev   types.Hash
	height uint64
	mom    []byte
	blocks [][]byte
}

type history struct {
	// acct: for every momentum of the history, the frontier (hash, height) of every account after that momentum (lazily built)
	acct    map[types.Hash]map[types.Address]types.HashHeight
	byHash  map[types.Hash]*histNode
	blockIn map[types.Hash][]types.Hash // account-block hash -> momentums (of any branch) that contain it
	blk     map[types.Hash][]byte       // every account block the producer made (descendants included), by hash
	paths   [][]types.Hash              // full paths from genesis; paths[0] is the trunk; index = height-1
	forkAt  []uint64                    // height of the last momentum shared with the trunk (0 for the trunk itself)
}

func (h *history) record(dm *nom.DetailedMomentum) *histNode {
	if n, ok := h.byHash[dm.Momentum.Hash]; ok {
		return n
	}
	mb, err := dm.Momentum.Serialize()
	if err != nil {
		panic(err)
	}
	n := &histNode{hash: dm.Momentum.Hash, prev: dm.Momentum.PreviousHash, height: dm.Momentum.Height, mom: mb}
	for _, b := range dm.AccountBlocks {
		bb, err := b.Serialize()
		if err != nil {
			panic(err)
		}
		n.blocks = append(n.blocks, bb)
		if h.blockIn == nil {
			h.blockIn = map[types.Hash][]types.Hash{}
		}
		h.blockIn[b.Hash] = append(h.blockIn[b.Hash], n.hash)
		if h.blk == nil {
			h.blk = map[types.Hash][]byte{}
		}
		h.blk[b.Hash] = bb
	}
	h.byHash[n.hash] = n
	return n
}

// acctAfter: the account frontiers after the momentum `hash` (on the branch that momentum lies on).
func (h *history) acctAfter(hash types.Hash) map[types.Address]types.HashHeight {
	if h.acct == nil {
		h.acct = map[types.Hash]map[types.Address]types.HashHeight{}
	}
	if m, ok := h.acct[hash]; ok {
		return m
	}
	n := h.byHash[hash]
	out := map[types.Address]types.HashHeight{}
	if n == nil {
		return out
	}
	if n.height > 1 {
		for a, id := range h.acctAfter(n.prev) {
			out[a] = id
		}
	}
	for _, bb := range n.blocks {
		if b, err := nom.DeserializeAccountBlock(bb); err == nil {
			out[b.Address] = b.Identifier()
		}
	}
	h.acct[hash] = out
	return out
}

// extraDonors: genuine user blocks of the producer's history that the momentum `m` does NOT list and that are valid on their own on
// the state `m` is verified on (the state after its parent): a block of an account that has no block in `m`, whose previous block is
// that account's frontier after the parent, that acknowledges an ancestor of `m`, and — a receive — whose send an ancestor confirmed.
// In the producer's history these are the blocks of the SIBLING momentums of `m` (another branch of the history forks at its parent).
func (h *history) extraDonors(dm *nom.DetailedMomentum) []*nom.AccountBlock {
	m := dm.Momentum
	if m.Height < 2 || h.byHash[m.PreviousHash] == nil {
		return nil
	}
	anc := map[types.Hash]bool{}
	for cur := h.byHash[m.PreviousHash]; cur != nil; cur = h.byHash[cur.prev] {
		anc[cur.hash] = true
		if cur.height <= 1 {
			break
		}
	}
	own := map[types.Address]bool{}
	ownHash := map[types.Hash]bool{}
	for _, b := range dm.AccountBlocks {
		own[b.Address] = true
		ownHash[b.Hash] = true
	}
	fr := h.acctAfter(m.PreviousHash)
	var hashes []types.Hash
	for bh := range h.blk {
		hashes = append(hashes, bh)
	}
	sort.Slice(hashes, func(i, j int) bool { return bytes.Compare(hashes[i][:], hashes[j][:]) < 0 })
	var out []*nom.AccountBlock
	for _, bh := range hashes {
		b, err := nom.DeserializeAccountBlock(h.blk[bh])
		if err != nil || ownHash[bh] || own[b.Address] || !(b.BlockType == nom.BlockTypeUserSend || b.BlockType == nom.BlockTypeUserReceive) {
			continue
		}
		if b.Previous() != fr[b.Address] || !anc[b.MomentumAcknowledged.Hash] {
			continue
		}
		if b.BlockType == nom.BlockTypeUserReceive {
			confirmed := false
			for _, mh := range h.blockIn[b.FromBlockHash] {
				if anc[mh] {
					confirmed = true
				}
			}
			if !confirmed {
				continue
			}
		}
		out = append(out, b)
	}
	return out
}

// dm materialises a fresh copy (so corruptions never leak into the history).
func (h *history) dm(hash types.Hash) *nom.DetailedMomentum {
	n := h.byHash[hash]
	m, err := nom.DeserializeMomentum(n.mom)
	if err != nil {
		panic(err)
	}
	out := &nom.DetailedMomentum{Momentum: m, AccountBlocks: make([]*nom.AccountBlock, len(n.blocks))}
	for i, bb := range n.blocks {
		b, err := nom.DeserializeAccountBlock(bb)
		if err != nil {
			panic(err)
		}
		out.AccountBlocks[i] = b
	}
	return out
}

// sameBytes: is the delivered/stored momentum with its blocks byte-identical to the producer's?
func (h *history) sameBytes(dm *nom.DetailedMomentum) bool {
	n, ok := h.byHash[dm.Momentum.Hash]
	if !ok {
		return false
	}
	mb, err := dm.Momentum.Serialize()
	if err != nil || !bytes.Equal(mb, n.mom) || len(dm.AccountBlocks) != len(n.blocks) {
		return false
	}
	for i, b := range dm.AccountBlocks {
		if b == nil {
			return false
		}
		bb, err := b.Serialize()
		if err != nil || !bytes.Equal(bb, n.blocks[i]) {
			return false
		}
	}
	return true
}

type forkSpec struct {
	back   int // fork point = trunk tip - back
	length int
	skipAt int // >0: the branch's momentum number skipAt (0-based) leaves one slot empty (its pillar "missed" it)
}

// traffic puts some user blocks into A's pool.
func traffic(c *Ctx, a *producer, pending *[]*nom.AccountBlock, pSend, pRecv int) {
	if c.R.Intn(100) < pSend {
		from := c.R.Intn(5)
		to := (from + 1 + c.R.Intn(4)) % 5
		if b, err := a.send(from, to, int64(1+c.R.Intn(1000))); err == nil && b != nil {
			*pending = append(*pending, b)
			c.Hit("hist-send")
		} else {
			c.Hit("hist-send-refused")
		}
	}
	if c.R.Intn(100) < pRecv && len(*pending) > 0 {
		s := (*pending)[0]
		// only a confirmed send can be received
		if h, err := a.z.Chain().GetFrontierMomentumStore().GetBlockConfirmationHeight(s.Hash); err == nil && h != 0 {
			*pending = (*pending)[1:]
			if err := a.receive(s); err == nil {
				c.Hit("hist-receive")
			} else {
				c.Hit("hist-receive-refused")
			}
		}
	}
}

func buildHistory(c *Ctx, a *producer, L int, forks []forkSpec) *history {
	h := &history{byHash: map[types.Hash]*histNode{}, blk: map[types.Hash][]byte{}}
	gen := a.bridge.GetBlock(a.z.Chain().GetGenesisMomentum().Hash)
	h.record(gen)
	trunk := []types.Hash{gen.Momentum.Hash}
	var pending []*nom.AccountBlock
	for len(trunk) < L {
		traffic(c, a, &pending, 45, 35)
		contractTraffic(c, a, 45)
		dm := a.momentum()
		h.record(dm)
		trunk = append(trunk, dm.Momentum.Hash)
	}
	h.paths = append(h.paths, trunk)
	h.forkAt = append(h.forkAt, 0)
	for _, fs := range forks {
		fpH := L - fs.back // height of the fork point
		if fpH < 1 {
			continue
		}
		fp := h.byHash[trunk[fpH-1]]
		if err := a.rollbackTo(types.HashHeight{Hash: fp.hash, Height: fp.height}); err != nil {
			panic(fmt.Sprintf("history: rollback of producer failed: %v", err))
		}
		path := append([]types.Hash{}, trunk[:fpH]...)
		pending = nil
		for i := 0; i < fs.length; i++ {
			if i == 0 {
				// a block that is not on the trunk makes the branch differ from its first momentum on
				// (from a DELEGATING account — users 1-3 back pillars 1 and 2 in the mock genesis — to one that backs nobody: the
				// pillar weights, and with them every election whose proof block lies on the branch, differ from the trunk's)
				for try := 0; try < 10; try++ {
					from := c.R.Intn(3)
					if b, err := a.send(from, 3+c.R.Intn(2), int64(100000+c.R.Intn(100000))); err == nil && b != nil {
						c.Hit("hist-branch-moves-delegated-znn")
						break
					}
				}
			} else {
				traffic(c, a, &pending, 30, 20)
				contractTraffic(c, a, 30)
			}
			var dm *nom.DetailedMomentum
			if fs.skipAt > 0 && i == fs.skipAt {
				dm = a.momentumSkipping(2)
				c.Hit("hist-branch-slot-skipped")
			} else {
				dm = a.momentum()
			}
			if i == 0 && dm.Momentum.Hash == trunk[fpH] {
				panic("history: branch does not differ from the trunk")
			}
			h.record(dm)
			path = append(path, dm.Momentum.Hash)
		}
		h.paths = append(h.paths, path)
		h.forkAt = append(h.forkAt, uint64(fpH))
		// put the producer back on the trunk (valid data through its own bridge)
		if err := a.rollbackTo(types.HashHeight{Hash: fp.hash, Height: fp.height}); err != nil {
			panic(fmt.Sprintf("history: rollback of producer failed: %v", err))
		}
		var batch []*nom.DetailedMomentum
		for _, hh := range trunk[fpH:] {
			batch = append(batch, h.dm(hh))
		}
		if idx, err := a.bridge.InsertChain(batch); err != nil {
			panic(fmt.Sprintf("history: restoring the trunk on the producer failed at %d: %v", idx, err))
		}
		c.Hit("hist-branch")
	}
	return h
}

// ---- batches -------------------------------------------------------------------------------------------

type elem struct {
	dm    *nom.DetailedMomentum
	valid bool   // producer's own bytes (true) or corrupted by the generator (false)
	note  string // corruption kind (one token)
	// detail: free text for the failure report
	detail string
	// lenient: one account block was altered only in fields the node recomputes for itself (plasma fields, uncovered fields of
	// descendants, the stand-alone copy of a contract send). Adopting the momentum (with the producer's bytes — M1 checks that) and
	// refusing it both satisfy C16; the `valid` bit of the line follows what the node did with this element.
	lenient bool
}

func h8e(h types.Hash) string { return hex.EncodeToString(h[:8]) }

func elemTok(e elem) string {
	v := 0
	if e.valid {
		v = 1
	}
	m := e.dm.Momentum
	return fmt.Sprintf("%d:%s:%s:%d", m.Height, h8e(m.Hash), h8e(m.PreviousHash), v)
}

var corruptKinds = []string{"sig", "changes", "hash", "producer", "dropblock", "addblock", "blocksig", "timestamp", "blockamount", "prevhash",
	"extrablock-front", "extrablock-middle", "extrablock-end"}

// lastUserBlock: the account block the block-level corruptions (blocksig, blockamount) alter; -1 if there is none.
func lastUserBlock(dm *nom.DetailedMomentum) int {
	userBlock := -1
	for i, b := range dm.AccountBlocks {
		if b.BlockType == nom.BlockTypeUserSend || b.BlockType == nom.BlockTypeUserReceive {
			userBlock = i
		}
	}
	return userBlock
}

// corrupt alters one delivered momentum so that full verification must refuse it.
func corrupt(c *Ctx, hist *history, e *elem, kind string) {
	m := e.dm.Momentum
	userBlock := lastUserBlock(e.dm)
	switch kind {
	case "dropblock":
		if len(e.dm.AccountBlocks) == 0 {
			kind = "sig"
		}
	case "blocksig", "blockamount":
		if userBlock < 0 {
			kind = "changes"
		}
	case "extrablock-front", "extrablock-middle", "extrablock-end":
		// one MORE account block than the momentum lists: a genuine block that is valid on its own at this point (see extraDonors),
		// in front of / between / behind the listed ones. Every listed block is there and verifies; only the comparison of the
		// delivered blocks with the momentum's content can refuse the element.
		donors := hist.extraDonors(e.dm)
		if len(donors) == 0 {
			c.Hit("corrupt-extrablock-no-donor")
			kind = "addblock"
			break
		}
		d := donors[c.R.Intn(len(donors))]
		n := len(e.dm.AccountBlocks)
		at := 0
		switch kind {
		case "extrablock-middle":
			at = n / 2
			if n >= 2 {
				at = 1 + c.R.Intn(n-1)
			}
		case "extrablock-end":
			at = n
		}
		bs := append([]*nom.AccountBlock{}, e.dm.AccountBlocks[:at]...)
		bs = append(bs, d)
		e.dm.AccountBlocks = append(bs, e.dm.AccountBlocks[at:]...)
		e.valid = false
		e.note = kind
		e.detail = fmt.Sprintf("unlisted block %s#%d:%s, valid on its own, at position %d of the %d delivered blocks", addrName(d.Address), d.Height, h8e(d.Hash), at, n+1)
		c.Hit("corrupt-" + kind)
		return
	}
	switch kind {
	case "sig":
		m.Signature = append([]byte{}, m.Signature...)
		m.Signature[c.R.Intn(len(m.Signature))] ^= 1 << uint(c.R.Intn(8))
	case "changes":
		m.ChangesHash[c.R.Intn(32)] ^= 1 << uint(c.R.Intn(8))
	case "hash":
		m.Hash[c.R.Intn(8)] ^= 1 << uint(c.R.Intn(8)) // inside the printed 8-byte prefix
	case "producer":
		for _, k := range g.PillarKeys {
			if !bytes.Equal(k.Public, m.PublicKey) {
				m.PublicKey = append([]byte{}, k.Public...)
				m.Signature = k.Sign(m.Hash.Bytes())
				break
			}
		}
	case "dropblock":
		i := c.R.Intn(len(e.dm.AccountBlocks))
		e.dm.AccountBlocks = append(append([]*nom.AccountBlock{}, e.dm.AccountBlocks[:i]...), e.dm.AccountBlocks[i+1:]...)
	case "addblock":
		// a genuine block of another momentum
		var donor *nom.AccountBlock
		for _, p := range hist.paths {
			for _, hh := range p[1:] {
				n := hist.byHash[hh]
				if len(n.blocks) > 0 && n.hash != m.Hash {
					b, _ := nom.DeserializeAccountBlock(n.blocks[0])
					dup := false
					for _, own := range e.dm.AccountBlocks {
						if own.Hash == b.Hash {
							dup = true
						}
					}
					if !dup {
						donor = b
					}
				}
				if donor != nil {
					break
				}
			}
			if donor != nil {
				break
			}
		}
		if donor == nil {
			m.Signature = append([]byte{}, m.Signature...)
			m.Signature[0] ^= 1
			kind = "sig"
		} else {
			e.dm.AccountBlocks = append(e.dm.AccountBlocks, donor)
		}
	case "blocksig":
		b := e.dm.AccountBlocks[userBlock]
		b.Signature = append([]byte{}, b.Signature...)
		b.Signature[c.R.Intn(len(b.Signature))] ^= 1 << uint(c.R.Intn(8))
	case "blockamount":
		b := e.dm.AccountBlocks[userBlock]
		b.Data = append(append([]byte{}, b.Data...), 0x01)
		if b.BlockType == nom.BlockTypeUserSend && types.IsEmbeddedAddress(b.ToAddress) {
			// the call data of a send to an embedded contract is re-packed by the contract's own validation: trailing bytes are
			// recomputed away (or refused) — the implementation's choice, the node holds the producer's bytes either way (M1/M4)
			e.lenient = true
			e.note = kind
			c.Hit("corrupt-" + kind + "-lenient")
			return
		}
	case "timestamp":
		m.TimestampUnix++
		ts := m.Timestamp.Add(1e9)
		m.Timestamp = &ts
	case "prevhash":
		m.PreviousHash[c.R.Intn(8)] ^= 1 << uint(c.R.Intn(8))
	}
	e.valid = false
	e.note = kind
	c.Hit("corrupt-" + kind)
}

func classifyInsertErr(err error) string {
	if err == nil {
		return "ok"
	}
	s := err.Error()
	switch {
	case strings.Contains(s, "can't link momentums to insert"):
		return "link"
	case strings.Contains(s, "Too far"):
		return "toofar"
	case strings.Contains(s, "won't insert side-chain which is not longer"):
		return "notlonger"
	default:
		return "verify"
	}
}

func joinHashes(hs []types.Hash) string {
	ss := make([]string, len(hs))
	for i, h := range hs {
		ss[i] = h8e(h)
	}
	return strings.Join(ss, ",")
}

// wire passes a batch through the encoding it has on the network (BlocksMsg: RLP of []*DetailedMomentum, then
// EnsureCache on every momentum, as handleMsg does), so that no cached field of the generator's objects
// (e.g. the producer address derived from the public key) reaches InsertChain.
func wire(dms []*nom.DetailedMomentum) []*nom.DetailedMomentum {
	if len(dms) == 0 {
		return dms
	}
	enc, err := rlp.EncodeToBytes(dms)
	if err != nil {
		panic(fmt.Sprintf("rlp encode of a batch failed: %v", err))
	}
	var out []*nom.DetailedMomentum
	if err := rlp.DecodeBytes(enc, &out); err != nil {
		panic(fmt.Sprintf("rlp decode of a batch failed: %v", err))
	}
	for _, d := range out {
		d.Momentum.EnsureCache()
	}
	return out
}

// syncFollower is a follower with its stream id.
type syncFollower struct {
	*follower
	id       int
	switches int  // how many times this node left its chain (or was rolled back)
	lastOK   bool // the most recent delivery was accepted completely
	// lastIdx / lastClass: what the most recent InsertChain call returned (index, error class) — s_syncbatches_again.go
	lastIdx   int
	lastClass string
	// extraPooled: a delivery carried an unlisted account block that is valid on its own: like a gossiped block it may stay in the
	// node's pool of unconfirmed blocks for good (the pool is then no longer compared with that of a node that only saw the chain)
	extraPooled bool
	history     []string
	nr          *nrTrace // abstract node trace with reorganisations (s_syncbatches_nr.go)
}

// stop retires the follower: the abstract trace closes with the fresh-node comparison on the model side
func (f *syncFollower) stop() {
	f.nr.onStop(f)
	f.follower.stop()
}

func (f *syncFollower) remember(kind, class string) {
	f.history = append(f.history, kind+"->"+class)
	if len(f.history) > 6 {
		f.history = f.history[len(f.history)-6:]
	}
}

func (f *syncFollower) recent() string { return "[" + strings.Join(f.history, ", ") + "]" }

type syncRun struct {
	c     *Ctx
	hist  *history
	fols  []*syncFollower
	nextF int
	nr    *nrTrace
	ops   int // every InsertChain call
	tests int // calls that are test cases (not the clean batches that position a follower)
}

func (r *syncRun) newFollower() *syncFollower {
	f := &syncFollower{follower: newFollower(), id: r.nextF}
	r.nextF++
	r.c.Emit("sync-new %d %s", f.id, h8e(f.frontier().Hash))
	f.nr = r.nr
	r.nr.onNew(f)
	return f
}

func commonPrefix(a, b []types.Hash) int {
	n := 0
	for n < len(a) && n < len(b) && a[n] == b[n] {
		n++
	}
	return n
}

func isPrefix(a, b []types.Hash) bool { return commonPrefix(a, b) == len(a) }

// deliver hands one batch to the real InsertChain, prints the line and evaluates the monitors.
// Returns false when the follower must be retired (a monitor failed or its state is no longer trusted).
func (r *syncRun) deliver(f *syncFollower, kind string, batch []elem) bool {
	return r.deliverVia(f, kind, batch, nil)
}

// deliverVia: via (nil = a plain call) hands the batch to InsertChain in its own way and returns the node's chain at the moment
// the insertion took place together with InsertChain's result.
func (r *syncRun) deliverVia(f *syncFollower, kind string, batch []elem, via func(dms []*nom.DetailedMomentum) (before []types.Hash, idx int, err error, pn interface{})) bool {
	c := r.c
	r.ops++
	if kind != "extend-sync" {
		r.tests++
	}
	dms := make([]*nom.DetailedMomentum, len(batch))
	toks := make([]string, len(batch))
	for i, e := range batch {
		dms[i] = e.dm
		if strings.HasPrefix(e.note, "extrablock") {
			f.extraPooled = true
		}
	}
	var before []types.Hash
	var idx int
	var err error
	var pn interface{}
	if kind != "extend-sync" {
		// what a running node asks its consensus module and its ledger all the time (s_syncbatches_stale.go)
		r.preQueries(f)
	}
	if via == nil {
		before = f.hashes()
		idx, err, pn = f.insertChain(wire(dms))
	} else {
		before, idx, err, pn = via(wire(dms))
	}
	f.lastOK = err == nil && pn == nil
	after := f.hashes()
	class := classifyInsertErr(err)
	if pn != nil {
		class = "panic"
		idx = 0
	}
	f.lastIdx, f.lastClass = idx, class
	// firstUnknown: the elements in front of it are momentums the node held when the batch was inserted (same height, same hash):
	// InsertChain skips them without looking at anything but height and hash, so a damaged COPY of a held momentum in that prefix
	// is not something the node verified or adopted (the node keeps its own verified copy: M1 / M7 judge that)
	firstUnknown := 0
	for firstUnknown < len(batch) {
		m := batch[firstUnknown].dm.Momentum
		if m.Height < 1 || int(m.Height) > len(before) || before[m.Height-1] != m.Hash {
			break
		}
		firstUnknown++
	}
	for i := range batch {
		if batch[i].lenient && class == "verify" && idx == i {
			batch[i].valid = false // the node chose to refuse the altered copy
			c.Hit("lenient-refused")
		} else if batch[i].lenient {
			c.Hit("lenient-not-refused")
		}
		toks[i] = elemTok(batch[i])
	}
	c.Emit("sync-insert %d %s %d %s | %d %s %d %s", f.id, kind, len(batch), strings.Join(toks, " "), idx, class, len(after), joinHashes(after))
	r.nr.onDeliver(f, batch, via != nil, before, idx, class, pn)
	c.Hit("kind-" + kind)
	c.Hit("result-" + class)
	if err != nil && class == "verify" {
		c.Hit("verify-err-" + shortErr(err))
	}
	var notes []string
	for i, e := range batch {
		if e.note != "" {
			nt := fmt.Sprintf("element %d: %s", i, e.note)
			if e.detail != "" {
				nt += " (" + e.detail + ")"
			}
			notes = append(notes, nt)
		}
	}
	desc := fmt.Sprintf("kind=%s batch=[%s] frontier-before=%d:%s", kind, strings.Join(toks, " "), len(before), h8e(before[len(before)-1]))
	if len(notes) > 0 {
		desc += " altered=[" + strings.Join(notes, "; ") + "]"
	}
	ok := true

	// M0: the call must not panic (a panic on the downloader/fetcher goroutine kills the process). The classes empty-batch and
	//     nil-target are the former finding F7c (repaired in 264f72a): the inputs are delivered on every run (part 1c), and a
	//     panic on them is a violation again.
	if pn != nil {
		pclass := "other"
		ps := fmt.Sprint(pn)
		switch {
		case len(batch) == 0:
			pclass = "empty-batch"
		case strings.Contains(ps, "nil pointer"):
			pclass = "nil-target"
		}
		c.Fail("C16 InsertChain panic class=%s (%s) %s", pclass, firstLine(ps), desc)
		if pclass == "other" {
			ok = false
		}
	}
	// M0b: an empty batch is a no-op
	if pn == nil && len(batch) == 0 && (err != nil || idx != 0 || !sameHashes(before, after)) {
		c.Fail("C16 class=empty-batch-not-noop InsertChain of an empty batch returned (%d, %v), chain %d -> %d; %s", idx, err, len(before), len(after), desc)
		ok = false
	}
	// M1: the node never holds an element that is not byte-identical to one the producer made (only the
	//     pillars' keys can make a momentum that passes verification), and its chain links.
	for i := 1; i < len(after); i++ {
		dm := f.bridge.GetBlock(after[i])
		if dm == nil || !r.hist.sameBytes(dm) {
			c.Fail("C16 node holds an unverified momentum at height %d hash %s after %s", i+1, h8e(after[i]), desc)
			ok = false
			break
		}
		if dm.Momentum.PreviousHash != after[i-1] || dm.Momentum.Height != uint64(i+1) {
			c.Fail("C16 node chain does not link at height %d (hash %s prev %s below %s) after %s", i+1, h8e(after[i]),
				h8e(dm.Momentum.PreviousHash), h8e(after[i-1]), desc)
			ok = false
			break
		}
	}
	// M7: everything the node holds above the point where its chain changed verifies under the harness's OWN verification (its own
	//     pre-image hash, ed25519 over it under the stored key, key owns the address, PoW nonce) — s_syncbatches_again.go
	if !sameHashes(before, after) && !r.heldVerifies(f, commonPrefix(before, after), false, desc) {
		ok = false
	}
	// M4: nothing in the pool of unconfirmed blocks differs from what the producer made
	if !r.poolMonitor(f, desc) {
		ok = false
	}
	// M5: a chain whose every element is genuine and that extends the node's frontier is adopted — whatever was refused before
	if pn == nil && ok && linksAsExtension(before, batch) {
		last := batch[len(batch)-1].dm.Momentum
		if err != nil || after[len(after)-1] != last.Hash {
			c.Fail("C16 class=genuine-extension-refused a batch of genuine momentums that extends the node's frontier was not adopted: index %d, error %v, "+
				"frontier %d:%s; previous deliveries to this node: %s; %s", idx, err, len(after), h8e(after[len(after)-1]), f.recent(), desc)
			ok = false
		}
	}
	// M6: idempotence — a batch of which the node holds every element (same height, same hash) changes nothing and is no error
	if pn == nil && len(batch) > 0 {
		allHeld := true
		for _, e := range batch {
			m := e.dm.Momentum
			if m.Height < 1 || int(m.Height) > len(before) || before[m.Height-1] != m.Hash {
				allHeld = false
				break
			}
		}
		if allHeld && (err != nil || !sameHashes(before, after)) {
			c.Fail("C16 class=known-batch-not-noop the node held every momentum of the batch when it was inserted, yet InsertChain returned (%d, %v) and the chain went "+
				"%d:%s -> %d:%s; %s", idx, err, len(before), h8e(before[len(before)-1]), len(after), h8e(after[len(after)-1]), desc)
			ok = false
		}
	}
	f.remember(kind, class)
	// M2: the node leaves its chain only for a strictly longer one that forks at most 30 below its frontier
	if !isPrefix(before, after) {
		cp := commonPrefix(before, after)
		depth := len(before) - cp
		c.Hit("left-own-chain")
		f.switches++
		if depth > 30 {
			c.Fail("C16 class=rolled-back-too-far node rolled back %d > 30 momentums (%d -> fork %d) %s", depth, len(before), cp, desc)
		}
		if len(after) <= len(before) {
			c.Fail("C16 class=left-chain-not-longer node left its chain of height %d for one of height %d (fork depth %d, result %s index %d) %s",
				len(before), len(after), depth, class, idx, desc)
		}
		// C06: nothing the node remembers about the abandoned branch answers for the adopted one (s_syncbatches_stale.go)
		if pn == nil && !r.postSwitch(f, before, after, desc) {
			ok = false
		}
	}
	// M3: index / verified prefix. All elements before the reported index are the producer's own bytes; on
	//     success the last delivered momentum is the frontier (unless everything was known already).
	if pn == nil && ok {
		if err == nil && len(batch) > 0 {
			last := batch[len(batch)-1].dm.Momentum
			if last.Height == 0 || last.Height > uint64(len(after)) || after[last.Height-1] != last.Hash {
				c.Fail("C16 class=nil-but-not-inserted InsertChain returned nil but the last delivered momentum %d:%s is not on the chain; %s", last.Height, h8e(last.Hash), desc)
				ok = false
			}
			for i, e := range batch {
				if !e.valid && i >= firstUnknown {
					c.Fail("C16 InsertChain accepted a batch whose element %d is corrupted (%s); %s", i, e.note, desc)
					ok = false
				}
			}
		}
		if class == "verify" {
			if idx < 0 || idx >= len(batch) {
				c.Fail("C16 reported index %d outside the batch of %d; %s", idx, len(batch), desc)
				ok = false
			} else {
				for i := firstUnknown; i < idx; i++ {
					if !batch[i].valid {
						c.Fail("C16 class=index-after-bad reported index %d but element %d is corrupted (%s); %s", idx, i, batch[i].note, desc)
						ok = false
					}
				}
				// the element at the index is corrupted, or does not link to its predecessor in the batch / the frontier
				e := batch[idx]
				links := true
				if idx > 0 {
					p := batch[idx-1].dm.Momentum
					links = e.dm.Momentum.PreviousHash == p.Hash && e.dm.Momentum.Height == p.Height+1
				}
				if e.valid && links && idx > 0 {
					c.Fail("C16 class=index-wrong reported index %d names a genuine, linking momentum; %s", idx, desc)
					ok = false
				}
				// node holds exactly the verified prefix: its frontier is the element before the index
				if idx > 0 {
					p := batch[idx-1].dm.Momentum
					fr := after[len(after)-1]
					if fr != p.Hash {
						c.Fail("C16 class=not-at-verified-prefix index %d but the frontier %d:%s is not the element before it (%d:%s); %s",
							idx, len(after), h8e(fr), p.Height, h8e(p.Hash), desc)
						ok = false
					}
				}
			}
		}
		if class == "link" || class == "toofar" || class == "notlonger" {
			if !sameHashes(before, after) {
				c.Fail("C16 refused batch (%s) changed the chain; %s", class, desc)
				ok = false
			}
		}
	}
	return ok
}

func sameHashes(a, b []types.Hash) bool { return len(a) == len(b) && isPrefix(a, b) }

func firstLine(s string) string {
	if i := strings.IndexByte(s, '\n'); i >= 0 {
		s = s[:i]
	}
	if len(s) > 120 {
		s = s[:120]
	}
	return s
}

func shortErr(err error) string {
	s := err.Error()
	for _, k := range []string{"signature", "changes-hash", "hash", "producer", "size is different", "previous", "not present",
		"gap", "timestamp", "can't find prev", "plasma", "genesis"} {
		if strings.Contains(strings.ToLower(s), k) {
			return strings.ReplaceAll(k, " ", "-")
		}
	}
	s = firstLine(s)
	if len(s) > 40 {
		s = s[:40]
	}
	return strings.ReplaceAll(s, " ", "-")
}

// reverify feeds the follower's whole chain to a fresh node: every element must verify again, in order.
func (r *syncRun) reverify(f *syncFollower) {
	c := r.c
	hs := f.hashes()
	fresh := newFollower()
	defer fresh.stop()
	var batch []*nom.DetailedMomentum
	for i := 1; i < len(hs); i++ {
		dm := f.bridge.GetBlock(hs[i])
		if dm == nil {
			c.Fail("C16 re-verification: follower %d cannot serve its own momentum at height %d", f.id, i+1)
			return
		}
		batch = append(batch, dm)
		if len(batch) == 25 || i == len(hs)-1 {
			idx, err, pn := fresh.insertChain(batch)
			if err != nil || pn != nil {
				c.Fail("C16 re-verification of follower %d's chain on a fresh node fails at height %d: %v %v", f.id,
					int(batch[0].Momentum.Height)+idx, err, pn)
				return
			}
			batch = nil
		}
	}
	c.Hit("reverified-chains")
	if r.nr != nil {
		r.nr.real[f.id] = true
	}
	r.noTrace(f, fresh.follower0())
}

func (f *follower) follower0() *follower { return f }

// noTrace (C06): a follower that went through reorganisations, refused batches and rollbacks is compared with a fresh node
// that only ever saw the chain the follower holds now: ledger state byte for byte, historical views, the unconfirmed
// pool, and the consensus statistics (epoch statistics, pillar weights, delegations, the elected producer of every slot).
func (r *syncRun) noTrace(f *syncFollower, fresh *follower) {
	c := r.c
	if a, b := digestDB(f.mgr.Frontier()), digestDB(fresh.mgr.Frontier()); a != b {
		c.Fail("C06: follower %d (after %d chain switches) holds ledger state %s, a node that only saw its current chain holds %s", f.id, f.switches, a, b)
		return
	}
	hs := f.hashes()
	for k := 0; k < 6 && len(hs) > 2; k++ {
		i := 1 + c.R.Intn(len(hs)-1)
		id := types.HashHeight{Hash: hs[i], Height: uint64(i + 1)}
		va, vb := f.mgr.Get(id), fresh.mgr.Get(id)
		if (va == nil) != (vb == nil) || (va != nil && digestDB(va) != digestDB(vb)) {
			c.Fail("C06: the historical view at height %d of follower %d (after %d chain switches) differs from that of a node that only saw its current chain", i+1, f.id, f.switches)
			return
		}
	}
	// (account blocks of a refused batch may stay pooled like any gossiped block; the pool is compared when the node's last
	// delivery was accepted in full, i.e. right after a completed switch or extension)
	pa, pb := f.ch.GetAllUncommittedAccountBlocks(), fresh.ch.GetAllUncommittedAccountBlocks()
	if f.lastOK && !f.extraPooled && len(pa) != len(pb) {
		c.Fail("C06: the unconfirmed pool of follower %d (after %d chain switches) holds %d blocks, that of a node that only saw its current chain %d", f.id, f.switches, len(pa), len(pb))
		return
	}
	js := func(v interface{}, err error) string {
		if err != nil {
			return "error: " + firstLine(err.Error())
		}
		b, _ := json.Marshal(v) // maps are marshalled with sorted keys
		return string(b)
	}
	la, pa2 := listQueries(f.ch.GetFrontierMomentumStore())
	lb, pb2 := listQueries(fresh.ch.GetFrontierMomentumStore())
	if pa2 != "" && pb2 == "" {
		c.Fail("C06: follower %d (after %d chain switches) cannot answer a ledger query that a node that only saw its current chain answers: %s", f.id, f.switches, pa2)
		return
	}
	for i := range la {
		if la[i] != lb[i] {
			c.Fail("C06: follower %d (after %d chain switches) answers %.300s — a node that only saw its current chain: %.300s", f.id, f.switches, la[i], lb[i])
			return
		}
	}
	ra, rb := f.cons.FrontierPillarReader(), fresh.cons.FrontierPillarReader()
	for e := uint64(0); e < 2; e++ {
		if a, b := js(ra.EpochStats(e)), js(rb.EpochStats(e)); a != b {
			c.Fail("C06: consensus statistics of epoch %d on follower %d (after %d chain switches): %.300s — on a node that only saw its current chain: %.300s", e, f.id, f.switches, a, b)
			return
		}
		if a, b := js(ra.GetPillarDelegationsByEpoch(e)), js(rb.GetPillarDelegationsByEpoch(e)); a != b {
			c.Fail("C06: pillar delegations of epoch %d on follower %d (after %d chain switches) differ from a node that only saw its current chain: %.200s vs %.200s", e, f.id, f.switches, a, b)
			return
		}
	}
	if a, b := js(ra.GetPillarWeights()), js(rb.GetPillarWeights()); a != b {
		c.Fail("C06: pillar weights on follower %d (after %d chain switches) differ from a node that only saw its current chain", f.id, f.switches)
		return
	}
	// the elected producer of every slot from genesis to one tick past the frontier
	gen := f.ch.GetGenesisMomentum().Timestamp.Unix()
	fr := f.frontier().Timestamp.Unix()
	for t := gen + 10; t <= fr+300; t += 10 {
		a, ea := f.cons.GetMomentumProducer(time.Unix(t, 0))
		b, eb := fresh.cons.GetMomentumProducer(time.Unix(t, 0))
		sa, sb := "none", "none"
		if ea == nil && a != nil {
			sa = a.String()
		}
		if eb == nil && b != nil {
			sb = b.String()
		}
		if sa != sb {
			c.Fail("C05/C06: slot at +%ds: follower %d (after %d chain switches) elects %s, a node that only saw its current chain elects %s", t-gen, f.id, f.switches, sa, sb)
			return
		}
	}
	c.Hit("no-trace-compared")
	if f.switches > 0 {
		c.Hit("no-trace-compared-after-switch")
	}
}

// pathsThrough returns the indices of history paths the follower's chain is a prefix of.
func (r *syncRun) pathsThrough(cur []types.Hash) []int {
	var out []int
	for i, p := range r.hist.paths {
		if len(cur) <= len(p) && isPrefix(cur, p) {
			out = append(out, i)
		}
	}
	return out
}

func (r *syncRun) seg(path []types.Hash, fromH, toH int) []elem { // heights fromH..toH inclusive
	var out []elem
	for h := fromH; h <= toH && h <= len(path); h++ {
		if h < 1 {
			continue
		}
		out = append(out, elem{dm: r.hist.dm(path[h-1]), valid: true})
	}
	return out
}

// syncTo brings a follower to height `to` of path p with clean batches of varied sizes.
func (r *syncRun) syncTo(f *syncFollower, p int, to int) bool {
	path := r.hist.paths[p]
	for {
		cur := len(f.hashes())
		if cur >= to {
			return true
		}
		k := 1 + r.c.R.Intn(24)
		if r.c.R.Intn(4) == 0 {
			k = 1 + r.c.R.Intn(3)
		}
		if cur+k > to {
			k = to - cur
		}
		if !r.deliver(f, "extend-sync", r.seg(path, cur+1, cur+k)) {
			return false
		}
		if len(f.hashes()) != cur+k {
			return false
		}
	}
}

func init() {
	register("sync-batches", func(c *Ctx) {
		// epochs of ten minutes (two election ticks): the trunk of 78 momentums ends in epoch 1, the branch that forks 22 below
		// its tip forks in epoch 0 — a switch to it crosses an epoch end (the real code's package variable, as its own tests set it)
		origEpoch := consensus.EpochDuration
		consensus.EpochDuration = 10 * time.Minute
		defer func() { consensus.EpochDuration = origEpoch }()
		a := newProducer()
		defer a.stop()
		L := 78
		// the last branch forks in the election tick BEFORE the trunk tip's tick and runs past the end of the tip's tick, so that
		// consensus points of a finished tick computed on the abandoned branch exist when the node switches (C06)
		// (that branch also leaves a slot empty right after the fork point: its statistics of the tick — and, with the epochs of
		// ten minutes = two ticks this stream runs on, of the EPOCH that ends between the fork point and the trunk tip — differ
		// from the trunk's, so statistics kept from the abandoned branch are visible)
		// (the three one-momentum branches 3, 4 and 9 below the tip give more momentums a SIBLING: its block is valid on the state the
		// momentum is verified on and not listed by it — the extrablock corruptions)
		forks := []forkSpec{{36, 44, 0}, {31, 36, 0}, {30, 33, 0}, {17, 20, 0}, {6, 9, 0}, {2, 2, 0}, {1, 1, 0}, {22, 40, 1}, {3, 1, 0}, {4, 1, 0}, {9, 2, 0}}
		if c.Tier == "thorough" {
			L = 110
			forks = append(forks, forkSpec{50, 60, 0}, forkSpec{12, 30, 2}, forkSpec{3, 8, 0})
		}
		hist := buildHistory(c, a, L, forks)
		r := &syncRun{c: c, hist: hist}
		r.nr = nrBegin(r) // C02/C06/C16: abstract node trace with reorganisations, `nr-…` lines (s_syncbatches_nr.go)
		_ = imin
		nb := 0
		for _, n := range hist.byHash {
			nb += len(n.blocks)
		}
		c.HitN("hist-momentums", len(hist.byHash))
		c.HitN("hist-account-blocks", nb)
		defer func() {
			for _, f := range r.fols {
				if f != nil {
					f.stop()
				}
			}
		}()

		// ---- part 1: directed sweep over fork depth × (shorter, equal, longer) ---------------------------
		depths := []int{1, 2, 3, 5, 10, 17, 29, 30, 31, 32, 35}
		for _, d := range depths {
			for _, rel := range []int{-1, 0, 1, 3} {
				// branch 1 forks at L-36: a follower at trunk height fork+d sees it at depth d
				br := 1
				fork := int(hist.forkAt[br])
				pos := fork + d
				if pos > L {
					continue
				}
				f := r.newFollower()
				if r.syncTo(f, 0, pos) {
					tailH := pos + rel
					if tailH <= fork {
						tailH = fork + 1
					}
					kind := fmt.Sprintf("fork-d%02d-rel%+d", d, rel)
					c.Hit(fmt.Sprintf("fork-depth-%02d", d))
					if r.deliver(f, kind, r.seg(hist.paths[br], fork+1, tailH)) {
						if c.R.Intn(4) == 0 {
							r.reverify(f)
						}
					}
				}
				f.stop()
			}
		}

		// ---- part 1b: a switch across an election-tick boundary onto a branch that finishes the next tick, then compare with
		//      a node that only ever saw that branch (ledger, views, pool, consensus statistics, schedule)
		{
			br := len(hist.paths) - 1
			fork := int(hist.forkAt[br])
			f := r.newFollower()
			if r.syncTo(f, 0, L) {
				// ask for the statistics while the node is still on the trunk (as the RPC cache does every few minutes)
				f.cons.FrontierPillarReader().EpochStats(0)
				c.Hit("fork-across-tick")
				if r.deliver(f, "fork-across-tick", r.seg(hist.paths[br], fork+1, len(hist.paths[br]))) {
					r.reverify(f)
				}
			}
			f.stop()
		}

		r.nodeCache(a) // C06: node-cache correspondence lines `nc-…` (s_nodecache.go)
		// ---- part 1c: directed, on every run: the batches that used to panic inside InsertChain (F7c, repaired in 264f72a) — the
		//      empty batch; a first unknown momentum at frontier+2 and above (genuine momentums with a gap, and a fabricated one);
		//      a head claiming height 0; a head claiming height 1 with a hash other than genesis. On a follower in the middle of the
		//      trunk and on a follower that holds nothing but its genesis momentum.
		for _, pos := range []int{L - 20, 1} {
			f := r.newFollower()
			if r.syncTo(f, 0, pos) {
				trunk := hist.paths[0]
				good := true
				step := func(hit string, kind string, b []elem) {
					if !good {
						return
					}
					c.Hit("directed-" + hit)
					good = r.deliver(f, kind, b)
				}
				step("empty-batch", "empty", nil)
				step("above-frontier-gap1", "gap-above-frontier", r.seg(trunk, pos+2, pos+4))
				step("above-frontier-gap5", "gap-above-frontier", r.seg(trunk, pos+6, pos+6))
				step("above-frontier-overlap", "gap-above-frontier-overlap", append(r.seg(trunk, imax(pos-1, 1), pos), r.seg(trunk, pos+2, pos+3)...))
				step("fabricated-above", "fabricated-above", r.fabricated(f.hashes(), 2, uint64(pos+2)))
				step("fabricated-far-above", "fabricated-above", r.fabricated(f.hashes(), 2, 1<<62))
				step("fabricated-height0", "fabricated-height0", r.fabricated(f.hashes(), 0, 0))
				step("fabricated-height1", "fabricated-height1", r.fabricated(f.hashes(), 1, 1))
				step("fabricated-height0-then-genuine", "fabricated-height0", append(r.fabricated(f.hashes(), 0, 0), r.seg(trunk, pos+1, pos+2)...))
				// after all of that the node still takes the honest continuation
				step("extension-after-refusals", "extend", r.seg(trunk, pos+1, pos+3))
				if good {
					r.reverify(f)
				}
			}
			f.stop()
		}

		// ---- part 2: directed sweep: every corruption kind at first / last / middle position, on an
		//      extension (with a known prefix in front, so the index offset matters) and on a side chain
		for pi, pos := range []int{0, 1, 2} {
			for ki, ck := range corruptKinds {
				if r.tests >= c.N*3/4 {
					break
				}
				for _, wantFork := range []int{0, 1} {
					f := r.newFollower()
					br := 3 + (pi+ki)%3 // branches forking 17, 6, 2 below the trunk tip
					fork := int(hist.forkAt[br])
					at := fork + 1 + (ki % 2)
					if at > L-8 {
						at = fork + 1
					}
					if wantFork == 0 {
						at = L - 12 - ki
					}
					if r.syncTo(f, 0, at) {
						if r.invalidOp(f, f.hashes(), 0, ck, pos, wantFork) && c.R.Intn(6) == 0 {
							r.reverify(f)
						}
					}
					f.stop()
				}
			}
		}

		// ---- part 2b: directed: a second element that does not link to the first (sibling of it / child of an
		//      older own momentum), after a clean first element
		for _, br := range []int{2, 4, 5} {
			fork := int(hist.forkAt[br])
			for variant := 0; variant < 3; variant++ {
				f := r.newFollower()
				if r.syncTo(f, 0, fork) {
					var b []elem
					kind := ""
					switch variant {
					case 0:
						b = append(r.seg(hist.paths[0], fork+1, fork+1), r.seg(hist.paths[br], fork+1, fork+1)...)
						kind = "sibling-after"
					case 1:
						b = append(r.seg(hist.paths[0], fork+1, fork+2), r.seg(hist.paths[br], fork+1, fork+1)...)
						kind = "stale-parent-after-extension"
					default:
						b = append(r.seg(hist.paths[0], fork+1, fork+2), r.seg(hist.paths[br], fork+1, fork+3)...)
						kind = "stale-branch-after-extension"
					}
					if r.deliver(f, kind, b) {
						r.reverify(f)
					}
				}
				f.stop()
			}
		}

		// ---- part 2c: directed: every account-block mutation (s_syncbatches_ab.go) once, each followed by the genuine version
		r.directedAB()

		// ---- part 2d: directed: deliveries that wait for the insert lock while the node's chain grows; momentums delivered with one
		//      more account block than they list (s_syncbatches_conc.go)
		r.directedConcurrent()
		r.directedExtraBlock()

		// ---- part 2e: directed: gossip - reorganisation - restart - gossip of abandoned blocks - the abandoned branch again - back
		//      (s_syncbatches_nr.go), every step on the abstract trace
		r.directedReorg()

		// ---- part 2f: directed: verification verdicts must not be remembered across deliveries — every kind of element the node
		//      verifies is presented AGAIN, damaged under its unchanged hash, after the node verified the honest original and still
		//      holds it / lost it in a reorganisation / verified it in a batch that failed / refused it before (s_syncbatches_again.go)
		r.directedAgain()

		// ---- part 3: random operations on short-lived followers placed near the fork points ----------------
		for r.tests < c.N {
			f := r.newFollower()
			p := c.R.Intn(len(hist.paths))
			// a position from which some other path forks off at a depth around the window
			q := c.R.Intn(len(hist.paths))
			fq := int(hist.forkAt[q])
			if q == 0 {
				fq = int(hist.forkAt[1+c.R.Intn(len(hist.paths)-1)])
			}
			to := fq + 1 + c.R.Intn(36)
			if c.R.Intn(5) == 0 {
				to = len(hist.paths[p]) - c.R.Intn(10)
			}
			if to > len(hist.paths[p]) {
				to = len(hist.paths[p])
			}
			if to < 2 {
				to = 2
			}
			if r.syncTo(f, p, to) {
				for n := 2 + c.R.Intn(5); n > 0 && r.tests < c.N; n-- {
					if !r.randomOp(f) {
						break
					}
					if c.R.Intn(10) == 0 {
						r.reverify(f)
					}
				}
			}
			f.stop()
		}
		c.HitN("insertchain-calls", r.ops)
		c.HitN("test-batches", r.tests)
	})
}

// randomOp delivers one generated batch relative to the follower's current chain.
func (r *syncRun) randomOp(f *syncFollower) bool {
	c := r.c
	hist := r.hist
	cur := f.hashes()
	H := len(cur)
	on := r.pathsThrough(cur)
	if len(on) == 0 {
		c.Fail("C16 follower %d's chain is not a path of the producer's history", f.id)
		return false
	}
	p := on[c.R.Intn(len(on))]
	path := hist.paths[p]
	room := len(path) - H
	switch k := c.R.Intn(100); {
	case k < 14: // clean extension
		if room == 0 {
			return r.forkOp(f, cur, "fork")
		}
		n := 1 + c.R.Intn(imin(room, 20))
		return r.deliver(f, "extend", r.seg(path, H+1, H+n))
	case k < 24: // overlap: known prefix + extension
		if room == 0 {
			return r.forkOp(f, cur, "fork")
		}
		back := 1 + c.R.Intn(imin(H-1, 12))
		n := 1 + c.R.Intn(imin(room, 10))
		return r.deliver(f, "overlap", r.seg(path, H-back+1, H+n))
	case k < 32: // duplicates: only known momentums
		from := 1 + c.R.Intn(H)
		to := from + c.R.Intn(imin(H-from+1, 15))
		return r.deliver(f, "duplicate", r.seg(path, from, to))
	case k < 38: // gap above the frontier
		if room < 2 {
			return r.forkOp(f, cur, "fork")
		}
		skip := 1 + c.R.Intn(imin(room-1, 5))
		return r.deliver(f, "gap-above-frontier", r.seg(path, H+1+skip, imin(len(path), H+1+skip+c.R.Intn(5))))
	case k < 43: // gap inside the batch
		if room < 3 {
			return r.forkOp(f, cur, "fork")
		}
		n := 3 + c.R.Intn(imin(room-2, 8))
		b := r.seg(path, H+1, H+n)
		cut := 1 + c.R.Intn(len(b)-2)
		b = append(b[:cut], b[cut+1:]...)
		return r.deliver(f, "gap-inside", b)
	case k < 46: // empty batch
		return r.deliver(f, "empty", nil)
	case k < 66: // side chains
		return r.forkOp(f, cur, "fork")
	case k < 72: // side chain preceded by known momentums
		return r.forkOp(f, cur, "fork-overlap")
	case k < 90: // one corrupted element at a chosen position of an extension or a side chain
		return r.invalidOp(f, cur, p, "", -1, -1)
	case k < 94: // a sibling delivered after the momentum it competes with / out of order
		return r.siblingOp(f, cur)
	default: // fabricated heads: height 0, height 1, unknown parent, claimed fork without any valid content
		return r.fabricatedOp(f, cur)
	}
}

func imax(a, b int) int {
	if a > b {
		return a
	}
	return b
}

func imin(a, b int) int {
	if a < b {
		return a
	}
	return b
}

// forkCandidates: paths that leave the follower's chain at or below its frontier.
func (r *syncRun) forkCandidates(cur []types.Hash) (idx []int, cps []int) {
	for i, p := range r.hist.paths {
		cp := commonPrefix(cur, p)
		if cp < len(cur) && cp < len(p) && cp >= 1 {
			idx = append(idx, i)
			cps = append(cps, cp)
		}
	}
	return
}

func (r *syncRun) forkOp(f *syncFollower, cur []types.Hash, kind string) bool {
	c := r.c
	idx, cps := r.forkCandidates(cur)
	if len(idx) == 0 {
		return r.deliver(f, "duplicate", r.seg(r.hist.paths[r.pathsThrough(cur)[0]], len(cur), len(cur)))
	}
	j := c.R.Intn(len(idx))
	path, cp := r.hist.paths[idx[j]], cps[j]
	H := len(cur)
	depth := H - cp
	// tail height: shorter / equal / longer / full
	var tailH int
	switch c.R.Intn(5) {
	case 0:
		tailH = H - 1 - c.R.Intn(3)
	case 1:
		tailH = H
	case 2:
		tailH = H + 1
	case 3:
		tailH = H + 1 + c.R.Intn(6)
	default:
		tailH = len(path)
	}
	if tailH <= cp {
		tailH = cp + 1
	}
	if tailH > len(path) {
		tailH = len(path)
	}
	from := cp + 1
	if kind == "fork-overlap" {
		from = cp + 1 - (1 + c.R.Intn(imin(cp, 6)))
		if from < 1 {
			from = 1
		}
	}
	rel := "longer"
	if tailH < H {
		rel = "shorter"
	} else if tailH == H {
		rel = "equal"
	}
	c.Hit(fmt.Sprintf("fork-depth-%02d", imin(depth, 40)))
	c.Hit("fork-" + rel)
	return r.deliver(f, kind+"-"+rel, r.seg(path, from, tailH))
}

func (r *syncRun) invalidOp(f *syncFollower, cur []types.Hash, p int, forceKind string, forcePos int, wantFork int) bool {
	c := r.c
	H := len(cur)
	var b []elem
	kind := "invalid-ext"
	path := r.hist.paths[p]
	forkAt := H // height of the momentum the first unknown element extends (below H: the node rolls back to it first)
	if room := len(path) - H; room > 0 && (wantFork == 0 || (wantFork < 0 && c.R.Intn(3) != 0)) {
		b = r.seg(path, H+1, H+1+c.R.Intn(imin(room, 8)))
		if c.R.Intn(3) == 0 && H > 2 { // with a known prefix, so that the index offset matters
			back := 1 + c.R.Intn(imin(H-1, 5))
			b = append(r.seg(path, H-back+1, H), b...)
			kind = "invalid-ext-overlap"
		}
	} else {
		idx, cps := r.forkCandidates(cur)
		if len(idx) == 0 {
			return r.deliver(f, "empty", nil)
		}
		j := c.R.Intn(len(idx))
		fp, cp := r.hist.paths[idx[j]], cps[j]
		if H-cp > 30 || len(fp) <= H {
			// would be refused before verification; still a case, but prefer verifiable ones
			c.Hit("invalid-fork-unverifiable")
		}
		b = r.seg(fp, cp+1, len(fp))
		kind = "invalid-fork"
		forkAt = cp
		if c.R.Intn(3) == 0 && cp > 1 {
			b = append(r.seg(fp, cp-imin(cp-1, 3)+1, cp), b...)
			kind = "invalid-fork-overlap"
		}
	}
	// corrupt one unknown element (position relative to the first unknown one: first / middle / last)
	first := 0
	for first < len(b) && int(b[first].dm.Momentum.Height) <= H && cur[b[first].dm.Momentum.Height-1] == b[first].dm.Momentum.Hash {
		first++
	}
	if first >= len(b) {
		return r.deliver(f, "duplicate", b)
	}
	pos := first + c.R.Intn(len(b)-first)
	sel := c.R.Intn(4)
	if forcePos >= 0 {
		sel = forcePos
	}
	switch sel {
	case 0:
		pos = first
	case 1:
		pos = len(b) - 1
	}
	ck := corruptKinds[c.R.Intn(len(corruptKinds))]
	if forceKind != "" {
		ck = forceKind
	}
	if strings.HasPrefix(ck, "extrablock") {
		// an element that has a donor (a momentum with a sibling on another branch), if the batch holds one
		var with []int
		for i := first; i < len(b); i++ {
			if len(r.hist.extraDonors(b[i].dm)) > 0 {
				with = append(with, i)
			}
		}
		if len(with) > 0 {
			pos = with[c.R.Intn(len(with))]
			c.Hit("extrablock-random-with-donor")
		}
	}
	// InsertChain never looks at the delivered copy of an account block the node already pools under the same (address, hash,
	// height): `if patch := c.chain.GetPatch(…); patch != nil { continue }`, and the momentum is then built from the pooled, verified
	// block. A corruption confined to the body of such a block (blocksig, blockamount) is therefore not a corruption of what the node
	// verifies. Blocks get pooled by an earlier batch whose momentum was refused, and may come back into the pool when the momentums
	// that contain them on the node's own chain are rolled back.
	ignored := false
	if ck == "blocksig" || ck == "blockamount" {
		if ub := lastUserBlock(b[pos].dm); ub >= 0 {
			blk := b[pos].dm.AccountBlocks[ub]
			pooled := f.ch.GetPatch(blk.Address, blk.Identifier()) != nil
			rolledBack := false
			for _, mh := range r.hist.blockIn[blk.Hash] {
				if n := r.hist.byHash[mh]; int(n.height) > forkAt && int(n.height) <= H && cur[n.height-1] == mh {
					rolledBack = true
				}
			}
			switch {
			case pooled && forkAt == H && pos == first:
				// certain: the first unknown element extends the frontier, its block is pooled now — the delivered copy is skipped
				ignored = true
			case pooled || rolledBack:
				// whether the block is pooled when its element is reached depends on the pool rebuilds in between: use a
				// corruption of the momentum itself instead
				ck = "changes"
				c.Hit("corrupt-block-known-fallback")
			}
		}
	}
	ids := idsOf(b)
	done := false
	if forceKind == "" && c.R.Intn(5) < 2 {
		// one account block of one unknown momentum altered (the first momentum at or behind pos that has a block of the wanted type)
		m := &abMutations[c.R.Intn(len(abMutations))]
		for off := 0; off < len(b)-first && !done; off++ {
			p := first + (pos-first+off)%(len(b)-first)
			if corruptAB(c, &b[p], m, c.R.Intn(3)) {
				pos, done = p, true
			}
		}
	}
	if !done {
		corrupt(c, r.hist, &b[pos], ck)
		if ignored && (b[pos].note == "blocksig" || b[pos].note == "blockamount") {
			b[pos].valid = true
			b[pos].note += "-of-pooled-block"
			c.Hit("corrupt-ignored-pooled-block")
		}
	}
	c.Hit(fmt.Sprintf("invalid-at-%s", map[bool]string{true: "first", false: map[bool]string{true: "last", false: "middle"}[pos == len(b)-1]}[pos == first]))
	note := b[pos].note
	if i := strings.IndexByte(note, '@'); i > 0 {
		note = note[:i]
	}
	if !r.deliver(f, kind+"-"+note, b) {
		return false
	}
	// second step: the genuine version of the same chain, from an honest peer
	if f.lastOK {
		return true
	}
	c.Hit("genuine-after-refusal")
	return r.deliver(f, "genuine-after-"+kind+"-"+note, r.genuineOf(ids))
}

// siblingOp: [x, sibling of x] or a reversed pair — the second element does not link to the first.
func (r *syncRun) siblingOp(f *syncFollower, cur []types.Hash) bool {
	c := r.c
	H := len(cur)
	// two different children of the frontier, if the history has them
	var kids []types.Hash
	seen := map[types.Hash]bool{}
	for _, p := range r.hist.paths {
		if len(p) > H && isPrefix(cur, p) && !seen[p[H]] {
			seen[p[H]] = true
			kids = append(kids, p[H])
		}
	}
	if len(kids) >= 2 {
		b := []elem{{dm: r.hist.dm(kids[0]), valid: true}, {dm: r.hist.dm(kids[1]), valid: true}}
		return r.deliver(f, "sibling-after", b)
	}
	on := r.pathsThrough(cur)
	path := r.hist.paths[on[c.R.Intn(len(on))]]
	if len(path)-H >= 2 {
		b := r.seg(path, H+1, H+2)
		b[0], b[1] = b[1], b[0]
		return r.deliver(f, "reversed", b)
	}
	// a child of an older own momentum after a clean extension element
	idx, cps := r.forkCandidates(cur)
	if len(idx) > 0 {
		j := c.R.Intn(len(idx))
		b := r.seg(r.hist.paths[idx[j]], cps[j]+1, cps[j]+1)
		if len(path) > H {
			b = append(r.seg(path, H+1, H+1), b...)
			return r.deliver(f, "stale-parent-after-extension", b)
		}
	}
	return r.deliver(f, "empty", nil)
}

// fabricated builds a one-element batch from a copy of the frontier momentum with another hash and the given claimed height
// (variant 0: height 0, 1: height 1, 2: the given height above the frontier).
func (r *syncRun) fabricated(cur []types.Hash, variant int, height uint64) []elem {
	base := r.hist.dm(cur[len(cur)-1])
	m := base.Momentum
	m.Hash[0] ^= 0xff
	m.Hash[9] ^= byte(1 + r.c.R.Intn(255))
	switch variant {
	case 0:
		m.Height = 0
	case 1:
		m.Height = 1
	default:
		m.Height = height
	}
	return []elem{{dm: base, valid: false, note: "fabricated"}}
}

// fabricatedOp: heads no honest node would send.
func (r *syncRun) fabricatedOp(f *syncFollower, cur []types.Hash) bool {
	c := r.c
	H := len(cur)
	if H == 1 {
		return r.deliver(f, "empty", nil)
	}
	switch c.R.Intn(5) {
	case 0:
		return r.deliver(f, "fabricated-height0", r.fabricated(cur, 0, 0))
	case 1:
		return r.deliver(f, "fabricated-height1", r.fabricated(cur, 1, 1))
	case 2:
		return r.deliver(f, "fabricated-above", r.fabricated(cur, 2, uint64(H+2+c.R.Intn(1000))))
	}
	base := r.hist.dm(cur[H-1]) // copy of the frontier as raw material
	m := base.Momentum
	m.Hash[0] ^= 0xff
	m.Hash[9] ^= byte(1 + c.R.Intn(255))
	e := elem{dm: base, valid: false, note: "fabricated"}
	switch c.R.Intn(2) {
	case 0:
		// claims to extend an own momentum `d` below the frontier, claims a greater height at its tail, nothing verifies
		d := 1 + c.R.Intn(imin(H-1, 34))
		m.Height = uint64(H - d + 1)
		m.PreviousHash = cur[H-d-1]
		tail := r.hist.dm(cur[H-1])
		tail.Momentum.Hash[1] ^= 0xff
		tail.Momentum.Height = uint64(H + 1 + c.R.Intn(5))
		c.Hit(fmt.Sprintf("fabricated-fork-depth-%02d", d))
		return r.deliver(f, "fabricated-fork-claim", []elem{e, {dm: tail, valid: false, note: "fabricated"}})
	default:
		// same height as an own momentum, unknown parent
		m.Height = uint64(2 + c.R.Intn(H-1))
		m.PreviousHash[3] ^= 0x55
		return r.deliver(f, "fabricated-unknown-parent", []elem{e})
	}
}
