package main

import (
	"fmt"
	"sync"
	"time"

	g "github.com/zenon-network/go-zenon/chain/genesis/mock"
	"github.com/zenon-network/go-zenon/chain/nom"
	"github.com/zenon-network/go-zenon/common/db"
	"github.com/zenon-network/go-zenon/consensus"
	"github.com/zenon-network/go-zenon/pillar"
	"github.com/zenon-network/go-zenon/protocol"
	"github.com/zenon-network/go-zenon/wallet"
)

// ---------------------------------------------------------------------------------------------------
// mverify stream, PRODUCTION family (C05: "momentums only from the elected pillar" on the node's own production path).
//
// A pillar node does not only judge momentums of peers (Supervisor.ApplyMomentum), it signs its own: pillar/worker_momentum.go
// builds the momentum of a ProducerEvent and calls Supervisor.GenerateMomentum(detailed, coinbase.Signer); what comes back is
// inserted into the node's own ledger (chain.AddMomentumTransaction does not verify) and broadcast. The event is computed once
// per tick and may be stale (node behind the proof momentum, reorganisation of the proof momentum), so the property has to
// hold there too: whatever key signs and whatever instant the event names,
//
//	GenerateMomentum hands out a signed momentum  ==>  an independent (cold) consensus instance elects the signer for the
//	                                                   slot that starts at the momentum's timestamp
//
// and the elected pillar at its own slot (later than the parent) always gets its momentum. The family asks for every
// registered pillar key, a user key, and the elected key at instants that are not its slot; every momentum that IS handed out
// is also given to the judge (ApplyMomentum + the model) like any other candidate. Every few rounds the same events go
// through a real pillar.Manager (pillar.NewPillar + Process) whose broadcaster records instead of inserting.
// ---------------------------------------------------------------------------------------------------

// recBroadcaster: what a pillar manager hands to the network layer
type recBroadcaster struct {
	mu        sync.Mutex
	inner     protocol.Broadcaster
	momentums []*nom.MomentumTransaction
	blocks    int
}

func (b *recBroadcaster) SyncInfo() *protocol.SyncInfo { return b.inner.SyncInfo() }
func (b *recBroadcaster) CreateMomentum(tx *nom.MomentumTransaction) {
	b.mu.Lock()
	defer b.mu.Unlock()
	b.momentums = append(b.momentums, tx)
}
func (b *recBroadcaster) CreateAccountBlock(tx *nom.AccountBlockTransaction) {
	// the auto-receive phase of the worker: inserted for real (it loops until nothing is left to receive)
	b.mu.Lock()
	b.blocks++
	b.mu.Unlock()
	b.inner.CreateAccountBlock(tx)
}

func (e *mvEnv) produceFamily(prev *nom.Momentum, tsec int64, blocks []*nom.AccountBlock, K *wallet.KeyPair) {
	c := e.c
	ch := e.z.Chain()
	bt := e.cctx.BlockTime
	cold := consensus.NewConsensus(db.NewMemDB(), ch, true)
	type ask struct {
		label string
		key   *wallet.KeyPair
		ts    int64
	}
	var asks []ask
	// (b) every other registered pillar key at the slot of the elected pillar, (d) keys that are no pillar at all
	for i, k := range g.PillarKeys {
		if k.Address != K.Address {
			asks = append(asks, ask{fmt.Sprintf("pillar-key-%d-at-foreign-slot", i+1), k, tsec})
		}
	}
	asks = append(asks, ask{"user-key", g.User1, tsec}, ask{"user-key", []*wallet.KeyPair{g.User2, g.User5, g.User9, g.Spork}[c.R.Intn(4)], tsec})
	// (c) the elected key at instants that are not its slot (whether it is elected there is what the cold instance says)
	tick := int64(e.cctx.NodeCount) * bt
	for _, d := range []int64{1, bt / 2, bt - 1, bt, 2 * bt, bt * int64(1+c.R.Intn(int(e.cctx.NodeCount))), tick, tick + bt*int64(c.R.Intn(int(e.cctx.NodeCount)))} {
		asks = append(asks, ask{fmt.Sprintf("elected-key-at-slot%+d", d), K, tsec + d})
	}
	// any pillar key at any slot of this or the next tick
	for i := 0; i < 3; i++ {
		k := g.PillarKeys[c.R.Intn(len(g.PillarKeys))]
		asks = append(asks, ask{"pillar-key-at-random-slot", k, tsec + bt*int64(c.R.Intn(2*int(e.cctx.NodeCount)))})
	}
	for _, a := range asks {
		var tx *nom.MomentumTransaction
		var err error
		if p := safely(func() {
			insert := ch.AcquireInsert("zvh mverify produce")
			defer insert.Unlock()
			tx, err = e.build(prev, a.ts, blocks, a.key)
		}); p != "" {
			c.Hit("produce-panicked")
			continue
		}
		exp, eerr := cold.GetMomentumProducer(time.Unix(a.ts, 0))
		elected := eerr == nil && exp != nil && *exp == a.key.Address
		c.Hit("produce-asked")
		switch {
		case err == nil && tx != nil && !elected:
			c.Hit("produce-" + a.label + ":signed")
			expTxt := "nobody (no slot starts there)"
			if eerr == nil && exp != nil {
				expTxt = addrName(*exp) + " " + exp.String()
			}
			c.Fail("produce: Supervisor.GenerateMomentum with the sign function of %s (%v) handed out a signed momentum (height %d, timestamp %d = slot start %+d s, hash %v, %d account blocks) on parent height %d — the pillar a cold consensus instance elects for that instant is %s: the node's own production path (pillar worker -> GenerateMomentum -> broadcaster.CreateMomentum -> chain.AddMomentumTransaction, which does not verify) signs, stores and broadcasts a momentum of a non-elected producer [case %s]",
				addrName(a.key.Address), a.key.Address, tx.Momentum.Height, tx.Momentum.TimestampUnix, a.ts-tsec, tx.Momentum.Hash, len(blocks), prev.Height, expTxt, a.label)
			// what a peer says about it
			e.judge("produced-by-non-elected", cloneMomentum(tx.Momentum), blocks)
		case err == nil && tx != nil:
			c.Hit("produce-signed-by-elected")
			if tx.Momentum.Producer() != a.key.Address {
				c.Fail("produce: GenerateMomentum with the sign function of %v handed out a momentum whose producer is %v", a.key.Address, tx.Momentum.Producer())
			}
			if a.ts > int64(prev.TimestampUnix) && a.ts <= int64(prev.TimestampUnix)+2*tick {
				e.judge("valid-next-slot", cloneMomentum(tx.Momentum), blocks) // label: a valid momentum of a later slot
			}
		default:
			c.Hit("produce-refused")
			if elected && a.ts > int64(prev.TimestampUnix) {
				c.Fail("produce: the pillar %s elected for timestamp %d (cold instance) cannot produce its momentum on parent height %d: %v", addrName(a.key.Address), a.ts, prev.Height, err)
			}
		}
	}
}

// the same through a real pillar manager: an event that names the manager's coinbase as producer of the slot
func (e *mvEnv) produceThroughPillar(prev *nom.Momentum, tsec int64, K *wallet.KeyPair) {
	c := e.c
	ch := e.z.Chain()
	bt := e.cctx.BlockTime
	cold := consensus.NewConsensus(db.NewMemDB(), ch, true)
	keys := []*wallet.KeyPair{K, g.PillarKeys[c.R.Intn(len(g.PillarKeys))], g.PillarKeys[c.R.Intn(len(g.PillarKeys))], g.User3}
	for i, k := range keys {
		ts := tsec
		if i == 2 || (i == 0 && c.R.Intn(2) == 0) {
			ts = tsec + bt*int64(1+c.R.Intn(int(e.cctx.NodeCount)))
		}
		rec := &recBroadcaster{inner: e.z.Broadcaster()}
		var before, after uint64
		if p := safely(func() {
			node := pillar.NewPillar(ch, e.z.Consensus(), rec)
			node.SetCoinBase(k)
			if err := node.Init(); err != nil {
				panic(err)
			}
			if err := node.Start(); err != nil {
				panic(err)
			}
			defer node.Stop()
			before = e.frontier().Height
			if task := node.Process(consensus.ProducerEvent{Producer: k.Address, StartTime: time.Unix(ts, 0), EndTime: time.Unix(ts+bt, 0)}); task != nil {
				task.Wait()
			}
			after = e.frontier().Height
		}); p != "" {
			c.Hit("pillar-manager-panicked")
			continue
		}
		c.Hit("pillar-manager-event")
		if after != before {
			c.Fail("produce: a pillar manager with a recording broadcaster moved the frontier from height %d to %d", before, after)
		}
		exp, eerr := cold.GetMomentumProducer(time.Unix(ts, 0))
		elected := eerr == nil && exp != nil && *exp == k.Address
		rec.mu.Lock()
		ms := rec.momentums
		rec.mu.Unlock()
		for _, tx := range ms {
			if !elected || tx.Momentum.Producer() != k.Address || int64(tx.Momentum.TimestampUnix) != ts {
				expTxt := "nobody"
				if eerr == nil && exp != nil {
					expTxt = addrName(*exp) + " " + exp.String()
				}
				c.Fail("produce: a pillar manager (pillar.NewPillar, coinbase %s %v) that processed the producer event {producer = its coinbase, start %d = slot of the elected pillar %+d s} handed a signed momentum (height %d, timestamp %d, producer %v, hash %v) to its broadcaster on frontier height %d — a cold consensus instance elects %s for that instant: the node would insert and broadcast a momentum of a non-elected pillar",
					addrName(k.Address), k.Address, ts, ts-tsec, tx.Momentum.Height, tx.Momentum.TimestampUnix, tx.Momentum.Producer(), tx.Momentum.Hash, prev.Height, expTxt)
			} else {
				c.Hit("pillar-manager-produced-as-elected")
			}
		}
		if elected && len(ms) == 0 && ts > int64(prev.TimestampUnix) {
			c.Fail("produce: the pillar manager of the elected pillar %s did not hand a momentum for its slot %d to the broadcaster (frontier height %d)", addrName(k.Address), ts, prev.Height)
		}
		if rec.blocks > 0 {
			c.Hit("pillar-manager-auto-received")
		}
	}
}
