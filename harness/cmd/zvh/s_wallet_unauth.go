package main

import (
	"bytes"
	"encoding/json"
	"fmt"
	"os"
	"path/filepath"
	"strings"

	"github.com/zenon-network/go-zenon/common/types"
	"github.com/zenon-network/go-zenon/wallet"
)

// ---------------------------------------------------------------------------------------------------
// wallet stream, part 9 (C19): key files whose NON-AUTHENTICATED members were changed.
//
// Of a key file only cipherData (AES-GCM tag), nonce and salt (through the KDF) are bound to the password. Everything else
// is plain JSON that anybody — another tool, an older version, an editor, a restore from mixed backups — may have written:
//   baseAddress (missing, null, zero address, the address of another entropy, of another index of the same entropy, a
//   random / an embedded-contract address, twice in the document, spelled in another case, malformed),
//   version / cipherName / kdf (ReadKeyFile checks them), timestamp, the serialised "Path" member, unknown extra members at
//   every level (incl. KDF parameters that the code does not read), the spelling of the document (compact, CRLF, upper-case
//   hex digits, BOM, trailing text).
// The property says nothing about which of these files are ACCEPTED, so nothing is demanded there (refusals are counted
// only). But for every file that ReadKeyFile + Decrypt(password) accept:
//   - the key store holds exactly the entropy the file was created from, its seed / mnemonic are those of the entropy,
//   - KeyStore.BaseAddress is the index-0 address OF THAT ENTROPY (addresses are a function of the entropy, not of what a
//     file says) — compared with an independent reference (go-bip39 + SLIP-0010 from the statement), with the stateless
//     wallet.DeriveWithIndex(0, seed), with KeyStore.DeriveForIndexPath(0), and by the Lean model (`wl-decrypt-ks` line: the
//     model's whole Decrypt on the key file as read, recorded address included; `wl-decrypt-rewrite`: Decrypt then Encrypt,
//     the address the new file records; `wl-keystore`: keyStoreFromEntropy of the entropy for the Manager's key store),
//   - the same for the key store a wallet.Manager started on the directory unlocks,
//   - the key file made from that key store (change of password / export: Encrypt(newPw) -> Write -> ReadKeyFile) records
//     the index-0 address of the entropy inside it, and decrypts with the new password to the entropy.
// ---------------------------------------------------------------------------------------------------

type uaDoc struct {
	top    map[string]json.RawMessage
	crypto map[string]json.RawMessage
	argon  map[string]json.RawMessage
}

type uaPert struct {
	tag   string
	class string                  // address / header / time / path / extra / text
	edit  func(d *uaDoc)          // edit of the parsed document
	text  func(raw []byte) []byte // edit of the serialised document
}

func uaStr(s string) json.RawMessage {
	b, _ := json.Marshal(s)
	return b
}

func uaParse(raw []byte) *uaDoc {
	d := &uaDoc{}
	if json.Unmarshal(raw, &d.top) != nil || json.Unmarshal(d.top["crypto"], &d.crypto) != nil || json.Unmarshal(d.crypto["argon2Params"], &d.argon) != nil {
		return nil
	}
	return d
}

func (d *uaDoc) serial() []byte {
	d.crypto["argon2Params"], _ = json.Marshal(d.argon)
	d.top["crypto"], _ = json.Marshal(d.crypto)
	out, _ := json.MarshalIndent(d.top, "", "    ")
	return out
}

func uaUpperHex(m map[string]json.RawMessage, k string) {
	var s string
	if json.Unmarshal(m[k], &s) == nil && strings.HasPrefix(s, "0x") {
		m[k] = uaStr("0x" + strings.ToUpper(s[2:]))
	}
}

// the perturbations of one key file; foreign = addresses that are not the index-0 address of the entropy
func uaPerturbations(c *Ctx, otherEntropy, index1, index128 types.Address) []uaPert {
	rnd := types.Address{}
	c.R.Read(rnd[1:])
	emb := types.Address{}
	c.R.Read(emb[1:])
	emb[0] = 1
	setAddr := func(a string) func(d *uaDoc) { return func(d *uaDoc) { d.top["baseAddress"] = uaStr(a) } }
	setTop := func(k, v string) func(d *uaDoc) { return func(d *uaDoc) { d.top[k] = json.RawMessage(v) } }
	del := func(k string) func(d *uaDoc) { return func(d *uaDoc) { delete(d.top, k) } }
	ps := []uaPert{
		{tag: "control", class: "address"},
		{tag: "addr-missing", class: "address", edit: del("baseAddress")},
		{tag: "addr-null", class: "address", edit: setTop("baseAddress", "null")},
		{tag: "addr-zero", class: "address", edit: setAddr(types.ZeroAddress.String())},
		{tag: "addr-other-entropy", class: "address", edit: setAddr(otherEntropy.String())},
		{tag: "addr-index-1", class: "address", edit: setAddr(index1.String())},
		{tag: "addr-index-128", class: "address", edit: setAddr(index128.String())},
		{tag: "addr-random", class: "address", edit: setAddr(rnd.String())},
		{tag: "addr-embedded", class: "address", edit: setAddr(emb.String())},
		{tag: "addr-key-case", class: "address", edit: func(d *uaDoc) { delete(d.top, "baseAddress"); d.top["BASEADDRESS"] = uaStr(otherEntropy.String()) }},
		{tag: "addr-twice-foreign-first", class: "address", text: func(raw []byte) []byte {
			return bytes.Replace(raw, []byte("{"), []byte("{\n    \"baseAddress\": \""+rnd.String()+"\","), 1)
		}},
		{tag: "addr-twice-foreign-last", class: "address", text: func(raw []byte) []byte {
			i := bytes.LastIndexByte(raw, '}')
			return append(append(append([]byte{}, raw[:i]...), []byte(",\n    \"baseAddress\": \""+otherEntropy.String()+"\"\n}")...), raw[i+1:]...)
		}},
		{tag: "addr-malformed", class: "address", edit: setAddr("z1qqqqqqqqqqqqqqqqqqqqqqqqqqqqqqqqsggv2g")},
		{tag: "addr-empty-string", class: "address", edit: setAddr("")},
		{tag: "addr-number", class: "address", edit: setTop("baseAddress", "0")},

		{tag: "version-2", class: "header", edit: setTop("version", "2")},
		{tag: "version-0", class: "header", edit: setTop("version", "0")},
		{tag: "version-missing", class: "header", edit: del("version")},
		{tag: "version-1.0", class: "header", edit: setTop("version", "1.0")},
		{tag: "version-1e0", class: "header", edit: setTop("version", "1e0")},
		{tag: "version-string", class: "header", edit: setTop("version", `"1"`)},
		{tag: "version-twice", class: "header", text: func(raw []byte) []byte {
			return bytes.Replace(raw, []byte("{"), []byte("{\n    \"version\": 7,"), 1)
		}},
		{tag: "cipher-upper", class: "header", edit: func(d *uaDoc) { d.crypto["cipherName"] = uaStr("AES-256-GCM") }},
		{tag: "kdf-other", class: "header", edit: func(d *uaDoc) { d.crypto["kdf"] = uaStr("argon2.Key") }},

		{tag: "timestamp-0", class: "time", edit: setTop("timestamp", "0")},
		{tag: "timestamp-negative", class: "time", edit: setTop("timestamp", "-1")},
		{tag: "timestamp-future", class: "time", edit: setTop("timestamp", "4611686018427387904")},
		{tag: "timestamp-changed", class: "time", edit: setTop("timestamp", fmt.Sprint(1500000000+c.R.Intn(1<<28)))},
		{tag: "timestamp-missing", class: "time", edit: del("timestamp")},
		{tag: "timestamp-float", class: "time", edit: setTop("timestamp", "1700000000.5")},

		{tag: "path-missing", class: "path", edit: del("Path")},
		{tag: "path-foreign", class: "path", edit: setTop("Path", `"/nonexistent/backup/wallet.json"`)},
		{tag: "path-relative", class: "path", edit: setTop("Path", `"wallet.json"`)},
		{tag: "path-empty", class: "path", edit: setTop("Path", `""`)},

		{tag: "extra-top", class: "extra", edit: func(d *uaDoc) {
			d.top["comment"] = uaStr("exported by another tool")
			d.top["entropy"] = uaStr("0x00")
			d.top["address"] = uaStr(otherEntropy.String())
			d.top["id"] = json.RawMessage(`{"nested": [1, 2, {"baseAddress": "` + rnd.String() + `"}]}`)
		}},
		{tag: "extra-crypto", class: "extra", edit: func(d *uaDoc) {
			d.crypto["mac"] = uaStr("0x00112233")
			d.crypto["cipherParams"] = json.RawMessage(`{"iv": "0x000000000000000000000000"}`)
			d.crypto["baseAddress"] = uaStr(otherEntropy.String())
		}},
		{tag: "extra-kdf-params", class: "extra", edit: func(d *uaDoc) {
			d.argon["time"] = json.RawMessage("3")
			d.argon["memory"] = json.RawMessage("1024")
			d.argon["threads"] = json.RawMessage("1")
			d.argon["keyLen"] = json.RawMessage("16")
		}},

		{tag: "text-compact", class: "text", text: func(raw []byte) []byte {
			var b bytes.Buffer
			json.Compact(&b, raw)
			return b.Bytes()
		}},
		{tag: "text-crlf", class: "text", text: func(raw []byte) []byte { return bytes.ReplaceAll(raw, []byte("\n"), []byte("\r\n")) }},
		{tag: "text-upper-hex", class: "text", edit: func(d *uaDoc) {
			uaUpperHex(d.crypto, "cipherData")
			uaUpperHex(d.crypto, "nonce")
			uaUpperHex(d.argon, "salt")
		}},
		{tag: "text-trailing-space", class: "text", text: func(raw []byte) []byte { return append(append([]byte("\n\t "), raw...), []byte("\n\n  \n")...) }},
		{tag: "text-bom", class: "text", text: func(raw []byte) []byte { return append([]byte("\xef\xbb\xbf"), raw...) }},
		{tag: "text-trailing-garbage", class: "text", text: func(raw []byte) []byte { return append(append([]byte{}, raw...), []byte("\n# edited by hand\n")...) }},
	}
	return ps
}

type uaAccepted struct {
	tag, name string
}

func walletUnauthCase(c *Ctx, dir string, bi int, entropy []byte, pw string) {
	defer func() {
		if r := recover(); r != nil {
			c.Emit("wl-keyfile-panic %s | panic", hx(entropy))
			c.Fail("C19 non-authenticated members: case panicked (entropy %x): %v", entropy, r)
		}
	}()
	sub := filepath.Join(dir, fmt.Sprintf("unauth-%d", bi))
	if err := os.MkdirAll(sub, 0o700); err != nil {
		c.Fail("mkdir: %v", err)
		return
	}
	defer os.RemoveAll(sub)
	_, o := kfCreate(c, filepath.Join(sub, "original.json"), entropy, pw)
	if o == nil {
		return
	}
	os.Remove(filepath.Join(sub, "original.json"))
	ref := newKsRef(entropy)
	if ref == nil {
		return
	}
	want0 := ref.index(0).addr
	if o.addr != want0 {
		c.Fail("key file baseAddress %v is not the index-0 address %v of its entropy %x", o.addr, want0, entropy)
	}
	// emit the reference key store line once per accepted decryption: the Lean model recomputes keyStoreFromEntropy
	e0 := ref.index(0)
	emitKs := func(ks *wallet.KeyStore) {
		c.Emit("wl-keystore %s %s %s %s %s %s | ok %s %s %s", hx(entropy), hx([]byte(ref.mnemonic)), hx(ref.seed), fmtQueries(e0.qs), hx(e0.pub), hx(e0.h),
			hx(ks.BaseAddress.Bytes()), hx(ks.Seed), hx([]byte(ks.Mnemonic)))
	}
	// judge a key store that the code handed out for this entropy
	judgeKs := func(what string, ks *wallet.KeyStore) bool {
		ok := true
		if ks == nil {
			c.Fail("C19 non-authenticated members: %s is nil", what)
			return false
		}
		if !bytes.Equal(ks.Entropy, entropy) {
			c.Fail("C19 non-authenticated members: %s holds entropy %x, the file was created from %x (password %q)", what, ks.Entropy, entropy, pw)
			return false
		}
		if !bytes.Equal(ks.Seed, ref.seed) || ks.Mnemonic != ref.mnemonic {
			c.Fail("C19 non-authenticated members: %s: seed / mnemonic are not those of the entropy %x", what, entropy)
			ok = false
		}
		if ks.BaseAddress != want0 {
			c.Fail("C19 non-authenticated members: %s has BaseAddress %v; the index-0 address (m/44'/73404'/0') of its entropy %x is %v — addresses are a function of the entropy, not of what the file says (password %q)",
				what, ks.BaseAddress, entropy, want0, pw)
			ok = false
		}
		if kp0, err := wallet.DeriveWithIndex(0, ks.Seed); err != nil || kp0.Address != want0 {
			c.Fail("C19 non-authenticated members: %s: DeriveWithIndex(0, seed) is not the reference index-0 address %v", what, want0)
			ok = false
		}
		if _, kp0, err := ks.DeriveForIndexPath(0); err != nil || kp0 == nil || kp0.Address != want0 {
			c.Fail("C19 non-authenticated members: %s: KeyStore.DeriveForIndexPath(0) is not the index-0 address %v of the entropy %x", what, want0, entropy)
			ok = false
		}
		return ok
	}

	otherE := make([]byte, []int{16, 20, 24, 28, 32}[c.R.Intn(5)])
	c.R.Read(otherE)
	otherRef := newKsRef(otherE)
	perts := uaPerturbations(c, otherRef.index(0).addr, ref.index(1).addr, ref.index(128).addr)
	var forManager []uaAccepted
	reDecrypted := false
	for _, p := range perts {
		name := p.tag + ".json"
		path := filepath.Join(sub, name)
		d := uaParse(o.raw)
		if d == nil {
			c.Fail("key file is not the expected JSON document: %s", o.raw)
			return
		}
		d.top["Path"] = uaStr(path) // the file says where it is (as KeyFile.Write records it), unless the perturbation says otherwise
		if p.edit != nil {
			p.edit(d)
		}
		out := d.serial()
		if p.text != nil {
			out = p.text(out)
		}
		if err := os.WriteFile(path, out, 0o700); err != nil {
			c.Fail("write: %v", err)
			return
		}
		what := fmt.Sprintf("key file with %s", p.tag)
		kf, err := wallet.ReadKeyFile(path)
		if err != nil {
			c.Hit("unauth:" + p.tag + ":read-refused")
			os.Remove(path) // a Manager would skip it anyway
			continue
		}
		// what was read: the authenticated fields are the ones written
		if !bytes.Equal(kf.Crypto.CipherData, o.ct) || !bytes.Equal(kf.Crypto.AesNonce, o.nonce) || !bytes.Equal(kf.Crypto.Argon2Params.Salt, o.salt) {
			c.Fail("C19 non-authenticated members: ReadKeyFile of the %s reads other cipherData / nonce / salt than the file holds", what)
			continue
		}
		full := (p.class == "address" && (bi == 0 || c.R.Intn(3) == 0)) || c.R.Intn(5) == 0
		if !full && c.R.Intn(3) != 0 {
			c.Hit("unauth:" + p.tag + ":read-ok")
			os.Remove(path)
			continue
		}
		dk, otok := o.oracle(pw)
		ks, kind := kfTryDecrypt(kf, pw)
		obs := "err " + kind
		if kind == "ok" {
			obs = "ok " + hx(ks.Entropy)
		}
		c.Emit("wl-decrypt %s %s %s %s %s %s | %s", hx(kf.Crypto.CipherData), hx(kf.Crypto.AesNonce), hx(kf.Crypto.Argon2Params.Salt), hx([]byte(pw)), hx(dk), otok, obs)
		c.Hit("unauth:" + p.tag + ":decrypt-" + kind)
		// the whole Decrypt for the model: the key file AS READ (with the address it records), the password and the oracle
		// values of the chain open -> mnemonic -> seed -> index 0 (the reference opens the file to the entropy)
		chain := fmt.Sprintf("%s %s %s %s %s %s %s none - 0 - -", hx(kf.BaseAddress.Bytes()), hx(kf.Crypto.CipherData), hx(kf.Crypto.AesNonce), hx(kf.Crypto.Argon2Params.Salt), hx([]byte(pw)), hx(dk), otok)
		if otok == "some:"+hx(entropy) {
			chain = fmt.Sprintf("%s %s %s %s %s %s %s %s %s %s %s %s", hx(kf.BaseAddress.Bytes()), hx(kf.Crypto.CipherData), hx(kf.Crypto.AesNonce), hx(kf.Crypto.Argon2Params.Salt), hx([]byte(pw)), hx(dk), otok,
				hx([]byte(ref.mnemonic)), hx(ref.seed), fmtQueries(e0.qs), hx(e0.pub), hx(e0.h))
		}
		if kind != "ok" {
			c.Emit("wl-decrypt-ks %s | err %s", chain, kind)
			os.Remove(path)
			continue
		}
		c.Emit("wl-decrypt-ks %s | ok %s %s %s %s", chain, hx(ks.Entropy), hx(ks.BaseAddress.Bytes()), hx(ks.Seed), hx([]byte(ks.Mnemonic)))
		good := judgeKs(fmt.Sprintf("the key store that ReadKeyFile + Decrypt(its password) return for a %s (the file says baseAddress %v)", what, kf.BaseAddress), ks)
		if good {
			// the object behaves like any key store of the entropy
			ksRunSequence(c, "the key store returned by KeyFile.Decrypt for a "+what, entropy, ks, ksI(0, 128, 1, 129, 0))
		}
		if !full {
			os.Remove(path)
			continue
		}
		forManager = append(forManager, uaAccepted{p.tag, name})
		// change of password / export: the key file made from this key store
		newPw := "new " + pw
		var kf2 *wallet.KeyFile
		if pnc := safely(func() { kf2, err = ks.Encrypt(newPw) }); pnc != "" || err != nil || kf2 == nil {
			c.Fail("C19 non-authenticated members: Encrypt of the key store decrypted from a %s failed: %v %s", what, err, pnc)
			continue
		}
		kf2.Path = filepath.Join(sub, p.tag+".re-encrypted")
		if err := kf2.Write(); err != nil {
			c.Fail("KeyFile.Write failed: %v", err)
			continue
		}
		c.Hit("unauth-re-encrypt")
		raw2, _ := os.ReadFile(kf2.Path)
		var j2 kfJSON
		json.Unmarshal(raw2, &j2)
		back, err := wallet.ReadKeyFile(kf2.Path)
		if err != nil {
			c.Fail("C19 non-authenticated members: the key file re-encrypted from a %s cannot be read back: %v", what, err)
		} else {
			c.Emit("wl-decrypt-rewrite %s | baseAddress=%s", chain, hx(back.BaseAddress.Bytes()))
			if back.BaseAddress != want0 || j2.BaseAddress != want0.String() {
				c.Fail("C19 non-authenticated members: decrypt the %s (baseAddress member %v) with its password %q, Encrypt the key store with a new password, Write: the NEW key file records baseAddress %s; the index-0 address of the entropy %x inside it is %v",
					what, kf.BaseAddress, pw, j2.BaseAddress, entropy, want0)
			}
			if !reDecrypted || c.R.Intn(6) == 0 {
				reDecrypted = true
				ct, nonce, salt := []byte(back.Crypto.CipherData), []byte(back.Crypto.AesNonce), []byte(back.Crypto.Argon2Params.Salt)
				dk2 := refKdf(newPw, salt)
				otok2 := "none"
				if pt, okk := refOpen(dk2, nonce, ct); okk {
					otok2 = "some:" + hx(pt)
				}
				ks3, kind3 := kfTryDecrypt(back, newPw)
				obs3 := "err " + kind3
				if kind3 == "ok" {
					obs3 = "ok " + hx(ks3.Entropy)
				}
				c.Emit("wl-decrypt %s %s %s %s %s %s | %s", hx(ct), hx(nonce), hx(salt), hx([]byte(newPw)), hx(dk2), otok2, obs3)
				if kind3 != "ok" {
					c.Fail("C19 non-authenticated members: the key file re-encrypted from a %s does not decrypt with its new password: %s", what, obs3)
				} else {
					emitKs(ks3)
					judgeKs(fmt.Sprintf("the key store decrypted from the key file that was re-encrypted from a %s", what), ks3)
				}
				c.Hit("unauth-re-encrypt-decrypt")
			}
		}
		os.Remove(kf2.Path)
	}
	// a Manager started on the directory (as the node does it): the accepted files unlock to the entropy and ITS address
	if len(forManager) == 0 {
		return
	}
	m := wallet.New(&wallet.Config{WalletDir: sub})
	if err := m.Start(); err != nil {
		c.Fail("Manager.Start: %v", err)
		return
	}
	defer safely(func() { m.Stop() })
	for _, a := range forManager {
		if _, err := m.GetKeyFile(a.name); err != nil {
			c.Hit("unauth-manager:" + a.tag + ":not-listed")
			continue
		}
		var uerr error
		if pnc := safely(func() { uerr = m.Unlock(a.name, pw) }); pnc != "" || uerr != nil {
			c.Hit("unauth-manager:" + a.tag + ":unlock-refused")
			continue
		}
		mks, gerr := m.GetKeyStore(a.name)
		if gerr != nil || mks == nil {
			c.Fail("C19 non-authenticated members: Manager.GetKeyStore after a successful Unlock of a key file with %s: %v", a.tag, gerr)
			continue
		}
		c.Hit("unauth-manager:" + a.tag + ":unlocked")
		emitKs(mks)
		if judgeKs(fmt.Sprintf("the key store that a Manager started on the directory unlocks (Unlock + GetKeyStore) for a key file with %s", a.tag), mks) {
			// the object the Manager keeps and hands out to every caller: the producer key is derived from it by a configured index
			hi := uint32(128 * (1 + c.R.Intn(1<<20)))
			ops := append(ksI(hi, 384, 0, uint32(128+c.R.Intn(128)), uint32(c.R.Intn(128))), ksOp{kind: 'F', idx: uint32(c.R.Intn(128))})
			ksRunSequence(c, "the key store unlocked by wallet.Manager for a key file with "+a.tag, entropy, mks, ops)
			if mks2, _ := m.GetKeyStore(a.name); mks2 != nil {
				ksRunSequence(c, "the key store handed out again by wallet.Manager for a key file with "+a.tag, entropy, mks2, ksRandomOps(c))
			}
		}
	}
}

func walletUnauthFields(c *Ctx, dir string) {
	n := 1 + c.N/600
	if v, ok := c.Args["unauthfiles"]; ok {
		fmt.Sscan(v, &n)
	}
	sizes := []int{16, 20, 24, 28, 32}
	off := c.R.Intn(len(sizes))
	for i := 0; i < n; i++ {
		e := make([]byte, sizes[(i+off)%len(sizes)])
		c.R.Read(e)
		pw := passwords[c.R.Intn(len(passwords))]
		if i%2 == 1 {
			pw = pwOwnRandom(c)
		}
		walletUnauthCase(c, dir, i, e, pw)
	}
}
