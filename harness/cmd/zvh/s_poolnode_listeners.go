package main

import (
	"fmt"
	"strings"

	"github.com/zenon-network/go-zenon/chain"
	"github.com/zenon-network/go-zenon/chain/nom"
	"github.com/zenon-network/go-zenon/common/db"
	"github.com/zenon-network/go-zenon/common/types"
	"github.com/zenon-network/go-zenon/consensus"
	"github.com/zenon-network/go-zenon/zenon"
)

// ---------------------------------------------------------------------------------------------------
// pool-node, listener traffic (C06 / C14): the account pool, the consensus points and the election manager learn about
// a reorganisation only as listeners of the chain's momentum event manager. The modules of a node register and unregister
// there while the node runs (consensus.Start/Stop, the subscription server, the event printer), and Stop() of a module
// that was never started - or is stopped twice - unregisters a listener that is not in the table: a no-op.
//
// Every node of the stream carries a set of probe listeners of the harness (the readers are probes as well). Between the
// operations of a history probes are registered and unregistered in every order: a new one, one that had been
// unregistered before, the first / a middle / the last registered one, one that was NEVER registered, one that was
// unregistered already (twice), nil, and through the modules of the node: consensus.NewConsensus(..).Stop() without
// Start(), zenon.NewEventPrinter(..).Stop() without Start(), Start();Stop();Stop().
//
// Monitor (model-free): what the node did between two checks is read from its LEDGER (the chain by height before and
// after: the momentums that are no longer there were deleted top-down, the new ones inserted bottom-up); every probe that
// is registered was told exactly these events, once each, in this order, the probes in registration order inside one
// event; a probe that is not registered was told nothing. The existing monitors of the stream (pool = ledger frontier
// extended by the uncommitted chain, no patch of a block that is not on it) state that the POOL was told.
// ---------------------------------------------------------------------------------------------------

type pnProbe struct {
	name string
	l    *pnListeners
	// how it left the table (for the failure line)
	state string // "registered" / "unregistered by op #k" / "never registered"
}

type pnEvent struct {
	who *pnProbe
	del bool
	id  types.HashHeight
}

func (e pnEvent) String() string {
	k := "insert"
	if e.del {
		k = "delete"
	}
	return fmt.Sprintf("%s(%s)", k, pnId(e.id))
}

func (p *pnProbe) InsertMomentum(dm *nom.DetailedMomentum) {
	if p == nil || p.l == nil || dm == nil || dm.Momentum == nil {
		return
	}
	p.l.events = append(p.l.events, pnEvent{who: p, id: dm.Momentum.Identifier()})
}
func (p *pnProbe) DeleteMomentum(dm *nom.DetailedMomentum) {
	if p == nil || p.l == nil || dm == nil || dm.Momentum == nil {
		return
	}
	p.l.events = append(p.l.events, pnEvent{who: p, del: true, id: dm.Momentum.Identifier()})
}

// pnListeners is the harness's view of the listener table of one node: its own listeners in registration order.
type pnListeners struct {
	c      *Ctx
	ch     chain.Chain
	events []pnEvent    // what the probes were told since the last verification, in call order
	reg    []*pnProbe   // probes that are registered, in registration order
	fixed  int          // the first `fixed` entries of reg at creation time are readers: never unregistered
	idle   []*pnProbe   // probes that were registered and then unregistered
	ops    []string     // every register / unregister operation on this node so far
	path   []types.Hash // the node's chain by height as read from its ledger at the last verification
	serial int
	off    bool
}

func newPnListeners(c *Ctx, ch chain.Chain) *pnListeners {
	return &pnListeners{c: c, ch: ch, off: c.Args["listeners"] == "off"}
}

func (l *pnListeners) newProbe(name string) *pnProbe {
	l.serial++
	return &pnProbe{name: fmt.Sprintf("%s%d", name, l.serial), l: l, state: "never registered"}
}

// readerProbe makes the probe of a reader and notes it as registered (the caller registers the reader itself).
func (l *pnListeners) readerProbe(name string) *pnProbe {
	p := &pnProbe{name: name, l: l, state: "registered"}
	l.reg = append(l.reg, p)
	return p
}

func (l *pnListeners) readPath() []types.Hash {
	st := l.ch.GetFrontierMomentumStore()
	H := st.Identifier().Height
	out := make([]types.Hash, 0, H)
	for h := uint64(1); h <= H; h++ {
		m, err := st.GetMomentumByHeight(h)
		if err != nil || m == nil {
			panic(fmt.Sprintf("no momentum at height %d below the frontier %d: %v", h, H, err))
		}
		out = append(out, m.Hash)
	}
	return out
}

func (l *pnListeners) opsText() string {
	if len(l.ops) == 0 {
		return "none"
	}
	ops := l.ops
	pre := ""
	if len(ops) > 24 {
		pre = fmt.Sprintf("(%d earlier) ", len(ops)-24)
		ops = ops[len(ops)-24:]
	}
	return pre + strings.Join(ops, "; ")
}

// verify compares what the probes were told since the last call with what the node did according to its ledger.
func (l *pnListeners) verify(node, what string, fail func(format string, a ...interface{})) bool {
	if l == nil || l.off {
		return true
	}
	ok := true
	if p := safely(func() {
		if l.path == nil {
			l.path = l.readPath()
			l.events = nil
			return
		}
		// the chain now, compared top-down with the chain before
		st := l.ch.GetFrontierMomentumStore()
		H := int(st.Identifier().Height)
		var inserted []types.HashHeight
		h := H
		for ; h >= 1; h-- {
			m, err := st.GetMomentumByHeight(uint64(h))
			if err != nil || m == nil {
				panic(fmt.Sprintf("no momentum at height %d below the frontier %d: %v", h, H, err))
			}
			if h <= len(l.path) && l.path[h-1] == m.Hash {
				break
			}
			inserted = append([]types.HashHeight{{Hash: m.Hash, Height: uint64(h)}}, inserted...)
		}
		var did []pnEvent
		for k := len(l.path); k > h; k-- {
			did = append(did, pnEvent{del: true, id: types.HashHeight{Hash: l.path[k-1], Height: uint64(k)}})
		}
		for _, id := range inserted {
			did = append(did, pnEvent{id: id})
		}
		before := fmt.Sprintf("%d", len(l.path))
		// the new path
		l.path = append(l.path[:h:h], func() []types.Hash {
			var out []types.Hash
			for _, id := range inserted {
				out = append(out, id.Hash)
			}
			return out
		}()...)
		events := l.events
		l.events = nil
		show := func(es []pnEvent) string {
			var s []string
			for i, e := range es {
				if i == 12 {
					s = append(s, fmt.Sprintf("... %d more", len(es)-i))
					break
				}
				s = append(s, e.String())
			}
			if len(s) == 0 {
				return "nothing"
			}
			return strings.Join(s, " ")
		}
		registered := map[*pnProbe]int{}
		for i, p := range l.reg {
			registered[p] = i
		}
		told := map[*pnProbe][]pnEvent{}
		for _, e := range events {
			told[e.who] = append(told[e.who], e)
		}
		// a listener that is not registered is told nothing
		for _, e := range events {
			if _, isReg := registered[e.who]; !isReg {
				fail("%s after %s: the listener %s (%s) is not registered with the chain's momentum event manager but was told %s; listener operations on this node so far: %s",
					node, what, e.who.name, e.who.state, show(told[e.who]), l.opsText())
				ok = false
				return
			}
		}
		// every registered listener is told every event once, in order
		for i, p := range l.reg {
			got := told[p]
			same := len(got) == len(did)
			for k := 0; same && k < len(got); k++ {
				same = got[k].del == did[k].del && got[k].id == did[k].id
			}
			if !same {
				fail("%s after %s: the node's chain went from height %s to %d: by its ledger it performed [%s]; the listener %s (registered with the chain's momentum event manager as number %d of the harness's %d listeners, never unregistered since) was told [%s] - every registered listener must be told every inserted / deleted momentum exactly once and in order; listener operations on this node so far: %s",
					node, what, before, H, show(did), p.name, i+1, len(l.reg), show(got), l.opsText())
				ok = false
				return
			}
		}
		// inside one event the listeners are told in registration order
		if len(l.reg) > 0 && len(events) == len(did)*len(l.reg) {
			for k, e := range events {
				if want := l.reg[k%len(l.reg)]; e.who != want {
					fail("%s after %s: during %s the listener %s was told at position %d, registration order puts %s there; listener operations on this node so far: %s",
						node, what, e.String(), e.who.name, k%len(l.reg)+1, want.name, l.opsText())
					ok = false
					return
				}
			}
		}
		l.c.HitN("pn-listener-events-compared", len(events))
		if len(did) > 0 && len(l.reg) > l.fixed {
			l.c.Hit("pn-listener-churned-probe-told")
		}
	}); p != "" {
		fail("%s after %s: comparing the listeners' events with the ledger panics: %s", node, what, firstLine(p))
		ok = false
	}
	return ok
}

// churn performs 0..3 register / unregister operations. It must be called between operations (never inside a
// notification: the event manager holds its lock while it broadcasts).
func (l *pnListeners) churn(node string, fail func(format string, a ...interface{})) {
	if l == nil || l.off {
		return
	}
	c := l.c
	if c.R.Intn(2) == 0 {
		return
	}
	// the events so far belong to the table as it is
	if !l.verify(node, "the operations before a change of the listener table", fail) {
		return
	}
	note := func(format string, a ...interface{}) {
		l.ops = append(l.ops, fmt.Sprintf("#%d ", len(l.ops)+1)+fmt.Sprintf(format, a...))
	}
	removeReg := func(i int) *pnProbe {
		p := l.reg[i]
		l.reg = append(l.reg[:i:i], l.reg[i+1:]...)
		return p
	}
	for k := 1 + c.R.Intn(3); k > 0; k-- {
		var p string
		switch x := c.R.Intn(16); {
		case x < 3: // a new listener
			pr := l.newProbe("probe")
			p = safely(func() { l.ch.Register(pr) })
			pr.state = "registered"
			l.reg = append(l.reg, pr)
			note("Register(%s)", pr.name)
			c.Hit("pn-listener-register")
		case x < 5: // one that was unregistered before comes back
			if len(l.idle) == 0 {
				continue
			}
			i := c.R.Intn(len(l.idle))
			pr := l.idle[i]
			l.idle = append(l.idle[:i:i], l.idle[i+1:]...)
			p = safely(func() { l.ch.Register(pr) })
			pr.state = "registered"
			l.reg = append(l.reg, pr)
			note("Register(%s) again", pr.name)
			c.Hit("pn-listener-register-again")
		case x < 8: // unregister a registered one: the first / the last / a random one of those that may go, others remain
			n := len(l.reg) - l.fixed
			if n <= 0 {
				continue
			}
			i := l.fixed + c.R.Intn(n)
			switch c.R.Intn(3) {
			case 0:
				i = l.fixed
			case 1:
				i = len(l.reg) - 1
			}
			pr := removeReg(i)
			p = safely(func() { l.ch.UnRegister(pr) })
			note("UnRegister(%s) [registered, number %d of %d]", pr.name, i+1, len(l.reg)+1)
			pr.state = fmt.Sprintf("unregistered by op #%d", len(l.ops))
			l.idle = append(l.idle, pr)
			c.Hit("pn-listener-unregister")
		case x < 10: // a listener that was never registered
			pr := l.newProbe("stranger")
			p = safely(func() { l.ch.UnRegister(pr) })
			note("UnRegister(%s) [never registered]", pr.name)
			c.Hit("pn-listener-unregister-never-registered")
		case x < 12: // unregistered already: a second time
			if len(l.idle) == 0 {
				continue
			}
			pr := l.idle[c.R.Intn(len(l.idle))]
			p = safely(func() { l.ch.UnRegister(pr) })
			note("UnRegister(%s) [a second time: %s]", pr.name, pr.state)
			c.Hit("pn-listener-unregister-twice")
		case x < 13: // nil
			p = safely(func() { l.ch.UnRegister(nil) })
			note("UnRegister(nil)")
			c.Hit("pn-listener-unregister-nil")
		case x < 15: // a consensus module on this chain that is stopped without having been started
			p = safely(func() {
				cs := consensus.NewConsensus(db.NewMemDB(), l.ch, true)
				_ = cs.Init()
				_ = cs.Stop()
			})
			silence()
			note("consensus.NewConsensus(memdb, chain, true).Stop() without Start()")
			c.Hit("pn-listener-module-stop-without-start")
		default: // the node's event printer: stopped without start / stopped twice
			twice := c.R.Intn(2) == 0
			p = safely(func() {
				ep := zenon.NewEventPrinter(l.ch, nil)
				_ = ep.Init()
				if twice {
					_ = ep.Start()
					_ = ep.Stop()
				}
				_ = ep.Stop()
			})
			if twice {
				note("zenon.NewEventPrinter(chain).Start(); Stop(); Stop()")
				c.Hit("pn-listener-module-stop-twice")
			} else {
				note("zenon.NewEventPrinter(chain).Stop() without Start()")
				c.Hit("pn-listener-module-stop-without-start")
			}
		}
		if p != "" {
			fail("%s: listener operation %s panics: %s", node, l.ops[len(l.ops)-1], firstLine(p))
			return
		}
	}
}
