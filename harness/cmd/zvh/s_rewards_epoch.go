package main

import (
	"fmt"
	"math/big"
	"sort"
	"strings"

	"github.com/zenon-network/go-zenon/chain/nom"
	"github.com/zenon-network/go-zenon/common/types"
	"github.com/zenon-network/go-zenon/vm/constants"
	"github.com/zenon-network/go-zenon/vm/embedded/definition"
)

// ---------------------------------------------------------------------------------------------------
// C11, RE-* lines of the `rewards-node` stream: for EVERY successful Update that moved the epoch cursor, the COMPLETE
// input of the reward computations (the contract's entries as of the storage before the block, read through the real
// definition.* getters; for pillars the epoch statistics and delegation records of the node's consensus as of the
// acknowledged momentum) and, per rewarded epoch, the credits observed (RewardDepositHistory entries) plus the number
// of entries left in storage afterwards. The Lean driver (Driver/RewardsEpoch.lean) recomputes ALL epochs of the call
// with RewardEpoch.rewardAll — each epoch on the entries the previous one left — and compares.
//
//   RE-stake <genesis> <epochSec> <first> <k> <n> {addr start revoke weighted}*n                    | <result>
//   RE-stake-w <StakeTimeUnitSec> <amount> <stakingTime>   | <stored WeightedAmount>   (one per entry of an RE-stake line)
//   RE-sentinel <genesis> <epochSec> <first> <k> <n> {owner reg revoke}*n                           | <result>
//   RE-pillar <genesis> <epochSec> <mpe> <first> <k> <nInfos> {name withdraw giveBlock giveDelegate}*
//             k times: <totalWeight> <nStats> {name produced expected weight}* <nDelegs> {name nBackers {addr amount}*}*   | <result>
//   RE-liq <genesis> <epochSec> <epoch> <halted> <addZnn> <addQsr> <balZnn> <balQsr> <nTuples> {zts znn% qsr%}*
//             <nEntries> {addr zts start revoke weighted}*                                           | <result> (with mint= burn=)
//   <result> = per epoch `e<epoch>` then `addr:znn:qsr` (non-zero, sorted by address string) …, [mint=z:q burn=z:q] left=<entries>
// ---------------------------------------------------------------------------------------------------

type rnLiqPre struct {
	info           *definition.LiquidityInfo
	entries        []*definition.LiquidityStakeEntry
	balZnn, balQsr *big.Int
}

func reTok(s string) string {
	if s == "" {
		return "-"
	}
	return strings.ReplaceAll(s, " ", "_")
}

func (r *rnRun) liqSnapshot() *rnLiqPre {
	as := r.n.Chain().GetFrontierAccountStore(types.LiquidityContract)
	storage := as.Storage()
	info, err := definition.GetLiquidityInfo(storage)
	if err != nil || info == nil {
		return nil
	}
	cp := *info
	cp.ZnnReward = new(big.Int).Set(info.ZnnReward)
	cp.QsrReward = new(big.Int).Set(info.QsrReward)
	cp.TokenTuples = append([]definition.TokenTuple(nil), info.TokenTuples...)
	out := &rnLiqPre{info: &cp}
	for _, e := range definition.GetAllLiquidityStakeEntries(storage) {
		c := *e
		c.WeightedAmount = new(big.Int).Set(e.WeightedAmount)
		out.entries = append(out.entries, &c)
	}
	out.balZnn, _ = as.GetBalance(types.ZnnTokenStandard)
	out.balQsr, _ = as.GetBalance(types.QsrTokenStandard)
	if out.balZnn == nil || out.balQsr == nil {
		return nil
	}
	return out
}

// observed credits of the epochs first..last, in the result format
func (r *rnRun) reResult(N *rnState, first, last int64, n int) (string, bool) {
	var sb strings.Builder
	zeroEpoch := false
	for e := first; e <= last; e++ {
		fmt.Fprintf(&sb, "e%d", e)
		var toks []string
		for hk, v := range N.hist {
			if int64(hk.epoch) == e && !v.isZero() {
				toks = append(toks, fmt.Sprintf("%s:%s:%s", addrName(hk.addr), v.znn, v.qsr))
			}
		}
		sort.Strings(toks)
		for _, t := range toks {
			sb.WriteString(" " + t)
		}
		if len(toks) == 0 && n > 0 {
			zeroEpoch = true
		}
		sb.WriteString(" ")
	}
	return sb.String(), zeroEpoch
}

func (r *rnRun) epochLines(C types.Address, pre *rnPre, P, N *rnState, ack *nom.Momentum, blk *nom.AccountBlock, variant string) {
	c := r.c
	first, last := P.cursor+1, N.cursor
	k := last - first + 1
	if first < 0 || k <= 0 {
		return
	}
	post := r.n.Chain().GetFrontierAccountStore(C).Storage()
	ticker := r.n.Z.Consensus().FrontierPillarReader().EpochTicker()
	inside := func(t int64) bool { // strictly inside one of the rewarded epochs
		for e := first; e <= last; e++ {
			st, en := ticker.ToTime(uint64(e))
			if t > st.Unix() && t < en.Unix() {
				return true
			}
		}
		return false
	}
	if p := safely(func() {
		var sb strings.Builder
		switch C {
		case types.StakeContract:
			for _, si := range pre.stakes {
				fmt.Fprintf(&sb, " %s %d %d %s", addrName(si.StakeAddress), si.StartTime, si.RevokeTime, si.WeightedAmount)
				if inside(si.StartTime) {
					c.Hit("re-stake-entry-starts-inside-epoch")
				}
				// the stored weighted amount is what getWeightedStakeAmount gave when the stake was received
				// (a cancelled entry keeps the weighted amount but its Amount is zeroed)
				if si.RevokeTime == 0 && si.Amount.Sign() > 0 {
					c.Emit("RE-stake-w %d %s %d | %s", constants.StakeTimeUnitSec, si.Amount, si.ExpirationTime-si.StartTime, si.WeightedAmount)
					c.Hit("re-stake-weighted-amount")
				}
				if si.RevokeTime != 0 && inside(si.RevokeTime) {
					c.Hit("re-stake-entry-revoked-inside-epoch")
				}
			}
			left := 0
			definition.IterateStakeEntries(post, func(*definition.StakeInfo) error { left++; return nil })
			if left < len(pre.stakes) {
				c.Hit("re-stake-entry-deleted")
			}
			res, zero := r.reResult(N, first, last, len(pre.stakes))
			if zero {
				c.Hit("re-zero-weight-epoch")
			}
			c.Emit("RE-stake %d %d %d %d %d%s | %sleft=%d", r.genesis, r.cfg.epochSec, first, k, len(pre.stakes), sb.String(), res, left)
			c.Hit("re-stake-line")
		case types.SentinelContract:
			for _, si := range pre.sentinels {
				fmt.Fprintf(&sb, " %s %d %d", addrName(si.Owner), si.RegistrationTimestamp, si.RevokeTimestamp)
				if inside(si.RegistrationTimestamp) || (si.RevokeTimestamp != 0 && inside(si.RevokeTimestamp)) {
					c.Hit("re-sentinel-partial-epoch")
				}
			}
			left := 0
			definition.IterateSentinelEntries(post, func(*definition.SentinelInfo) error { left++; return nil })
			res, zero := r.reResult(N, first, last, len(pre.sentinels))
			if zero {
				c.Hit("re-zero-weight-epoch")
			}
			c.Emit("RE-sentinel %d %d %d %d %d%s | %sleft=%d", r.genesis, r.cfg.epochSec, first, k, len(pre.sentinels), sb.String(), res, left)
			c.Hit("re-sentinel-line")
		case types.PillarContract:
			for _, pi := range pre.pillars {
				fmt.Fprintf(&sb, " %s %s %d %d", reTok(pi.Name), addrName(pi.RewardWithdrawAddress), pi.GiveBlockRewardPercentage, pi.GiveDelegateRewardPercentage)
				if pi.GiveBlockRewardPercentage == 0 || pi.GiveDelegateRewardPercentage == 0 {
					c.Hit("re-pillar-give-0")
				}
				if pi.GiveBlockRewardPercentage == 100 || pi.GiveDelegateRewardPercentage == 100 {
					c.Hit("re-pillar-give-100")
				}
			}
			reader := r.n.Z.Consensus().FixedPillarReader(ack.Identifier())
			for e := first; e <= last; e++ {
				stats, err := reader.EpochStats(uint64(e))
				if err != nil || stats == nil {
					r.fail("RE: cannot read the statistics of epoch %d the pillar contract rewarded: %v", e, err)
					return
				}
				details, err := reader.GetPillarDelegationsByEpoch(uint64(e))
				if err != nil {
					r.fail("RE: cannot read the delegations of epoch %d the pillar contract rewarded: %v", e, err)
					return
				}
				names := make([]string, 0, len(stats.Pillars))
				for nm := range stats.Pillars {
					names = append(names, nm)
				}
				sort.Strings(names)
				fmt.Fprintf(&sb, " %s %d", stats.TotalWeight, len(names))
				for _, nm := range names {
					ps := stats.Pillars[nm]
					fmt.Fprintf(&sb, " %s %d %d %s", reTok(nm), ps.BlockNum, ps.ExceptedBlockNum, ps.Weight)
					if ps.BlockNum < ps.ExceptedBlockNum {
						c.Hit("re-pillar-produced-lt-expected")
					}
					if ps.BlockNum == 0 && ps.ExceptedBlockNum > 0 {
						c.Hit("re-pillar-produced-zero")
					}
				}
				dn := make([]string, 0, len(details))
				for nm := range details {
					dn = append(dn, nm)
				}
				sort.Strings(dn)
				fmt.Fprintf(&sb, " %d", len(dn))
				for _, nm := range dn {
					d := details[nm]
					bs := map[types.Address]bool{}
					for a := range d.Backers {
						bs[a] = true
					}
					bl := rnSortedAddrs(bs)
					fmt.Fprintf(&sb, " %s %d", reTok(nm), len(bl))
					for _, a := range bl {
						fmt.Fprintf(&sb, " %s %s", addrName(a), d.Backers[a])
					}
					if len(bl) >= 3 {
						c.Hit("re-pillar-backers-remainder")
					}
				}
			}
			pl, _ := definition.GetPillarsList(post, false, definition.AnyPillarType)
			res, _ := r.reResult(N, first, last, 0)
			c.Emit("RE-pillar %d %d %d %d %d %d%s | %sleft=%d", r.genesis, r.cfg.epochSec, constants.MomentumsPerEpoch, first, k, len(pre.pillars), sb.String(), res, len(pl))
			c.Hit("re-pillar-line")
		case types.LiquidityContract:
			if variant != "liqone" || pre.liq == nil || k != 1 {
				return
			}
			lp := pre.liq
			halted := 0
			if lp.info.IsHalted {
				halted = 1
				c.Hit("re-liq-halted")
			}
			if lp.info.ZnnReward.Sign() > 0 || lp.info.QsrReward.Sign() > 0 {
				c.Hit("re-liq-additional-reward")
			}
			fmt.Fprintf(&sb, " %d", len(lp.info.TokenTuples))
			for _, t := range lp.info.TokenTuples {
				fmt.Fprintf(&sb, " %s %d %d", reTok(t.TokenStandard), t.ZnnPercentage, t.QsrPercentage)
			}
			fmt.Fprintf(&sb, " %d", len(lp.entries))
			for _, e := range lp.entries {
				fmt.Fprintf(&sb, " %s %s %d %d %s", addrName(e.StakeAddress), e.TokenStandard.String(), e.StartTime, e.RevokeTime, e.WeightedAmount)
			}
			mz, mq, bz, bq := new(big.Int), new(big.Int), new(big.Int), new(big.Int)
			for _, d := range blk.DescendantBlocks {
				if m := rnDecodeMint(d); m != nil && m.ReceiveAddress == types.LiquidityContract {
					if m.TokenStandard == types.ZnnTokenStandard {
						mz.Add(mz, m.Amount)
					} else if m.TokenStandard == types.QsrTokenStandard {
						mq.Add(mq, m.Amount)
					}
				} else if rnIsBurn(d) {
					if d.TokenStandard == types.ZnnTokenStandard {
						bz.Add(bz, d.Amount)
					} else if d.TokenStandard == types.QsrTokenStandard {
						bq.Add(bq, d.Amount)
					}
				}
			}
			left := len(definition.GetAllLiquidityStakeEntries(post))
			res, _ := r.reResult(N, first, last, 0)
			c.Emit("RE-liq %d %d %d %d %s %s %s %s%s | %smint=%s:%s burn=%s:%s left=%d", r.genesis, r.cfg.epochSec, first, halted,
				lp.info.ZnnReward, lp.info.QsrReward, lp.balZnn, lp.balQsr, sb.String(), res, mz, mq, bz, bq, left)
			c.Hit("re-liq-line")
			if len(lp.entries) > 0 {
				c.Hit("re-liq-line-with-entries")
			}
		}
		if k > 1 && C != types.LiquidityContract {
			c.Hit("re-several-epochs-in-one-update")
		}
	}); p != "" {
		r.fail("RE: cannot print the inputs of the %s reward computation: %s", rnCName(C), p)
	}
}
