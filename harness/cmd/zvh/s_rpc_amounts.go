package main

import (
	"encoding/json"
	"fmt"
	"math/big"

	g "github.com/zenon-network/go-zenon/chain/genesis/mock"
	"github.com/zenon-network/go-zenon/chain/nom"
	"github.com/zenon-network/go-zenon/common"
	"github.com/zenon-network/go-zenon/common/types"
	"github.com/zenon-network/go-zenon/rpc/api"
	"github.com/zenon-network/go-zenon/vm/constants"
	"github.com/zenon-network/go-zenon/vm/embedded/definition"
)

// ---------------------------------------------------------------------------------------------------
// rpc stream, amount family (C18: "a block returned as JSON and fed back parses to the same block with the same hash").
//
// Amounts travel through the JSON form of a block as decimal strings (amount of the block, of its descendant blocks and
// of its paired block; totalSupply / maxSupply of the token). ZNN and QSR stay below 2^62; a user-issued token may have
// a supply of up to 2^255-1. EVERY history of the rpc stream therefore holds two such tokens (one with total = max =
// 2^255-1, one mintable with a total supply and a maximum taken from the same family of boundary values) and
//   - user sends of the whole supply 2^255-1, of 2^63-1, 2^63, 2^63+1, 2^64-1, 2^64, 2^64+1, 10^19, 2^127, 2^128,
//     2^62-1, 2^62, 2^32, and of random values of 63..254 bits (a random value of [2^63, 2^64) among them), some received
//     (receive blocks whose paired block carries the amount), some left unreceived, some left unconfirmed;
//   - mints of such amounts (the token contract's receive block carries a descendant send of the amount) and a burn.
// After the history is built EVERY block every block-returning getter of the LedgerApi returns (account blocks by
// height / by page / by hash, the frontier block, unreceived and unconfirmed blocks, the blocks of the detailed
// momentums) goes through rpcBlockRoundTrip.
// ---------------------------------------------------------------------------------------------------

// pow2: s_codec.go

// rpcAmountFamily: boundary values around the machine-word sizes and random values of 63..254 bits
func rpcAmountFamily(c *Ctx) []*big.Int {
	add := func(x *big.Int, d int64) *big.Int { return new(big.Int).Add(x, big.NewInt(d)) }
	tenTo19, _ := new(big.Int).SetString("10000000000000000000", 10)
	fam := []*big.Int{add(pow2(63), -1), pow2(63), add(pow2(63), 1), add(pow2(64), -1), pow2(64), add(pow2(64), 1), tenTo19,
		pow2(127), pow2(128), add(pow2(62), -1), pow2(62), pow2(32), add(pow2(31), -1), add(pow2(128), -1)}
	// [2^63, 2^64): the values an unsigned machine word holds and a signed one does not
	for k := 0; k < 2; k++ {
		fam = append(fam, new(big.Int).Add(pow2(63), new(big.Int).Rand(c.R, pow2(63))))
	}
	for k := 0; k < 4; k++ {
		bits := uint(63 + c.R.Intn(192)) // 63..254
		fam = append(fam, new(big.Int).Add(pow2(bits), new(big.Int).Rand(c.R, pow2(bits))))
	}
	c.R.Shuffle(len(fam), func(i, j int) { fam[i], fam[j] = fam[j], fam[i] })
	return fam
}

// rpcHugeAmounts puts the amount family into the history of node n. Returns the two token standards.
func rpcHugeAmounts(c *Ctx, n *Node, id int) []types.ZenonTokenStandard {
	setupFail := func(format string, a ...interface{}) {
		c.Fail("rpc run=%d amount family, setup: %s", id, fmt.Sprintf(format, a...))
	}
	u1, u2, u3, u6 := g.User1.Address, g.User2.Address, g.User3.Address, g.User6.Address
	owner := u1
	for _, cand := range []types.Address{u1, g.User4.Address, g.User5.Address} {
		bal, _ := n.Chain().GetFrontierAccountStore(cand).GetBalance(types.ZnnTokenStandard)
		if bal != nil && bal.Cmp(new(big.Int).Mul(constants.TokenIssueAmount, big.NewInt(3))) >= 0 {
			owner = cand
			break
		}
	}
	send := func(tpl *nom.AccountBlock) *nom.AccountBlock {
		tpl.BlockType = nom.BlockTypeUserSend
		b, err := n.Submit(tpl)
		if err != nil {
			c.Hit("huge-send-refused")
			c.Emit("#rpc amount family run=%d: send %s -> %s of %v refused: %v", id, addrName(tpl.Address), addrName(tpl.ToAddress), tpl.Amount, err)
			return nil
		}
		return b
	}
	advance := func(k int) bool {
		for i := 0; i < k; i++ {
			if _, err := n.Momentum(); err != nil {
				setupFail("momentum production failed: %v", err)
				return false
			}
		}
		return true
	}
	fam := rpcAmountFamily(c)
	// ---- the tokens
	total1 := []*big.Int{pow2(63), new(big.Int).Sub(pow2(64), big.NewInt(1)), new(big.Int).Add(pow2(63), new(big.Int).Rand(c.R, pow2(63))), pow2(64), fam[0]}[c.R.Intn(5)]
	max1 := []*big.Int{common.BigP255m1, pow2(128), new(big.Int).Add(pow2(200), new(big.Int).Rand(c.R, pow2(200))), new(big.Int).Sub(pow2(255), big.NewInt(2))}[c.R.Intn(4)]
	if max1.Cmp(total1) < 0 {
		max1 = common.BigP255m1
	}
	if total1.BitLen() <= 64 && c.R.Intn(2) == 0 {
		max1 = new(big.Int).Sub(pow2(64), big.NewInt(1)) // the supplies stay inside [2^63, 2^64) whatever is minted
	}
	type tokSpec struct {
		total, max *big.Int
		mintable   bool
	}
	specs := []tokSpec{{common.BigP255m1, common.BigP255m1, c.R.Intn(2) == 0}, {total1, max1, true}}
	var zts []types.ZenonTokenStandard
	for k, sp := range specs {
		b := send(&nom.AccountBlock{Address: owner, ToAddress: types.TokenContract, TokenStandard: types.ZnnTokenStandard, Amount: constants.TokenIssueAmount,
			Data: definition.ABIToken.PackMethodPanic(definition.IssueMethodName, fmt.Sprintf("huge-%d-%d", id, k), fmt.Sprintf("HG%d", k), "", sp.total, sp.max, uint8(c.R.Intn(19)), sp.mintable, true, false)})
		if b == nil {
			setupFail("the token issue of %s was refused", addrName(owner))
			return nil
		}
		zts = append(zts, types.NewZenonTokenStandard(b.Hash.Bytes()))
	}
	mine := func(t types.ZenonTokenStandard) bool { return t == zts[0] || t == zts[1] }
	// receiveAll: the account receives the confirmed pending sends of the two tokens (every `every`-th one)
	receiveAll := func(a types.Address, every int) int {
		st := n.Chain().GetFrontierMomentumStore()
		pend, _ := st.GetAccountMailbox(a).GetUnreceivedAccountBlockHashes(500)
		acc := n.Chain().GetFrontierAccountStore(a)
		done := 0
		for i, h := range pend {
			sb, _ := st.GetAccountBlockByHash(h)
			if sb == nil || !mine(sb.TokenStandard) || acc.IsReceived(h) || i%every != 0 {
				continue
			}
			if _, err := n.Submit(&nom.AccountBlock{BlockType: nom.BlockTypeUserReceive, Address: a, FromBlockHash: h}); err == nil {
				done++
				c.Hit("huge-receive")
			} else {
				c.Hit("huge-receive-refused")
			}
		}
		return done
	}
	if !advance(3) {
		return nil
	}
	if receiveAll(owner, 1) != 2 {
		setupFail("the owner %s did not get the supplies of the two issued tokens", addrName(owner))
		return nil
	}
	if !advance(1) {
		return nil
	}
	for k, sp := range specs {
		if bal, _ := n.Chain().GetFrontierAccountStore(owner).GetBalance(zts[k]); bal == nil || bal.Cmp(sp.total) != 0 {
			setupFail("the owner's balance of token %d is %v, issued %v", k, bal, sp.total)
			return nil
		}
	}
	// ---- the whole supply 2^255-1 in one block, owner -> U2
	if send(&nom.AccountBlock{Address: owner, ToAddress: u2, TokenStandard: zts[0], Amount: new(big.Int).Set(common.BigP255m1)}) == nil || !advance(1) {
		setupFail("the send of the whole supply was refused")
		return nil
	}
	if receiveAll(u2, 1) != 1 || !advance(1) {
		setupFail("U2 did not receive the whole supply")
		return nil
	}
	// ---- U2 sends the family (token 0), the owner sends what the smaller supply of token 1 allows
	dests := []types.Address{u1, u3, u6, u3, u1}
	sent := 0
	for i, am := range fam {
		bal, _ := n.Chain().GetFrontierAccountStore(u2).GetBalance(zts[0])
		if bal == nil || bal.Sign() == 0 {
			break
		}
		am = new(big.Int).Set(am)
		if am.Cmp(bal) > 0 {
			am.Set(bal)
		}
		if send(&nom.AccountBlock{Address: u2, ToAddress: dests[i%len(dests)], TokenStandard: zts[0], Amount: am}) != nil {
			sent++
			c.Hit("huge-user-send")
		}
		if i%6 == 5 && !advance(1) {
			return nil
		}
	}
	for i := 0; i < 3; i++ {
		bal, _ := n.Chain().GetFrontierAccountStore(owner).GetBalance(zts[1])
		if bal == nil || bal.Sign() == 0 {
			break
		}
		am := new(big.Int).Set(fam[c.R.Intn(len(fam))])
		if am.Cmp(bal) > 0 {
			am.Set(bal)
		}
		if send(&nom.AccountBlock{Address: owner, ToAddress: []types.Address{u2, u3, u6}[i], TokenStandard: zts[1], Amount: am}) != nil {
			sent++
			c.Hit("huge-user-send")
		}
	}
	// ---- mints of token 1 (descendant blocks of the token contract carry the amounts), a burn of token 0
	room := new(big.Int).Sub(specs[1].max, specs[1].total)
	for i := 0; i < 5; i++ {
		am := new(big.Int).Set(fam[(i*3+1)%len(fam)])
		if am.Cmp(room) > 0 {
			am.Set(room)
		}
		if am.Sign() == 0 {
			break
		}
		if send(&nom.AccountBlock{Address: owner, ToAddress: types.TokenContract, TokenStandard: types.ZnnTokenStandard, Amount: big.NewInt(0),
			Data: definition.ABIToken.PackMethodPanic(definition.MintMethodName, zts[1], am, []types.Address{u2, u3, u6, u1}[i%4])}) != nil {
			room.Sub(room, am)
			c.Hit("huge-mint")
		}
	}
	if bal, _ := n.Chain().GetFrontierAccountStore(u2).GetBalance(zts[0]); bal != nil && bal.Sign() > 0 {
		am := new(big.Int).Set(fam[c.R.Intn(len(fam))])
		if am.Cmp(bal) > 0 {
			am.Set(bal)
		}
		if send(&nom.AccountBlock{Address: u2, ToAddress: types.TokenContract, TokenStandard: zts[0], Amount: am, Data: definition.ABIToken.PackMethodPanic(definition.BurnMethodName)}) != nil {
			c.Hit("huge-burn")
		}
	}
	if !advance(3) {
		return nil
	}
	// ---- every second pending send is received (the receive block's paired block carries the amount), the rest stays unreceived
	for _, a := range []types.Address{u1, u3, u2} {
		receiveAll(a, 2)
	}
	if !advance(1) {
		return nil
	}
	// ---- unconfirmed at the time of the queries: two more sends and one receive
	for i := 0; i < 2; i++ {
		bal, _ := n.Chain().GetFrontierAccountStore(u3).GetBalance(zts[0])
		if bal == nil || bal.Sign() == 0 {
			break
		}
		am := new(big.Int).Set(fam[c.R.Intn(len(fam))])
		if am.Cmp(bal) > 0 {
			am.Set(bal)
		}
		if send(&nom.AccountBlock{Address: u3, ToAddress: u1, TokenStandard: zts[0], Amount: am}) != nil {
			sent++
			c.Hit("huge-user-send-unconfirmed")
		}
	}
	receiveAll(u1, 3)
	if sent < 8 {
		setupFail("only %d sends of the amount family were accepted", sent)
	}
	c.Hit("huge-amount-history")
	return zts
}

// amountClass: coverage counters by magnitude
func amountClass(a *big.Int) string {
	switch {
	case a == nil:
		return "nil"
	case a.Sign() < 0:
		return "negative"
	case a.BitLen() <= 63:
		return "below-2^63"
	case a.BitLen() == 64:
		return "in-2^63..2^64"
	case a.BitLen() <= 128:
		return "in-2^64..2^128"
	default:
		return "above-2^128"
	}
}

func bigEq(a, b *big.Int) bool {
	if a == nil || b == nil {
		return a == nil && b == nil
	}
	return a.Cmp(b) == 0
}

// rpcBlockRoundTrip: the statement for one block b returned by the getter `via`. ref = the block of the chain with b's hash
// (nil: not looked up). The block is encoded as the server encodes it, parsed back with the parameter type of
// ledger.publishRawTransaction (api.AccountBlock) and with the ledger's own type (nom.AccountBlock, which is also what the
// descendant blocks are parsed with); the parsed block must be the block: amount (sign included), hash field, recomputed
// hash, descendant blocks, paired block, token supplies; and encoding it again gives the same JSON.
func rpcBlockRoundTrip(c *Ctx, fail func(string, ...interface{}), via string, b *api.AccountBlock, ref *nom.AccountBlock) bool {
	name := fmt.Sprintf("%s/%d (hash %s, type %d, token %s, amount %v) returned by %s", addrName(b.Address), b.Height, h8(b.Hash), b.BlockType, tokName(b.TokenStandard), b.Amount, via)
	if ref != nil && (ref.Hash != b.Hash || !bigEq(ref.Amount, b.Amount)) {
		fail("C18: block %s: the chain's block at that place has hash %s and amount %v", name, h8(ref.Hash), ref.Amount)
		return false
	}
	chainAmount, chainHash := b.Amount, b.Hash
	if ref != nil {
		chainAmount, chainHash = ref.Amount, ref.Hash
	}
	js, err := json.Marshal(b)
	if err != nil {
		fail("C18: block %s does not marshal: %v", name, err)
		return false
	}
	back := new(api.AccountBlock)
	if err := json.Unmarshal(js, back); err != nil {
		fail("C18: JSON of block %s does not parse back: %v", name, err)
		return false
	}
	ok := true
	if !bigEq(back.Amount, chainAmount) {
		fail("C18: json-roundtrip: block %s: the JSON carries \"amount\":%q, parsed back (api.AccountBlock) the amount is %v; the chain's block has %v", name, chainAmount.String(), back.Amount, chainAmount)
		ok = false
	}
	if hp, err := back.ComputeHash(); err != nil || *hp != chainHash || back.Hash != chainHash {
		fail("C18: json-roundtrip: block %s fed back as JSON has hash field %v and recomputed hash %v (%v); the chain's block has hash %v (amount parsed back %v, chain %v)", name, back.Hash, hp, err, chainHash, back.Amount, chainAmount)
		ok = false
	}
	if len(back.DescendantBlocks) != len(b.DescendantBlocks) {
		fail("C18: json-roundtrip: block %s has %d descendant blocks, parsed back %d", name, len(b.DescendantBlocks), len(back.DescendantBlocks))
		ok = false
	} else {
		for i, d := range b.DescendantBlocks {
			bd := back.DescendantBlocks[i]
			if bd == nil || !bigEq(bd.Amount, d.Amount) || bd.ComputeHash() != d.Hash || bd.Hash != d.Hash {
				fail("C18: json-roundtrip: descendant block %d of %s (hash %s, amount %v): parsed back from the JSON of its parent it has amount %v, hash field %v, recomputed hash %v", i, name, h8(d.Hash), d.Amount, bd.Amount, bd.Hash, bd.ComputeHash())
				ok = false
			}
			c.Hit("json-roundtrip-descendant-amount-" + amountClass(d.Amount))
		}
	}
	if (back.PairedAccountBlock == nil) != (b.PairedAccountBlock == nil) {
		fail("C18: json-roundtrip: block %s: paired block present=%v, parsed back present=%v", name, b.PairedAccountBlock != nil, back.PairedAccountBlock != nil)
		ok = false
	} else if p := b.PairedAccountBlock; p != nil {
		bp := back.PairedAccountBlock
		if !bigEq(bp.Amount, p.Amount) || bp.AccountBlock.ComputeHash() != p.AccountBlock.ComputeHash() || bp.Hash != p.Hash {
			fail("C18: json-roundtrip: paired block of %s (%s/%d hash %s amount %v): parsed back it has amount %v, hash field %v, recomputed hash %v (the paired block itself recomputes to %v)", name, addrName(p.Address), p.Height, h8(p.Hash), p.Amount, bp.Amount, bp.Hash, bp.AccountBlock.ComputeHash(), p.AccountBlock.ComputeHash())
			ok = false
		}
		if len(bp.DescendantBlocks) != len(p.DescendantBlocks) {
			fail("C18: json-roundtrip: paired block of %s has %d descendant blocks, parsed back %d", name, len(p.DescendantBlocks), len(bp.DescendantBlocks))
			ok = false
		} else {
			for i, d := range p.DescendantBlocks {
				if bd := bp.DescendantBlocks[i]; bd == nil || !bigEq(bd.Amount, d.Amount) || bd.ComputeHash() != d.Hash {
					fail("C18: json-roundtrip: descendant block %d (hash %s, amount %v) of the paired block %s/%d of %s: parsed back from the JSON it has amount %v and recomputed hash %v", i, h8(d.Hash), d.Amount, addrName(p.Address), p.Height, name, bd.Amount, bd.ComputeHash())
					ok = false
				}
			}
		}
		if (bp.TokenInfo == nil) != (p.TokenInfo == nil) || (p.TokenInfo != nil && (!bigEq(bp.TokenInfo.TotalSupply, p.TokenInfo.TotalSupply) || !bigEq(bp.TokenInfo.MaxSupply, p.TokenInfo.MaxSupply))) {
			fail("C18: json-roundtrip: token of the paired block of %s: parsed back %+v, returned %+v", name, bp.TokenInfo, p.TokenInfo)
			ok = false
		}
		c.Hit("json-roundtrip-paired-amount-" + amountClass(p.Amount))
	}
	if (back.TokenInfo == nil) != (b.TokenInfo == nil) {
		fail("C18: json-roundtrip: block %s: token present=%v, parsed back present=%v", name, b.TokenInfo != nil, back.TokenInfo != nil)
		ok = false
	} else if t := b.TokenInfo; t != nil {
		if !bigEq(back.TokenInfo.TotalSupply, t.TotalSupply) || !bigEq(back.TokenInfo.MaxSupply, t.MaxSupply) {
			fail("C18: json-roundtrip: block %s carries its token with totalSupply %v and maxSupply %v; parsed back from the JSON the token has totalSupply %v and maxSupply %v", name, t.TotalSupply, t.MaxSupply, back.TokenInfo.TotalSupply, back.TokenInfo.MaxSupply)
			ok = false
		}
		c.Hit("json-roundtrip-token-supply-" + amountClass(t.TotalSupply))
	}
	if again, err := json.Marshal(back); err != nil || string(again) != string(js) {
		d := 0
		for d < len(again) && d < len(js) && again[d] == js[d] {
			d++
		}
		from := d - 30
		if from < 0 {
			from = 0
		}
		fail("C18: json-roundtrip: block %s: encoding the parsed block again gives different JSON (%v), first difference at byte %d: returned …%.90s, re-encoded …%.90s", name, err, d, string(js[from:]), string(again[minInt(from, len(again)):]))
		ok = false
	}
	// the ledger's own block type reads the same text (hash-relevant members only)
	nb := new(nom.AccountBlock)
	if err := json.Unmarshal(js, nb); err != nil {
		fail("C18: JSON of block %s does not parse back as a ledger block: %v", name, err)
		ok = false
	} else if !bigEq(nb.Amount, chainAmount) || nb.ComputeHash() != chainHash {
		fail("C18: json-roundtrip: block %s parsed back as a ledger block (nom.AccountBlock) has amount %v and recomputed hash %v; the chain's block has amount %v and hash %v", name, nb.Amount, nb.ComputeHash(), chainAmount, chainHash)
		ok = false
	}
	c.Hit("json-roundtrip")
	c.Hit("json-roundtrip-amount-" + amountClass(b.Amount))
	return ok
}

// rpcRoundTripEverything: every block every block-returning getter of the ledger API returns, once per history
func rpcRoundTripEverything(c *Ctx, n *Node, l *api.LedgerApi, id int, addrs []types.Address, zts []types.ZenonTokenStandard) {
	fails := 0
	fail := func(format string, a ...interface{}) {
		fails++
		if fails <= 12 { // a wrong parser fails on many blocks: the first dozen say it all
			c.Fail("rpc run=%d: %s", id, fmt.Sprintf(format, a...))
		}
	}
	ch := n.Chain()
	refOf := func(b *api.AccountBlock) *nom.AccountBlock {
		ref, _ := ch.GetFrontierAccountStore(b.Address).ByHeight(b.Height)
		return ref
	}
	inRange := 0
	count := func(b *api.AccountBlock) {
		if b.Amount != nil && b.Amount.BitLen() == 64 {
			inRange++
		}
	}
	checkList := func(via string, res *api.AccountBlockList) {
		for _, b := range res.List {
			rpcBlockRoundTrip(c, fail, via, b, refOf(b))
			count(b)
		}
		// the answer as a whole: the list type has its own parser
		js, err := json.Marshal(res)
		if err != nil {
			fail("C18: the answer of %s does not marshal: %v", via, err)
			return
		}
		back := new(api.AccountBlockList)
		if err := json.Unmarshal(js, back); err != nil || len(back.List) != len(res.List) {
			fail("C18: json-roundtrip: the answer of %s (%d blocks) does not parse back: %v, %d blocks", via, len(res.List), err, len(back.List))
			return
		}
		for i, b := range res.List {
			if hp, _ := back.List[i].ComputeHash(); !bigEq(back.List[i].Amount, b.Amount) || hp == nil || *hp != b.Hash {
				fail("C18: json-roundtrip: block %s/%d (hash %s, amount %v) in the answer of %s: the answer parsed back as a list holds amount %v and a block that hashes to %v", addrName(b.Address), b.Height, h8(b.Hash), b.Amount, via, back.List[i].Amount, hp)
			}
		}
		if again, err := json.Marshal(back); err != nil || string(again) != string(js) {
			fail("C18: json-roundtrip: the answer of %s (%d blocks), parsed and encoded again, is different JSON", via, len(res.List))
		}
		c.Hit("json-roundtrip-list")
	}
	for _, a := range addrs {
		fr, _ := ch.GetFrontierAccountStore(a).Frontier()
		if fr == nil {
			continue
		}
		for h := uint64(1); h <= fr.Height; h += api.RpcMaxCountSize {
			via := fmt.Sprintf("ledger.getAccountBlocksByHeight(%s,%d,%d)", addrName(a), h, api.RpcMaxCountSize)
			res, err := l.GetAccountBlocksByHeight(a, h, api.RpcMaxCountSize)
			if err != nil {
				fail("C18: %s fails: %v", via, err)
				break
			}
			checkList(via, res)
			// by hash, one by one (confirmed blocks only: the getter reads the momentum store)
			for _, b := range res.List {
				one, err := l.GetAccountBlockByHash(b.Hash)
				if err != nil {
					fail("C18: ledger.getAccountBlockByHash(%v) fails: %v", b.Hash, err)
					continue
				}
				if one != nil {
					rpcBlockRoundTrip(c, fail, "ledger.getAccountBlockByHash", one, refOf(one))
				}
			}
		}
		for i := uint32(0); uint64(i)*uint64(api.RpcMaxPageSize) < fr.Height; i++ {
			via := fmt.Sprintf("ledger.getAccountBlocksByPage(%s,%d,%d)", addrName(a), i, api.RpcMaxPageSize)
			res, err := l.GetAccountBlocksByPage(a, i, api.RpcMaxPageSize)
			if err != nil {
				fail("C18: %s fails: %v", via, err)
				break
			}
			checkList(via, res)
		}
		if b, err := l.GetFrontierAccountBlock(a); err == nil && b != nil {
			rpcBlockRoundTrip(c, fail, "ledger.getFrontierAccountBlock", b, refOf(b))
		}
		if res, err := l.GetUnreceivedBlocksByAddress(a, 0, 50); err == nil {
			checkList(fmt.Sprintf("ledger.getUnreceivedBlocksByAddress(%s,0,50)", addrName(a)), res)
			c.HitN("json-roundtrip-unreceived", len(res.List))
		}
		if res, err := l.GetUnconfirmedBlocksByAddress(a, 0, 50); err == nil {
			checkList(fmt.Sprintf("ledger.getUnconfirmedBlocksByAddress(%s,0,50)", addrName(a)), res)
			c.HitN("json-roundtrip-unconfirmed", len(res.List))
		}
	}
	// the blocks inside the detailed momentums
	H := n.Height()
	for h := uint64(1); h <= H; h += 200 {
		res, err := l.GetDetailedMomentumsByHeight(h, 200)
		if err != nil {
			fail("C18: ledger.getDetailedMomentumsByHeight(%d,200) fails: %v", h, err)
			break
		}
		for _, dm := range res.List {
			for _, b := range dm.AccountBlocks {
				rpcBlockRoundTrip(c, fail, fmt.Sprintf("ledger.getDetailedMomentumsByHeight (momentum %d)", dm.Momentum.Height), b, refOf(b))
				c.Hit("json-roundtrip-momentum-block")
			}
		}
	}
	if fails > 12 {
		c.Emit("#rpc run=%d: %d more json-roundtrip failures not listed", id, fails-12)
	}
	c.HitN("json-roundtrip-blocks-with-amount-in-2^63..2^64", inRange)
	if zts != nil && inRange < 3 {
		c.Fail("rpc run=%d amount family, setup: only %d returned blocks carry an amount in [2^63, 2^64)", id, inRange)
	}
}
