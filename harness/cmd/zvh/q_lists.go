package main

import (
	"encoding/json"
	"fmt"
	"strings"

	"github.com/zenon-network/go-zenon/chain/store"
	"github.com/zenon-network/go-zenon/common/types"
	"github.com/zenon-network/go-zenon/vm/embedded/definition"
)

// listQueries answers, on one momentum store, every "list all entries" query of the embedded contracts (the iterator-based
// readers of vm/embedded/definition that the contracts' update methods, momentum insertion — GotAllActiveSporksImplemented —
// and the RPC layer use). It returns one canonical line per query, and the first panic met (a panic in one of these on the
// insertion or producer path terminates the node).
func listQueries(st store.Momentum) (lines []string, panicked string) {
	ctx := func(a types.Address) store.Account { return st.GetAccountStore(a) }
	js := func(v interface{}, err error) string {
		if err != nil {
			return "error: " + firstLine(err.Error())
		}
		b, merr := json.Marshal(v)
		if merr != nil {
			return "unmarshalable: " + firstLine(merr.Error())
		}
		return string(b)
	}
	type q struct {
		name string
		f    func() string
	}
	qs := []q{
		{"spork.GetAllSporks", func() string { return js(st.GetAllDefinedSporks()) }},
		{"sentinel.GetAllSentinelInfo", func() string {
			return js(definition.GetAllSentinelInfo(ctx(types.SentinelContract).Storage()), nil)
		}},
		{"accelerator.GetProjectList", func() string { return js(definition.GetProjectList(ctx(types.AcceleratorContract).Storage())) }},
		{"token.GetTokenInfoList", func() string { return js(definition.GetTokenInfoList(ctx(types.TokenContract).Storage())) }},
		{"pillar.GetPillarsList", func() string {
			return js(definition.GetPillarsList(ctx(types.PillarContract).Storage(), false, definition.AnyPillarType))
		}},
		{"pillar.GetDelegationsList", func() string { return js(definition.GetDelegationsList(ctx(types.PillarContract).Storage())) }},
		{"pillar.GetLegacyPillarList", func() string { return js(definition.GetLegacyPillarList(ctx(types.PillarContract).Storage())) }},
		{"pillar.GetPillarEpochHistoryList(0)", func() string {
			return js(definition.GetPillarEpochHistoryList(ctx(types.PillarContract).Storage(), 0))
		}},
		{"stake.IterateStakeEntries", func() string {
			var l []*definition.StakeInfo
			err := definition.IterateStakeEntries(ctx(types.StakeContract).Storage(), func(s *definition.StakeInfo) error { l = append(l, s); return nil })
			return js(l, err)
		}},
		{"liquidity.GetAllLiquidityStakeEntries", func() string {
			return js(definition.GetAllLiquidityStakeEntries(ctx(types.LiquidityContract).Storage()), nil)
		}},
		{"swap.GetSwapAssets", func() string {
			l, err := definition.GetSwapAssets(ctx(types.SwapContract).Storage())
			return js(len(l), err)
		}},
		{"bridge.GetNetworkList", func() string { return js(definition.GetNetworkList(ctx(types.BridgeContract).Storage())) }},
	}
	for _, x := range qs {
		var out string
		if p := safely(func() { out = x.f() }); p != "" {
			out = "PANIC " + firstLine(p)
			if panicked == "" {
				panicked = fmt.Sprintf("%s panics: %s", x.name, firstLine(p))
			}
		}
		lines = append(lines, x.name+" = "+strings.ReplaceAll(out, "\n", " "))
	}
	return lines, panicked
}
