package main

import (
	"fmt"
	"sort"
	"strings"

	"github.com/zenon-network/go-zenon/common/db"
	"github.com/zenon-network/go-zenon/common/types"
	"github.com/zenon-network/go-zenon/consensus/storage"
)

// ---------------------------------------------------------------------------------------------------
// cs-* lines: the consensus store against its Lean model (Model/ConsensusStore.lean, Props/C05Store.lean,
// Driver/ConsensusStore.lean). The election stream (C05) hands every k-th elected schedule and generated storage.Point
// to csElection / csPoint, the rewards-pure stream (C11) hands the period points of a fold case to csFoldPoints.
//
//   cs-ed-enc <value> <hex>      | ok        <hex> = the REAL ElectionData.Marshal of the value; the model's marshalED must
//                                            give the same bytes (the encoding of slices is canonical)
//   cs-ed-dec <hex>              | <text>    the REAL Unmarshal of those bytes, printed canonically; the model's
//                                            unmarshalED of the same bytes must print the same
//   cs-pt-enc <value> <hex>      | ok        the REAL Point.Marshal of the value (map iteration order: NOT canonical):
//                                            the model must decode the bytes to the value (entries sorted by name) and
//                                            re-encode the decoded point, in the order read, to the same bytes
//   cs-pt-dec <hex>              | <text>    what the REAL code reads from those bytes — decoded by Unmarshal, or the
//                                            object the LRU of a live storage.DB hands out for the key whose backing
//                                            bytes they are (after the callers of the stream worked with it)
//   cs-key point <p> <h> | <hex>, cs-key election <hash> | <hex>      CreatePointKey / CreateElectionResultKey
//   cs-db open|store-ed|get-ed|raw-ed|store-pt|get-pt|del-pt …        the same operations on real storage.DB instances
//                                            with two-entry LRUs over one backing database and on the model's Store
//                                            (instances A = the storing one, B = a restarted one)
// ---------------------------------------------------------------------------------------------------

type csTap struct {
	c       *Ctx
	kv      db.DB
	a       *storage.DB
	nE, nP  int // calls
	recentE []types.Hash
	recentP [][2]uint64
}

var csTaps = map[*Ctx]*csTap{}

func csTapOf(c *Ctx) *csTap {
	t := csTaps[c]
	if t == nil {
		t = &csTap{c: c, kv: db.NewMemDB()}
		t.a = storage.NewConsensusDB(t.kv, 2, 2)
		csTaps[c] = t
		c.Emit("cs-db open A 2 2")
	}
	return t
}

// every k-th value is traced, so that a run emits a few hundred values whatever its length
func csEvery(c *Ctx, per int) int { return c.N/per + 1 }

func csEDTokens(ed *storage.ElectionData) string {
	var sb strings.Builder
	fmt.Fprintf(&sb, "%d", len(ed.Producers))
	for _, p := range ed.Producers {
		sb.WriteString(" " + hx(p[:]))
	}
	fmt.Fprintf(&sb, " %d", len(ed.Delegations))
	for _, d := range ed.Delegations {
		fmt.Fprintf(&sb, " %s %s %s", hx([]byte(d.Name)), hx(d.Producing[:]), d.Weight)
	}
	return sb.String()
}

func csEDText(ed *storage.ElectionData, err error) string {
	if err != nil {
		return "error"
	}
	if ed == nil {
		return "nil"
	}
	ps := make([]string, len(ed.Producers))
	for i, p := range ed.Producers {
		ps[i] = hx(p[:])
	}
	ds := make([]string, len(ed.Delegations))
	for i, d := range ed.Delegations {
		ds[i] = fmt.Sprintf("%s/%s/%s", hx([]byte(d.Name)), hx(d.Producing[:]), d.Weight)
	}
	distinct := map[types.Address]bool{}
	for _, p := range ed.Producers {
		distinct[p] = true
	}
	return fmt.Sprintf("p=%d/%d d=%d [%s] [%s]", len(ps), len(distinct), len(ds), strings.Join(ps, ","), strings.Join(ds, ","))
}

func csSortedNames(p *storage.Point) []string {
	names := make([]string, 0, len(p.Pillars))
	for k := range p.Pillars {
		names = append(names, k)
	}
	sort.Strings(names)
	return names
}

func csPointTokens(p *storage.Point) string {
	var sb strings.Builder
	names := csSortedNames(p)
	fmt.Fprintf(&sb, "%s %s %s %d", hx(p.PrevHash[:]), hx(p.EndHash[:]), p.TotalWeight, len(names))
	for _, k := range names {
		d := p.Pillars[k]
		fmt.Fprintf(&sb, " %s %d %d %s", hx([]byte(k)), d.ExpectedNum, d.FactualNum, d.Weight)
	}
	return sb.String()
}

func csPointText(p *storage.Point, err error) string {
	if err != nil {
		return "error"
	}
	if p == nil {
		return "nil"
	}
	names := csSortedNames(p)
	ss := make([]string, len(names))
	for i, k := range names {
		d := p.Pillars[k]
		ss[i] = fmt.Sprintf("%s/%d/%d/%s", hx([]byte(k)), d.ExpectedNum, d.FactualNum, d.Weight)
	}
	return fmt.Sprintf("n=%d total=%s prev=%s end=%s [%s]", len(names), p.TotalWeight, hx(p.PrevHash[:]), hx(p.EndHash[:]), strings.Join(ss, ","))
}

func csPointTraceable(p *storage.Point) bool {
	if p.TotalWeight == nil || p.TotalWeight.Sign() < 0 {
		return false
	}
	for _, d := range p.Pillars {
		if d == nil || d.Weight == nil || d.Weight.Sign() < 0 {
			return false
		}
	}
	return true
}

// csElection: one election result (a value the caller found persistable: UTF-8 names, non-negative weights).
func csElection(c *Ctx, producers []types.Address, delegs []*types.PillarDelegation) {
	t := csTapOf(c)
	t.nE++
	small := len(delegs) <= 3 && t.nE%3 == 0
	if (t.nE-1)%csEvery(c, 330) != 0 && !small {
		return
	}
	ed := storage.GenElectionData(producers, delegs)
	var buf []byte
	var err error
	if p := safely(func() { buf, err = ed.Marshal() }); p != "" || err != nil {
		return // reported by the persistence monitor
	}
	c.Emit("cs-ed-enc %s %s | ok", csEDTokens(ed), hx(buf))
	back := &storage.ElectionData{}
	var uerr error
	if p := safely(func() { uerr = back.Unmarshal(buf) }); p != "" {
		uerr = fmt.Errorf("panic: %s", p)
	}
	c.Emit("cs-ed-dec %s | %s", hx(buf), csEDText(back, uerr))
	distinct := map[types.Address]bool{}
	for _, p := range producers {
		distinct[p] = true
	}
	if len(distinct) >= 2 {
		c.Hit("cs-election-with-2+-producers")
	}
	for _, d := range delegs {
		if d.Weight.Sign() == 0 {
			c.Hit("cs-election-delegation-with-weight-0")
			break
		}
	}
	h := types.NewHash([]byte(fmt.Sprintf("cs-election %d %d", c.Seed, t.nE)))
	c.Emit("cs-key election %s | %s", hx(h[:]), hx(storage.CreateElectionResultKey(h)))
	// the database: storing instance A (two-entry LRU), restarted instance B on the same backing database
	if err := t.a.StoreElectionResultByHash(h, ed); err != nil {
		return
	}
	c.Emit("cs-db store-ed A %s %s", hx(h[:]), csEDTokens(ed))
	if raw, err := t.kv.Get(storage.CreateElectionResultKey(h)); err == nil {
		c.Emit("cs-db raw-ed %s %s | ok", hx(h[:]), hx(raw))
	}
	g1, e1 := t.a.GetElectionResultByHash(h)
	c.Emit("cs-db get-ed A %s | %s", hx(h[:]), csEDText(g1, e1))
	if g1 == ed {
		c.Hit("cs-cache-hands-out-the-stored-object-itself") // why the model needs `Store.Coherent`: see Model/ConsensusStore.lean
	}
	b := storage.NewConsensusDB(t.kv, 2, 2)
	c.Emit("cs-db open B 2 2")
	g2, e2 := b.GetElectionResultByHash(h)
	c.Emit("cs-db get-ed B %s | %s", hx(h[:]), csEDText(g2, e2))
	g3, e3 := b.GetElectionResultByHash(h)
	c.Emit("cs-db get-ed B %s | %s", hx(h[:]), csEDText(g3, e3))
	t.recentE = append(t.recentE, h)
	if len(t.recentE) > 3 {
		t.recentE = t.recentE[1:]
		old := t.recentE[0] // two stores ago at least: evicted from A's two-entry LRU unless read since
		g, e := t.a.GetElectionResultByHash(old)
		c.Emit("cs-db get-ed A %s | %s", hx(old[:]), csEDText(g, e))
		c.Hit("cs-election-read-after-eviction")
	}
	unk := types.NewHash([]byte(fmt.Sprintf("cs-never-stored %d %d", c.Seed, t.nE))) // (the stream's generator is not touched)
	g, e := b.GetElectionResultByHash(unk)
	c.Emit("cs-db get-ed B %s | %s", hx(unk[:]), csEDText(g, e))
	c.Hit("cs-election")
}

// csPoint: one generated storage.Point stored under (prefix, height).
func csPoint(c *Ctx, p *storage.Point, prefix byte, height uint64) {
	t := csTapOf(c)
	t.nP++
	if (t.nP-1)%csEvery(c, 500) != 0 || !csPointTraceable(p) {
		return
	}
	var buf []byte
	var err error
	if pn := safely(func() { buf, err = p.Marshal() }); pn != "" || err != nil {
		return
	}
	c.Emit("cs-pt-enc %s %s | ok", csPointTokens(p), hx(buf))
	back := &storage.Point{}
	var uerr error
	if pn := safely(func() { uerr = back.Unmarshal(buf) }); pn != "" {
		uerr = fmt.Errorf("panic: %s", pn)
	}
	c.Emit("cs-pt-dec %s | %s", hx(buf), csPointText(back, uerr))
	for _, d := range p.Pillars {
		if d.Weight.Sign() == 0 {
			c.Hit("cs-point-pillar-with-weight-0")
			break
		}
	}
	if len(p.Pillars) == 0 {
		c.Hit("cs-point-without-pillars")
	}
	c.Emit("cs-key point %d %d | %s", prefix, height, hx(storage.CreatePointKey(prefix, height)))
	if err := t.a.StorePointByHeight(prefix, height, p); err != nil {
		return
	}
	c.Emit("cs-db store-pt A %d %d %s", prefix, height, csPointTokens(p))
	g1, e1 := t.a.GetPointByHeight(prefix, height)
	c.Emit("cs-db get-pt A %d %d | %s", prefix, height, csPointText(g1, e1))
	b := storage.NewConsensusDB(t.kv, 2, 2)
	c.Emit("cs-db open B 2 2")
	g2, e2 := b.GetPointByHeight(prefix, height)
	c.Emit("cs-db get-pt B %d %d | %s", prefix, height, csPointText(g2, e2))
	// the other table at the same height is another key
	g3, e3 := b.GetPointByHeight(1-prefix, height)
	c.Emit("cs-db get-pt B %d %d | %s", 1-prefix, height, csPointText(g3, e3))
	t.recentP = append(t.recentP, [2]uint64{uint64(prefix), height})
	if len(t.recentP) > 5 {
		t.recentP = t.recentP[1:]
		old := t.recentP[0]
		g, e := t.a.GetPointByHeight(byte(old[0]), old[1])
		c.Emit("cs-db get-pt A %d %d | %s", old[0], old[1], csPointText(g, e))
		c.Hit("cs-point-read-after-eviction")
		if t.nP%2 == 0 { // invalidation as compoundPoints.GetPoint does it after a reorganisation, then absent for everybody
			if err := t.a.DeletePointByHeight(byte(old[0]), old[1]); err == nil {
				c.Emit("cs-db del-pt A %d %d", old[0], old[1])
				g, e := t.a.GetPointByHeight(byte(old[0]), old[1])
				c.Emit("cs-db get-pt A %d %d | %s", old[0], old[1], csPointText(g, e))
				g, e = b.GetPointByHeight(byte(old[0]), old[1])
				c.Emit("cs-db get-pt B %d %d | %s", old[0], old[1], csPointText(g, e))
				c.Hit("cs-point-deleted")
				t.recentP = t.recentP[1:]
			}
		}
	}
	c.Hit("cs-point")
}

var csFoldCalls = map[*Ctx]int{}

// csFoldPoints: the period points of a fold case of the rewards-pure stream, AFTER the real aggregation code
// (Point.LeftAppend, the statements of generatePointFromLower) has worked with the objects the LRU of `sdb` handed out:
// what the cache holds now must still be the decode of the stored bytes (the aliasing assumption of the model), and so
// must be what a restarted storage.DB reads from them.
func csFoldPoints(c *Ctx, kv db.DB, sdb *storage.DB, stored []int, built func(i int) *storage.Point) {
	csFoldCalls[c]++
	if (csFoldCalls[c]-1)%csEvery(c, 20000) != 0 {
		return
	}
	cold := storage.NewConsensusDB(kv, 4, 64) // a restarted node: decodes the stored bytes with the real Unmarshal
	for _, i := range stored {
		raw, err := kv.Get(storage.CreatePointKey(storage.PrefixPeriodPoint, uint64(i)))
		if err != nil {
			continue
		}
		want := built(i)
		c.Emit("cs-pt-enc %s %s | ok", csPointTokens(want), hx(raw))
		cached, cerr := sdb.GetPointByHeight(storage.PrefixPeriodPoint, uint64(i))
		c.Emit("cs-pt-dec %s | %s", hx(raw), csPointText(cached, cerr))
		c.Hit("cs-cached-period-point-after-folds")
		read, rerr := cold.GetPointByHeight(storage.PrefixPeriodPoint, uint64(i))
		c.Emit("cs-pt-dec %s | %s", hx(raw), csPointText(read, rerr))
		for _, d := range want.Pillars {
			if d.Weight.Sign() == 0 {
				c.Hit("cs-period-point-with-weight-0-pillar-read-by-restarted-db")
				break
			}
		}
	}
}
