package main

// Facts for C18 (JSON-RPC server dispatch, Model/JsonRpc.lean):
//   * the registry the rpcserver stream serves — every service of rpc.GetApis("ledger", "embedded") plus the server's own
//     "rpc" service — as (service, method, per positional parameter: pointer-typed?) by reflection with the criteria of
//     rpc/server/service.go (suitableCallbacks / newCallback / makeArgTypes / isPubSub / formatName);
//   * the text of the statements of rpc/server that the model's panic-freedom rests on (AST of the working tree):
//     readBatch's nil repair, parseMessage, the first statement of handleBatch, the classification predicates, the
//     switches of handleImmediate / handleCallMsg, serveSingleRequest, the error codes of errors.go, the limits of http.go.

import (
	"context"
	"fmt"
	"go/ast"
	"go/parser"
	"go/token"
	"path/filepath"
	"reflect"
	"sort"
	"strings"
	"unicode"

	"github.com/zenon-network/go-zenon/chain"
	"github.com/zenon-network/go-zenon/consensus"
	"github.com/zenon-network/go-zenon/rpc"
	rpcserver "github.com/zenon-network/go-zenon/rpc/server"
	"github.com/zenon-network/go-zenon/zenon"
)

// stubZenon: the API constructors only store z.Chain() / z.Consensus(); nothing is called on them
type stubZenon struct{ zenon.Zenon }

func (stubZenon) Chain() chain.Chain             { return nil }
func (stubZenon) Consensus() consensus.Consensus { return nil }

type rpcCallbackFact struct {
	service, name string
	optional      []bool
	subscription  bool
}

// rpcServedApis: the services the rpcserver stream registers (and the facts describe): namespace + receiver
func rpcServedApis(z zenon.Zenon) []rpcserver.API {
	return rpc.GetApis(z, nil, "ledger", "embedded")
}

// rpcCallbacksOf mirrors service.go: which methods of a receiver become callbacks, under which name, with which argTypes
func rpcCallbacksOf(service string, rcvr reflect.Type) []rpcCallbackFact {
	ctxT := reflect.TypeOf((*context.Context)(nil)).Elem()
	errT := reflect.TypeOf((*error)(nil)).Elem()
	subT := reflect.TypeOf(rpcserver.Subscription{})
	deref := func(t reflect.Type) reflect.Type {
		for t.Kind() == reflect.Ptr {
			t = t.Elem()
		}
		return t
	}
	isErr := func(t reflect.Type) bool { return deref(t).Implements(errT) }
	var out []rpcCallbackFact
	for m := 0; m < rcvr.NumMethod(); m++ {
		meth := rcvr.Method(m)
		if meth.PkgPath != "" {
			continue
		}
		ft := meth.Func.Type()
		// newCallback: at most two results, an error last
		switch {
		case ft.NumOut() > 2:
			continue
		case ft.NumOut() == 2 && (isErr(ft.Out(0)) || !isErr(ft.Out(1))):
			continue
		}
		// isPubSub
		sub := ft.NumIn() >= 2 && ft.NumOut() == 2 && deref(ft.In(1)) == ctxT && deref(ft.Out(0)) == subT && isErr(ft.Out(1))
		// makeArgTypes: receiver and a leading context.Context are not arguments
		first := 1
		if ft.NumIn() > first && ft.In(first) == ctxT {
			first++
		}
		var opt []bool
		for i := first; i < ft.NumIn(); i++ {
			opt = append(opt, ft.In(i).Kind() == reflect.Ptr)
		}
		// formatName
		r := []rune(meth.Name)
		r[0] = unicode.ToLower(r[0])
		out = append(out, rpcCallbackFact{service: service, name: string(r), optional: opt, subscription: sub})
	}
	return out
}

func rpcRegistryFacts() (facts []rpcCallbackFact, err error) {
	defer func() {
		if p := recover(); p != nil {
			err = fmt.Errorf("rpc.GetApis on a stub node panicked: %v", p)
		}
	}()
	for _, a := range rpcServedApis(stubZenon{}) {
		facts = append(facts, rpcCallbacksOf(a.Namespace, reflect.TypeOf(a.Service))...)
	}
	// NewServer registers its RPCService under MetadataApi
	facts = append(facts, rpcCallbacksOf(rpcserver.MetadataApi, reflect.TypeOf(&rpcserver.RPCService{}))...)
	sort.Slice(facts, func(i, j int) bool {
		if facts[i].service != facts[j].service {
			return facts[i].service < facts[j].service
		}
		return facts[i].name < facts[j].name
	})
	return facts, nil
}

// stmtText: one statement on one line (comments are not part of the AST); function literals are abbreviated
func stmtText(fset *token.FileSet, s ast.Node) string {
	return exprStr(fset, s)
}

func funcOf(f *ast.File, recv, name string) *ast.FuncDecl {
	for _, d := range f.Decls {
		fd, ok := d.(*ast.FuncDecl)
		if !ok || fd.Name.Name != name || fd.Body == nil {
			continue
		}
		r := ""
		if fd.Recv != nil && len(fd.Recv.List) == 1 {
			r = strings.TrimPrefix(exprStrNoPos(fd.Recv.List[0].Type), "*")
		}
		if r == recv {
			return fd
		}
	}
	return nil
}

func exprStrNoPos(e ast.Expr) string {
	switch x := e.(type) {
	case *ast.StarExpr:
		return "*" + exprStrNoPos(x.X)
	case *ast.Ident:
		return x.Name
	}
	return ""
}

func init() {
	factGens = append(factGens, func(repo string) (*factFile, error) {
		f := newFactFile("RpcServer")
		// ---- registry -------------------------------------------------------------------------------------------
		facts, err := rpcRegistryFacts()
		if err != nil {
			return nil, err
		}
		var ms, ss []string
		for _, c := range facts {
			o := make([]string, len(c.optional))
			for i, b := range c.optional {
				o[i] = fmt.Sprint(b)
			}
			line := fmt.Sprintf("  (%q, %q, [%s])", c.service, c.name, strings.Join(o, ", "))
			if c.subscription {
				ss = append(ss, line)
			} else {
				ms = append(ms, line)
			}
		}
		f.raw("-- the registry served by the rpcserver stream: rpc.GetApis(\"ledger\", \"embedded\") + the server's own \"rpc\" service\n")
		f.raw("-- (service, method, per positional parameter after receiver / context: is it pointer-typed, i.e. optional)\n")
		f.raw("def rpcsrvMethods : List (String × String × List Bool) := [\n%s\n]\n", strings.Join(ms, ",\n"))
		f.raw("def rpcsrvSubscriptions : List (String × String × List Bool) := [\n%s\n]\n", strings.Join(ss, ",\n"))

		// ---- AST ------------------------------------------------------------------------------------------------
		fset := token.NewFileSet()
		parse := func(name string) (*ast.File, error) {
			return parser.ParseFile(fset, filepath.Join(repo, "rpc", "server", name), nil, 0)
		}
		jf, err := parse("json.go")
		if err != nil {
			return nil, err
		}
		hf, err := parse("handler.go")
		if err != nil {
			return nil, err
		}
		sf, err := parse("server.go")
		if err != nil {
			return nil, err
		}
		ef, err := parse("errors.go")
		if err != nil {
			return nil, err
		}
		tf, err := parse("http.go")
		if err != nil {
			return nil, err
		}
		need := func(file *ast.File, recv, name string) (*ast.FuncDecl, error) {
			fd := funcOf(file, recv, name)
			if fd == nil {
				return nil, fmt.Errorf("rpc/server: func (%s) %s not found", recv, name)
			}
			return fd, nil
		}
		topLevel := func(fd *ast.FuncDecl) []string {
			var out []string
			for _, st := range fd.Body.List {
				out = append(out, stmtText(fset, st))
			}
			return out
		}
		// json.go: readBatch and parseMessage, statement by statement
		rb, err := need(jf, "jsonCodec", "readBatch")
		if err != nil {
			return nil, err
		}
		pm, err := need(jf, "", "parseMessage")
		if err != nil {
			return nil, err
		}
		ib, err := need(jf, "", "isBatch")
		if err != nil {
			return nil, err
		}
		f.raw("-- rpc/server/json.go (AST of the working tree): the statements of readBatch, parseMessage, isBatch\n")
		f.strList("rpcsrvReadBatchStmts", topLevel(rb))
		f.strList("rpcsrvParseMessageStmts", topLevel(pm))
		f.strList("rpcsrvIsBatchStmts", topLevel(ib))
		// the nil repair on its own: every `if <x> == nil { <y> = new(jsonrpcMessage) }` of readBatch / parseMessage with the loop
		// it sits in and whether a call of parseMessage precedes it / the batch loop of parseMessage contains it
		var repairs []string
		for _, fd := range []*ast.FuncDecl{rb, pm} {
			var walk func(n ast.Node, ctx string)
			walk = func(n ast.Node, ctx string) {
				ast.Inspect(n, func(x ast.Node) bool {
					switch s := x.(type) {
					case *ast.RangeStmt:
						if s.Body != nil {
							walk(s.Body, ctx+"range "+exprStr(fset, s.X)+" / ")
						}
						return false
					case *ast.ForStmt:
						c := ""
						if s.Cond != nil {
							c = exprStr(fset, s.Cond)
						}
						walk(s.Body, ctx+"for "+c+" / ")
						return false
					case *ast.IfStmt:
						c := exprStr(fset, s.Cond)
						if strings.HasSuffix(c, "== nil") && len(s.Body.List) == 1 {
							if as, ok := s.Body.List[0].(*ast.AssignStmt); ok && strings.Contains(exprStr(fset, as), "new(jsonrpcMessage)") {
								repairs = append(repairs, fd.Name.Name+": "+ctx+"if "+c+" { "+exprStr(fset, as)+" }")
							}
						}
					}
					return true
				})
			}
			walk(fd.Body, "")
		}
		f.strList("rpcsrvNilRepairs", repairs)
		// classification predicates: the returned expression
		f.raw("-- rpc/server/json.go: the returned expression of the classification predicates of jsonrpcMessage\n")
		var preds []string
		for _, name := range []string{"isNotification", "isCall", "isResponse", "hasValidID", "isSubscribe", "isUnsubscribe", "namespace"} {
			fd, err := need(jf, "jsonrpcMessage", name)
			if err != nil {
				return nil, err
			}
			preds = append(preds, name+": "+strings.Join(topLevel(fd), "; "))
		}
		f.strList("rpcsrvPredicates", preds)
		var consts []string
		for _, d := range jf.Decls {
			gd, ok := d.(*ast.GenDecl)
			if !ok || gd.Tok != token.CONST {
				continue
			}
			for _, sp := range gd.Specs {
				vs := sp.(*ast.ValueSpec)
				for i, n := range vs.Names {
					if strings.HasSuffix(n.Name, "Suffix") || n.Name == "serviceMethodSeparator" {
						consts = append(consts, n.Name+" = "+exprStr(fset, vs.Values[i]))
					}
				}
			}
		}
		f.strList("rpcsrvNameConsts", consts)
		// the struct tags of jsonrpcMessage
		var fields []string
		ast.Inspect(jf, func(n ast.Node) bool {
			ts, ok := n.(*ast.TypeSpec)
			if !ok || ts.Name.Name != "jsonrpcMessage" {
				return true
			}
			for _, fl := range ts.Type.(*ast.StructType).Fields.List {
				tag := ""
				if fl.Tag != nil {
					tag = fl.Tag.Value
				}
				fields = append(fields, fl.Names[0].Name+" "+exprStr(fset, fl.Type)+" "+tag)
			}
			return false
		})
		f.strList("rpcsrvMessageFields", fields)

		// handler.go
		hb, err := need(hf, "handler", "handleBatch")
		if err != nil {
			return nil, err
		}
		// heads of the top-level statements of handleBatch: "if <cond> => return" when the body of an if ends in return
		head := func(st ast.Stmt) string {
			switch x := st.(type) {
			case *ast.IfStmt:
				s := "if " + exprStr(fset, x.Cond)
				if n := len(x.Body.List); n > 0 {
					if _, ok := x.Body.List[n-1].(*ast.ReturnStmt); ok {
						s += " => return"
					}
				}
				return s
			case *ast.RangeStmt:
				body := make([]string, len(x.Body.List))
				for i, b := range x.Body.List {
					body[i] = exprStr(fset, b)
				}
				return "range " + exprStr(fset, x.X) + " { " + strings.Join(body, "; ") + " }"
			case *ast.ExprStmt:
				if c, ok := x.X.(*ast.CallExpr); ok {
					return "call " + exprStr(fset, c.Fun)
				}
			}
			return exprStr(fset, st)
		}
		var hbTop []string
		for _, st := range hb.Body.List {
			hbTop = append(hbTop, head(st))
		}
		f.raw("-- rpc/server/handler.go handleBatch: heads of the top-level statements\n")
		f.strList("rpcsrvHandleBatchTop", hbTop)
		switchCases := func(fd *ast.FuncDecl) []string {
			var out []string
			ast.Inspect(fd.Body, func(n ast.Node) bool {
				sw, ok := n.(*ast.SwitchStmt)
				if !ok {
					return true
				}
				for _, cc := range sw.Body.List {
					c := cc.(*ast.CaseClause)
					label := "default"
					if len(c.List) > 0 {
						label = exprStr(fset, c.List[0])
					}
					var rets []string
					for _, st := range c.Body {
						ast.Inspect(st, func(m ast.Node) bool {
							if r, ok := m.(*ast.ReturnStmt); ok {
								rs := make([]string, len(r.Results))
								for i, e := range r.Results {
									rs[i] = exprStr(fset, e)
								}
								rets = append(rets, strings.Join(rs, ", "))
							}
							return true
						})
					}
					out = append(out, label+" => return "+strings.Join(rets, " | return "))
				}
				return false
			})
			return out
		}
		hi, err := need(hf, "handler", "handleImmediate")
		if err != nil {
			return nil, err
		}
		hc, err := need(hf, "handler", "handleCallMsg")
		if err != nil {
			return nil, err
		}
		f.raw("-- rpc/server/handler.go: the switches of handleImmediate and handleCallMsg (case => returns)\n")
		f.strList("rpcsrvHandleImmediateCases", switchCases(hi))
		f.strList("rpcsrvHandleCallMsgCases", switchCases(hc))
		// handleCall / handleSubscribe: every if condition and every return, in source order
		flow := func(fd *ast.FuncDecl) []string {
			var out []string
			ast.Inspect(fd.Body, func(n ast.Node) bool {
				switch x := n.(type) {
				case *ast.FuncLit:
					return false
				case *ast.IfStmt:
					out = append(out, "if "+exprStr(fset, x.Cond))
				case *ast.ReturnStmt:
					rs := make([]string, len(x.Results))
					for i, e := range x.Results {
						rs[i] = exprStr(fset, e)
					}
					out = append(out, "return "+strings.Join(rs, ", "))
				case *ast.AssignStmt:
					s := exprStr(fset, x)
					if strings.Contains(s, "namespace()") || strings.Contains(s, "parsePositionalArguments") || strings.Contains(s, "parseSubscriptionName") ||
						strings.Contains(s, "h.reg.") || strings.Contains(s, "unsubscribeCb") || strings.Contains(s, "args[1:]") {
						out = append(out, s)
					}
				}
				return true
			})
			return out
		}
		hcl, err := need(hf, "handler", "handleCall")
		if err != nil {
			return nil, err
		}
		hs, err := need(hf, "handler", "handleSubscribe")
		if err != nil {
			return nil, err
		}
		f.strList("rpcsrvHandleCallFlow", flow(hcl))
		f.strList("rpcsrvHandleSubscribeFlow", flow(hs))
		// service.go callback(): the −1 guard
		vf, err := parse("service.go")
		if err != nil {
			return nil, err
		}
		cbf, err := need(vf, "serviceRegistry", "callback")
		if err != nil {
			return nil, err
		}
		f.strList("rpcsrvRegistryCallbackFlow", flow(cbf))
		// server.go serveSingleRequest: ifs, returns, and the two dispatch calls
		ssr, err := need(sf, "Server", "serveSingleRequest")
		if err != nil {
			return nil, err
		}
		var ssrFlow []string
		ast.Inspect(ssr.Body, func(n ast.Node) bool {
			switch x := n.(type) {
			case *ast.IfStmt:
				ssrFlow = append(ssrFlow, "if "+exprStr(fset, x.Cond))
			case *ast.ExprStmt:
				ssrFlow = append(ssrFlow, exprStr(fset, x))
			case *ast.AssignStmt:
				ssrFlow = append(ssrFlow, exprStr(fset, x))
			}
			return true
		})
		f.raw("-- rpc/server/server.go serveSingleRequest: conditions, assignments and calls in source order\n")
		f.strList("rpcsrvServeSingleRequestFlow", ssrFlow)
		// errors.go: ErrorCode() of every error type, and the default
		var codes []string
		for _, d := range ef.Decls {
			switch x := d.(type) {
			case *ast.FuncDecl:
				if x.Name.Name == "ErrorCode" && x.Recv != nil && x.Body != nil && len(x.Body.List) == 1 {
					if r, ok := x.Body.List[0].(*ast.ReturnStmt); ok && len(r.Results) == 1 {
						codes = append(codes, strings.TrimPrefix(exprStrNoPos(x.Recv.List[0].Type), "*")+" "+exprStr(fset, r.Results[0]))
					}
				}
			case *ast.GenDecl:
				if x.Tok == token.CONST {
					for _, sp := range x.Specs {
						vs := sp.(*ast.ValueSpec)
						for i, n := range vs.Names {
							if n.Name == "defaultErrorCode" {
								codes = append(codes, n.Name+" "+exprStr(fset, vs.Values[i]))
							}
						}
					}
				}
			}
		}
		sort.Strings(codes)
		f.raw("-- rpc/server/errors.go: <error type> <code>\n")
		f.strList("rpcsrvErrorCodes", codes)
		// http.go: limits and the order of validateRequest
		var httpConsts []string
		for _, d := range tf.Decls {
			gd, ok := d.(*ast.GenDecl)
			if !ok {
				continue
			}
			for _, sp := range gd.Specs {
				vs, ok := sp.(*ast.ValueSpec)
				if !ok {
					continue
				}
				for i, n := range vs.Names {
					if (n.Name == "maxRequestContentLength" || n.Name == "contentType" || n.Name == "acceptedContentTypes") && i < len(vs.Values) {
						httpConsts = append(httpConsts, n.Name+" = "+exprStr(fset, vs.Values[i]))
					}
				}
			}
		}
		vr, err := need(tf, "", "validateRequest")
		if err != nil {
			return nil, err
		}
		f.raw("-- rpc/server/http.go: limits, and conditions / returns of validateRequest in source order\n")
		f.strList("rpcsrvHttpConsts", httpConsts)
		f.strList("rpcsrvValidateRequestFlow", flow(vr))
		return f, nil
	})
}
