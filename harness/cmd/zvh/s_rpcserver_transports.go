package main

import (
	"bytes"
	"encoding/json"
	"fmt"
	"io"
	"net"
	"net/http"
	"net/http/httptest"
	"os"
	"path/filepath"
	"strings"
	"time"

	"github.com/gorilla/websocket"

	rpcserver "github.com/zenon-network/go-zenon/rpc/server"
)

// ---------------------------------------------------------------------------------------------------
// Transports of the JSON-RPC server and the per-request monitor of the rpcserver stream (C18).
//
// What a request must get is derived from the request alone (JSON-RPC 2.0): a JSON value that is not a batch is one
// message; a batch is a non-empty array of messages (the empty batch is answered by one error object). A message that
// is an object with a method and no id is a notification: no answer. A message with an id, no method and a result or
// error member is a response of the peer: no answer. Every other message — calls, and every JSON value that is no
// request at all (null, numbers, strings, booleans, {}, [], nested arrays) — gets exactly one response object, with the
// id of the call (null if it has no usable id). A single message gets its response object, a batch gets one array of
// the response objects in order, or nothing when no element asks for an answer.
// ---------------------------------------------------------------------------------------------------

// rpcMsgShape mirrors the members JSON-RPC defines; used only to classify what was SENT.
type rpcMsgShape struct {
	Version string          `json:"jsonrpc,omitempty"`
	ID      json.RawMessage `json:"id,omitempty"`
	Method  string          `json:"method,omitempty"`
	Params  json.RawMessage `json:"params,omitempty"`
	Error   *struct {
		Code    int         `json:"code"`
		Message string      `json:"message"`
		Data    interface{} `json:"data,omitempty"`
	} `json:"error,omitempty"`
	Result json.RawMessage `json:"result,omitempty"`
}

type rpcExpect struct {
	valid   bool     // the body is one complete JSON value
	batch   bool     // top level is an array
	answers int      // number of response objects the request asks for
	ids     []string // expected id of every answer ("null" when the message has no usable id; "" = not checked)
}

func usableId(id json.RawMessage) bool { return len(id) > 0 && id[0] != '{' && id[0] != '[' }

func compactJSON(b []byte) string {
	var out bytes.Buffer
	if json.Compact(&out, b) != nil {
		return string(b)
	}
	return out.String()
}

// classifyMsg: does this message ask for an answer, and with which id
func classifyMsg(raw json.RawMessage) (answer bool, id string) {
	var m rpcMsgShape
	if err := json.Unmarshal(raw, &m); err != nil {
		// not an object of the right shape: whatever was decoded decides; the id is not checked
		if m.ID == nil && m.Method != "" {
			return false, ""
		}
		// a peer's response whose result / error member is of the wrong kind is still taken for a response (and dropped)
		if usableId(m.ID) && m.Method == "" && m.Params == nil && (m.Result != nil || m.Error != nil) {
			return false, ""
		}
		return true, ""
	}
	switch {
	case m.ID == nil && m.Method != "":
		return false, "" // notification
	case usableId(m.ID) && m.Method == "" && m.Params == nil && (m.Result != nil || m.Error != nil):
		return false, "" // a response
	case usableId(m.ID):
		return true, compactJSON(m.ID)
	default:
		return true, "null"
	}
}

func expectFor(body []byte) rpcExpect {
	dec := json.NewDecoder(bytes.NewReader(body))
	var raw json.RawMessage
	if err := dec.Decode(&raw); err != nil {
		return rpcExpect{}
	}
	// trailing bytes after the first value: a second message on a stream, ignored by HTTP — not a shape we judge
	if rest, _ := io.ReadAll(dec.Buffered()); len(bytes.TrimSpace(rest)) != 0 || dec.More() {
		return rpcExpect{}
	}
	t := bytes.TrimLeft(raw, " \t\r\n")
	if len(t) > 0 && t[0] == '[' {
		var elems []json.RawMessage
		if json.Unmarshal(raw, &elems) != nil {
			return rpcExpect{}
		}
		e := rpcExpect{valid: true, batch: true}
		if len(elems) == 0 {
			e.answers, e.ids = 1, []string{"null"}
			e.batch = false // answered by a single error object
			return e
		}
		for _, el := range elems {
			if a, id := classifyMsg(el); a {
				e.answers++
				e.ids = append(e.ids, id)
			}
		}
		return e
	}
	e := rpcExpect{valid: true}
	if a, id := classifyMsg(raw); a {
		e.answers, e.ids = 1, []string{id}
	}
	return e
}

// checkResponseObject: a JSON-RPC 2.0 response object; returns its id (compact) or a complaint
func checkResponseObject(raw json.RawMessage) (id string, isErr bool, problem string) {
	var m map[string]json.RawMessage
	if err := json.Unmarshal(raw, &m); err != nil {
		return "", false, "not a JSON object"
	}
	if v := compactJSON(m["jsonrpc"]); v != `"2.0"` {
		return "", false, "member jsonrpc is " + v
	}
	idRaw, hasId := m["id"]
	if !hasId {
		return "", false, "no id member"
	}
	_, hasRes := m["result"]
	errRaw, hasErr := m["error"]
	if hasRes == hasErr {
		return "", false, fmt.Sprintf("result present=%v, error present=%v (exactly one is required)", hasRes, hasErr)
	}
	if hasErr {
		var e struct {
			Code    *int64  `json:"code"`
			Message *string `json:"message"`
		}
		if json.Unmarshal(errRaw, &e) != nil || e.Code == nil || e.Message == nil {
			return "", true, "error member without integer code and string message"
		}
	}
	return compactJSON(idRaw), hasErr, ""
}

// judgeAnswer compares the text that came back with what the request asks for. "" = fine.
func judgeAnswer(e rpcExpect, resp string) string {
	t := strings.TrimSpace(resp)
	if e.answers == 0 {
		if t != "" {
			return fmt.Sprintf("the request asks for no answer (notifications / responses only) but got %.200s", t)
		}
		return ""
	}
	if t == "" {
		return fmt.Sprintf("the request asks for %d answer(s) and got none", e.answers)
	}
	var objs []json.RawMessage
	if e.batch {
		if json.Unmarshal([]byte(t), &objs) != nil {
			// a batch may also be refused as a whole by one error object
			if _, isErr, prob := checkResponseObject(json.RawMessage(t)); prob == "" && isErr {
				return ""
			}
			return fmt.Sprintf("the answer to a batch is neither an array of responses nor an error object: %.200s", t)
		}
	} else {
		objs = []json.RawMessage{json.RawMessage(t)}
	}
	if len(objs) != e.answers {
		return fmt.Sprintf("the request asks for %d answer(s), the reply holds %d: %.300s", e.answers, len(objs), t)
	}
	for i, o := range objs {
		id, _, prob := checkResponseObject(o)
		if prob != "" {
			return fmt.Sprintf("answer %d of %d is not a JSON-RPC response object (%s): %.200s", i+1, len(objs), prob, string(o))
		}
		// ids are compared as JSON values (the encoder of the server writes < > & U+2028 U+2029 of a string id as \u escapes)
		if e.ids[i] != "" && id != e.ids[i] && idToken(json.RawMessage(id), true) != idToken(json.RawMessage(e.ids[i]), true) {
			return fmt.Sprintf("answer %d of %d carries id %s, the message it answers has id %s", i+1, len(objs), id, e.ids[i])
		}
	}
	return ""
}

// ---- transports ------------------------------------------------------------------------------------

type rpcTransport interface {
	name() string
	stream() bool
	// send one request body; resp = the raw answer text ("" = none); how = "ok" | "http-<code>" | "closed" (stream: the
	// server closed the connection) | "timeout" | "transport-error: …" | "panic: …"
	send(body []byte, ctype string, e rpcExpect) (resp string, how string)
	close()
}

const sentinelMethod = `"method":"ledger.getFrontierMomentum","params":[]`

// --- HTTP, handler called in-process
type httpDirect struct{ srv *rpcserver.Server }

func (t *httpDirect) name() string { return "http-handler" }
func (t *httpDirect) stream() bool { return false }
func (t *httpDirect) close()       {}
func (t *httpDirect) send(body []byte, ctype string, _ rpcExpect) (resp string, how string) {
	how = "ok"
	if p := safely(func() {
		req := httptest.NewRequest(http.MethodPost, "/", bytes.NewReader(body))
		req.Header.Set("Content-Type", ctype)
		w := httptest.NewRecorder()
		t.srv.ServeHTTP(w, req)
		if w.Code != 200 {
			how = fmt.Sprintf("http-%d", w.Code)
		}
		resp = w.Body.String()
	}); p != "" {
		return "", "panic: " + p
	}
	return
}

// --- HTTP, real net/http server on the loopback interface
type httpReal struct {
	ts     *httptest.Server
	client *http.Client
}

func newHTTPReal(srv *rpcserver.Server) *httpReal {
	ts := httptest.NewUnstartedServer(srv)
	ts.Config.ErrorLog = nil
	ts.Start()
	return &httpReal{ts: ts, client: &http.Client{Timeout: 60 * time.Second}}
}
func (t *httpReal) name() string { return "http" }
func (t *httpReal) stream() bool { return false }
func (t *httpReal) close()       { t.ts.Close() }
func (t *httpReal) send(body []byte, ctype string, _ rpcExpect) (string, string) {
	r, err := t.client.Post(t.ts.URL, ctype, bytes.NewReader(body))
	if err != nil {
		return "", "transport-error: " + err.Error()
	}
	defer r.Body.Close()
	b, err := io.ReadAll(r.Body)
	if err != nil {
		return string(b), "transport-error: reading the response body: " + err.Error()
	}
	if r.StatusCode != 200 {
		return string(b), fmt.Sprintf("http-%d", r.StatusCode)
	}
	return string(b), "ok"
}

// --- stream transports: one long-lived connection carrying many requests; after every request a sentinel call with a
// fresh id is sent on the same connection, and messages are read until the sentinel's answer (and the answer the
// request asks for) have arrived
type streamConn interface {
	writeMsg(b []byte) error
	readMsg(deadline time.Time) ([]byte, error) // one JSON value
	close()
}

type streamTransport struct {
	label string
	dial  func() (streamConn, error)
	conn  streamConn
	seq   int
	H     uint64
	stop  func()
}

func (t *streamTransport) name() string { return t.label }
func (t *streamTransport) stream() bool { return true }
func (t *streamTransport) close() {
	if t.conn != nil {
		t.conn.close()
		t.conn = nil
	}
	if t.stop != nil {
		t.stop()
	}
}

func (t *streamTransport) send(body []byte, _ string, e rpcExpect) (resp string, how string) {
	if t.conn == nil {
		c, err := t.dial()
		if err != nil {
			return "", "transport-error: dial: " + err.Error()
		}
		t.conn = c
	}
	drop := func() {
		t.conn.close()
		t.conn = nil
	}
	// the writer runs beside the reader: on a synchronous pipe the server may answer (or give up) before it has consumed
	// everything that is being written
	t.seq++
	sid := fmt.Sprintf(`"zvh-sentinel-%d"`, t.seq)
	conn := t.conn
	wdone := make(chan error, 1)
	go func() {
		err := conn.writeMsg(body)
		if err == nil && e.valid {
			err = conn.writeMsg([]byte(`{"jsonrpc":"2.0","id":` + sid + `,` + sentinelMethod + `}`))
		}
		wdone <- err
	}()
	if !e.valid {
		// malformed text: an error response and / or a closed connection; a truncated message on a byte stream just waits
		// for its rest. Whatever comes within a short while is returned; the connection is given up afterwards.
		wait := 200*time.Millisecond + time.Duration(len(body)/20000)*time.Millisecond
		m, err := t.conn.readMsg(time.Now().Add(wait))
		drop()
		<-wdone
		switch {
		case err == nil:
			return string(m), "ok"
		case isTimeout(err):
			return "", "timeout"
		default:
			return "", "closed"
		}
	}
	defer func() {
		if t.conn == nil { // dropped: the writer ends with an error
			<-wdone
			return
		}
		select {
		case <-wdone:
		case <-time.After(60 * time.Second):
		}
	}()
	want := 1
	if e.answers > 0 {
		want = 2
	}
	gotSentinel := false
	var others []string
	deadline := time.Now().Add(60 * time.Second)
	for n := 0; n < want; n++ {
		m, err := t.conn.readMsg(deadline)
		if err != nil {
			drop()
			if isTimeout(err) {
				return strings.Join(others, "\n"), "timeout"
			}
			return strings.Join(others, "\n"), "closed"
		}
		var probe struct {
			ID     json.RawMessage `json:"id"`
			Result struct {
				Height uint64 `json:"height"`
			} `json:"result"`
		}
		if json.Unmarshal(m, &probe) == nil && compactJSON(probe.ID) == sid {
			gotSentinel = true
			if probe.Result.Height != t.H {
				return string(m), "sentinel-wrong"
			}
			continue
		}
		others = append(others, string(m))
	}
	if !gotSentinel {
		drop()
		return strings.Join(others, "\n"), "sentinel-missing"
	}
	return strings.Join(others, "\n"), "ok"
}

func isTimeout(err error) bool {
	ne, ok := err.(net.Error)
	return ok && ne.Timeout()
}

// raw byte stream (unix socket, in-process pipe): newline-separated JSON values
type rawStream struct {
	c   net.Conn
	dec *json.Decoder
}

func (r *rawStream) writeMsg(b []byte) error {
	r.c.SetWriteDeadline(time.Now().Add(60 * time.Second))
	_, err := r.c.Write(append(append([]byte{}, b...), '\n'))
	return err
}
func (r *rawStream) readMsg(deadline time.Time) ([]byte, error) {
	r.c.SetReadDeadline(deadline)
	var raw json.RawMessage
	if err := r.dec.Decode(&raw); err != nil {
		return nil, err
	}
	return raw, nil
}
func (r *rawStream) close() { r.c.Close() }

type wsStream struct{ c *websocket.Conn }

func (w *wsStream) writeMsg(b []byte) error {
	w.c.SetWriteDeadline(time.Now().Add(60 * time.Second))
	return w.c.WriteMessage(websocket.TextMessage, b)
}
func (w *wsStream) readMsg(deadline time.Time) ([]byte, error) {
	w.c.SetReadDeadline(deadline)
	_, m, err := w.c.ReadMessage()
	return m, err
}
func (w *wsStream) close() { w.c.Close() }

type rpcTransports struct {
	panics int
	c      *Ctx
	H      uint64
	list   []rpcTransport
	dir    string
}

func newRpcTransports(c *Ctx, srv *rpcserver.Server, H uint64) *rpcTransports {
	ts := &rpcTransports{c: c, H: H}
	ts.list = append(ts.list, &httpDirect{srv: srv}, newHTTPReal(srv))
	// WebSocket
	wsSrv := httptest.NewUnstartedServer(srv.WebsocketHandler([]string{"*"}))
	wsSrv.Config.ErrorLog = nil
	wsSrv.Start()
	ts.list = append(ts.list, &streamTransport{label: "websocket", H: H, stop: wsSrv.Close, dial: func() (streamConn, error) {
		d := websocket.Dialer{HandshakeTimeout: 20 * time.Second, ReadBufferSize: 1 << 16, WriteBufferSize: 1 << 16}
		conn, _, err := d.Dial("ws"+strings.TrimPrefix(wsSrv.URL, "http"), nil)
		if err != nil {
			return nil, err
		}
		conn.SetReadLimit(64 << 20)
		return &wsStream{conn}, nil
	}})
	// unix socket served by Server.ServeListener (what StartIPCEndpoint does)
	dir, err := os.MkdirTemp("", "zvipc")
	if err != nil {
		panic(err)
	}
	ts.dir = dir
	sock := filepath.Join(dir, "z.ipc")
	l, err := net.Listen("unix", sock)
	if err != nil {
		panic(err)
	}
	go srv.ServeListener(l)
	ts.list = append(ts.list, &streamTransport{label: "ipc", H: H, stop: func() { l.Close() }, dial: func() (streamConn, error) {
		conn, err := net.DialTimeout("unix", sock, 20*time.Second)
		if err != nil {
			return nil, err
		}
		d := json.NewDecoder(conn)
		return &rawStream{conn, d}, nil
	}})
	// Server.ServeCodec on an in-process pipe (what DialInProc does)
	ts.list = append(ts.list, &streamTransport{label: "pipe", H: H, dial: func() (streamConn, error) {
		p1, p2 := net.Pipe()
		go srv.ServeCodec(rpcserver.NewCodec(p1), 0)
		return &rawStream{p2, json.NewDecoder(p2)}, nil
	}})
	return ts
}

func (ts *rpcTransports) closeAll() {
	for _, t := range ts.list {
		safely(t.close)
	}
	if ts.dir != "" {
		os.RemoveAll(ts.dir)
	}
}

const healthReq = `{"jsonrpc":"2.0","id":7,"method":"ledger.getFrontierMomentum","params":[]}`

// healthy: a valid request on transport t is answered with the frontier
func (ts *rpcTransports) healthy(t rpcTransport, after string) bool {
	resp, how := t.send([]byte(healthReq), "application/json", expectFor([]byte(healthReq)))
	var out struct {
		Result struct {
			Height uint64 `json:"height"`
		} `json:"result"`
	}
	if how != "ok" || json.Unmarshal([]byte(resp), &out) != nil || out.Result.Height != ts.H {
		ts.c.Fail("C18: after the request [%s] the server no longer answers ledger.getFrontierMomentum correctly over %s (%s, body=%.160s)", after, t.name(), how, resp)
		return false
	}
	return true
}

func (ts *rpcTransports) allHealthy(after string) bool {
	for _, t := range ts.list {
		if !ts.healthy(t, after) {
			return false
		}
	}
	return true
}

// exchange sends one hostile body over t and judges what comes back. false = stop the stream.
func (ts *rpcTransports) exchange(t rpcTransport, kind string, body []byte, ctype string) bool {
	defer flushChildFails(ts.c)
	c := ts.c
	e := expectFor(body)
	desc := fmt.Sprintf("%s over %s len=%d %.200q", kind, t.name(), len(body), string(body))
	fmt.Println("REQ " + desc)
	os.Stdout.Sync()
	t0 := time.Now()
	resp, how := t.send(body, ctype, e)
	if kind == "structured" && e.valid {
		// the tie to the Lean dispatch model: the request as JSON tokens, the shape of the answer as read off the reply
		if toks, ok := jsonTokens(body); ok {
			fmt.Println("LINE rpc-req " + t.name() + " " + toks + " | " + observedShape(resp, how))
			c.Hit("rpc-req-line")
		}
	}
	if os.Getenv("ZVH_RPC_TIMING") != "" {
		c.HitN("time-ms-"+kind+"-"+t.name(), int(time.Since(t0).Milliseconds()))
	}
	c.Hit("transport-" + t.name())
	switch {
	case strings.HasPrefix(how, "panic"):
		// the handler called directly lets the panic out; a real net/http server recovers it and drops the connection, a
		// stream connection has nobody to recover it: the same body goes to those transports next
		c.Fail("C18: the JSON-RPC server panicked on request [%s]: %s", desc, how)
		ts.panics++
		return ts.panics < 3
	case strings.HasPrefix(how, "transport-error"):
		// HTTP: the request got no HTTP response at all (net/http recovered a panic of the handler, or the connection broke)
		c.Fail("C18: request [%s] got no response: %s", desc, how)
		return ts.allHealthy(desc)
	case strings.HasPrefix(how, "http-"):
		c.Hit("server-http-error")
		if !t.stream() && e.valid && ctype == "application/json" && len(body) <= rpcHTTPRequestLimit {
			c.Fail("C18: request [%s] is a JSON request below the size limit and was answered with %s %.120s", desc, how, resp)
		}
	case how == "sentinel-wrong" || how == "sentinel-missing":
		c.Fail("C18: after request [%s] a valid call on the same connection is not answered correctly (%s): %.200s", desc, how, resp)
		return false
	case how == "closed" || how == "timeout":
		if e.valid {
			c.Fail("C18: request [%s] is well-formed JSON; the server %s (%d answer(s) due, received so far: %.200s)", desc,
				map[string]string{"closed": "closed the connection instead of answering", "timeout": "did not answer within 60 s"}[how], e.answers, resp)
			return ts.allHealthy(desc)
		}
		c.Hit("stream-malformed-" + how)
	default: // "ok"
		switch {
		case e.valid && (t.stream() || ctype == "application/json"):
			if prob := judgeAnswer(e, resp); prob != "" {
				c.Fail("C18: request [%s]: %s", desc, prob)
			} else if e.answers == 0 {
				c.Hit("server-no-answer-due")
			} else if e.batch {
				c.Hit("server-batch-answered")
			} else {
				c.Hit("server-single-answered")
			}
		case strings.TrimSpace(resp) == "":
			c.Hit("server-empty")
		default:
			// malformed text that was answered: the answer must be a response object (or an array of them)
			tr := strings.TrimSpace(resp)
			ok := false
			if _, _, prob := checkResponseObject(json.RawMessage(tr)); prob == "" {
				ok = true
			} else {
				var arr []json.RawMessage
				if json.Unmarshal([]byte(tr), &arr) == nil && len(arr) > 0 {
					ok = true
					for _, o := range arr {
						if _, _, p := checkResponseObject(o); p != "" {
							ok = false
						}
					}
				}
			}
			if !ok {
				c.Fail("C18: the JSON-RPC server answered request [%s] with something that is neither a result nor an error object: %.200s", desc, tr)
			}
			c.Hit("server-malformed-answered")
		}
	}
	// HTTP has no connection to keep healthy: a valid request every few hostile ones
	if !t.stream() && c.R.Intn(5) == 0 && !ts.healthy(t, desc) {
		return false
	}
	return true
}

// ---- structured batch hostility -----------------------------------------------------------------------

type batchGen struct {
	c        *Ctx
	valid    []string
	addr     string
	k        int
	prelude  []string
	registry []rpcCallbackFact
}

// registryCall: a call of a registered method (or of a near miss of its name) with a random number of arguments of
// random kinds, an id of a random kind — the registry facts of the Lean model are exercised entry by entry
func (g *batchGen) registryCall() string {
	c := g.c
	if len(g.registry) == 0 {
		return g.call("1")
	}
	f := g.registry[c.R.Intn(len(g.registry))]
	name := f.service + "." + f.name
	switch c.R.Intn(12) {
	case 0:
		name = f.service + "." + strings.ToUpper(f.name[:1]) + f.name[1:] // the Go method name
	case 1:
		name = f.service + "." + f.name + "x"
	case 2:
		name = f.service + f.name // no separator between service and method
	case 3:
		name = f.name
	case 4:
		name = f.service + ".." + f.name
	case 5:
		name = strings.ToUpper(f.service) + "." + f.name
	case 6:
		name = f.service + "." + f.name + "."
	case 7:
		name = "." + f.service + "." + f.name
	}
	id := []string{`1`, `"a"`, `null`, `0`, `-3`, `2.5`, `1e2`, `true`, `false`, `""`, `"\u0041<>&"`, `"z z|z"`, `12345678901234567890123`}[c.R.Intn(13)]
	var params string
	switch c.R.Intn(8) {
	case 0:
		params = "" // absent
	case 1:
		params = `,"params":null`
	case 2:
		params = `,"params":{}`
	case 3:
		params = `,"params":"x"`
	default:
		k := c.R.Intn(len(f.optional) + 2)
		el := make([]string, k)
		for i := range el {
			el[i] = []string{`0`, `1`, `"x"`, `null`, `"` + g.addr + `"`, `true`, `[]`, `-1`, `4294967296`}[c.R.Intn(9)]
		}
		params = `,"params":[` + strings.Join(el, ",") + `]`
	}
	idm := `"id":` + id + `,`
	if c.R.Intn(10) == 0 {
		idm = "" // a notification
	}
	return `{"jsonrpc":"2.0",` + idm + `"method":"` + name + `"` + params + `}`
}

// elements: every JSON value kind, request-like objects of every class
func (g *batchGen) element() string {
	c := g.c
	junk := []string{`null`, `0`, `42`, `-1`, `1.5e3`, `1e400`, `""`, `"x"`, `"ledger.getFrontierMomentum"`, `true`, `false`, `{}`, `[]`, `[[]]`, `[null]`, `[1,2]`,
		`{"foo":1}`, `{"id":1}`, `{"id":null}`, `{"jsonrpc":"2.0"}`, `{"method":5,"id":1}`, `{"id":{"a":1},"method":"ledger.getFrontierMomentum"}`,
		`{"id":[1],"method":"ledger.getFrontierMomentum","params":[]}`, `{"jsonrpc":"2.0","id":5,"result":1}`, `{"jsonrpc":"2.0","id":5,"error":{"code":1,"message":"x"}}`,
		`{"jsonrpc":"2.0","id":null,"method":"ledger.getFrontierMomentum","params":[]}`, `{"jsonrpc":"1.0","id":3,"method":"ledger.getFrontierMomentum","params":[]}`,
		`{"jsonrpc":"2.0","id":4,"method":"ledger.getFrontierMomentum","params":{"a":1}}`, `{"jsonrpc":"2.0","id":4,"method":"ledger.getFrontierMomentum","params":null}`,
		`{"jsonrpc":"2.0","id":4,"method":"ledger.getFrontierMomentum","params":[1,2,3]}`, `{"jsonrpc":"2.0","id":4,"method":"","params":[]}`,
		`{"jsonrpc":"2.0","id":4,"method":".","params":[]}`, `{"jsonrpc":"2.0","id":4,"method":"ledger.","params":[]}`, `{"jsonrpc":"2.0","id":4,"method":"nosuch.method"}`,
		`{"jsonrpc":"2.0","id":4,"method":"nodots"}`, `{"jsonrpc":"2.0","id":4,"method":"ledger.subscribe","params":["momentums"]}`,
		`{"jsonrpc":"2.0","id":4,"method":".subscribe","params":["x"]}`, `{"jsonrpc":"2.0","id":4,"method":"x.subscribe","params":[]}`, `{"jsonrpc":"2.0","id":4,"method":"x.subscribe","params":[1]}`,
		`{"jsonrpc":"2.0","id":4,"method":"ledger.unsubscribe","params":["0x1"]}`, `{"jsonrpc":"2.0","id":4,"method":"ledger.unsubscribe","params":[1]}`,
		`{"jsonrpc":"2.0","method":"ledger.subscription","params":{"subscription":"0x1","result":1}}`, `{"jsonrpc":"2.0","method":"ledger.subscription","params":5}`,
		`{"jsonrpc":"2.0","id":"s","method":"rpc.modules","params":[]}`, `{"jsonrpc":"2.0","id":1.5,"method":"ledger.getFrontierMomentum","params":[]}`,
		`{"jsonrpc":"2.0","id":-7,"method":"ledger.getFrontierMomentum","params":[]}`, `{"jsonrpc":"2.0","id":"","method":"ledger.getFrontierMomentum","params":[]}`,
		`{"jsonrpc":"2.0","id":true,"method":"ledger.getFrontierMomentum","params":[]}`,
		`{"jsonrpc":"2.0","id":9,"method":"ledger.getMomentumsByPage","params":[0,4294967296]}`, `{"jsonrpc":"2.0","id":9,"method":"ledger.getMomentumsByPage","params":[-1,1]}`,
		`{"jsonrpc":"2.0","id":9,"method":"ledger.getMomentumsByPage","params":["0","1"]}`, `{"jsonrpc":"2.0","id":9,"method":"ledger.getMomentumsByPage","params":[null,null]}`,
		`{"jsonrpc":"2.0","id":9,"method":"ledger.getAccountBlocksByPage","params":["z1qqqqqqqqqqqqqqqqqqqqqqqqqqqqqqqqqqqqqq",0,1]}`,
		`{"jsonrpc":"2.0","id":9,"method":"ledger.getAccountBlocksByPage","params":[null,0,1]}`,
		// how encoding/json fills the message: member names fold, repeated members overwrite, kinds that do not fit are skipped
		`{"JSONRPC":"2.0","ID":7,"Method":"ledger.getFrontierMomentum","PARAMS":[]}`, `{"jsonrpc":"2.0","Id":7,"METHOD":"ledger.getFrontierMomentum"}`,
		`{"id":1,"id":{"a":1},"method":"ledger.getFrontierMomentum"}`, `{"id":{"a":1},"id":2,"method":"ledger.getFrontierMomentum"}`, `{"id":1,"id":null,"method":"ledger.getFrontierMomentum"}`,
		`{"id":1,"method":"ledger.getFrontierMomentum","method":5}`, `{"id":1,"method":"ledger.getFrontierMomentum","method":null}`, `{"id":1,"method":"nosuch.x","method":"ledger.getFrontierMomentum"}`,
		`{"id":1,"method":"ledger.getFrontierMomentum","method":""}`, `{"id":1,"method":["ledger.getFrontierMomentum"]}`, `{"id":1,"method":{"a":"b"}}`, `{"id":1,"method":true}`,
		`{"id":1,"error":5}`, `{"id":1,"error":"x"}`, `{"id":1,"error":[1]}`, `{"id":1,"error":null}`, `{"id":1,"error":{}}`, `{"id":1,"error":{},"error":null}`, `{"id":1,"error":null,"error":true}`,
		`{"id":1,"error":{"code":"x"}}`, `{"id":1,"result":null}`, `{"id":1,"result":{"a":[1,2]}}`, `{"id":null,"result":1}`, `{"id":true,"result":1}`, `{"id":[1],"result":1}`, `{"result":1}`, `{"error":{"code":1,"message":"x"}}`,
		`{"id":1,"result":1,"params":null}`, `{"id":1,"result":1,"params":[]}`, `{"id":1,"result":1,"method":""}`, `{"id":1,"result":1,"method":5}`, `{"id":1,"result":1,"method":"ledger.getFrontierMomentum"}`,
		`{"id":1,"result":1,"error":{"code":1,"message":"x"}}`, `{"Result":1,"ID":"r"}`, "{\"re\u017fult\":1,\"id\":1}", "{\"j\u017fonrpc\":\"2.0\",\"id\":1,\"method\":\"ledger.getFrontierMomentum\",\"param\u017f\":[]}",
		"{\"id\":1,\"method\":\"ledger.getFrontierMomentum\",\"param\u017f\":{}}", `{"id ":1,"method":"ledger.getFrontierMomentum"}`, `{"":1,"method":"ledger.getFrontierMomentum"}`,
		`{"jsonrpc":5,"id":1,"method":"ledger.getFrontierMomentum"}`, `{"jsonrpc":null,"id":1,"method":"ledger.getFrontierMomentum"}`, `{"jsonrpc":"3.0","id":1,"method":"ledger.getFrontierMomentum"}`,
		// ids of every kind
		`{"id":false,"method":"ledger.getFrontierMomentum"}`, `{"id":1.50e+3,"method":"ledger.getFrontierMomentum"}`, `{"id":-0,"method":"ledger.getFrontierMomentum"}`, `{"id":1e400,"method":"ledger.getFrontierMomentum"}`,
		`{"id":"\u0041\ud800<>&\u2028","method":"ledger.getFrontierMomentum"}`, `{"id":"a b|c","method":"ledger.getFrontierMomentum"}`, `{"id":{},"method":"ledger.getFrontierMomentum"}`, `{"id":[],"method":"ledger.getFrontierMomentum"}`,
		`{"id":[],"method":"nosuch.x"}`, `{"id":{"id":1}}`, `{"id":"` + strings.Repeat("i", 3000) + `","method":"ledger.getFrontierMomentum"}`, `{"id":123456789012345678901234567890,"method":"nosuch"}`,
		// method names
		`{"id":1,"method":"subscribe","params":["momentums"]}`, `{"id":1,"method":"ledger.subscribe"}`, `{"id":1,"method":"ledger.subscribe","params":null}`, `{"id":1,"method":"ledger.subscribe","params":{}}`,
		`{"id":1,"method":"ledger.subscribe","params":[null]}`, `{"id":1,"method":"ledger.subscribe","params":[["momentums"]]}`, `{"id":1,"method":"ledger.subscribe","params":["momentums",1,2]}`, `{"method":"ledger.subscribe","params":["momentums"]}`,
		`{"method":"x.subscribe"}`, `{"id":1,"method":"a.b.c.subscribe","params":["x"]}`, `{"id":1,"method":"unsubscribe","params":["0x1"]}`, `{"id":1,"method":".unsubscribe"}`, `{"id":1,"method":"x.unsubscribe","params":null}`,
		`{"id":1,"method":"x.unsubscribe","params":["a","b"]}`, `{"id":1,"method":"x.unsubscribe","params":{}}`, `{"method":"x.unsubscribe","params":["0x1"]}`, `{"id":1,"method":"x.subscription"}`, `{"method":".subscription"}`,
		`{"method":"subscription"}`, `{"id":1,"method":"ledger.string"}`, `{"id":1,"method":"ledger.String"}`, `{"id":1,"method":"rpc.modules"}`, `{"id":1,"method":"rpc.modules","params":[1]}`, `{"id":1,"method":"rpc.Modules"}`,
		`{"id":1,"method":"ledger"}`, `{"id":1,"method":"ledger.getFrontierMomentum "}`, `{"id":1,"method":" ledger.getFrontierMomentum"}`, `{"id":1,"method":"ledger.getFrontierMomentum.subscribe"}`,
		`{"id":1,"method":"embedded.token.getAll","params":[0,1]}`, `{"id":1,"method":"embedded.token.getAll","params":[0]}`, `{"id":1,"method":"embedded.token.getAll","params":[0,1,2]}`, `{"id":1,"method":"embedded.token.getAll"}`,
		`{"id":1,"method":"embedded.getAll","params":[0,1]}`, `{"id":1,"method":"token.getAll","params":[0,1]}`, `{"id":1,"method":"embedded.token..getAll","params":[0,1]}`, `{"id":1,"method":"ledger.publishRawTransaction"}`,
		`{"id":1,"method":"ledger.publishRawTransaction","params":[null]}`, `{"id":1,"method":"ledger.publishRawTransaction","params":[1]}`, `{"id":1,"method":"ledger.publishRawTransaction","params":[{},{}]}`,
		"{\"jsonrpc\":\"2.0\",\"id\":9,\"method\":\"ledger.getFrontier\xffMomentum\",\"params\":[]}", "\"\xff\xfe\"", "{\"jsonrpc\":\"2.0\",\"id\":\"\xc3\x28\",\"method\":\"ledger.getFrontierMomentum\",\"params\":[]}",
	}
	switch c.R.Intn(14) {
	case 0, 1, 2:
		return g.valid[c.R.Intn(len(g.valid))]
	case 12, 13:
		return g.registryCall()
	case 3:
		return `{"jsonrpc":"2.0","method":"ledger.getFrontierMomentum","params":[]}` // notification
	case 4:
		d := []int{2, 10, 100, 1000, 5000}[c.R.Intn(5)]
		return strings.Repeat("[", d) + strings.Repeat("]", d)
	case 5:
		d := []int{2, 10, 100, 1000, 4000}[c.R.Intn(5)]
		return `{"jsonrpc":"2.0","id":6,"method":"ledger.getMomentumsByPage","params":[` + strings.Repeat(`{"a":`, d) + `1` + strings.Repeat(`}`, d) + `,1]}`
	default:
		return junk[c.R.Intn(len(junk))]
	}
}

func (g *batchGen) call(id string) string {
	return `{"jsonrpc":"2.0","id":` + id + `,"method":"ledger.getFrontierMomentum","params":[]}`
}

// next: the shapes in turn (the stream presents each body to every transport)
func (g *batchGen) next() []byte {
	c := g.c
	// first: every JSON value kind as the only element, after and before a valid call, as the single message
	if g.prelude == nil && g.k == 0 {
		for _, x := range []string{`null`, `0`, `"x"`, `true`, `{}`, `[]`, `[[]]`, `1.5`, `false`} {
			g.prelude = append(g.prelude, "["+x+"]", "["+g.call("1")+","+x+"]", "["+x+","+g.call("1")+"]", "["+g.call("1")+","+x+","+g.call("2")+"]", x)
		}
	}
	if len(g.prelude) > 0 {
		b := g.prelude[0]
		g.prelude = g.prelude[1:]
		if len(g.prelude) == 0 {
			g.k = 1
		}
		return []byte(b)
	}
	var body string
	g.k++
	switch g.k % 12 {
	case 0: // a single non-request value / hostile single message
		body = g.element()
	case 1: // one junk element at every position next to valid calls
		n := 1 + c.R.Intn(4)
		pos := c.R.Intn(n + 1)
		junk := g.element()
		var el []string
		for i := 0; i <= n; i++ {
			if i == pos {
				el = append(el, junk)
			}
			if i < n {
				el = append(el, g.call(fmt.Sprint(100+i)))
			}
		}
		body = "[" + strings.Join(el, ",") + "]"
	case 2: // a batch of one element
		body = "[" + g.element() + "]"
	case 3:
		body = "[]"
	case 4: // notifications only
		n := 1 + c.R.Intn(5)
		el := make([]string, n)
		for i := range el {
			el[i] = `{"jsonrpc":"2.0","method":"ledger.getFrontierMomentum","params":[]}`
		}
		body = "[" + strings.Join(el, ",") + "]"
	case 5: // duplicate ids
		id := []string{`1`, `"a"`, `null`, `0`}[c.R.Intn(4)]
		n := 2 + c.R.Intn(4)
		el := make([]string, n)
		for i := range el {
			el[i] = g.call(id)
		}
		body = "[" + strings.Join(el, ",") + "]"
	case 6: // huge batch
		n := []int{30, 60, 100, 100, 300, 1000}[c.R.Intn(6)]
		el := make([]string, n)
		for i := range el {
			el[i] = g.call(fmt.Sprint(i))
			if c.R.Intn(50) == 0 {
				el[i] = g.element()
			}
		}
		body = "[" + strings.Join(el, ",") + "]"
	case 7: // junk only
		n := 1 + c.R.Intn(6)
		el := make([]string, n)
		for i := range el {
			el[i] = g.element()
		}
		body = "[" + strings.Join(el, ",") + "]"
	case 8: // whitespace around and inside
		body = " \n\t[ " + g.call("1") + " ,\r\n " + g.element() + " ] \n"
	case 9: // truncated batch / trailing garbage (malformed text)
		full := "[" + g.call("1") + "," + g.element() + "," + g.call("2") + "]"
		if c.R.Intn(2) == 0 {
			body = full[:1+c.R.Intn(len(full)-1)]
		} else {
			body = full + []string{"]", ",", "}", "x", "\x00"}[c.R.Intn(5)]
		}
	case 10: // mixed: calls, notifications, responses, junk
		n := 2 + c.R.Intn(8)
		el := make([]string, n)
		for i := range el {
			el[i] = g.element()
		}
		body = "[" + strings.Join(el, ",") + "]"
	default: // nested batch
		body = "[[" + g.call("1") + "],[" + g.element() + "]]"
	}
	return []byte(body)
}
