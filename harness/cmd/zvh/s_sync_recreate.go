package main

import (
	"fmt"
	"math/big"
	"time"

	"github.com/zenon-network/go-zenon/chain"
	g "github.com/zenon-network/go-zenon/chain/genesis/mock"
	"github.com/zenon-network/go-zenon/chain/nom"
	"github.com/zenon-network/go-zenon/common/types"
	"github.com/zenon-network/go-zenon/vm/constants"
	"github.com/zenon-network/go-zenon/vm/embedded/definition"
)

// ---------------------------------------------------------------------------------------------------
// sync stream (C02), histories in which ledger keys are DELETED AND CREATED AGAIN, and blocks whose confirmation is
// delayed past such a re-creation.
//
// Random traffic (produceTrafficRC with a *syncRecreate): CancelFuse of fusions the traffic made earlier (and of the two
// genesis fusions with a known id), Undelegate, new fusions for beneficiaries that had one before, DepositQsr / WithdrawQsr at
// the pillar and sentinel contracts (the deposit entry is deleted by the withdrawal and created again by the next deposit).
// Stake entries are not in the family: CancelStake only marks the entry, and entry ids are never reused. The fusion time lock
// constants.FuseExpiration is a package variable of the real code; syncHistory sets it to 1..4 momentums for the run.
//
// Directed sub-scenario (one per history), fuse family:
//
//	h_a        plasma is fused for X (an account without any other plasma: User6..User9), the entry of X is created
//	V          a momentum at which the entry exists and every earlier block of X is confirmed
//	h_d > V    the fusion is cancelled: the entry of X is deleted            (V is 1..40 momentums below h_d)
//	           R - a block of X (receive of an old send, or a send) that ACKNOWLEDGES V - reaches the producer while its
//	           frontier is in [h_d, h_r): valid, X has the plasma of the first fusion at V
//	h_r > h_d  plasma is fused for X again: the entry is created again; the pillar that produces h_r (and 0..2 more
//	           momentums) has not seen R yet, so R is left out
//	h_c > h_r  R is confirmed
//
// delegation family: X delegates (entry exists at V), undelegates (deleted), delegates again (re-created); no reader block
// (no account block reads a delegation entry at its acknowledged momentum), the historical-view monitor covers it.
//
// A follower that gets R by gossip when the producer got it executes it on the frontier the producer had; a follower
// that meets R only inside momentum h_c executes it with the frontier at h_c-1, past the re-creation. Both must accept.
//
// Historical-view monitor (model-free; "answer every ledger query identically"): the ledger as of momentum h is what the
// frontier ledger was when h was the frontier, whatever the frontier is when the question is asked.
// ---------------------------------------------------------------------------------------------------

type rcFusion struct {
	owner, beneficiary types.Address
	id                 types.Hash
	cancels            int
}

// one directed (family, key, V): the value the key had when V was the producer's frontier
type rcProbe struct {
	family string
	x      types.Address
	v      types.HashHeight
	value  string
	hd, hr uint64 // first momentum at which the key is absent / present again (0: shape not reached)
	hc     uint64 // momentum that confirms the delayed reader block (0: none)
}

type syncRecreate struct {
	c        *Ctx
	n        *Node
	arrival  map[types.Hash]uint64 // frontier height of the producer when the block reached it
	withheld map[types.Hash]bool   // blocks the pillar producing the next momentum has not seen yet
	reserved map[types.Address]bool
	fusions  []*rcFusion
	probes   []rcProbe
	at       map[int]bool // traffic steps before which a directed scenario runs (one per ~120 steps)
	// set by produceTrafficRC
	submit func(tpl *nom.AccountBlock) *nom.AccountBlock
	step   func(allowMomentum bool) bool
}

func newSyncRecreate(c *Ctx, n *Node, steps int) *syncRecreate {
	rc := &syncRecreate{c: c, n: n, arrival: map[types.Hash]uint64{}, withheld: map[types.Hash]bool{}, reserved: map[types.Address]bool{}}
	rc.at = map[int]bool{}
	for k := 0; k < 1+steps/120; k++ {
		rc.at[5+c.R.Intn(maxInt(steps-10, 1))] = true
	}
	// the two genesis fusions that carry an id (expiration height 0)
	rc.fusions = append(rc.fusions,
		&rcFusion{owner: g.User1.Address, beneficiary: g.User1.Address, id: types.HexToHashPanic("117613e734b6cb0fd7b7583f5b0e863a3f0c856cd32fa36f1b60b464d068c5a6"), cancels: 1},
		&rcFusion{owner: g.User2.Address, beneficiary: g.User2.Address, id: types.HexToHashPanic("3d3179e499f839b47c60216b57f79e41264d408e2f21aa6f5462f25d5e094924"), cancels: 1})
	return rc
}

// readings of the two key families on a momentum store
func rcFused(st interface {
	GetStakeBeneficialAmount(types.Address) (*big.Int, error)
}, x types.Address) string {
	a, err := st.GetStakeBeneficialAmount(x)
	if err != nil {
		return "error:" + err.Error()
	}
	return amt(a)
}

func rcDelegation(ch chain.Chain, id types.HashHeight, x types.Address) (s string) {
	if p := safely(func() {
		st := ch.GetMomentumStore(id)
		if st == nil {
			s = "no-store"
			return
		}
		d, err := definition.GetDelegationInfo(st.GetAccountStore(types.PillarContract).Storage(), x)
		switch {
		case err == constants.ErrDataNonExistent:
			s = "absent"
		case err != nil:
			s = "error:" + err.Error()
		default:
			s = d.Name
		}
	}); p != "" {
		s = "panic:" + firstLine300(p)
	}
	return s
}

func rcRead(ch chain.Chain, p rcProbe) (s string) {
	if p.family == "delegation" {
		return rcDelegation(ch, p.v, p.x)
	}
	if pn := safely(func() {
		st := ch.GetMomentumStore(p.v)
		if st == nil {
			s = "no-store"
			return
		}
		s = rcFused(st, p.x)
	}); pn != "" {
		s = "panic:" + firstLine300(pn)
	}
	return s
}

// momentum produces the next momentum of the producer; blocks in rc.withheld (and what depends on them) are left out:
// the pillar of that slot has not received them yet.
func (rc *syncRecreate) momentum() error {
	if len(rc.withheld) == 0 {
		_, err := rc.n.Momentum()
		return err
	}
	_, err := rc.n.momentumWithout(rc.withheld)
	if err == nil {
		rc.c.Hit("momentum-without-withheld-block")
	}
	return err
}

// momentumWithout is pillar/worker.go work(): generateMomentum (content = GetNewMomentumContent minus the blocks this
// pillar has not seen, their descendants in the account chain and the receives of them), then the auto-receive phase
// (generateNext for every embedded contract until nothing is left). The Update calls of the producer are left out.
func (n *Node) momentumWithout(skip map[types.Hash]bool) (dm *nom.DetailedMomentum, err error) {
	if p := safely(func() {
		ch := n.Chain()
		prev, e := ch.GetFrontierMomentumStore().GetFrontierMomentum()
		if e != nil {
			err = e
			return
		}
		tsec := int64(prev.TimestampUnix) + 10
		exp, e := n.Z.Consensus().GetMomentumProducer(time.Unix(tsec, 0))
		if e != nil || exp == nil {
			err = fmt.Errorf("no producer for the next slot: %v", e)
			return
		}
		kp := keyOf(*exp)
		if kp == nil {
			err = fmt.Errorf("no key for the elected pillar")
			return
		}
		func() {
			ins := ch.AcquireInsert("zvh momentum of a pillar that misses blocks")
			defer ins.Unlock()
			gone := map[types.Hash]bool{}
			cut := map[types.Address]uint64{}
			var blocks []*nom.AccountBlock
			for _, b := range ch.GetNewMomentumContent() {
				h, cutHere := cut[b.Address]
				drop := skip[b.Hash] || (cutHere && b.Height > h) || (b.IsReceiveBlock() && gone[b.FromBlockHash])
				if drop {
					gone[b.Hash] = true
					for _, d := range b.DescendantBlocks {
						gone[d.Hash] = true
					}
					if !cutHere || b.Height < h {
						cut[b.Address] = b.Height
					}
					continue
				}
				blocks = append(blocks, b)
			}
			m := &nom.Momentum{ChainIdentifier: ch.ChainIdentifier(), PreviousHash: prev.Hash, Height: prev.Height + 1,
				TimestampUnix: uint64(tsec), Content: nom.NewMomentumContent(blocks), Version: 1}
			m.EnsureCache()
			tx, e := n.Sup.GenerateMomentum(&nom.DetailedMomentum{Momentum: m, AccountBlocks: blocks}, kp.Signer)
			if e != nil {
				err = e
				return
			}
			err = ch.AddMomentumTransaction(ins, tx)
		}()
		if err != nil {
			return
		}
		st := ch.GetFrontierMomentumStore()
		fm, e := st.GetFrontierMomentum()
		if e != nil {
			err = e
			return
		}
		if dm, err = st.PrefetchMomentum(fm); err != nil {
			return
		}
		// auto-receive phase
		for {
			one := false
			for _, ca := range types.EmbeddedContracts {
				ins := ch.AcquireInsert("zvh contract-generator")
				hd := ch.GetFrontierAccountStore(ca).SequencerFront(st.GetAccountMailbox(ca))
				if hd == nil {
					ins.Unlock()
					continue
				}
				send, e := st.GetAccountBlock(*hd)
				if e != nil || send == nil {
					ins.Unlock()
					err = fmt.Errorf("sequencer entry without block: %v", e)
					return
				}
				res, e := n.Sup.GenerateAutoReceive(send)
				if e != nil || res == nil || res.Transaction == nil {
					ins.Unlock()
					err = fmt.Errorf("GenerateAutoReceive(%s): %v", addrName(ca), e)
					return
				}
				e = ch.AddAccountBlockTransaction(ins, res.Transaction)
				ins.Unlock()
				if e != nil {
					err = fmt.Errorf("inserting the receive block of %s: %v", addrName(ca), e)
					return
				}
				one = true
			}
			if !one {
				break
			}
		}
	}); p != "" {
		return nil, fmt.Errorf("panic: %s", p)
	}
	if err == nil && n.OnMomentum != nil {
		n.OnMomentum(dm)
	}
	return dm, err
}

// momentums produces k momentums with some momentum-free traffic between them; false when production failed
func (rc *syncRecreate) momentums(k int) bool {
	for i := 0; i < k; i++ {
		for j := rc.c.R.Intn(3); j > 0; j-- {
			rc.step(false)
		}
		if rc.momentum() != nil {
			return false
		}
	}
	return true
}

// until produces momentums (at most max) until cond holds on the producer's frontier
func (rc *syncRecreate) until(max int, cond func() bool) bool {
	for i := 0; i < max; i++ {
		if cond() {
			return true
		}
		if !rc.momentums(1) {
			return false
		}
	}
	return cond()
}

func (rc *syncRecreate) confirmed(h types.Hash) bool {
	b, _ := rc.n.Chain().GetFrontierMomentumStore().GetAccountBlockByHash(h)
	return b != nil
}

func (rc *syncRecreate) pickGap() int {
	gaps := []int{0, 0, 1, 1, 2, 3, 4, 6, 9, 14, 22, 39}
	if rc.c.Tier != "thorough" {
		gaps = gaps[:len(gaps)-2+rc.c.R.Intn(3)] // the two longest less often in the quick tier
	}
	return gaps[rc.c.R.Intn(len(gaps))]
}

func (rc *syncRecreate) directed() {
	if rc.c.R.Intn(3) == 0 {
		rc.directedDelegation()
	} else {
		rc.directedFuse()
	}
}

func (rc *syncRecreate) qsrOwner() types.Address {
	owners := []types.Address{g.User1.Address, g.User2.Address, g.User3.Address, g.User5.Address}
	for try := 0; try < 6; try++ {
		o := owners[rc.c.R.Intn(len(owners))]
		bal, _ := rc.n.Chain().GetFrontierAccountStore(o).GetBalance(types.QsrTokenStandard)
		if bal != nil && bal.Cmp(big.NewInt(200*g.Zexp)) > 0 && rcFused(rc.n.Chain().GetFrontierMomentumStore(), o) != "0" {
			return o // has QSR and (its own fusion not being cancelled) plasma
		}
	}
	return g.User1.Address
}

// fuseFor submits a fusion of 10*units QSR for x (a second and third owner are tried when the first is refused, e.g. for want of plasma)
func (rc *syncRecreate) fuseFor(x types.Address, units int) *nom.AccountBlock {
	for try := 0; try < 3; try++ {
		if b := rc.submit(&nom.AccountBlock{BlockType: nom.BlockTypeUserSend, Address: rc.qsrOwner(), ToAddress: types.PlasmaContract, TokenStandard: types.QsrTokenStandard,
			Amount: big.NewInt(int64(10*units) * g.Zexp), Data: definition.ABIPlasma.PackMethodPanic(definition.FuseMethodName, x)}); b != nil {
			return b
		}
	}
	return nil
}

func (rc *syncRecreate) directedFuse() {
	c, n := rc.c, rc.n
	xs := []types.Address{g.User6.Address, g.User7.Address, g.User8.Address, g.User9.Address}
	// a beneficiary without any fusion at the moment (the random traffic fuses for User6 / User7 now and then)
	x := xs[c.R.Intn(len(xs))]
	for try := 0; try < len(xs) && rcFused(n.Chain().GetFrontierMomentumStore(), x) != "0"; try++ {
		x = xs[(try+c.R.Intn(len(xs)))%len(xs)]
	}
	rc.reserved[x] = true
	defer delete(rc.reserved, x)
	defer func() { rc.withheld = map[types.Hash]bool{} }()
	fused := func() string { return rcFused(n.Chain().GetFrontierMomentumStore(), x) }
	if fused() != "0" {
		c.Hit("recreate-fuse-beneficiary-busy")
		return
	}
	readerIsSend := c.R.Intn(2) == 0
	funders := []types.Address{g.User1.Address, g.User2.Address, g.Pillar1.Address, g.Pillar2.Address}
	fund := func() *nom.AccountBlock {
		tok := types.ZnnTokenStandard
		if c.R.Intn(3) == 0 {
			tok = types.QsrTokenStandard
		}
		from := funders[c.R.Intn(len(funders))]
		if tok == types.QsrTokenStandard {
			from = rc.qsrOwner()
		}
		return rc.submit(&nom.AccountBlock{BlockType: nom.BlockTypeUserSend, Address: from, ToAddress: x, TokenStandard: tok, Amount: big.NewInt(int64(1+c.R.Intn(50)) * g.Zexp)})
	}
	s1 := fund()
	for try := 0; s1 == nil && try < 2; try++ {
		s1 = fund()
	}
	if s1 == nil {
		c.Hit("recreate-aborted-funding-send")
		return
	}
	// first fusion
	units := 1 + c.R.Intn(5)
	f1 := rc.fuseFor(x, units)
	if f1 == nil || !rc.until(6, func() bool { return fused() != "0" && rc.confirmed(s1.Hash) }) {
		c.Hit("recreate-aborted-first-fusion")
		return
	}
	ha := n.Height()
	if readerIsSend {
		// X needs a balance: it receives s1 now (confirmed at or below V, so the plasma is free again at V) and R spends from it
		at := n.Height()
		r0, err := n.Submit(&nom.AccountBlock{BlockType: nom.BlockTypeUserReceive, Address: x, FromBlockHash: s1.Hash})
		if err != nil {
			c.Hit("recreate-aborted-first-receive")
			return
		}
		rc.arrival[r0.Hash] = at
		if !rc.until(4, func() bool { return rc.confirmed(r0.Hash) }) {
			c.Hit("recreate-aborted-first-receive-unconfirmed")
			return
		}
	}
	if c.R.Intn(2) == 0 && !rc.momentums(c.R.Intn(3)) {
		return
	}
	// V
	st := n.Chain().GetFrontierMomentumStore()
	p := rcProbe{family: "fuse", x: x, v: st.Identifier(), value: fused()}
	if p.value == "0" || p.value[:1] == "e" {
		c.Hit("recreate-aborted-no-entry-at-v")
		return
	}
	// distance between V and the deletion; the cancel is only due FuseExpiration momentums after the fusion
	if !rc.momentums(rc.pickGap()) {
		return
	}
	for n.Height() < ha+constants.FuseExpiration {
		if !rc.momentums(1) {
			return
		}
	}
	cancel := rc.submit(&nom.AccountBlock{BlockType: nom.BlockTypeUserSend, Address: f1.Address, ToAddress: types.PlasmaContract,
		Data: definition.ABIPlasma.PackMethodPanic(definition.CancelFuseMethodName, f1.Hash)})
	if cancel == nil || !rc.until(5, func() bool { return fused() == "0" }) {
		rc.probes = append(rc.probes, p)
		c.Hit("recreate-aborted-cancel")
		return
	}
	p.hd = n.Height()
	if !rc.momentums(c.R.Intn(3)) {
		return
	}
	// second fusion and the reader block R, in either order of arrival; R acknowledges V
	units2 := units
	if c.R.Intn(2) == 0 {
		units2 = 1 + c.R.Intn(5)
	}
	reader := func() *nom.AccountBlock {
		tpl := &nom.AccountBlock{BlockType: nom.BlockTypeUserReceive, Address: x, FromBlockHash: s1.Hash, MomentumAcknowledged: p.v}
		if readerIsSend {
			vs := n.Chain().GetMomentumStore(p.v)
			bal := big.NewInt(0)
			tok := s1.TokenStandard
			if vs != nil {
				if b, _ := vs.GetAccountStore(x).GetBalance(tok); b != nil {
					bal = b
				}
			}
			am := big.NewInt(0)
			if bal.Sign() > 0 {
				am = new(big.Int).Rand(c.R, bal)
			}
			var data []byte
			if units >= 2 && c.R.Intn(2) == 0 {
				data = make([]byte, 1+c.R.Intn(250)) // 68 plasma per byte: below the 21000 of the second fusion unit
				c.R.Read(data)
			}
			tpl = &nom.AccountBlock{BlockType: nom.BlockTypeUserSend, Address: x, ToAddress: funders[c.R.Intn(len(funders))], TokenStandard: tok, Amount: am, Data: data, MomentumAcknowledged: p.v}
		}
		at := n.Height()
		r, err := n.Submit(tpl)
		if err != nil {
			// the producer itself judges R on the view of V while the entry is deleted at its frontier
			c.Hit("recreate-reader-refused-by-producer")
			return nil
		}
		rc.arrival[r.Hash] = at
		rc.withheld[r.Hash] = true
		c.Hit("traffic-accepted")
		return r
	}
	var r *nom.AccountBlock
	early := c.R.Intn(3) == 0
	if early {
		if r = reader(); r == nil {
			rc.probes = append(rc.probes, p)
			return
		}
	}
	f2 := rc.fuseFor(x, units2)
	if f2 == nil {
		rc.withheld = map[types.Hash]bool{}
		rc.probes = append(rc.probes, p)
		c.Hit("recreate-aborted-second-fusion")
		return
	}
	// the momentum that confirms the fuse send (its contract receive is pooled by the auto-receive phase): entry still absent
	if rc.momentum() != nil {
		return
	}
	if !early && fused() == "0" {
		r = reader()
	}
	// the re-creating momentum and 0..2 more, all by pillars that have not seen R
	ok := rc.until(3, func() bool { return fused() != "0" })
	if ok {
		p.hr = n.Height()
		for k := c.R.Intn(3); k > 0; k-- {
			if rc.momentum() != nil {
				return
			}
		}
	}
	rc.withheld = map[types.Hash]bool{}
	if !ok {
		rc.probes = append(rc.probes, p)
		c.Hit("recreate-aborted-not-recreated")
		return
	}
	c.Hit("recreate-fuse")
	c.Hit(fmt.Sprintf("recreate-distance-%s", distBucket(p.hd-p.v.Height)))
	if r != nil {
		if rc.momentum() == nil && rc.confirmed(r.Hash) {
			p.hc = n.Height()
			c.Hit("delayed-block-confirmed-after-recreate")
			c.Hit(fmt.Sprintf("delayed-by-%d", p.hc-p.hr))
			if readerIsSend {
				c.Hit("delayed-reader-send")
			} else {
				c.Hit("delayed-reader-receive")
			}
		}
	}
	rc.probes = append(rc.probes, p)
}

// describeBlocks: the blocks of a momentum for a failure message (account, height, acknowledged momentum, producer frontier at arrival)
func describeBlocks(blocks []*nom.AccountBlock, rc *syncRecreate) string {
	out := ""
	for i, b := range blocks {
		if i == 6 {
			out += " ..."
			break
		}
		kind := "send"
		if b.IsReceiveBlock() {
			kind = "receive"
		}
		arr := "-"
		if at, ok := rc.arrival[b.Hash]; ok {
			arr = fmt.Sprint(at)
		}
		out += fmt.Sprintf(" [%s #%d %s acknowledges momentum %d, reached the producer at frontier %s]", addrName(b.Address), b.Height, kind, b.MomentumAcknowledged.Height, arr)
	}
	if out == "" {
		return "none"
	}
	return out[1:]
}

func (p rcProbe) window() string {
	s := "key not deleted afterwards"
	if p.hd != 0 {
		s = fmt.Sprintf("key absent from momentum %d", p.hd)
		if p.hr != 0 {
			s += fmt.Sprintf(", present again from momentum %d", p.hr)
		}
	}
	if p.hc != 0 {
		s += fmt.Sprintf(", a block of that account acknowledging momentum %d confirmed by momentum %d", p.v.Height, p.hc)
	}
	return s
}

func describeProbes(probes []rcProbe) string {
	out := ""
	for _, p := range probes {
		out += fmt.Sprintf(" [%s entry of %s = %s at momentum %d, %s]", p.family, addrName(p.x), p.value, p.v.Height, p.window())
	}
	if out == "" {
		return "none (random traffic only)"
	}
	return out[1:]
}

func distBucket(d uint64) string {
	switch {
	case d <= 3:
		return fmt.Sprint(d)
	case d <= 8:
		return "4-8"
	case d <= 20:
		return "9-20"
	}
	return "21+"
}

func (rc *syncRecreate) directedDelegation() {
	c, n := rc.c, rc.n
	xs := []types.Address{g.User1.Address, g.User2.Address, g.User3.Address, g.User4.Address, g.User5.Address}
	x := xs[c.R.Intn(len(xs))]
	rc.reserved[x] = true
	defer delete(rc.reserved, x)
	names := []string{g.Pillar1Name, g.Pillar2Name, g.Pillar3Name}
	cur := func() string { return rcDelegation(n.Chain(), n.Chain().GetFrontierMomentumStore().Identifier(), x) }
	delegate := func() *nom.AccountBlock {
		return rc.submit(&nom.AccountBlock{BlockType: nom.BlockTypeUserSend, Address: x, ToAddress: types.PillarContract,
			Data: definition.ABIPillars.PackMethodPanic(definition.DelegateMethodName, names[c.R.Intn(len(names))])})
	}
	if cur() == "absent" {
		if delegate() == nil || !rc.until(5, func() bool { return cur() != "absent" }) {
			c.Hit("recreate-aborted-first-delegation")
			return
		}
	}
	if c.R.Intn(2) == 0 && !rc.momentums(c.R.Intn(3)) {
		return
	}
	p := rcProbe{family: "delegation", x: x, v: n.Chain().GetFrontierMomentumStore().Identifier(), value: cur()}
	if !rc.momentums(rc.pickGap()) {
		return
	}
	un := rc.submit(&nom.AccountBlock{BlockType: nom.BlockTypeUserSend, Address: x, ToAddress: types.PillarContract,
		Data: definition.ABIPillars.PackMethodPanic(definition.UndelegateMethodName)})
	if un == nil || !rc.until(5, func() bool { return cur() == "absent" }) {
		rc.probes = append(rc.probes, p)
		c.Hit("recreate-aborted-undelegate")
		return
	}
	p.hd = n.Height()
	if !rc.momentums(c.R.Intn(3)) {
		return
	}
	if delegate() == nil || !rc.until(5, func() bool { return cur() != "absent" }) {
		rc.probes = append(rc.probes, p)
		c.Hit("recreate-aborted-second-delegation")
		return
	}
	p.hr = n.Height()
	rc.momentums(c.R.Intn(3))
	c.Hit("recreate-delegation")
	c.Hit(fmt.Sprintf("recreate-distance-%s", distBucket(p.hd-p.v.Height)))
	rc.probes = append(rc.probes, p)
}

// random traffic around deleted / re-created keys (one step); false: nothing was submitted
func (rc *syncRecreate) randomStep(users, everyone []types.Address) {
	c := rc.c
	switch c.R.Intn(6) {
	case 4, 5: // QSR deposit at the pillar / sentinel contract: created by DepositQsr, deleted by WithdrawQsr, created again by the next deposit
		from := users[c.R.Intn(5)] // User1..User5 hold QSR
		to := []types.Address{types.PillarContract, types.SentinelContract}[c.R.Intn(2)]
		if rc.reserved[from] {
			return
		}
		if c.R.Intn(2) == 0 {
			if rc.submit(&nom.AccountBlock{BlockType: nom.BlockTypeUserSend, Address: from, ToAddress: to, TokenStandard: types.QsrTokenStandard,
				Amount: big.NewInt(int64(1+c.R.Intn(30)) * g.Zexp), Data: definition.ABICommon.PackMethodPanic(definition.DepositQsrMethodName)}) != nil {
				c.Hit("traffic-deposit-qsr")
			}
		} else if rc.submit(&nom.AccountBlock{BlockType: nom.BlockTypeUserSend, Address: from, ToAddress: to,
			Data: definition.ABICommon.PackMethodPanic(definition.WithdrawQsrMethodName)}) != nil {
			c.Hit("traffic-withdraw-qsr")
		}
	case 0: // cancel a fusion made earlier (a second try is allowed: the first may have been too early)
		var open []*rcFusion
		for _, f := range rc.fusions {
			if f.cancels < 2 && !rc.reserved[f.beneficiary] {
				open = append(open, f)
			}
		}
		if len(open) == 0 {
			return
		}
		f := open[c.R.Intn(len(open))]
		f.cancels++
		if rc.submit(&nom.AccountBlock{BlockType: nom.BlockTypeUserSend, Address: f.owner, ToAddress: types.PlasmaContract,
			Data: definition.ABIPlasma.PackMethodPanic(definition.CancelFuseMethodName, f.id)}) != nil {
			c.Hit("traffic-cancel-fuse")
		}
	case 1: // fuse again for a beneficiary that had a fusion
		if len(rc.fusions) == 0 {
			return
		}
		b := rc.fusions[c.R.Intn(len(rc.fusions))].beneficiary
		if rc.reserved[b] {
			return
		}
		rc.submit(&nom.AccountBlock{BlockType: nom.BlockTypeUserSend, Address: rc.qsrOwner(), ToAddress: types.PlasmaContract, TokenStandard: types.QsrTokenStandard,
			Amount: big.NewInt(int64(10+10*c.R.Intn(5)) * g.Zexp), Data: definition.ABIPlasma.PackMethodPanic(definition.FuseMethodName, b)})
		c.Hit("traffic-fuse-again")
	default:
		from := users[c.R.Intn(len(users))]
		if rc.reserved[from] {
			return
		}
		if rc.submit(&nom.AccountBlock{BlockType: nom.BlockTypeUserSend, Address: from, ToAddress: types.PillarContract,
			Data: definition.ABIPillars.PackMethodPanic(definition.UndelegateMethodName)}) != nil {
			c.Hit("traffic-undelegate")
		}
	}
}

// noteAccepted: bookkeeping for every block the producer accepted through the traffic generator
func (rc *syncRecreate) noteAccepted(b *nom.AccountBlock, at uint64) {
	rc.arrival[b.Hash] = at
	if b.IsSendBlock() && b.ToAddress == types.PlasmaContract && b.Amount != nil && b.Amount.Sign() > 0 {
		ben := new(types.Address)
		if definition.ABIPlasma.UnpackMethod(ben, definition.FuseMethodName, b.Data) == nil {
			rc.fusions = append(rc.fusions, &rcFusion{owner: b.Address, beneficiary: *ben, id: b.Hash})
		}
	}
}

// ---------------------------------------------------------------------------------------------------
// historical-view monitor
// ---------------------------------------------------------------------------------------------------

type viewRecord struct {
	id     types.HashHeight
	digest string
}

// checkViews compares, on one follower whose frontier is the end of the history, the ledger as of the recorded momentums
// with the digests taken when those momentums were the frontier (of the one-by-one follower).
func checkViews(c *Ctx, run int, sched string, f *zFollower, recs []viewRecord) bool {
	H := f.Height()
	for _, r := range recs {
		var dg string
		if p := safely(func() {
			d := f.mgr.Get(r.id)
			if d == nil {
				dg = "no-view"
				return
			}
			dg = digestDB(d)
		}); p != "" {
			dg = "panic:" + firstLine300(p)
		}
		c.Hit("historical-view-compared")
		if dg != r.digest {
			c.Fail("sync run=%d schedule=%s: the ledger as of momentum %d read at frontier %d differs from the ledger when that momentum was the frontier (%s vs %s): the view of an old momentum changed while the frontier advanced",
				run, sched, r.id.Height, H, dg, r.digest)
			return false
		}
	}
	return true
}

// checkProbes: the directed keys read through GetMomentumStore(V) at the final frontier
func checkProbes(c *Ctx, run int, who string, ch chain.Chain, probes []rcProbe) bool {
	H := ch.GetFrontierMomentumStore().Identifier().Height
	for _, p := range probes {
		got := rcRead(ch, p)
		c.Hit("historical-key-compared")
		if got != p.value {
			what := "fused amount (GetStakeBeneficialAmount)"
			if p.family == "delegation" {
				what = "delegation entry"
			}
			c.Fail("sync run=%d %s: %s of %s read through GetMomentumStore(momentum %d) at frontier %d is %s, it was %s when momentum %d was the frontier (%s)",
				run, who, what, addrName(p.x), p.v.Height, H, got, p.value, p.v.Height, p.window())
			return false
		}
	}
	return true
}
