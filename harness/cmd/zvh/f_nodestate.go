package main

// Facts for C06 (Gen/NodeState.lean): what a node REMEMBERS besides its ledger. A reorganisation replaces the ledger; everything else
// a node keeps in memory — or in its consensus database — about the chain it was on has to be keyed by something that names one
// chain (a hash), be re-validated against the current chain when read (the stored end hash of a point), or be dropped when a
// momentum is deleted. A container keyed by a tick number, a height, a spork id or an address and filled from the chain is a trace
// of the abandoned branch unless one of those holds. So, from the AST of the working tree, for the packages that hold node state
// (consensus, consensus/storage, chain, chain/account, chain/momentum):
//
//   - nodeStateHolders: every struct field and every package-level variable whose type is a map, a sync.Map or anything from an
//     lru package ("pkg/file.go:Type.field:type" / "pkg/file.go:var name:type");
//   - nodeStructFields: every field (name and type) of every struct type of consensus, consensus/storage and chain — the objects
//     that live as long as the node: a remembered scalar (a "last election", a counter) is a trace as well;
//   - nodeStateAccesses: every access to such a field or variable inside a function: index expressions and the calls
//     Load / Store / LoadOrStore / LoadAndDelete / Delete / Range / Get / Add / Peek / Contains / ContainsOrAdd / Remove / Purge,
//     with the KEY EXPRESSION, and whole-container assignments ("pkg/file.go:func:field.Store(key)" …).
//
// Props/C06Node.lean pins both lists against a reviewed copy in which every holder is annotated with its key and with the reason it
// cannot answer for an abandoned branch. A new cache (or a new key) changes the generated list and the theorem fails until the
// list is reviewed again.

import (
	"fmt"
	"go/ast"
	"go/parser"
	"go/token"
	"os"
	"path/filepath"
	"sort"
	"strings"
)

func nodeStateContainer(fset *token.FileSet, t ast.Expr, lruNames map[string]bool) (string, bool) {
	if t == nil {
		return "", false
	}
	s := exprStr(fset, t)
	switch x := t.(type) {
	case *ast.MapType:
		return s, true
	case *ast.StarExpr:
		if _, ok := nodeStateContainer(fset, x.X, lruNames); ok {
			return s, true
		}
	case *ast.ArrayType:
		if _, ok := nodeStateContainer(fset, x.Elt, lruNames); ok {
			return s, true
		}
	case *ast.SelectorExpr:
		if id, ok := x.X.(*ast.Ident); ok {
			if id.Name == "sync" && x.Sel.Name == "Map" {
				return s, true
			}
			if lruNames[id.Name] {
				return s, true
			}
		}
	}
	return "", false
}

func init() {
	factGens = append(factGens, func(repo string) (*factFile, error) {
		pkgs := []string{"consensus", "consensus/storage", "chain", "chain/account", "chain/momentum"}
		var holders, accesses, fields []string
		longLived := map[string]bool{"consensus": true, "consensus/storage": true, "chain": true}
		type parsed struct {
			pk, name string
			fset     *token.FileSet
			f        *ast.File
		}
		var files []parsed
		fieldNames := map[string]bool{} // names of holder fields / variables (matched syntactically at the access sites)
		for _, pk := range pkgs {
			dir := filepath.Join(repo, pk)
			ents, err := os.ReadDir(dir)
			if err != nil {
				return nil, err
			}
			for _, e := range ents {
				name := e.Name()
				if e.IsDir() || !strings.HasSuffix(name, ".go") || strings.HasSuffix(name, "_test.go") || strings.HasSuffix(name, "_verif.go") || strings.HasSuffix(name, ".pb.go") {
					continue
				}
				fset := token.NewFileSet()
				f, err := parser.ParseFile(fset, filepath.Join(dir, name), nil, 0)
				if err != nil {
					return nil, err
				}
				files = append(files, parsed{pk, name, fset, f})
				lruNames := map[string]bool{}
				for _, im := range f.Imports {
					path := strings.Trim(im.Path.Value, "\"`")
					if strings.Contains(strings.ToLower(path), "lru") || strings.Contains(strings.ToLower(path), "cache") {
						local := path[strings.LastIndex(path, "/")+1:]
						if strings.HasPrefix(local, "golang-") {
							local = strings.TrimPrefix(local, "golang-")
						}
						if im.Name != nil {
							local = im.Name.Name
						}
						lruNames[local] = true
					}
				}
				for _, d := range f.Decls {
					gd, ok := d.(*ast.GenDecl)
					if !ok {
						continue
					}
					for _, sp := range gd.Specs {
						switch x := sp.(type) {
						case *ast.TypeSpec:
							st, ok := x.Type.(*ast.StructType)
							if !ok {
								continue
							}
							for _, fl := range st.Fields.List {
								if longLived[pk] {
									if len(fl.Names) == 0 {
										fields = append(fields, fmt.Sprintf("%s/%s:%s.(embedded):%s", pk, name, x.Name.Name, exprStr(fset, fl.Type)))
									}
									for _, n := range fl.Names {
										fields = append(fields, fmt.Sprintf("%s/%s:%s.%s:%s", pk, name, x.Name.Name, n.Name, exprStr(fset, fl.Type)))
									}
								}
								ts, ok := nodeStateContainer(fset, fl.Type, lruNames)
								if !ok {
									continue
								}
								for _, n := range fl.Names {
									holders = append(holders, fmt.Sprintf("%s/%s:%s.%s:%s", pk, name, x.Name.Name, n.Name, ts))
									fieldNames[n.Name] = true
								}
							}
						case *ast.ValueSpec:
							if gd.Tok != token.VAR {
								continue
							}
							for i, n := range x.Names {
								ts, ok := nodeStateContainer(fset, x.Type, lruNames)
								if !ok && i < len(x.Values) {
									v := exprStr(fset, x.Values[i])
									if strings.HasPrefix(v, "map[") || strings.HasPrefix(v, "make(map[") || strings.HasPrefix(v, "sync.Map") || strings.HasPrefix(v, "&sync.Map") {
										ts, ok = v, true
										if j := strings.IndexAny(v, "{"); j > 0 {
											ts = v[:j]
										}
									}
									for l := range lruNames {
										if strings.HasPrefix(v, l+".") {
											ts, ok = v, true
										}
									}
								}
								if ok {
									holders = append(holders, fmt.Sprintf("%s/%s:var %s:%s", pk, name, n.Name, ts))
									fieldNames[n.Name] = true
								}
							}
						}
					}
				}
			}
		}
		// accesses
		methods := map[string]bool{"Load": true, "Store": true, "LoadOrStore": true, "LoadAndDelete": true, "Delete": true, "Range": true, "Swap": true, "CompareAndSwap": true,
			"Get": true, "Add": true, "Peek": true, "Contains": true, "ContainsOrAdd": true, "PeekOrAdd": true, "Remove": true, "Purge": true, "Keys": true, "Len": true, "RemoveOldest": true, "Resize": true}
		var holderOf func(e ast.Expr) (string, bool)
		holderOf = func(e ast.Expr) (string, bool) {
			switch x := e.(type) {
			case *ast.IndexExpr:
				if h, ok := holderOf(x.X); ok {
					return h + "[" + exprString(x.Index) + "]", true
				}
			case *ast.SelectorExpr:
				if fieldNames[x.Sel.Name] {
					return x.Sel.Name, true
				}
			case *ast.Ident:
				if fieldNames[x.Name] && x.Obj != nil && x.Obj.Kind == ast.Var {
					if _, isField := x.Obj.Decl.(*ast.Field); !isField {
						if vs, ok := x.Obj.Decl.(*ast.ValueSpec); ok && vs != nil {
							return x.Name, true
						}
					}
				}
			}
			return "", false
		}
		for _, pf := range files {
			for _, d := range pf.f.Decls {
				fd, ok := d.(*ast.FuncDecl)
				if !ok || fd.Body == nil {
					continue
				}
				fn := fd.Name.Name
				if fd.Recv != nil && len(fd.Recv.List) > 0 {
					t := fd.Recv.List[0].Type
					if st, ok := t.(*ast.StarExpr); ok {
						t = st.X
					}
					if id, ok := t.(*ast.Ident); ok {
						fn = id.Name + "." + fn
					}
				}
				site := func(what string) {
					accesses = append(accesses, fmt.Sprintf("%s/%s:%s:%s", pf.pk, pf.name, fn, what))
				}
				ast.Inspect(fd.Body, func(n ast.Node) bool {
					switch x := n.(type) {
					case *ast.IndexExpr:
						if h, ok := holderOf(x.X); ok {
							site(fmt.Sprintf("%s[%s]", h, exprStr(pf.fset, x.Index)))
						}
					case *ast.CallExpr:
						if sel, ok := x.Fun.(*ast.SelectorExpr); ok && methods[sel.Sel.Name] {
							if h, ok := holderOf(sel.X); ok {
								key := ""
								if len(x.Args) > 0 {
									key = exprStr(pf.fset, x.Args[0])
									if _, isFn := x.Args[0].(*ast.FuncLit); isFn {
										key = "func"
									}
								}
								site(fmt.Sprintf("%s.%s(%s)", h, sel.Sel.Name, key))
							}
						}
						if id, ok := x.Fun.(*ast.Ident); ok && (id.Name == "delete" || id.Name == "len") && len(x.Args) > 0 {
							if h, ok := holderOf(x.Args[0]); ok {
								key := ""
								if len(x.Args) > 1 {
									key = exprStr(pf.fset, x.Args[1])
								}
								site(fmt.Sprintf("%s(%s, %s)", id.Name, h, key))
							}
						}
					case *ast.AssignStmt:
						for i, l := range x.Lhs {
							if h, ok := holderOf(l); ok {
								r := ""
								if i < len(x.Rhs) {
									r = exprStr(pf.fset, x.Rhs[i])
								}
								site(fmt.Sprintf("%s = %s", h, r))
							}
						}
					case *ast.RangeStmt:
						if h, ok := holderOf(x.X); ok {
							site(fmt.Sprintf("range %s", h))
						}
					case *ast.KeyValueExpr:
						if id, ok := x.Key.(*ast.Ident); ok && fieldNames[id.Name] {
							if _, isLit := x.Value.(*ast.FuncLit); !isLit {
								site(fmt.Sprintf("%s: %s", id.Name, exprStr(pf.fset, x.Value)))
							}
						}
					}
					return true
				})
			}
		}
		sort.Strings(holders)
		sort.Strings(fields)
		sort.Strings(accesses)
		f := newFactFile("NodeState")
		f.raw("-- what a node remembers besides its ledger: map / sync.Map / lru fields and package variables of consensus, consensus/storage,\n")
		f.raw("-- chain, chain/account, chain/momentum (AST of the working tree)\n")
		f.strList("nodeStateHolders", holders)
		f.raw("-- every field of every struct type of the packages whose objects live as long as the node (consensus, consensus/storage, chain)\n")
		f.strList("nodeStructFields", fields)
		f.raw("-- every access to one of the holders, with the key expression\n")
		f.strList("nodeStateAccesses", accesses)
		return f, nil
	})
}
