package main

import (
	"crypto/sha256"
	"encoding/base64"
	"fmt"
	"math/big"
	"reflect"
	"sort"
	"strings"

	ecommon "github.com/ethereum/go-ethereum/common"
	ecrypto "github.com/ethereum/go-ethereum/crypto"

	g "github.com/zenon-network/go-zenon/chain/genesis/mock"
	"github.com/zenon-network/go-zenon/chain/nom"
	"github.com/zenon-network/go-zenon/common/types"
	"github.com/zenon-network/go-zenon/vm/abi"
	"github.com/zenon-network/go-zenon/vm/constants"
	"github.com/zenon-network/go-zenon/vm/embedded/definition"
	"github.com/zenon-network/go-zenon/vm/embedded/implementation"
)

// ---------------------------------------------------------------------------------------------------
// call generators of the autoreceive stream
// ---------------------------------------------------------------------------------------------------

// arSpec is a call before packing: who sends what to which method with which arguments.
type arSpec struct {
	from     types.Address
	tok      types.ZenonTokenStandard
	amount   *big.Int
	args     []interface{}
	onAccept func(h types.Hash) // records ids the later calls refer to
}

// arWorld: what the history knows about the state it has built (ids of entries created by accepted calls)
type arWorld struct {
	r         *arRun
	admin     types.Address
	guardians []types.Address
	tokOwned  types.ZenonTokenStandard // issued by User1: mintable, burnable
	tokFixed  types.ZenonTokenStandard // issued by User2: not mintable, not burnable
	tokBridge types.ZenonTokenStandard // issued by User1, owner updated to the bridge contract
	htlcKeep  []types.Hash
	declared  []types.Hash
	fuseIds, stakeIds, htlcIds, projectIds, phaseIds, liqStakeIds, wrapIds, sporkIds []types.Hash
	unwrapTx  []types.Hash
	preimage  []byte
	seq       int
	tssPub    string
	tssKey     []byte        // private key of the bridge's TSS key once the history has rotated it (nil: arTssPriv)
	legacyKeys []arLegacyKey // fresh legacy keys used before (s_autoreceive_proofs.go)
}

const (
	arTssPub  = "AsAQx1M3LVXCuozDOqO5b9adj/PItYgwZFG/xTDBiZzT" // vm/embedded/tests/z_bridge_test.go
	arTssPriv = "tuSwrTEUyJI1/3y5J8L8DSjzT/AQG2IK3JG+93qhhhI="
	arEvmAddr = "0x5fbdb2315678afecb367f032d93f642f64180aa3"
	arEvmAdr2 = "0x5aaaa2315678afecb367f032d93f642f64180aa3"
	arEvmNet  = "0x323b5d4c32345ced77393b3530b1eed0f346429d"
)

func newArWorld(r *arRun) *arWorld {
	return &arWorld{r: r, admin: g.User5.Address,
		guardians: []types.Address{g.User1.Address, g.User2.Address, g.User3.Address},
		preimage:  []byte("zvh-autoreceive-preimage-0123456")}
}

// arTssSign signs a 32-byte message hash with the bridge's TSS key of the mock world (base64 signature, as the orchestrator does)
func arTssSign(hash []byte, err error) string {
	if err != nil {
		return ""
	}
	kb, _ := base64.StdEncoding.DecodeString(arTssPriv)
	key, err := ecrypto.ToECDSA(kb)
	if err != nil {
		return ""
	}
	sig, err := ecrypto.Sign(hash, key)
	if err != nil {
		return ""
	}
	return base64.StdEncoding.EncodeToString(sig)
}

func zn(x int64) *big.Int { return new(big.Int).Mul(big.NewInt(x), big.NewInt(g.Zexp)) }

func lastOr(l []types.Hash, r *arRun) types.Hash {
	if len(l) > 0 {
		return l[len(l)-1]
	}
	var h types.Hash
	r.c.R.Read(h[:])
	return h
}

func (w *arWorld) frontierTime() int64 {
	m, err := w.r.n.Chain().GetFrontierMomentumStore().GetFrontierMomentum()
	if err != nil {
		return 1000000000
	}
	return m.Timestamp.Unix()
}

func (w *arWorld) name(prefix string) string {
	w.seq++
	return fmt.Sprintf("%s-%d-%d", prefix, w.r.id, w.seq)
}

// canonical returns a valid call of contract.method in the current world (valid at send time; applied at receive
// time where the history has built the state for it), or nil when the harness has no shape for it.
func (w *arWorld) canonical(to types.Address, method string) *arSpec {
	zero := big.NewInt(0)
	u1, u2, u3 := g.User1.Address, g.User2.Address, g.User3.Address
	znn, qsr := types.ZnnTokenStandard, types.QsrTokenStandard
	r := w.r
	key := arContractName(to) + "." + method
	switch key {
	// ---- plasma
	case "plasma.Fuse":
		// (User1 owns every genesis fusion; the history's own fusions belong to User3)
		return &arSpec{from: u3, tok: qsr, amount: zn(10 + int64(r.c.R.Intn(50))), args: []interface{}{u3},
			onAccept: func(h types.Hash) { w.fuseIds = append(w.fuseIds, h) }}
	case "plasma.CancelFuse":
		return &arSpec{from: u3, tok: znn, amount: zero, args: []interface{}{lastOr(w.fuseIds, r)}}
	// ---- pillar
	case "pillar.Register":
		return &arSpec{from: g.Pillar4.Address, tok: znn, amount: new(big.Int).Set(constants.PillarStakeAmount),
			args: []interface{}{w.name("pillar"), g.Pillar4.Address, g.User7.Address, uint8(10), uint8(90)}}
	case "pillar.RegisterLegacy":
		sig, _ := implementation.SignLegacyPillarMessage(g.Pillar6.Address, g.Secp1PrvKey, g.Secp1PubKeyB64)
		return &arSpec{from: g.Pillar6.Address, tok: znn, amount: new(big.Int).Set(constants.PillarStakeAmount),
			args: []interface{}{w.name("legacy"), g.Pillar6.Address, g.Pillar6.Address, uint8(0), uint8(100), g.Secp1PubKeyB64, sig}}
	case "pillar.UpdatePillar":
		return &arSpec{from: g.Pillar1.Address, tok: znn, amount: zero,
			args: []interface{}{g.Pillar1Name, g.Pillar1.Address, g.Pillar1.Address, uint8(r.c.R.Intn(101)), uint8(r.c.R.Intn(101))}}
	case "pillar.Revoke":
		return &arSpec{from: g.Pillar3.Address, tok: znn, amount: zero, args: []interface{}{g.Pillar3Name}}
	case "pillar.Delegate":
		return &arSpec{from: u2, tok: znn, amount: zero, args: []interface{}{g.Pillar2Name}}
	case "pillar.Undelegate":
		return &arSpec{from: u2, tok: znn, amount: zero}
	case "pillar.DepositQsr", "sentinel.DepositQsr":
		return &arSpec{from: g.Pillar7.Address, tok: qsr, amount: zn(1000 + int64(r.c.R.Intn(1000)))}
	case "pillar.WithdrawQsr", "sentinel.WithdrawQsr":
		return &arSpec{from: g.Pillar7.Address, tok: znn, amount: zero}
	case "pillar.CollectReward":
		return &arSpec{from: []types.Address{g.Pillar1.Address, g.Pillar2.Address, u1}[r.c.R.Intn(3)], tok: znn, amount: zero}
	case "sentinel.CollectReward":
		return &arSpec{from: g.Pillar5.Address, tok: znn, amount: zero}
	case "stake.CollectReward":
		return &arSpec{from: u2, tok: znn, amount: zero}
	case "liquidity.CollectReward":
		return &arSpec{from: u1, tok: znn, amount: zero}
	case "pillar.Update", "sentinel.Update", "stake.Update", "liquidity.Update", "accelerator.Update":
		return &arSpec{from: u3, tok: znn, amount: zero}
	// ---- token
	case "token.IssueToken":
		return &arSpec{from: u1, tok: znn, amount: new(big.Int).Set(constants.TokenIssueAmount),
			args: []interface{}{w.name("tok"), fmt.Sprintf("T%d", w.seq%1000), "zenon.network", big.NewInt(1000000), big.NewInt(100000000), uint8(6), true, true, false}}
	case "token.Mint":
		return &arSpec{from: u1, tok: znn, amount: zero, args: []interface{}{w.tokOwned, big.NewInt(int64(1 + r.c.R.Intn(1000))), u2}}
	case "token.Burn":
		return &arSpec{from: u1, tok: w.tokOwned, amount: big.NewInt(int64(1 + r.c.R.Intn(50)))}
	case "token.UpdateToken":
		return &arSpec{from: u1, tok: znn, amount: zero, args: []interface{}{w.tokOwned, u1, true, true}}
	// ---- sentinel
	case "sentinel.Register":
		return &arSpec{from: g.Pillar5.Address, tok: znn, amount: new(big.Int).Set(constants.SentinelZnnRegisterAmount)}
	case "sentinel.Revoke":
		return &arSpec{from: g.Pillar5.Address, tok: znn, amount: zero}
	// ---- swap
	case "swap.RetrieveAssets":
		sig, _ := implementation.SignRetrieveAssetsMessage(u1, g.Secp1PrvKey, g.Secp1PubKeyB64)
		return &arSpec{from: u1, tok: znn, amount: zero, args: []interface{}{g.Secp1PubKeyB64, sig}}
	// ---- stake
	case "stake.Stake":
		return &arSpec{from: u2, tok: znn, amount: zn(1 + int64(r.c.R.Intn(20))), args: []interface{}{constants.StakeTimeMinSec * int64(1+(r.c.R.Intn(48)/36)*r.c.R.Intn(12))},
			onAccept: func(h types.Hash) { w.stakeIds = append(w.stakeIds, h) }}
	case "stake.Cancel":
		return &arSpec{from: u2, tok: znn, amount: zero, args: []interface{}{lastOr(w.stakeIds, r)}}
	// ---- spork
	case "spork.CreateSpork":
		return &arSpec{from: g.Spork.Address, tok: znn, amount: zero, args: []interface{}{w.name("spork"), "created by the autoreceive stream"},
			onAccept: func(h types.Hash) { w.sporkIds = append(w.sporkIds, h) }}
	case "spork.ActivateSpork":
		id := lastOr(w.sporkIds, r)
		// (a node halts itself when an activated spork is not in its list of implemented sporks - C17; the history's own
		// sporks are therefore declared implemented, as Node.ActivateSpork does)
		types.ImplementedSporksMap[id] = true
		w.declared = append(w.declared, id)
		return &arSpec{from: g.Spork.Address, tok: znn, amount: zero, args: []interface{}{id}}
	// ---- accelerator
	case "accelerator.Donate", "liquidity.Donate":
		return &arSpec{from: u1, tok: []types.ZenonTokenStandard{znn, qsr}[r.c.R.Intn(2)], amount: zn(1 + int64(r.c.R.Intn(5)))}
	case "accelerator.CreateProject":
		return &arSpec{from: u1, tok: znn, amount: new(big.Int).Set(constants.ProjectCreationAmount),
			args:     []interface{}{w.name("proj"), "a project", "www.zenon.network", zn(10), zn(100)},
			onAccept: func(h types.Hash) { w.projectIds = append(w.projectIds, h) }}
	case "accelerator.AddPhase":
		return &arSpec{from: u1, tok: znn, amount: zero, args: []interface{}{lastOr(w.projectIds, r), w.name("phase"), "a phase", "www.zenon.network", zn(1), zn(10)},
			onAccept: func(h types.Hash) { w.phaseIds = append(w.phaseIds, h) }}
	case "accelerator.UpdatePhase":
		return &arSpec{from: u1, tok: znn, amount: zero, args: []interface{}{lastOr(w.projectIds, r), w.name("phase"), "an updated phase", "www.zenon.network", zn(2), zn(20)}}
	case "accelerator.VoteByName":
		return &arSpec{from: g.Pillar1.Address, tok: znn, amount: zero, args: []interface{}{lastOr(w.projectIds, r), g.Pillar1Name, definition.VoteYes}}
	case "accelerator.VoteByProdAddress":
		return &arSpec{from: g.Pillar2.Address, tok: znn, amount: zero, args: []interface{}{lastOr(w.projectIds, r), definition.VoteYes}}
	// ---- htlc
	case "htlc.Create":
		lock := sha256.Sum256(w.preimage)
		return &arSpec{from: u1, tok: znn, amount: zn(1 + int64(r.c.R.Intn(3))),
			args:     []interface{}{u2, w.frontierTime() + 3600, definition.HashTypeSHA256, uint8(32), lock[:]},
			onAccept: func(h types.Hash) { w.htlcIds = append(w.htlcIds, h) }}
	case "htlc.Reclaim":
		if len(w.htlcKeep) > 0 && r.c.R.Intn(2) == 0 { // an entry nobody unlocks: reclaimable once it has expired
			return &arSpec{from: u1, tok: znn, amount: zero, args: []interface{}{w.htlcKeep[0]}}
		}
		return &arSpec{from: u1, tok: znn, amount: zero, args: []interface{}{lastOr(w.htlcIds, r)}}
	case "htlc.Unlock":
		return &arSpec{from: u2, tok: znn, amount: zero, args: []interface{}{lastOr(w.htlcIds, r), w.preimage}}
	case "htlc.DenyProxyUnlock", "htlc.AllowProxyUnlock":
		return &arSpec{from: u2, tok: znn, amount: zero}
	// ---- liquidity
	case "liquidity.Fund":
		return &arSpec{from: g.Spork.Address, tok: znn, amount: zero, args: []interface{}{zn(1), zn(10)}}
	case "liquidity.BurnZnn":
		return &arSpec{from: g.Spork.Address, tok: znn, amount: zero, args: []interface{}{zn(1)}}
	case "liquidity.SetTokenTuple":
		return &arSpec{from: w.admin, tok: znn, amount: zero, args: []interface{}{
			[]string{w.tokOwned.String(), w.tokFixed.String()}, []uint32{7000, 3000}, []uint32{5000, 5000}, []*big.Int{big.NewInt(10), big.NewInt(1)}}}
	case "liquidity.NominateGuardians", "bridge.NominateGuardians":
		return &arSpec{from: w.admin, tok: znn, amount: zero, args: []interface{}{w.guardians}}
	case "liquidity.ProposeAdministrator", "bridge.ProposeAdministrator":
		w.seq++ // the guardians take turns; they propose the old administrator, so a majority after an Emergency restores it
		return &arSpec{from: w.guardians[w.seq%len(w.guardians)], tok: znn, amount: zero, args: []interface{}{w.admin}}
	case "liquidity.Emergency", "bridge.Emergency":
		return &arSpec{from: w.admin, tok: znn, amount: zero}
	case "liquidity.SetIsHalted":
		return &arSpec{from: w.admin, tok: znn, amount: zero, args: []interface{}{r.c.R.Intn(4) == 0}}
	case "liquidity.LiquidityStake":
		return &arSpec{from: u1, tok: w.tokOwned, amount: big.NewInt(int64(100 + r.c.R.Intn(100))), args: []interface{}{constants.StakeTimeMinSec * int64(1+(r.c.R.Intn(48)/36)*r.c.R.Intn(12))},
			onAccept: func(h types.Hash) { w.liqStakeIds = append(w.liqStakeIds, h) }}
	case "liquidity.CancelLiquidityStake":
		return &arSpec{from: u1, tok: znn, amount: zero, args: []interface{}{lastOr(w.liqStakeIds, r)}}
	case "liquidity.UnlockLiquidityStakeEntries":
		return &arSpec{from: w.admin, tok: w.tokOwned, amount: zero}
	case "liquidity.SetAdditionalReward":
		return &arSpec{from: w.admin, tok: znn, amount: zero, args: []interface{}{zn(1), zn(2)}}
	case "liquidity.ChangeAdministrator", "bridge.ChangeAdministrator":
		return &arSpec{from: w.admin, tok: znn, amount: zero, args: []interface{}{w.admin}}
	// ---- bridge
	case "bridge.SetOrchestratorInfo":
		return &arSpec{from: w.admin, tok: znn, amount: zero, args: []interface{}{uint64(6), uint32(3), uint32(15), uint32(10)}}
	case "bridge.SetBridgeMetadata":
		return &arSpec{from: w.admin, tok: znn, amount: zero, args: []interface{}{`{"a":1}`}}
	case "bridge.SetAllowKeyGen":
		return &arSpec{from: w.admin, tok: znn, amount: zero, args: []interface{}{true}}
	case "bridge.ChangeTssECDSAPubKey":
		return &arSpec{from: w.admin, tok: znn, amount: zero, args: []interface{}{arTssPub, "", ""}}
	case "bridge.SetNetwork":
		// (SetNetwork on an existing network empties its token pairs: the plan leaves network 2/123 of the set-up alone)
		return &arSpec{from: w.admin, tok: znn, amount: zero, args: []interface{}{uint32(2), uint32(789), "Another", arEvmNet, "{}"}}
	case "bridge.SetNetworkMetadata":
		return &arSpec{from: w.admin, tok: znn, amount: zero, args: []interface{}{uint32(2), uint32(123), `{"NewApy":15}`}}
	case "bridge.RemoveNetwork":
		return &arSpec{from: w.admin, tok: znn, amount: zero, args: []interface{}{uint32(2), uint32(456)}}
	case "bridge.SetTokenPair":
		return &arSpec{from: w.admin, tok: znn, amount: zero, args: []interface{}{uint32(2), uint32(123), types.ZnnTokenStandard, arEvmAddr, true, true, false,
			big.NewInt(100), uint32(15), uint32(20), `{"APR": 15, "LockingPeriod": 100}`}}
	case "bridge.RemoveTokenPair":
		return &arSpec{from: w.admin, tok: znn, amount: zero, args: []interface{}{uint32(2), uint32(123), w.tokBridge, arEvmAdr2}}
	case "bridge.Halt":
		if r.c.R.Intn(2) == 0 { // anybody, with the TSS signature over (method, nonce)
			nonce := uint64(0)
			if bi, err := definition.GetBridgeInfoVariable(r.n.Chain().GetFrontierAccountStore(types.BridgeContract).Storage()); err == nil {
				nonce = bi.TssNonce
			}
			return &arSpec{from: u3, tok: znn, amount: zero, args: []interface{}{
				arTssSign(implementation.GetBasicMethodMessage(definition.HaltMethodName, nonce, definition.NoMClass, r.n.Chain().ChainIdentifier()))}}
		}
		return &arSpec{from: w.admin, tok: znn, amount: zero, args: []interface{}{""}}
	case "bridge.Unhalt":
		return &arSpec{from: w.admin, tok: znn, amount: zero}
	case "bridge.WrapToken":
		return &arSpec{from: u1, tok: znn, amount: zn(1 + int64(r.c.R.Intn(4))), args: []interface{}{uint32(2), uint32(123), arEvmAdr2},
			onAccept: func(h types.Hash) { w.wrapIds = append(w.wrapIds, h) }}
	case "bridge.UpdateWrapRequest":
		id := lastOr(w.wrapIds, r)
		sig := strings.Repeat("A", 88)
		if req, err := definition.GetWrapTokenRequestById(r.n.Chain().GetFrontierAccountStore(types.BridgeContract).Storage(), id); err == nil && req != nil {
			ca := ecommon.HexToAddress(arEvmNet)
			sig = arTssSign(implementation.GetWrapTokenRequestMessage(req, &ca))
		}
		return &arSpec{from: u3, tok: znn, amount: zero, args: []interface{}{id, sig}}
	case "bridge.UnwrapToken":
		var tx types.Hash
		r.c.R.Read(tx[:])
		up := &definition.UnwrapTokenParam{NetworkClass: 2, ChainId: 123, TransactionHash: tx, LogIndex: 7,
			ToAddress: []types.Address{u2, u3, types.AcceleratorContract}[r.c.R.Intn(3)], TokenAddress: []string{arEvmAddr, arEvmAdr2}[r.c.R.Intn(2)],
			Amount: big.NewInt(int64(1000 + r.c.R.Intn(1000)))}
		sig := arTssSign(implementation.GetUnwrapTokenRequestMessage(up))
		return &arSpec{from: u1, tok: znn, amount: zero, args: []interface{}{up.NetworkClass, up.ChainId, up.TransactionHash, up.LogIndex, up.ToAddress, up.TokenAddress, up.Amount, sig},
			onAccept: func(h types.Hash) { w.unwrapTx = append(w.unwrapTx, tx) }}
	case "bridge.RevokeUnwrapRequest":
		return &arSpec{from: w.admin, tok: znn, amount: zero, args: []interface{}{lastOr(w.unwrapTx, r), uint32(7)}}
	case "bridge.Redeem":
		// (an unwrap request registered some momentums ago: the redeem delay of the pairs is 2 momentums)
		tx := lastOr(w.unwrapTx, r)
		if k := len(w.unwrapTx); k >= 3 {
			tx = w.unwrapTx[r.c.R.Intn(k-1)]
		}
		return &arSpec{from: u1, tok: znn, amount: zero, args: []interface{}{tx, uint32(7)}}
	case "bridge.SetRedeemDelay":
		return &arSpec{from: w.admin, tok: znn, amount: zero, args: []interface{}{uint64(5)}}
	}
	return nil
}

// pack turns a spec into a call; nil when packing fails (a spec bug, counted)
func (w *arWorld) pack(to types.Address, method string, s *arSpec, gen string) *arCall {
	ca, _ := arAbiOf(to)
	var data []byte
	var err error
	if p := safely(func() { data, err = ca.PackMethod(method, s.args...) }); p != "" || err != nil {
		w.r.c.Hit("pack-failed-" + gen)
		if w.r.c.Args["debug"] != "" {
			w.r.c.Hit(fmt.Sprintf("pack-failed %s.%s %v %s", arContractName(to), method, err, firstLine300(p)))
		}
		return nil
	}
	return &arCall{to: to, method: method, from: s.from, tok: s.tok, amount: s.amount, data: data, gen: gen}
}

// arBoundaryInts: 0, 1, 2, the neighbours of 2^k for the widths of the integer types of the code base and the neighbours of
// every amount bound of vm/constants (s_autoreceive_sweep.go; the sweep there visits them all, the generators here mix
// them with the other kinds of arguments)
var arBoundaryInts = arSortUniq(append(arPowFamily(), arBigConstFamily()...))
var arBoundarySmallInts = arSortUniq(append(arPowFamily(), arSmallConstFamily()...))

// boundaryArg replaces an argument of ABI type t by a boundary value of that type
func (w *arWorld) boundaryArg(t abi.Type, old interface{}) interface{} {
	R := w.r.c.R
	switch t.T {
	case abi.UintTy, abi.IntTy:
		if R.Intn(5) == 0 { // a whole multiple of a unit whose quotient wraps into the valid range when it is narrowed (s_autoreceive_sweep.go)
			fam := arAlignedFamily(arBigOf(old), false)
			for k := 0; k < 8; k++ {
				if x, ok := arIntArg(t, fam[R.Intn(len(fam))]); ok {
					return x
				}
			}
		}
		b := arBoundaryInts[R.Intn(len(arBoundaryInts))]
		if t.Kind == reflect.Ptr {
			if b.BitLen() > 256 {
				b = new(big.Int).Sub(bigPow2(256), big.NewInt(1))
			}
			return new(big.Int).Set(b)
		}
		// a boundary of the small family that the type can hold, else the low bits of a big one
		for k := 0; k < 4; k++ {
			if x, ok := arIntArg(t, arBoundarySmallInts[R.Intn(len(arBoundarySmallInts))]); ok && R.Intn(3) != 0 {
				return x
			}
		}
		v := reflect.New(t.Type).Elem()
		x := new(big.Int).And(b, new(big.Int).SetUint64(^uint64(0))).Uint64()
		if t.T == abi.UintTy {
			v.SetUint(x & (^uint64(0) >> uint(64-t.Size)))
		} else {
			switch R.Intn(3) {
			case 0:
				v.SetInt(int64(x<<uint(64-t.Size)) >> uint(64-t.Size)) // low bits, sign-extended
			case 1:
				v.SetInt(-1 << uint(t.Size-1)) // minimum
			default:
				v.SetInt(1<<uint(t.Size-1) - 1) // maximum
			}
		}
		return v.Interface()
	case abi.StringTy:
		switch R.Intn(5) {
		case 4: // the length bounds of names, symbols, domains, descriptions (vm/constants) and 255 / 256 / 257, +-1
			M := []int{constants.PillarNameLengthMax, constants.TokenNameLengthMax, constants.TokenSymbolLengthMax, constants.TokenDomainLengthMax,
				constants.ProjectNameLengthMax, constants.ProjectDescriptionLengthMax, constants.SporkNameMinLength, constants.SporkNameMaxLength,
				constants.SporkDescriptionMaxLength, 256, 2 * constants.PillarNameLengthMax, 256 + constants.TokenSymbolLengthMax}[R.Intn(12)]
			return strings.Repeat([]string{"a", "A", "7"}[R.Intn(3)], M-1+R.Intn(3))
		case 0:
			return ""
		case 1:
			return strings.Repeat("a", 1+R.Intn(3)*127)
		case 2:
			return strings.Repeat("Z", 4096)
		default:
			return old.(string) + "\x00"
		}
	case abi.BytesTy:
		switch R.Intn(4) {
		case 0:
			return []byte{}
		case 1:
			return make([]byte, 255)
		case 2: // digest / preimage length bounds and lengths that fit them only modulo 2^8
			return make([]byte, []int{31, 32, 33, 63, 64, 65, 254, 256, 257, 256 + 32, 256 + 31, 512 + 32, 4096}[R.Intn(13)])
		default:
			return make([]byte, 1+R.Intn(64))
		}
	case abi.BoolTy:
		return !old.(bool)
	case abi.AddressTy:
		return []types.Address{types.ZeroAddress, types.TokenContract, types.BridgeContract, types.PillarContract, g.User10.Address}[R.Intn(5)]
	case abi.TokenStandardTy:
		var t types.ZenonTokenStandard
		if R.Intn(2) == 0 {
			R.Read(t[:])
		}
		return t
	case abi.HashTy:
		var h types.Hash
		if R.Intn(2) == 0 {
			R.Read(h[:])
		}
		return h
	case abi.SliceTy:
		n := []int{0, 1, 2, 40}[R.Intn(4)]
		v := reflect.MakeSlice(t.Type, n, n)
		ov := reflect.ValueOf(old)
		for i := 0; i < n; i++ {
			var oe interface{}
			if ov.Len() > 0 {
				oe = ov.Index(i % ov.Len()).Interface()
			} else {
				oe = reflect.Zero(t.Elem.Type).Interface()
			}
			if R.Intn(2) == 0 {
				v.Index(i).Set(reflect.ValueOf(w.boundaryArg(*t.Elem, oe)))
			} else {
				v.Index(i).Set(reflect.ValueOf(oe))
			}
		}
		return v.Interface()
	}
	return old
}

// boundary: the canonical call with one or all arguments replaced by boundary values, and boundary block amounts
func (w *arWorld) boundary(to types.Address, method string) *arSpec {
	s := w.canonical(to, method)
	if s == nil {
		return nil
	}
	R := w.r.c.R
	ca, _ := arAbiOf(to)
	m := ca.Methods[method]
	s.onAccept = nil
	if len(m.Inputs) > 0 && len(s.args) == len(m.Inputs) {
		if R.Intn(3) == 0 {
			for i, in := range m.Inputs {
				s.args[i] = w.boundaryArg(in.Type, s.args[i])
			}
		} else if R.Intn(4) == 0 {
			// every amount argument gets the same boundary value (total supply = maximal supply, znn funds = qsr funds)
			b := arBoundaryInts[R.Intn(len(arBoundaryInts))]
			for i, in := range m.Inputs {
				if in.Type.Kind == reflect.Ptr && (in.Type.T == abi.UintTy || in.Type.T == abi.IntTy) {
					if x, ok := arIntArg(in.Type, b); ok {
						s.args[i] = x
					}
				}
			}
		} else {
			i := R.Intn(len(m.Inputs))
			s.args[i] = w.boundaryArg(m.Inputs[i].Type, s.args[i])
		}
	}
	if len(m.Inputs) == 0 || R.Intn(3) == 0 {
		bal, _ := w.r.n.Chain().GetFrontierAccountStore(s.from).GetBalance(s.tok)
		if bal == nil {
			bal = big.NewInt(0)
		}
		switch R.Intn(5) {
		case 0:
			s.amount = big.NewInt(0)
		case 1:
			s.amount = big.NewInt(1)
		case 2:
			s.amount = new(big.Int).Set(bal)
			if R.Intn(8) != 0 { // mostly a part of the balance, so that the account can go on calling
				s.amount.Div(s.amount, big.NewInt(200))
			}
		case 3:
			s.amount = new(big.Int).Add(bal, big.NewInt(1))
		default:
			s.amount = new(big.Int).Set(arBoundaryInts[R.Intn(len(arBoundaryInts))])
		}
	}
	if R.Intn(2) == 0 { // the proof made again for the changed arguments
		w.reprove(to, method, s, nil)
	}
	return s
}

// semantic: well-formed calls that are wrong in meaning: unknown ids, foreign tokens, wrong owner, zero/huge amounts
func (w *arWorld) semantic(to types.Address, method string) *arSpec {
	s := w.canonical(to, method)
	if s == nil {
		return nil
	}
	R := w.r.c.R
	ca, _ := arAbiOf(to)
	m := ca.Methods[method]
	s.onAccept = nil
	senders := []types.Address{g.User1.Address, g.User2.Address, g.User3.Address, g.User4.Address, g.User5.Address, g.Pillar1.Address, g.Pillar3.Address, g.Spork.Address}
	toks := []types.ZenonTokenStandard{types.ZnnTokenStandard, types.QsrTokenStandard, w.tokOwned, w.tokFixed, types.ZeroTokenStandard}
	var unknownTok types.ZenonTokenStandard
	R.Read(unknownTok[:])
	toks = append(toks, unknownTok)
	for k := 0; k < 1+R.Intn(2); k++ {
		switch R.Intn(5) {
		case 0: // wrong sender / owner
			s.from = senders[R.Intn(len(senders))]
		case 1: // foreign token carried by the block
			s.tok = toks[R.Intn(len(toks))]
			if s.amount.Sign() == 0 && R.Intn(2) == 0 {
				s.amount = big.NewInt(int64(1 + R.Intn(100)))
			}
		case 2: // amount
			switch R.Intn(4) {
			case 0:
				s.amount = big.NewInt(0)
			case 1:
				s.amount = big.NewInt(1)
			case 2:
				s.amount = zn(int64(1 + R.Intn(100)))
			default:
				bal, _ := w.r.n.Chain().GetFrontierAccountStore(s.from).GetBalance(s.tok)
				if bal != nil {
					s.amount = new(big.Int).Set(bal)
					if R.Intn(8) != 0 {
						s.amount.Div(s.amount, big.NewInt(200))
					}
				}
			}
		default: // an argument that names something: unknown id / foreign token / other address / other name
			if len(m.Inputs) == 0 || len(s.args) != len(m.Inputs) {
				continue
			}
			i := R.Intn(len(m.Inputs))
			switch m.Inputs[i].Type.T {
			case abi.HashTy:
				var h types.Hash
				R.Read(h[:])
				s.args[i] = h
			case abi.TokenStandardTy:
				s.args[i] = toks[R.Intn(len(toks))]
			case abi.AddressTy:
				s.args[i] = append(senders, types.TokenContract, types.BridgeContract, types.LiquidityContract, types.ZeroAddress)[R.Intn(len(senders)+4)]
			case abi.StringTy:
				s.args[i] = []string{g.Pillar1Name, g.Pillar3Name, "unknown-name", "TEST-pillar-none", "{}", "[]", arEvmAdr2, unknownTok.String()}[R.Intn(8)]
			case abi.UintTy, abi.IntTy, abi.BoolTy:
				s.args[i] = w.boundaryArg(m.Inputs[i].Type, s.args[i])
			}
		}
	}
	// a call that carries a proof: mostly the proof is made again for the changed sender / arguments (a key with or without
	// entry), so that the changed call is accepted and received past the proof check
	if R.Intn(4) != 0 {
		w.reprove(to, method, s, nil)
	}
	return s
}

// setup builds the state the canonical calls refer to (tokens, deposits, bridge/liquidity administration).
func (w *arWorld) setup() bool {
	r := w.r
	n := r.n
	u1, u2 := g.User1.Address, g.User2.Address
	send := func(tpl *nom.AccountBlock) *nom.AccountBlock {
		tpl.BlockType = nom.BlockTypeUserSend
		if tpl.Amount == nil {
			tpl.Amount = big.NewInt(0)
		}
		b, err := n.Submit(tpl)
		if err != nil {
			r.c.Hit("setup-rejected")
			if r.c.Args["debug"] != "" {
				r.c.Hit(fmt.Sprintf("setup-rejected %s %v", arLabel(tpl.ToAddress, tpl.Data), err))
			}
			return nil
		}
		r.noteAccepted(b, "setup", "tpl")
		return b
	}
	call := func(to types.Address, method string) *nom.AccountBlock {
		s := w.canonical(to, method)
		c := w.pack(to, method, s, "setup")
		if c == nil {
			return nil
		}
		b := send(&nom.AccountBlock{Address: c.from, ToAddress: to, TokenStandard: c.tok, Amount: c.amount, Data: c.data})
		if b != nil && s.onAccept != nil {
			s.onAccept(b.Hash)
		}
		return b
	}
	steps := func(k int) bool {
		for i := 0; i < k; i++ {
			if !r.step() {
				return false
			}
		}
		return true
	}
	// two tokens; receive the issued supply
	i1 := send(&nom.AccountBlock{Address: u1, ToAddress: types.TokenContract, TokenStandard: types.ZnnTokenStandard, Amount: constants.TokenIssueAmount,
		Data: definition.ABIToken.PackMethodPanic(definition.IssueMethodName, "owned-token", "OWN", "", big.NewInt(100000000), big.NewInt(1000000000000), uint8(2), true, true, false)})
	i2 := send(&nom.AccountBlock{Address: u2, ToAddress: types.TokenContract, TokenStandard: types.ZnnTokenStandard, Amount: constants.TokenIssueAmount,
		Data: definition.ABIToken.PackMethodPanic(definition.IssueMethodName, "fixed-token", "FIX", "", big.NewInt(5000000), big.NewInt(5000000), uint8(0), false, false, false)})
	i3 := send(&nom.AccountBlock{Address: u1, ToAddress: types.TokenContract, TokenStandard: types.ZnnTokenStandard, Amount: constants.TokenIssueAmount,
		Data: definition.ABIToken.PackMethodPanic(definition.IssueMethodName, "bridge-token", "BRI", "", big.NewInt(100000000), big.NewInt(1000000000000), uint8(2), true, true, false)})
	if i1 == nil || i2 == nil || i3 == nil {
		r.fail("setup: token issue rejected")
		return false
	}
	w.tokOwned, w.tokFixed, w.tokBridge = types.NewZenonTokenStandard(i1.Hash.Bytes()), types.NewZenonTokenStandard(i2.Hash.Bytes()), types.NewZenonTokenStandard(i3.Hash.Bytes())
	if !steps(2) {
		return false
	}
	w.receiveAll(u1)
	w.receiveAll(u2)
	// deposits, a fusion, a stake, a delegation
	dep := func(from, to types.Address, q int64) {
		send(&nom.AccountBlock{Address: from, ToAddress: to, TokenStandard: types.QsrTokenStandard, Amount: zn(q),
			Data: definition.ABICommon.PackMethodPanic(definition.DepositQsrMethodName)})
	}
	dep(g.Pillar4.Address, types.PillarContract, 190000)
	dep(g.Pillar6.Address, types.PillarContract, 190000)
	dep(g.Pillar5.Address, types.SentinelContract, 60000)
	dep(g.Pillar7.Address, types.PillarContract, 1000)
	dep(g.Pillar7.Address, types.SentinelContract, 1000)
	call(types.PlasmaContract, "Fuse")
	call(types.StakeContract, "Stake")
	call(types.PillarContract, "Delegate")
	for _, t := range []types.ZenonTokenStandard{types.ZnnTokenStandard, types.QsrTokenStandard} {
		send(&nom.AccountBlock{Address: g.Pillar8.Address, ToAddress: types.LiquidityContract, TokenStandard: t, Amount: zn(500),
			Data: definition.ABICommon.PackMethodPanic(definition.DonateMethodName)})
		send(&nom.AccountBlock{Address: g.Pillar8.Address, ToAddress: types.AcceleratorContract, TokenStandard: t, Amount: zn(500),
			Data: definition.ABICommon.PackMethodPanic(definition.DonateMethodName)})
	}
	if !steps(1) {
		return false
	}
	if r.regime >= 1 {
		call(types.AcceleratorContract, "CreateProject")
		if !steps(1) {
			return false
		}
		for i, p := range []types.Address{g.Pillar1.Address, g.Pillar2.Address, g.Pillar3.Address} {
			send(&nom.AccountBlock{Address: p, ToAddress: types.AcceleratorContract, Data: definition.ABIAccelerator.PackMethodPanic(definition.VoteByNameMethodName,
				lastOr(w.projectIds, r), []string{g.Pillar1Name, g.Pillar2Name, g.Pillar3Name}[i], definition.VoteYes)})
		}
		if !steps(int(constants.UpdateMinNumMomentums)%50 + 2) { // with the short update period the project becomes active here
			return false
		}
		call(types.AcceleratorContract, "AddPhase")
	}
	if r.regime >= 2 {
		// bridge and liquidity administration. Time challenges: the same call twice, the delay apart.
		call(types.BridgeContract, "SetOrchestratorInfo")
		call(types.BridgeContract, "NominateGuardians")
		call(types.LiquidityContract, "NominateGuardians")
		send(&nom.AccountBlock{Address: u1, ToAddress: types.TokenContract,
			Data: definition.ABIToken.PackMethodPanic(definition.UpdateTokenMethodName, w.tokBridge, types.BridgeContract, true, true)})
		if !steps(int(constants.MinAdministratorDelay) + 2) {
			return false
		}
		call(types.BridgeContract, "NominateGuardians")
		call(types.LiquidityContract, "NominateGuardians")
		if !steps(1) {
			return false
		}
		call(types.LiquidityContract, "SetTokenTuple")
		call(types.BridgeContract, "ChangeTssECDSAPubKey")
		if !steps(int(constants.MinSoftDelay) + 2) {
			return false
		}
		call(types.LiquidityContract, "SetTokenTuple")
		call(types.BridgeContract, "ChangeTssECDSAPubKey")
		send(&nom.AccountBlock{Address: w.admin, ToAddress: types.BridgeContract, Data: definition.ABIBridge.PackMethodPanic(definition.SetNetworkMethodName,
			uint32(2), uint32(123), "Ethereum", arEvmNet, "{}")})
		send(&nom.AccountBlock{Address: w.admin, ToAddress: types.BridgeContract, Data: definition.ABIBridge.PackMethodPanic(definition.SetNetworkMethodName,
			uint32(2), uint32(456), "Sidechain", arEvmNet, "{}")})
		if !steps(1) {
			return false
		}
		pair := func(zts types.ZenonTokenStandard, evm string, owned bool) {
			send(&nom.AccountBlock{Address: w.admin, ToAddress: types.BridgeContract, Data: definition.ABIBridge.PackMethodPanic(definition.SetTokenPairMethod,
				uint32(2), uint32(123), zts, evm, true, true, owned, big.NewInt(10), uint32(15), uint32(2), `{}`)})
		}
		pair(types.ZnnTokenStandard, arEvmAddr, false)
		if !steps(int(constants.MinSoftDelay) + 2) {
			return false
		}
		pair(types.ZnnTokenStandard, arEvmAddr, false)
		if !steps(1) {
			return false
		}
		pair(w.tokBridge, arEvmAdr2, true)
		if !steps(int(constants.MinSoftDelay) + 2) {
			return false
		}
		pair(w.tokBridge, arEvmAdr2, true)
		call(types.LiquidityContract, "LiquidityStake")
		call(types.BridgeContract, "WrapToken")
		call(types.BridgeContract, "UnwrapToken")
		call(types.BridgeContract, "UnwrapToken")
		call(types.BridgeContract, "UnwrapToken")
	}
	if r.regime >= 3 {
		call(types.HtlcContract, "Create")
		other := sha256.Sum256([]byte("a preimage nobody reveals"))
		if b := send(&nom.AccountBlock{Address: u1, ToAddress: types.HtlcContract, TokenStandard: types.ZnnTokenStandard, Amount: zn(2),
			Data: definition.ABIHtlc.PackMethodPanic(definition.CreateHtlcMethodName, u2, w.frontierTime()+600, definition.HashTypeSHA256, uint8(32), other[:])}); b != nil {
			w.htlcKeep = append(w.htlcKeep, b.Hash)
		}
	}
	if !steps(2) {
		return false
	}
	w.receiveAll(u1)
	w.receiveAll(u2)
	if r.c.Args["debug"] != "" && r.regime >= 2 {
		if ni, err := definition.GetNetworkInfoVariable(n.Chain().GetFrontierAccountStore(types.BridgeContract).Storage(), 2, 123); err == nil {
			r.c.Hit(fmt.Sprintf("dbg setup network pairs=%d name=%s", len(ni.TokenPairs), ni.Name))
		}
	}
	return steps(1)
}

// receiveAll receives everything pending for a user account (keeps balances available for later calls)
func (w *arWorld) receiveAll(a types.Address) {
	n := w.r.n
	hashes, err := n.Chain().GetFrontierMomentumStore().GetAccountMailbox(a).GetUnreceivedAccountBlockHashes(64)
	if err != nil {
		return
	}
	for _, h := range hashes {
		if _, err := n.Submit(&nom.AccountBlock{BlockType: nom.BlockTypeUserReceive, Address: a, FromBlockHash: h}); err == nil {
			w.r.c.Hit("user-receive")
		}
	}
}

// runPlan: for every contract x method: the four generators x the two delivery paths; several calls per momentum so that
// every call has a next queued call behind it.
func (r *arRun) runPlan() {
	c := r.c
	w := r.w
	if !w.setup() {
		return
	}
	reps := 1
	if c.Tier == "thorough" {
		reps = 3
	}
	pending := 0
	flush := func() bool {
		pending = 0
		if !r.step() {
			return false
		}
		if c.R.Intn(3) == 0 {
			w.receiveAll(g.User1.Address)
			w.receiveAll(g.User2.Address)
			w.receiveAll(g.Spork.Address)
		}
		return true
	}
	for rep := 0; rep < reps; rep++ {
		for _, ca := range allContractABIs {
			for _, method := range arMethodOrder(ca.abi) {
				for _, gen := range []string{"canonical", "boundary", "semantic", "hostile"} {
					for _, via := range []string{"tpl", "ext"} {
						var call *arCall
						var spec *arSpec
						switch gen {
						case "canonical":
							spec = w.canonical(ca.addr, method)
						case "boundary":
							spec = w.boundary(ca.addr, method)
						case "semantic":
							spec = w.semantic(ca.addr, method)
						case "hostile":
							if base := w.canonical(ca.addr, method); base != nil {
								if bc := w.pack(ca.addr, method, base, "hostile"); bc != nil {
									bc.data = abiHostileOne(c, ca.abi.Methods[method], bc.data)
									call = bc
								}
							}
						}
						if spec != nil {
							call = w.pack(ca.addr, method, spec, gen)
						}
						if call == nil {
							c.Hit("no-call-" + gen)
							continue
						}
						blk := r.deliver(call, via)
						if r.failed {
							return
						}
						if blk != nil {
							if spec != nil && spec.onAccept != nil {
								spec.onAccept(blk.Hash)
							}
							pending++
						}
						if pending >= 3+c.R.Intn(4) {
							if !flush() {
								return
							}
						}
					}
				}
			}
			if !flush() {
				return
			}
		}
		// the lock periods end and epochs pass: the time-dependent methods are called again later
		if rep == 0 && r.fast {
			later := func(days int64, methods [][2]string) bool {
				r.jumpSec = days * 3600 // compressed calendar: a "day" is an hour
				for i := 0; i < 3; i++ {
					if !flush() {
						return false
					}
				}
				c.Hit(fmt.Sprintf("time-jump-%dd", days))
				for _, lm := range methods {
					addr, _ := abiAddrOf(lm[0])
					for _, gen := range []string{"canonical", "canonical", "semantic"} {
						var spec *arSpec
						if gen == "canonical" {
							spec = w.canonical(addr, lm[1])
						} else {
							spec = w.semantic(addr, lm[1])
						}
						if spec == nil {
							continue
						}
						if call := w.pack(addr, lm[1], spec, gen); call != nil {
							if blk := r.deliver(call, []string{"tpl", "ext"}[c.R.Intn(2)]); blk != nil {
								pending++
							}
							if r.failed {
								return false
							}
						}
					}
					if pending >= 4 {
						if !flush() {
							return false
						}
					}
				}
				for i := 0; i < 3; i++ {
					if !flush() {
						return false
					}
				}
				return true
			}
			// day 28: inside the sentinel revoke window (27..30); rewards of 28 epochs
			if !later(arJumpDays(c, 28), [][2]string{{"sentinel", "Revoke"}, {"pillar", "CollectReward"}, {"sentinel", "CollectReward"}, {"stake", "CollectReward"},
				{"liquidity", "CollectReward"}, {"htlc", "Reclaim"}, {"plasma", "CancelFuse"}, {"liquidity", "UnlockLiquidityStakeEntries"}, {"liquidity", "CancelLiquidityStake"}}) {
				return
			}
			// day 31 (or day 84 = inside the pillar revoke window 83..90 in a quarter of the histories): stakes of one period end
			d2 := int64(3)
			if r.id%4 == 3 {
				d2 = 56
			}
			if !later(arJumpDays(c, d2), [][2]string{{"stake", "Cancel"}, {"liquidity", "CancelLiquidityStake"}, {"pillar", "Revoke"}, {"pillar", "WithdrawQsr"},
				{"sentinel", "WithdrawQsr"}, {"pillar", "CollectReward"}, {"stake", "CollectReward"}, {"liquidity", "CollectReward"}, {"sentinel", "CollectReward"}}) {
				return
			}
		}
	}
}

func arJumpDays(c *Ctx, d int64) int64 {
	if v, ok := c.Args["jumpdays"]; ok {
		fmt.Sscan(v, &d)
	}
	return d
}

// arMethodOrder: the contract's methods in name order, with the ones that take the administration away (Emergency zeroes
// the administrator and halts; ChangeAdministrator with a foreign address; Revoke; removals) after all others, and
// ProposeAdministrator (the guardians vote the administrator back) last.
func arMethodOrder(a abi.ABIContract) []string {
	rank := func(m string) int {
		switch m {
		case "ActivateSpork", "RemoveTokenPair", "RemoveNetwork", "Revoke":
			return 1
		case "NominateGuardians":
			return 2
		case "ChangeAdministrator":
			return 3
		case "Halt":
			return 4
		case "Unhalt":
			return 5
		case "Emergency":
			return 6
		case "ProposeAdministrator":
			return 7
		}
		return 0
	}
	names := sortedMethodNames(a)
	sort.SliceStable(names, func(i, j int) bool { return rank(names[i]) < rank(names[j]) })
	return names
}

// ---------------------------------------------------------------------------------------------------
// scenarios: contract-to-contract sends that carry an amount and whose receive fails. rollbackEmbedded then refunds
// to the sending CONTRACT with empty call data, and applySend of that refund runs the method lookup of the destination.
// ---------------------------------------------------------------------------------------------------

var arScenarios = []string{"wrap-owned-unburnable", "wrap-owned-unburnable-htlc-regime", "wrap-owned-never-burnable", "wrap-owned-never-burnable-fee", "wrap-owned-unburnable-fee"}

func (w *arWorld) runScenario(name string) {
	r := w.r
	n := r.n
	send := func(tpl *nom.AccountBlock) *nom.AccountBlock {
		tpl.BlockType = nom.BlockTypeUserSend
		if tpl.Amount == nil {
			tpl.Amount = big.NewInt(0)
		}
		b, err := n.Submit(tpl)
		if err != nil {
			r.c.Hit("scenario-send-rejected")
			if r.c.Args["debug"] != "" {
				r.c.Hit(fmt.Sprintf("scenario-send-rejected %s %v", arLabel(tpl.ToAddress, tpl.Data), err))
			}
			return nil
		}
		r.noteAccepted(b, "scenario-"+name, "tpl")
		return b
	}
	steps := func(k int) bool {
		for i := 0; i < k; i++ {
			if !r.step() {
				return false
			}
		}
		return true
	}
	if strings.HasPrefix(name, "int-sweep:") {
		part, parts := 0, 1
		fmt.Sscanf(name, "int-sweep:%d/%d", &part, &parts)
		if parts < 1 {
			parts = 1
		}
		w.runIntSweep(part%parts, parts)
		return
	}
	if name == "degenerate-epochs" {
		w.runDegenerateEpochs()
		return
	}
	if name == "proof-states" {
		w.runProofStates()
		return
	}
	switch name { // s_autoreceive_admin.go
	case "slice-lengths":
		w.runSliceLengths()
		return
	case "admin-machine":
		w.runAdminMachine()
		return
	case "time-regimes":
		w.runTimeRegimes()
		return
	}
	if strings.HasPrefix(name, "spork-switch:") {
		w.runSporkSwitch(strings.TrimPrefix(name, "spork-switch:"))
		return
	}
	switch name {
	case "wrap-owned-unburnable", "wrap-owned-unburnable-htlc-regime", "wrap-owned-never-burnable", "wrap-owned-never-burnable-fee", "wrap-owned-unburnable-fee":
		// The administrator lists a token as "owned" (wraps burn it, redeems mint it) that the bridge does not own.
		//  -unburnable: tokOwned, issued by User1, burnable. Wrapping works (anyone may burn a burnable token). Then the token's
		//    owner switches IsBurnable off (UpdateToken, his right at any time). The next wrap makes the bridge send
		//    Burn(amount) to the token contract; the burn is refused (not burnable, sender is not the owner); the refund of
		//    the amount goes to the bridge contract with empty data.
		//  -never-burnable: tokFixed, issued by User2, never burnable: the first wrap already meets the refusal.
		//  -fee: the pair takes a fee, the bridge keeps it and asks for a burn of amount - fee (the two amounts differ).
		// Wrapped amounts: 500 in the two original scenarios, else one of a small family chosen by the seed.
		tok, holder := w.tokOwned, g.User1.Address
		never := strings.Contains(name, "never-burnable")
		if never {
			tok, holder = w.tokFixed, g.User2.Address
		}
		fee := uint32(0)
		if strings.HasSuffix(name, "-fee") {
			fee = uint32(15)
		}
		amount := big.NewInt(500)
		if name != "wrap-owned-unburnable" && name != "wrap-owned-unburnable-htlc-regime" {
			amount = big.NewInt([]int64{1, 2, 7, 500, 9985, 10000, 65536, 100000, 1000000}[r.c.R.Intn(9)])
		}
		pair := func() {
			send(&nom.AccountBlock{Address: w.admin, ToAddress: types.BridgeContract, Data: definition.ABIBridge.PackMethodPanic(definition.SetTokenPairMethod,
				uint32(2), uint32(123), tok, "0x5bbbb2315678afecb367f032d93f642f64180aa3", true, true, true, big.NewInt(1), fee, uint32(2), `{}`)})
		}
		pair()
		if !steps(int(constants.MinSoftDelay) + 2) {
			return
		}
		pair()
		if !steps(1) {
			return
		}
		wrap := func() *nom.AccountBlock {
			return send(&nom.AccountBlock{Address: holder, ToAddress: types.BridgeContract, TokenStandard: tok, Amount: new(big.Int).Set(amount),
				Data: definition.ABIBridge.PackMethodPanic(definition.WrapTokenMethodName, uint32(2), uint32(123), arEvmAdr2)})
		}
		if !never {
			if wrap() == nil || !steps(3) { // burnable: wrap applied, burn applied
				return
			}
			r.c.Hit("scenario-wrap-while-burnable-done")
			send(&nom.AccountBlock{Address: g.User1.Address, ToAddress: types.TokenContract,
				Data: definition.ABIToken.PackMethodPanic(definition.UpdateTokenMethodName, w.tokOwned, g.User1.Address, true, false)})
			if !steps(2) {
				return
			}
		}
		if wrap() == nil {
			return
		}
		// a call queued behind: must be processed too
		send(&nom.AccountBlock{Address: g.User2.Address, ToAddress: types.TokenContract, TokenStandard: types.ZnnTokenStandard, Amount: big.NewInt(1),
			Data: definition.ABIToken.PackMethodPanic(definition.BurnMethodName)})
		steps(4)
		r.c.Hit("scenario-wrap-after-unburnable-done")
	}
}

// ---------------------------------------------------------------------------------------------------
// spork-switch scenarios: the spork regime changes DURING the history. The history starts with no spork and enforces the
// three sporks one after the other in the given order (a = accelerator, b = bridge & liquidity, h = htlc; all six orders
// are legal: sporks are independent objects of the spork contract, known finding F17 is about which methods an
// out-of-order regime exposes, not about what happens to accepted calls). From the momentum in which a spork's activation
// is sent until two momentums past its enforcement height, every momentum carries a batch of calls to the contracts whose
// method tables depend on the regime (accelerator, liquidity, bridge, htlc, and the CollectReward / Update methods that
// change implementation), built by the canonical generator for the current world: those that send-time validation accepts
// under the regime of the acknowledged momentum are confirmed by the next momentum and received under the regime of THAT
// momentum - the calls accepted at the frontier just below an enforcement height are in flight across the switch. The C09
// monitors of the stream judge every one of them: receive produced without panic or error, applied or refunded exactly,
// inbox drained.
// ---------------------------------------------------------------------------------------------------

var arSporkSwitchOrders = []string{"hba", "ahb", "hab", "abh", "bah", "bha"}

func (w *arWorld) runSporkSwitch(order string) {
	r := w.r
	n := r.n
	c := r.c
	type probe struct {
		to     types.Address
		method string
	}
	// one amount-carrying or state-changing call per gated contract in every batch ...
	core := []probe{{types.HtlcContract, "Create"}, {types.AcceleratorContract, "Donate"}, {types.LiquidityContract, "Donate"},
		{types.BridgeContract, "WrapToken"}, {types.LiquidityContract, "LiquidityStake"}, {types.AcceleratorContract, "CreateProject"},
		{types.HtlcContract, "Unlock"}, {types.PillarContract, "CollectReward"}}
	// ... and the other methods of those contracts in rotation (not the ones that give the administration away)
	var rest []probe
	for _, ca := range allContractABIs {
		switch ca.addr {
		case types.AcceleratorContract, types.LiquidityContract, types.BridgeContract, types.HtlcContract:
			for _, m := range arMethodOrder(ca.abi) {
				switch m {
				case "Emergency", "ChangeAdministrator", "ProposeAdministrator", "Halt", "RemoveNetwork", "RemoveTokenPair":
					continue
				}
				rest = append(rest, probe{ca.addr, m})
			}
		case types.SentinelContract, types.StakeContract:
			rest = append(rest, probe{ca.addr, "CollectReward"}, probe{ca.addr, "Update"})
		case types.PillarContract:
			rest = append(rest, probe{ca.addr, "Update"})
		}
	}
	next := 0
	regimeNow := func() string {
		st := n.Chain().GetFrontierMomentumStore()
		s := ""
		for _, x := range []struct {
			l  string
			sp *types.ImplementedSpork
		}{{"a", types.AcceleratorSpork}, {"b", types.BridgeAndLiquiditySpork}, {"h", types.HtlcSpork}} {
			if on, _ := st.IsSporkActive(x.sp); on {
				s += x.l
			}
		}
		if s == "" {
			s = "0"
		}
		return s
	}
	batch := func(tag string) bool {
		calls := append([]probe{}, core...)
		for k := 0; k < 5 && len(rest) > 0; k++ {
			calls = append(calls, rest[next%len(rest)])
			next++
		}
		reg := regimeNow()
		for i, p := range calls {
			spec := w.canonical(p.to, p.method)
			if spec == nil {
				continue
			}
			call := w.pack(p.to, p.method, spec, "switch-"+tag)
			if call == nil {
				continue
			}
			blk := r.deliver(call, []string{"tpl", "ext"}[(i+next)%2])
			if r.failed {
				return false
			}
			if blk != nil {
				c.Hit(fmt.Sprintf("switch-accepted-under-%s %s.%s", reg, arContractName(p.to), p.method))
				if spec.onAccept != nil {
					spec.onAccept(blk.Hash)
				}
			}
		}
		return true
	}
	sporkOf := map[byte]*types.ImplementedSpork{'a': types.AcceleratorSpork, 'b': types.BridgeAndLiquiditySpork, 'h': types.HtlcSpork}
	for i := 0; i < len(order); i++ {
		sp := sporkOf[order[i]]
		if sp == nil {
			continue
		}
		name := fmt.Sprintf("switch-%c-%d", order[i], r.id)
		if _, err := n.Submit(&nom.AccountBlock{BlockType: nom.BlockTypeUserSend, Address: g.Spork.Address, ToAddress: types.SporkContract,
			Data: definition.ABISpork.PackMethodPanic(definition.SporkCreateMethodName, name, "regime switch inside the history")}); err != nil {
			c.Hit("switch-create-rejected")
			return
		}
		if !batch("before") || !r.step() || !r.step() {
			return
		}
		var id types.Hash
		sporks, _ := n.Chain().GetFrontierMomentumStore().GetAllDefinedSporks()
		for _, s := range sporks {
			if s.Name == name {
				id = s.Id
			}
		}
		if id.IsZero() {
			r.fail("spork-switch: spork %s was not created", name)
			return
		}
		types.ImplementedSporksMap[id] = true
		w.declared = append(w.declared, id)
		if _, err := n.Submit(&nom.AccountBlock{BlockType: nom.BlockTypeUserSend, Address: g.Spork.Address, ToAddress: types.SporkContract,
			Data: definition.ABISpork.PackMethodPanic(definition.SporkActivateMethodName, id)}); err != nil {
			c.Hit("switch-activate-rejected")
			return
		}
		sp.SporkId = id
		enforce := uint64(0)
		for k := 0; k < 16; k++ {
			tag := "window"
			if enforce != 0 {
				switch h := n.Height(); {
				case h+1 == enforce:
					tag = "last-before-enforcement" // accepted under the old regime, confirmed and received under the new one
				case h == enforce:
					tag = "at-enforcement"
				}
			}
			if !batch(tag) {
				return
			}
			if tag == "last-before-enforcement" {
				c.Hit("switch-batch-in-flight-across-" + string(order[i]) + "-after-" + regimeNow())
			}
			if !r.step() {
				return
			}
			if enforce == 0 {
				sporks, _ := n.Chain().GetFrontierMomentumStore().GetAllDefinedSporks()
				for _, s := range sporks {
					if s.Id == id && s.Activated {
						enforce = s.EnforcementHeight
					}
				}
			}
			if enforce != 0 && n.Height() >= enforce+2 {
				break
			}
		}
		if on, _ := n.Chain().GetFrontierMomentumStore().IsSporkActive(sp); !on {
			r.fail("spork-switch: spork %c is not enforced at height %d (enforcement height %d)", order[i], n.Height(), enforce)
			return
		}
		c.Hit("switch-enforced-" + string(order[i]))
		w.receiveAll(g.User1.Address)
		w.receiveAll(g.User2.Address)
	}
	c.Hit("switch-history-done-" + order)
}
