package main

import (
	"bytes"
	"fmt"
	"math/big"
	"reflect"
	"strings"

	g "github.com/zenon-network/go-zenon/chain/genesis/mock"
	"github.com/zenon-network/go-zenon/chain/nom"
	"github.com/zenon-network/go-zenon/common/types"
	"github.com/zenon-network/go-zenon/vm/abi"
	"github.com/zenon-network/go-zenon/vm/embedded"
)

// ---------------------------------------------------------------------------------------------------
// abi stream (C09-T3): the REAL decoder (abi.ABIContract.UnpackMethod / UnpackEmptyMethod, i.e. Arguments.Unpack,
// toGoType, lengthPrefixPointsTo, forEachUnpack, unpackTuple/unpackAtomic) on canonical encodings and hostile
// mutations of every method of every embedded ABI. One line per case:
//
//   abi <abi> <method> <call data hex> | ok <decoded values> <re-packed call data hex>
//                                      | err
//                                      | panic
//
// The Lean decoder model (Model/Abi.lean) runs on the same bytes and must agree on ok/err/panic, on the decoded
// values and on the re-packed bytes (its encoder against the real Arguments.Pack).
// Decoding target: for a tuple a struct built by reflection with one exported field per argument of the argument's Go
// type (what the definition.*Param structs are); for a single argument a pointer to a variable of the argument's Go
// type (what `new(types.Address)`, `&stakeTime`, `new(string)` are in the ValidateSendBlock functions).
// The same bytes also go through the real ValidateSendBlock of the method object (embedded.GetEmbeddedMethod under
// the regime with all sporks active), under recover.
// Monitor: no panic, ever; decoder error => ValidateSendBlock error.
// ---------------------------------------------------------------------------------------------------

func abiCapitalise(s string) string {
	for len(s) > 0 && s[0] == '_' {
		s = s[1:]
	}
	if s == "" {
		return "X"
	}
	return strings.ToUpper(s[:1]) + s[1:]
}

// abiRender: canonical text of a decoded value (no spaces)
func abiRender(v reflect.Value, t abi.Type) string {
	for v.Kind() == reflect.Interface {
		v = v.Elem()
	}
	switch t.T {
	case abi.UintTy, abi.IntTy:
		if t.Kind == reflect.Ptr {
			b, ok := v.Interface().(*big.Int)
			if !ok || b == nil {
				return "nil"
			}
			return b.String()
		}
		if t.T == abi.UintTy {
			return fmt.Sprint(v.Uint())
		}
		return fmt.Sprint(v.Int())
	case abi.BoolTy:
		return fmt.Sprint(v.Bool())
	case abi.StringTy:
		return hx([]byte(v.String()))
	case abi.BytesTy:
		return hx(v.Bytes())
	case abi.AddressTy, abi.TokenStandardTy, abi.HashTy, abi.FixedBytesTy:
		b := make([]byte, v.Len())
		for i := range b {
			b[i] = byte(v.Index(i).Uint())
		}
		return hx(b)
	case abi.SliceTy, abi.ArrayTy:
		ss := make([]string, v.Len())
		for i := range ss {
			ss[i] = abiRender(v.Index(i), *t.Elem)
		}
		return "[" + strings.Join(ss, ",") + "]"
	}
	return "?"
}

// abiDecode runs the real decoder on call data. Returns "ok <values> <repacked>", "err" or "panic".
func abiDecode(ca abi.ABIContract, method string, data []byte) (result string, panicMsg string) {
	m := ca.Methods[method]
	var err error
	var values []interface{}
	rendered := "-"
	p := safely(func() {
		switch len(m.Inputs) {
		case 0:
			err = ca.UnpackEmptyMethod(method, data)
		case 1:
			target := reflect.New(m.Inputs[0].Type.Type)
			err = ca.UnpackMethod(target.Interface(), method, data)
			if err == nil {
				values = []interface{}{target.Elem().Interface()}
				rendered = abiRender(target.Elem(), m.Inputs[0].Type)
			}
		default:
			fields := make([]reflect.StructField, len(m.Inputs))
			for i, in := range m.Inputs {
				fields[i] = reflect.StructField{Name: abiCapitalise(in.Name), Type: in.Type.Type}
			}
			target := reflect.New(reflect.StructOf(fields))
			err = ca.UnpackMethod(target.Interface(), method, data)
			if err == nil {
				ss := make([]string, len(m.Inputs))
				for i, in := range m.Inputs {
					f := target.Elem().Field(i)
					values = append(values, f.Interface())
					ss[i] = abiRender(f, in.Type)
				}
				rendered = strings.Join(ss, ";")
			}
		}
	})
	if p != "" {
		return "panic", p
	}
	if err != nil {
		return "err", ""
	}
	var repacked []byte
	if p := safely(func() { repacked, err = ca.PackMethod(method, values...) }); p != "" {
		return "panic", "re-pack: " + p
	}
	if err != nil {
		return "ok " + rendered + " repack-error", ""
	}
	return "ok " + rendered + " " + hx(repacked), ""
}

var abiAllSporks = &regimeCtx{acc: true, bridge: true, htlc: true}

func abiAddrOf(name string) (types.Address, bool) {
	for a, s := range embeddedNames {
		if s[2:] == name {
			return a, true
		}
	}
	return types.Address{}, false
}

// abiEmitCase prints one decoder case and runs the monitors. validate: also call the real ValidateSendBlock.
func abiEmitCase(c *Ctx, abiName string, ca abi.ABIContract, method string, data []byte, validate bool) string {
	res, pmsg := abiDecode(ca, method, data)
	c.Emit("abi %s %s %s | %s", abiName, method, hx(data), res)
	kind := strings.SplitN(res, " ", 2)[0]
	c.Hit("abi-" + kind)
	if kind == "panic" {
		c.Fail("C09 abi: the decoder panicked on %s.%s data=%s: %s", abiName, method, hx(data), firstLine300(pmsg))
	}
	if strings.HasSuffix(res, " repack-error") {
		c.Fail("C09 abi: decoded values of %s.%s cannot be re-packed, data=%s", abiName, method, hx(data))
	}
	if !validate {
		return kind
	}
	addr, ok := abiAddrOf(abiName)
	if !ok {
		return kind
	}
	var verr error
	found := false
	p := safely(func() {
		mobj, err := embedded.GetEmbeddedMethod(abiAllSporks, addr, data)
		if err != nil {
			return
		}
		found = true
		blk := &nom.AccountBlock{BlockType: nom.BlockTypeUserSend, Address: g.User1.Address, ToAddress: addr, Amount: big.NewInt(0),
			TokenStandard: types.ZnnTokenStandard, Data: append([]byte{}, data...)}
		verr = mobj.ValidateSendBlock(blk)
		if verr == nil && len(ca.Methods[method].Inputs) > 0 && kind == "ok" {
			// the method re-packs: what it stores must decode again to the same values
			res2, _ := abiDecode(ca, method, blk.Data)
			if strings.SplitN(res2, " ", 3)[0] != "ok" || strings.SplitN(res2, " ", 3)[1] != strings.SplitN(res, " ", 3)[1] {
				c.Fail("C09 abi: ValidateSendBlock of %s.%s re-packed data=%s into %s which decodes to %s, not to %s", abiName, method, hx(data), hx(blk.Data), res2, res)
			}
			c.Hit("abi-validate-repack-checked")
		}
	})
	if p != "" {
		c.Hit("abi-validate-panic")
		c.Fail("C09 abi: ValidateSendBlock of %s.%s panicked on data=%s: %s", abiName, method, hx(data), firstLine300(p))
		return kind
	}
	if !found {
		c.Hit("abi-validate-method-not-found")
		return kind
	}
	if verr == nil {
		c.Hit("abi-validate-ok")
		if kind == "err" && bytes.Equal(data[:4], ca.Methods[method].Id()) {
			c.Fail("C09 abi: ValidateSendBlock of %s.%s accepted data the decoder rejects: %s", abiName, method, hx(data))
		}
	} else {
		c.Hit("abi-validate-err")
	}
	return kind
}

// ---------------------------------------------------------------------------------------------------
// hostile mutations
// ---------------------------------------------------------------------------------------------------

func abiIsDynamic(t abi.Type) bool {
	return t.T == abi.StringTy || t.T == abi.BytesTy || t.T == abi.SliceTy
}

var abiHugeWords = func() [][]byte {
	w := func(x *big.Int) []byte { return abi.PaddedBigBytes(x, 32) }
	p := func(k uint) *big.Int { return new(big.Int).Lsh(big.NewInt(1), k) }
	sub := func(a *big.Int, b int64) *big.Int { return new(big.Int).Sub(a, big.NewInt(b)) }
	return [][]byte{
		w(p(31)), w(sub(p(32), 1)), w(p(32)), w(p(58)), w(p(59)), w(sub(p(59), 1)), w(p(62)),
		w(p(63)), w(sub(p(63), 1)), w(sub(p(63), 32)), w(sub(p(63), 33)), w(sub(p(64), 1)), w(sub(p(64), 32)), w(sub(p(64), 31)), w(p(64)),
		w(p(255)), w(sub(p(255), 1)), w(sub(p(256), 1)), w(sub(p(256), 32)), w(sub(p(256), 31)), w(sub(p(256), 33)),
	}
}()

func abiWord(x int) []byte { return abi.PaddedBigBytes(big.NewInt(int64(x)), 32) }

func abiPut(body []byte, at int, word []byte) {
	if at >= 0 && at+32 <= len(body) {
		copy(body[at:at+32], word)
	}
}

func abiReadSmall(body []byte, at int) (int, bool) {
	if at < 0 || at+32 > len(body) {
		return 0, false
	}
	x := new(big.Int).SetBytes(body[at : at+32])
	if !x.IsInt64() || x.Int64() > 1<<30 {
		return 0, false
	}
	return int(x.Int64()), true
}

// abiHostileOne applies one hostile mutation to (canonical) call data of method m.
func abiHostileOne(c *Ctx, m abi.Method, data []byte) []byte {
	R := c.R
	if len(data) < 4 {
		return append([]byte{}, data...)
	}
	sel := append([]byte{}, data[:4]...)
	body := append([]byte{}, data[4:]...)
	join := func() []byte { return append(append([]byte{}, sel...), body...) }
	var dyn []int // head slots of the dynamic arguments
	for i, in := range m.Inputs {
		if abiIsDynamic(in.Type) {
			dyn = append(dyn, i)
		}
	}
	pickWord := func() []byte {
		switch R.Intn(6) {
		case 0:
			return abiWord(len(body))
		case 1:
			return abiWord(len(body) - R.Intn(65))
		case 2:
			return abiWord(len(body) + 1 + R.Intn(64))
		case 3:
			return abiWord(R.Intn(len(body) + 1))
		default:
			return abiHugeWords[R.Intn(len(abiHugeWords))]
		}
	}
	kind := R.Intn(12)
	if len(dyn) == 0 && kind >= 4 && kind <= 8 {
		kind = []int{0, 1, 2, 3, 9, 10, 11}[R.Intn(7)]
	}
	switch kind {
	case 0: // truncated
		c.Hit("hostile-truncate")
		cuts := []int{0, 1, 2, 3, 4, 5, 4 + 31, 4 + 32, 4 + 33, len(data) - 1, len(data) - 31, len(data) - 32, len(data) - 33, 4 + R.Intn(len(body)+1)}
		k := cuts[R.Intn(len(cuts))]
		if k < 0 {
			k = 0
		}
		if k > len(data) {
			k = len(data)
		}
		return append([]byte{}, data[:k]...)
	case 1: // extended tail
		c.Hit("hostile-extend")
		ext := make([]byte, []int{1, 31, 32, 33, 64, 320}[R.Intn(6)])
		if R.Intn(2) == 0 {
			R.Read(ext)
		}
		return append(join(), ext...)
	case 2: // wrong selector
		c.Hit("hostile-selector")
		switch R.Intn(3) {
		case 0:
			sel[R.Intn(4)] ^= 1 << uint(R.Intn(8))
		case 1:
			sel = []byte{0, 0, 0, 0}
		default:
			R.Read(sel)
		}
		return join()
	case 3: // non-canonical padding: dirty the unused bytes of a static word
		c.Hit("hostile-padding")
		if len(m.Inputs) == 0 || len(body) < 32 {
			return append(join(), 0)
		}
		i := R.Intn(len(m.Inputs))
		at := i * 32
		if at+32 > len(body) {
			at = 0
		}
		switch R.Intn(5) {
		case 0:
			body[at] = 0xff
		case 1:
			for k := 0; k < 12; k++ {
				body[at+k] ^= byte(1 + R.Intn(255))
			}
		case 2: // small non-canonical values of the whole word (a bool that is 2, a uint8 that is 256, ...)
			abiPut(body, at, abiWord([]int{2, 3, 255, 256, 257, 65536, 1 << 32}[R.Intn(7)]))
		case 3:
			body[at+31] = byte(2 + R.Intn(254))
		default:
			body[at+R.Intn(32)] ^= byte(1 + R.Intn(255))
		}
		return join()
	case 4: // offset of a dynamic argument
		c.Hit("hostile-offset")
		i := dyn[R.Intn(len(dyn))]
		switch R.Intn(5) {
		case 0:
			abiPut(body, i*32, abiWord(i*32)) // points to itself
		case 1:
			abiPut(body, i*32, abiWord(0))
		case 2:
			j := dyn[R.Intn(len(dyn))] // overlapping: same target as another dynamic argument
			if j*32+32 <= len(body) {
				abiPut(body, i*32, body[j*32:j*32+32])
			}
		default:
			abiPut(body, i*32, pickWord())
		}
		return join()
	case 5: // length word of a dynamic argument
		c.Hit("hostile-length")
		i := dyn[R.Intn(len(dyn))]
		if off, ok := abiReadSmall(body, i*32); ok {
			abiPut(body, off, pickWord())
		}
		return join()
	case 6: // element offsets / lengths inside a nested dynamic array (string[] / bytes[])
		c.Hit("hostile-nested")
		i := dyn[R.Intn(len(dyn))]
		off, ok := abiReadSmall(body, i*32)
		if !ok {
			return join()
		}
		n, ok := abiReadSmall(body, off)
		if !ok || n == 0 {
			abiPut(body, off, abiWord(1+R.Intn(3))) // claim elements that are not there
			return join()
		}
		k := R.Intn(n)
		if m.Inputs[i].Type.T == abi.SliceTy && abiIsDynamic(*m.Inputs[i].Type.Elem) {
			if R.Intn(2) == 0 {
				abiPut(body, off+32+k*32, pickWord()) // element offset
			} else if eo, ok := abiReadSmall(body, off+32+k*32); ok {
				abiPut(body, off+32+eo, pickWord()) // element length
			}
		} else {
			abiPut(body, off+32+k*32, pickWord())
		}
		return join()
	case 7: // length 0 / 1 / shorter / longer by one
		c.Hit("hostile-length-small")
		i := dyn[R.Intn(len(dyn))]
		if off, ok := abiReadSmall(body, i*32); ok {
			if l, ok := abiReadSmall(body, off); ok {
				abiPut(body, off, abiWord([]int{0, 1, l + 1, l - 1, l + 32, 32 * l}[R.Intn(6)]))
			}
		}
		return join()
	case 8: // two mutations
		c.Hit("hostile-double")
		return abiHostileOne(c, m, abiHostileOne(c, m, data))
	case 9: // random bytes flipped
		c.Hit("hostile-flip")
		if len(body) == 0 {
			return append(join(), byte(R.Intn(256)))
		}
		for k := 0; k < 1+R.Intn(4); k++ {
			body[R.Intn(len(body))] ^= byte(1 + R.Intn(255))
		}
		return join()
	case 10: // a whole word replaced by a huge value
		c.Hit("hostile-word")
		if len(body) < 32 {
			return append(join(), abiHugeWords[R.Intn(len(abiHugeWords))]...)
		}
		abiPut(body, 32*R.Intn(len(body)/32), pickWord())
		return join()
	default: // empty / selector only / random garbage behind the selector
		c.Hit("hostile-garbage")
		switch R.Intn(4) {
		case 0:
			return []byte{}
		case 1:
			return sel
		default:
			gb := make([]byte, R.Intn(200))
			R.Read(gb)
			return append(sel, gb...)
		}
	}
}

func init() {
	register("abi", func(c *Ctx) {
		silenceLoggers()
		if types.SporkAddress == nil { // set by genesis on a node; the spork/liquidity methods compare the sender with it
			types.SporkAddress = &g.Spork.Address
			defer func() { types.SporkAddress = nil }()
		}
		pool := &argPool{
			addrs:  []types.Address{g.User1.Address, g.User2.Address, types.ZeroAddress, types.TokenContract, g.Pillar1.Address},
			tokens: []types.ZenonTokenStandard{types.ZnnTokenStandard, types.QsrTokenStandard, types.ZeroTokenStandard},
			names:  []string{g.Pillar1Name, "x"},
		}
		tables := abiTables()
		mutations := 24
		for round := 0; round < c.N; round++ {
			for _, na := range tables {
				for _, method := range sortedMethodNames(na.abi) {
					m := na.abi.Methods[method]
					data, err := c.genCall(na.abi, method, pool)
					if err != nil {
						c.Fail("abi: cannot pack %s.%s: %v", na.name, method, err)
						continue
					}
					if k := abiEmitCase(c, na.name, na.abi, method, data, true); k != "ok" {
						c.Fail("C09 abi: canonical encoding of %s.%s is not decoded (%s): %s", na.name, method, k, hx(data))
					}
					c.Hit("abi-canonical")
					for k := 0; k < mutations; k++ {
						abiEmitCase(c, na.name, na.abi, method, abiHostileOne(c, m, data), true)
					}
				}
			}
		}
	})
}
