package main

// Liveness part of the `p2p` stream (C15: "no message from a remote peer can block the message loop indefinitely … only the
// offending peer is dropped, and the node keeps serving the others").
//
// The one-session-per-message runs of s_p2p.go show that the node ANSWERS after a hostile message. They do not show that the node
// can still WORK: every insertion (gossiped account blocks, delivered momentums, the node's own momentum production) starts with
// the chain's insert lock, and a message that leaves that lock held — or wedges the pool — stalls every other peer's loop at
// its next delivery while requests that only read keep being answered. So after EVERY message of this part
//
//	(c) the insert lock can be taken (goroutine + deadline),
//	(b) an honest peer on another session delivers a valid account block by TxMsg and finds it in the node's pool,
//	(a) an honest peer's request on another session is answered,
//
// and after every round the node produces its next momentum within a deadline. A stall is REPORTED (class=stalled-*, with the
// message sequence of the round) instead of hanging the harness.
//
// The messages are the inputs the node refuses at every stage of account-block / momentum intake: blocks the verifier refuses
// (bad signature, stale hash, foreign key, gap, unknown previous, second receive of a send), blocks that pass verification and
// are then refused BY THE POOL (fork siblings — same account, same height, same previous — in both arrival orders, in one
// message and in two, at height frontier+1 and above; duplicates), blocks on top of a refused block, a batch in which a refused
// block precedes a valid one, and NewBlockMsg / BlocksMsg deliveries of the next momentum corrupted at several stages
// (signature, changes hash, account-block signature, dropped block, fabricated hash).

import (
	"bytes"
	"fmt"
	"math/big"
	"strings"
	"time"

	g "github.com/zenon-network/go-zenon/chain/genesis/mock"
	"github.com/zenon-network/go-zenon/chain/nom"
	"github.com/zenon-network/go-zenon/common/types"
	"github.com/zenon-network/go-zenon/p2p"
	"github.com/zenon-network/go-zenon/protocol"
	"github.com/zenon-network/go-zenon/wallet"
)

const (
	liveLockDeadline     = 10 * time.Second
	liveMomentumDeadline = 20 * time.Second
)

// lockProbe: can the chain's insert lock be taken within the deadline?
func (r *p2pRun) lockProbe(d time.Duration) bool {
	done := make(chan struct{})
	go func() {
		defer func() { recover() }()
		ins := r.a.z.Chain().AcquireInsert("zvh liveness probe")
		ins.Unlock()
		close(done)
	}()
	select {
	case <-done:
		return true
	case <-time.After(d):
		return false
	}
}

// genBlock generates (does not insert) a signed user block on top of the account's current frontier in the node's pool.
func (r *p2pRun) genBlock(tpl *nom.AccountBlock) (*nom.AccountBlock, error) {
	kp := keyOf(tpl.Address)
	var b *nom.AccountBlock
	var err error
	if p := safely(func() {
		var tx *nom.AccountBlockTransaction
		tx, err = r.a.sup.GenerateFromTemplate(tpl, kp.Signer)
		if err == nil {
			b = tx.Block
		}
	}); p != "" {
		return nil, fmt.Errorf("panic: %s", p)
	}
	return b, err
}

func (r *p2pRun) genSend(from, to types.Address, amount int64) (*nom.AccountBlock, error) {
	return r.genBlock(&nom.AccountBlock{BlockType: nom.BlockTypeUserSend, Address: from, ToAddress: to,
		TokenStandard: types.ZnnTokenStandard, Amount: big.NewInt(amount)})
}

// resign recomputes hash and signature of an altered block with the given key.
func resign(b *nom.AccountBlock, kp *wallet.KeyPair) *nom.AccountBlock {
	b.Hash = b.ComputeHash()
	b.Signature = kp.Sign(b.Hash.Bytes())
	b.PublicKey = append([]byte{}, kp.Public...)
	return b
}

func (r *p2pRun) inPool(h types.Hash) bool {
	for _, b := range r.a.z.Chain().GetAllUncommittedAccountBlocks() {
		if b.Hash == h {
			return true
		}
	}
	return false
}

func blkTok(b *nom.AccountBlock) string {
	return fmt.Sprintf("%s#%d:%s<-%s", addrName(b.Address), b.Height, h8(b.Hash), h8(b.PreviousHash))
}

type liveMsg struct {
	label string
	code  uint64
	pay   []byte
	desc  string
}

func txMsg(label string, bs ...*nom.AccountBlock) liveMsg {
	toks := make([]string, len(bs))
	for i, b := range bs {
		toks[i] = blkTok(b)
	}
	return liveMsg{label: label, code: protocol.TxMsg, pay: mustRlp(bs), desc: fmt.Sprintf("TxMsg{%s}[%s]", label, strings.Join(toks, " "))}
}

// liveness runs the whole part on a node of its own. honest: the account whose blocks the honest peer delivers.
func p2pLiveness(c *Ctx, netId uint64) {
	a := newProducer()
	stopped := make(chan struct{})
	defer func() {
		// a node whose insert lock is held for ever cannot be stopped either: do not wait for it
		go func() { a.stop(); close(stopped) }()
		select {
		case <-stopped:
		case <-time.After(10 * time.Second):
			c.Hit("live-node-stop-abandoned")
		}
	}()
	r := &p2pRun{c: c, a: a, netId: netId, byHash: map[types.Hash]uint64{}, sessTimeout: 12 * time.Second}
	r.genesis = a.z.Chain().GetGenesisMomentum().Hash
	for a.frontier().Height < 8 {
		a.momentum()
	}
	r.refreshChain()
	formatLogs() // production-like logging: every record is formatted (see s_p2p_net.go)
	r.pm = protocol.NewProtocolManager(1, netId, a.bridge)
	r.pm.Start()

	// the accounts of the mock genesis that hold funds and fused plasma
	users := []*wallet.KeyPair{g.User1, g.User2, g.User3, g.User4}
	honest := g.User5
	var seq []string // the messages of the current round, for the report
	alive := true
	fail := func(class, format string, args ...interface{}) {
		c.Fail("C15 class=%s %s; messages of this round, in order: %s", class, fmt.Sprintf(format, args...), strings.Join(seq, " ; "))
		alive = false
	}
	// probes after one hostile message
	probes := func(after string) {
		if !alive {
			return
		}
		c.Hit("live-probes")
		// (c) the insert lock
		if !r.lockProbe(liveLockDeadline) {
			fail("stalled-insert-lock", "after %s the chain's insert lock cannot be taken within %v: every later insertion — any peer's TxMsg / NewBlock / "+
				"Blocks delivery, the node's own momentum production — blocks", after, liveLockDeadline)
			return
		}
		// (b) an honest peer's valid block reaches the pool. A delivered momentum is imported on the fetcher's own goroutine and may
		//     move the honest account's frontier between the moment the block is built and the moment it arrives, so the honest
		//     peer (like any wallet) rebuilds its block on the new frontier and tries again: five attempts.
		pooled, lastTok, lastObs := false, "", ""
		for attempt := 0; attempt < 5 && !pooled; attempt++ {
			if attempt > 0 {
				time.Sleep(300 * time.Millisecond)
				c.Hit("live-honest-retry")
			}
			hb, err := r.genSend(honest.Address, users[c.R.Intn(len(users))].Address, int64(1+c.R.Intn(1000)))
			if err != nil {
				lastObs = "cannot build: " + err.Error()
				continue
			}
			lastTok = blkTok(hb)
			pay := mustRlp([]*nom.AccountBlock{hb})
			res := r.session(nil, &p2p.Msg{Code: protocol.TxMsg, Size: uint32(len(pay)), Payload: bytes.NewReader(pay)})
			obs, _, _ := r.observe(res)
			lastObs = obs
			c.Emit("p2p-msg %d %d %d items 1 0 | %s", len(r.hashes), protocol.TxMsg, len(pay), obs)
			if res.hang {
				fail("stalled-honest-peer", "after %s an honest peer's TxMsg{%s} on another session is not consumed within %v (its message loop is "+
					"blocked); block in pool: %v", after, lastTok, r.sessTimeout, r.inPool(hb.Hash))
				return
			}
			if obs != "cont" {
				fail("honest-peer-dropped", "after %s an honest peer delivering the valid block %s was answered %q", after, lastTok, obs)
				return
			}
			pooled = r.inPool(hb.Hash)
		}
		if !pooled {
			fail("honest-tx-not-pooled", "after %s the valid block delivered by an honest peer is not in the node's pool (5 attempts, each block built on "+
				"the account's frontier of that moment; last: %s, %s)", after, lastTok, lastObs)
			return
		}
		// (a) an honest peer's request
		r.goodPeerCheck()
	}
	send := func(m liveMsg) {
		if !alive {
			return
		}
		seq = append(seq, m.desc)
		r.oneMessage(m.code, uint32(len(m.pay)), m.pay, "live-"+m.label)
		if r.hangs > 0 {
			fail("stalled-session", "the session that sent %s neither answered nor disconnected", m.desc)
			return
		}
		probes(m.desc)
	}
	nextMomentum := func() {
		if !alive {
			return
		}
		done := make(chan string, 1)
		go func() { done <- safely(func() { a.z.InsertNewMomentum() }) }()
		before := a.frontier().Height
		select {
		case p := <-done:
			if p != "" {
				fail("momentum-production-panic", "the node's own momentum production panicked: %s", firstLine(p))
				return
			}
		case <-time.After(liveMomentumDeadline):
			fail("stalled-momentum-production", "the node's own momentum production does not finish within %v", liveMomentumDeadline)
			return
		}
		if a.frontier().Height != before+1 {
			fail("momentum-not-produced", "the node's own momentum production left the chain at height %d", a.frontier().Height)
			return
		}
		r.refreshChain()
		c.Hit("live-momentum")
	}

	rounds := 16
	if c.Tier == "thorough" {
		rounds = 64
	}
	for round := 0; round < rounds && alive; round++ {
		seq = nil
		u := users[round%len(users)]
		other := users[(round+1+c.R.Intn(len(users)-1))%len(users)]
		// two valid competing blocks of one account: same height, same previous
		x, err1 := r.genSend(u.Address, other.Address, int64(1000+c.R.Intn(1000)))
		y, err2 := r.genSend(u.Address, honest.Address, int64(3000+c.R.Intn(1000)))
		if err1 != nil || err2 != nil || x.Height != y.Height || x.PreviousHash != y.PreviousHash || x.Hash == y.Hash {
			c.Fail("C15 liveness: harness cannot build two sibling blocks of %s: %v %v", addrName(u.Address), err1, err2)
			return
		}
		// lo / hi by hash: with equal plasma the pool's tie-break compares hashes — both arrival orders are sent
		lo, hi := x, y
		if bytes.Compare(lo.Hash.Bytes(), hi.Hash.Bytes()) > 0 {
			lo, hi = hi, lo
		}
		child := func(parent *nom.AccountBlock, amount int64) *nom.AccountBlock {
			b := parent.Copy()
			b.PreviousHash, b.Height = parent.Hash, parent.Height+1
			b.Amount = big.NewInt(amount)
			return resign(b, u)
		}
		variant := round % 8
		c.Hit(fmt.Sprintf("live-variant-%d", variant))
		switch variant {
		case 0:
			send(txMsg("fork-first", lo))
			send(txMsg("fork-sibling-higher-hash", hi))
		case 1:
			send(txMsg("fork-first", hi))
			send(txMsg("fork-sibling-lower-hash", lo))
		case 2:
			send(txMsg("fork-pair-one-message", lo, hi))
		case 3:
			send(txMsg("fork-pair-one-message-reversed", hi, lo))
			send(txMsg("duplicate", hi))
			send(txMsg("duplicate", lo))
		case 4:
			send(txMsg("fork-first", lo))
			send(txMsg("duplicate", lo))
			send(txMsg("child-of-unpooled-sibling", child(hi, 7)))
			c1, c2 := child(lo, 11), child(lo, 12)
			send(txMsg("child", c1))
			send(txMsg("fork-sibling-of-child", c2))
			send(txMsg("fork-sibling", hi))
			send(txMsg("grandchild+fork-sibling", child(c1, 13), child(c2, 14)))
		case 5:
			bad := x.Copy()
			bad.Signature = append([]byte{}, bad.Signature...)
			bad.Signature[c.R.Intn(len(bad.Signature))] ^= 1 << uint(c.R.Intn(8))
			send(txMsg("bad-signature", bad))
			stale := x.Copy()
			stale.Amount = new(big.Int).Add(stale.Amount, big.NewInt(1))
			send(txMsg("stale-hash", stale))
			foreign := resign(x.Copy(), other)
			send(txMsg("foreign-key", foreign))
			gap := x.Copy()
			gap.Height++
			send(txMsg("gap", resign(gap, u)))
			nokey := x.Copy()
			nokey.PublicKey, nokey.Signature = nil, nil
			send(txMsg("unsigned", nokey))
			send(txMsg("refused-then-valid-in-one-message", bad, y))
			send(txMsg("fork-sibling", x))
		case 6:
			// receive blocks: the honest account's sends of earlier rounds are confirmed by now
			var unreceived *nom.AccountBlock
			st := a.z.Chain().GetFrontierMomentumStore()
			safely(func() {
				hs, _ := st.GetAccountMailbox(u.Address).GetUnreceivedAccountBlockHashes(5)
				for _, h := range hs {
					if b, _ := st.GetAccountBlockByHash(h); b != nil && unreceived == nil {
						unreceived = b
					}
				}
			})
			if unreceived == nil {
				c.Hit("live-no-unreceived")
				send(txMsg("fork-first", hi))
				send(txMsg("fork-sibling-lower-hash", lo))
				break
			}
			rcv, err := r.genBlock(&nom.AccountBlock{BlockType: nom.BlockTypeUserReceive, Address: u.Address, FromBlockHash: unreceived.Hash})
			if err != nil {
				c.Hit("live-receive-not-generated")
				break
			}
			c.Hit("live-receive-fork")
			send(txMsg("receive", rcv))
			send(txMsg("fork-send-against-pooled-receive", lo))
			again := rcv.Copy()
			again.PreviousHash, again.Height = rcv.Hash, rcv.Height+1
			send(txMsg("second-receive-of-one-send", resign(again, u)))
			send(txMsg("fork-send-against-pooled-receive", hi))
		default:
			// the next momentum, corrupted at several stages, announced by NewBlockMsg and delivered by BlocksMsg
			send(txMsg("fork-first", lo))
			nextMomentum()
			if !alive {
				break
			}
			fr := a.frontier()
			dm := a.bridge.GetBlock(fr.Hash)
			prev, _ := a.z.Chain().GetFrontierMomentumStore().GetMomentumByHeight(fr.Height - 1)
			if dm == nil || prev == nil || a.rollbackTo(prev.Identifier()) != nil {
				c.Fail("C15 liveness: harness cannot roll its node back by one momentum")
				return
			}
			r.hashes = r.hashes[:len(r.hashes)-1]
			delete(r.byHash, fr.Hash)
			cp := func() *nom.DetailedMomentum { return wire([]*nom.DetailedMomentum{dm})[0] }
			mk := func(label string, mut func(d *nom.DetailedMomentum)) {
				d := cp()
				mut(d)
				pay := mustRlp(d)
				send(liveMsg{label: label, code: protocol.NewBlockMsg, pay: pay, desc: fmt.Sprintf("NewBlockMsg{%s}[%d:%s]", label, d.Momentum.Height,
					h8(d.Momentum.Hash))})
				pay = mustRlp([]*nom.DetailedMomentum{d})
				send(liveMsg{label: label + "-blocks", code: protocol.BlocksMsg, pay: pay, desc: fmt.Sprintf("BlocksMsg{%s}[%d:%s]", label, d.Momentum.Height,
					h8(d.Momentum.Hash))})
			}
			// (the deliveries that fail at an account block come first: every delivery leaves the blocks it got through in the pool, and a
			// block the node already holds is not looked at again — a later delivery of the genuine momentum around a pooled genuine block
			// would be adopted, rightly)
			if len(dm.AccountBlocks) > 0 {
				mk("momentum-block-signature", func(d *nom.DetailedMomentum) {
					b := d.AccountBlocks[len(d.AccountBlocks)-1]
					b.Signature = append([]byte{}, b.Signature...)
					b.Signature[7] ^= 1
				})
				mk("momentum-dropped-block", func(d *nom.DetailedMomentum) { d.AccountBlocks = d.AccountBlocks[:len(d.AccountBlocks)-1] })
			}
			mk("momentum-signature", func(d *nom.DetailedMomentum) {
				d.Momentum.Signature = append([]byte{}, d.Momentum.Signature...)
				d.Momentum.Signature[3] ^= 4
			})
			mk("momentum-changes-hash", func(d *nom.DetailedMomentum) { d.Momentum.ChangesHash[5] ^= 1 })
			mk("momentum-fabricated-hash", func(d *nom.DetailedMomentum) { d.Momentum.Hash[0] ^= 0xff })
			send(txMsg("fork-sibling", hi))
		}
		// the round ends with the node's own next momentum (which confirms what is pooled)
		nextMomentum()
	}
	c.HitN("live-rounds", rounds)
	if alive {
		pmStopped := make(chan struct{})
		go func() { defer close(pmStopped); defer func() { recover() }(); r.pm.Stop() }()
		select {
		case <-pmStopped:
		case <-time.After(5 * time.Second):
			c.Hit("live-pm-stop-abandoned")
		}
	}
}
