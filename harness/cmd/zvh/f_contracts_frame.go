package main

import (
	"fmt"
	"go/ast"
	"go/parser"
	"go/token"
	"os"
	"path/filepath"
	"sort"
	"strings"
)

// Frame facts of the embedded contract methods (C10 joint machine): what a method of vm/embedded/implementation can
// reach through its vm context. Read from the AST of the working tree:
//   - the names of the parameters of type vm_context.AccountVmContext (all uses below are selected on these names),
//   - every (file, selector) of a call `context.X(...)`,
//   - every method called on `context.MomentumStore()` (the only way to another account's store),
//   - the methods the interface vm_context.AccountVmContext declares itself.
// The model's joint step leaves the storage and the balances of every contract but the receiving one untouched: that
// is the case when storage is reached through context.Storage() only (the account store of the receiving address),
// balance mutators are called by the token contract only and the momentum store is only read.
func init() {
	factGens = append(factGens, func(repo string) (*factFile, error) {
		f := newFactFile("ContractsFrame")
		dir := filepath.Join(repo, "vm", "embedded", "implementation")
		ents, err := os.ReadDir(dir)
		if err != nil {
			return nil, err
		}
		fset := token.NewFileSet()
		paramNames := map[string]bool{}
		type site struct{ file, sel string }
		sites := map[site]bool{}
		msCalls := map[string]bool{}
		nfiles := 0
		for _, e := range ents {
			name := e.Name()
			if e.IsDir() || !strings.HasSuffix(name, ".go") || strings.HasSuffix(name, "_test.go") || strings.HasSuffix(name, "_verif.go") {
				continue
			}
			af, err := parser.ParseFile(fset, filepath.Join(dir, name), nil, 0)
			if err != nil {
				return nil, err
			}
			nfiles++
			// parameter names of the vm context
			ast.Inspect(af, func(n ast.Node) bool {
				ft, ok := n.(*ast.FuncType)
				if !ok || ft.Params == nil {
					return true
				}
				for _, p := range ft.Params.List {
					if se, ok := p.Type.(*ast.SelectorExpr); ok && se.Sel.Name == "AccountVmContext" {
						for _, id := range p.Names {
							paramNames[id.Name] = true
						}
					}
				}
				return true
			})
			ast.Inspect(af, func(n ast.Node) bool {
				call, ok := n.(*ast.CallExpr)
				if !ok {
					return true
				}
				se, ok := call.Fun.(*ast.SelectorExpr)
				if !ok {
					return true
				}
				if id, ok := se.X.(*ast.Ident); ok && paramNames[id.Name] {
					sites[site{name, se.Sel.Name}] = true
				}
				// context.MomentumStore().Y(...)
				if inner, ok := se.X.(*ast.CallExpr); ok {
					if ise, ok := inner.Fun.(*ast.SelectorExpr); ok && ise.Sel.Name == "MomentumStore" {
						msCalls[se.Sel.Name] = true
					}
				}
				return true
			})
		}
		if nfiles == 0 {
			return nil, fmt.Errorf("no Go files in %s", dir)
		}
		pn := []string{}
		for k := range paramNames {
			pn = append(pn, k)
		}
		sort.Strings(pn)
		f.raw("-- vm/embedded/implementation/*.go (AST): names of the parameters of type vm_context.AccountVmContext\n")
		f.strList("implCtxParamNames", pn)
		sl := []site{}
		for k := range sites {
			sl = append(sl, k)
		}
		sort.Slice(sl, func(i, j int) bool {
			if sl[i].file != sl[j].file {
				return sl[i].file < sl[j].file
			}
			return sl[i].sel < sl[j].sel
		})
		f.raw("-- every (file, X) with a call `context.X(...)`\n")
		ss := make([]string, len(sl))
		for i, s := range sl {
			ss[i] = fmt.Sprintf("(%q, %q)", s.file, s.sel)
		}
		f.raw("def implCtxCalls : List (String × String) := [%s]\n", strings.Join(ss, ", "))
		ms := []string{}
		for k := range msCalls {
			ms = append(ms, k)
		}
		sort.Strings(ms)
		f.raw("-- every Y with a call `context.MomentumStore().Y(...)`\n")
		f.strList("implMomentumStoreCalls", ms)
		// does any file of the package pass the momentum store on (assign it to a variable / pass it as an argument)?
		// then the list above would not be complete: count the uses of MomentumStore that are not immediately called on
		bare := 0
		for _, e := range ents {
			name := e.Name()
			if e.IsDir() || !strings.HasSuffix(name, ".go") || strings.HasSuffix(name, "_test.go") || strings.HasSuffix(name, "_verif.go") {
				continue
			}
			af, _ := parser.ParseFile(fset, filepath.Join(dir, name), nil, 0)
			total, chained := 0, 0
			ast.Inspect(af, func(n ast.Node) bool {
				if se, ok := n.(*ast.SelectorExpr); ok {
					if se.Sel.Name == "MomentumStore" {
						total++
					}
					if inner, ok := se.X.(*ast.CallExpr); ok {
						if ise, ok := inner.Fun.(*ast.SelectorExpr); ok && ise.Sel.Name == "MomentumStore" {
							chained++
						}
					}
				}
				return true
			})
			bare += total - chained
		}
		f.nat("implMomentumStoreEscapes", bare)
		return f, nil
	})
}
