package main

// Shared helpers for the node-driven streams (sync-batches, p2p): a silent mock producer node, follower
// nodes fed through the real protocol.ChainBridge, and panic-safe wrappers.

import (
	"fmt"
	"math/big"
	"os"
	"time"

	"github.com/inconshreveable/log15"

	"github.com/zenon-network/go-zenon/chain"
	"github.com/zenon-network/go-zenon/chain/genesis"
	g "github.com/zenon-network/go-zenon/chain/genesis/mock"
	"github.com/zenon-network/go-zenon/chain/nom"
	"github.com/zenon-network/go-zenon/common"
	"github.com/zenon-network/go-zenon/common/db"
	"github.com/zenon-network/go-zenon/common/types"
	"github.com/zenon-network/go-zenon/consensus"
	"github.com/zenon-network/go-zenon/protocol"
	"github.com/zenon-network/go-zenon/verifier"
	"github.com/zenon-network/go-zenon/vm"
	"github.com/zenon-network/go-zenon/zenon/mock"
)

// harnessT implements common.T for the mock node.
type harnessT struct{ dirs []string }

func (t *harnessT) Fatalf(format string, args ...interface{}) {
	panic("mock-fatal: " + fmt.Sprintf(format, args...))
}
func (t *harnessT) TempDir() string {
	d, err := os.MkdirTemp("", "zvh-node-")
	if err != nil {
		panic(err)
	}
	t.dirs = append(t.dirs, d)
	return d
}
func (t *harnessT) cleanup() {
	for _, d := range t.dirs {
		os.RemoveAll(d)
	}
}

var allLoggers = []log15.Logger{
	common.ChainLogger, common.ConsensusLogger, common.NodeLogger, common.P2PLogger, common.PillarLogger,
	common.ProtocolLogger, common.FetcherLogger, common.DownloaderLogger, common.RPCLogger, common.VerifierLogger,
	common.ZenonLogger, common.VmLogger, common.SupervisorLogger, common.EmbeddedLogger, common.WalletLogger,
}

// silence drops every log record and detaches fmt.Printf of the node code from the trace.
func silence() {
	log15.Root().SetHandler(log15.DiscardHandler())
	for _, l := range allLoggers {
		l.SetHandler(log15.DiscardHandler())
	}
}

var devNull *os.File

// muteStdout makes os.Stdout/os.Stderr of the node code /dev/null (the trace writer was opened before).
func muteStdout() {
	if devNull == nil {
		devNull, _ = os.OpenFile(os.DevNull, os.O_WRONLY, 0)
		os.Stdout = devNull
		if os.Getenv("ZVH_STDERR") == "" {
			os.Stderr = devNull
		}
	}
}

// fixedClock: verification compares momentum timestamps with common.Clock-independent time.Now() only for the
// "in the future" rule (mock timestamps are in 2001), so any clock works; the mock installs its own anyway.
type fixedClock struct{ t time.Time }

func (c fixedClock) Now() time.Time { return c.t }

// producer is the mock node A.
type producer struct {
	t      *harnessT
	z      mock.MockZenon
	bridge protocol.ChainBridge
	sup    *vm.Supervisor
}

func newProducer() *producer {
	muteStdout()
	silence()
	t := &harnessT{}
	z := mock.NewMockZenon(t)
	silence() // the mock re-installs stderr handlers
	sup := vm.NewSupervisor(z.Chain(), z.Consensus())
	br := protocol.NewChainBridge(z.Chain(), z.Consensus(), verifier.NewVerifier(z.Chain(), z.Consensus()), sup)
	return &producer{t: t, z: z, bridge: br, sup: sup}
}

func (p *producer) stop() {
	func() {
		defer func() { recover() }()
		p.z.StopPanic()
	}()
	p.t.cleanup()
}

func (p *producer) frontier() *nom.Momentum {
	m, err := p.z.Chain().GetFrontierMomentumStore().GetFrontierMomentum()
	if err != nil {
		panic(err)
	}
	return m
}

// send inserts a user send block (amount in raw units of ZNN) from users[i] to users[j] into A's pool.
func (p *producer) send(from, to int, amount int64) (blk *nom.AccountBlock, err error) {
	defer func() {
		if r := recover(); r != nil {
			err = fmt.Errorf("panic: %v", r)
		}
	}()
	users := userKeys()
	blk = p.z.InsertSendBlock(&nom.AccountBlock{
		Address:       users[from].Address,
		ToAddress:     users[to].Address,
		TokenStandard: types.ZnnTokenStandard,
		Amount:        big.NewInt(amount),
	}, nil, mock.SkipVmChanges)
	return blk, nil
}

// receive inserts the receive block for a confirmed send.
func (p *producer) receive(send *nom.AccountBlock) (err error) {
	defer func() {
		if r := recover(); r != nil {
			err = fmt.Errorf("panic: %v", r)
		}
	}()
	p.z.InsertReceiveBlock(send.Header(), nil, nil, mock.SkipVmChanges)
	return nil
}

// momentum produces the next momentum and returns it with its account blocks.
func (p *producer) momentum() *nom.DetailedMomentum {
	p.z.InsertNewMomentum()
	f := p.frontier()
	return p.bridge.GetBlock(f.Hash)
}

// momentumSkipping produces the next momentum `gap` slots after the frontier's (1 = the next slot, as momentum() does; 2 leaves
// one slot empty), built as pillar/worker_momentum.go does and signed by the pillar elected for that slot.
func (p *producer) momentumSkipping(gap int64) *nom.DetailedMomentum {
	ch := p.z.Chain()
	prev := p.frontier()
	tsec := int64(prev.TimestampUnix) + 10*gap
	exp, err := p.z.Consensus().GetMomentumProducer(time.Unix(tsec, 0))
	if err != nil || exp == nil {
		panic(fmt.Sprintf("momentumSkipping: no producer for %d: %v", tsec, err))
	}
	var key vm.SignFunc
	for _, kp := range g.PillarKeys {
		if kp.Address == *exp {
			key = kp.Signer
		}
	}
	if key == nil {
		panic("momentumSkipping: elected pillar has no key")
	}
	ins := ch.AcquireInsert("zvh producer skip")
	blocks := ch.GetNewMomentumContent()
	m := &nom.Momentum{ChainIdentifier: ch.ChainIdentifier(), PreviousHash: prev.Hash, Height: prev.Height + 1,
		TimestampUnix: uint64(tsec), Content: nom.NewMomentumContent(blocks), Version: 1}
	m.EnsureCache()
	tx, err := p.sup.GenerateMomentum(&nom.DetailedMomentum{Momentum: m, AccountBlocks: blocks}, key)
	if err == nil {
		err = ch.AddMomentumTransaction(ins, tx)
	}
	ins.Unlock()
	if err != nil {
		panic(fmt.Sprintf("momentumSkipping: %v", err))
	}
	return p.bridge.GetBlock(tx.Momentum.Hash)
}

func (p *producer) rollbackTo(id types.HashHeight) error {
	ins := p.z.Chain().AcquireInsert("zvh rollback")
	defer ins.Unlock()
	return p.z.Chain().RollbackTo(ins, id)
}

type keyLike struct {
	Address types.Address
}

func userKeys() []keyLike {
	return []keyLike{
		{g.User1.Address}, {g.User2.Address}, {g.User3.Address}, {g.User4.Address}, {g.User5.Address},
		{g.User6.Address}, {g.User7.Address}, {g.User8.Address}, {g.User9.Address}, {g.User10.Address},
	}
}

// follower is a full node without pillars, fed only through the real chain bridge.
type follower struct {
	dir    string
	mgr    db.Manager
	ch     chain.Chain
	cons   consensus.Consensus
	sup    *vm.Supervisor
	bridge protocol.ChainBridge
}

func newFollower() *follower {
	dir, err := os.MkdirTemp("", "zvh-fol-")
	if err != nil {
		panic(err)
	}
	mgr := db.NewLevelDBManager(dir)
	ch := chain.NewChain(mgr, genesis.NewGenesis(g.EmbeddedGenesis))
	cons := consensus.NewConsensus(db.NewMemDB(), ch, true)
	common.DealWithErr(ch.Init())
	common.DealWithErr(cons.Init())
	common.DealWithErr(ch.Start())
	common.DealWithErr(cons.Start())
	sup := vm.NewSupervisor(ch, cons)
	br := protocol.NewChainBridge(ch, cons, verifier.NewVerifier(ch, cons), sup)
	return &follower{dir: dir, mgr: mgr, ch: ch, cons: cons, sup: sup, bridge: br}
}

func (f *follower) stop() {
	func() {
		defer func() { recover() }()
		f.cons.Stop()
		f.ch.Stop()
	}()
	os.RemoveAll(f.dir)
}

func (f *follower) frontier() *nom.Momentum {
	m, err := f.ch.GetFrontierMomentumStore().GetFrontierMomentum()
	if err != nil {
		panic(err)
	}
	return m
}

// hashes returns the hash at every height 1..frontier.
func (f *follower) hashes() []types.Hash {
	st := f.ch.GetFrontierMomentumStore()
	fr, err := st.GetFrontierMomentum()
	if err != nil {
		panic(err)
	}
	out := make([]types.Hash, 0, fr.Height)
	for h := uint64(1); h <= fr.Height; h++ {
		m, err := st.GetMomentumByHeight(h)
		if err != nil || m == nil {
			out = append(out, types.ZeroHash)
			continue
		}
		out = append(out, m.Hash)
	}
	return out
}

// insertChain calls the real InsertChain, recovering a panic.
func (f *follower) insertChain(batch []*nom.DetailedMomentum) (idx int, err error, panicked interface{}) {
	defer func() {
		if r := recover(); r != nil {
			panicked = r
		}
	}()
	idx, err = f.bridge.InsertChain(batch)
	return
}
