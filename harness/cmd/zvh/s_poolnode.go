package main

import (
	"fmt"
	"math/big"
	"os"
	"strings"

	"github.com/zenon-network/go-zenon/chain"
	"github.com/zenon-network/go-zenon/chain/genesis"
	g "github.com/zenon-network/go-zenon/chain/genesis/mock"
	"github.com/zenon-network/go-zenon/chain/nom"
	"github.com/zenon-network/go-zenon/common"
	"github.com/zenon-network/go-zenon/common/db"
	"github.com/zenon-network/go-zenon/common/types"
	"github.com/zenon-network/go-zenon/consensus"
	"github.com/zenon-network/go-zenon/protocol"
	"github.com/zenon-network/go-zenon/verifier"
	"github.com/zenon-network/go-zenon/vm"
)

// ---------------------------------------------------------------------------------------------------
// C14 stream `pool-node` (monitors only): the unconfirmed pool of REAL nodes - a producing mock node A and follower
// nodes fed through the real protocol.ChainBridge - against the ledger, after every operation, with readers interposed
// at every listener boundary.
//
// Per history the producer builds a trunk and three branches that fork at the same momentum F and are longer one than
// the other:
//     X: F+1 confirms [p, p2] (two blocks in a row of one user account U), then more traffic
//     Y: F+1 confirms [q, q2] (competitors of p, p2: same account, same heights, other content), longer than X
//     Z: F+1 confirms only p, F+2 confirms p2, longer than Y
// with generated traffic everywhere (transfers, receives, token issue / mint / burn, fuse, stake, delegate: user blocks and
// contract receives with descendant blocks). Every rollback of the producer (chain.RollbackTo) and every momentum it
// produces is one checked operation. Followers then receive, through ChainBridge.AddAccountBlocks (gossip) and
// ChainBridge.InsertChain (sync):
//   - three-step sequences: the lower-priority one of (p, q) pooled (optionally with its child), displaced by the
//     higher-priority competitor, then a batch whose first momentum confirms the displaced block with its child / the
//     winner with its child / only p;
//   - reorganisations: a node on the tip of one branch, with gossiped blocks in its pool, is handed a longer branch
//     (InsertChain rolls back to F and force-inserts the other branch's blocks);
//   - random walks over gossip / extension / switch.
// Every valid delivery that extends the node's chain, or is a longer branch forking at most 30 below, must be adopted.
//
// Readers: every node carries momentum-event listeners that behave like RPC / subscription readers running while a
// momentum is inserted or deleted: inside the notification they call GetFrontierAccountStore, GetUncommittedAccountBlocks-
// ByAddress, GetAllUncommittedAccountBlocks, GetPatch and GetAccountStore for the accounts the momentum touches. On the
// followers one reader is registered BEFORE the account pool in listener order and one AFTER it; on the producer (whose
// chain is initialised by the mock) after it.
//
// Monitors, after every operation and for every account of the genesis plus the embedded contracts (model-free: the
// sentences of the property):
//   - the uncommitted blocks of the account form one chain that extends the account's last CONFIRMED block - the
//     frontier of the account in the ledger's frontier momentum store;
//   - the pool's frontier account store is that chain's head and shows the ledger's block at the confirmed height (no
//     pooled or "stable" block of a momentum that is no longer on the chain);
//   - GetPatch answers exactly for the blocks of the uncommitted chain: every other block the history knows (confirmed,
//     displaced, of another branch, rolled back) is not in the pool;
//   - the winner between two competitors is the one the rule (higher plasma ratio, then smaller hash) names.
// ---------------------------------------------------------------------------------------------------

// pnReader is the reader inside the notifications.
type pnReader struct {
	c      *Ctx
	ch     chain.Chain
	where  string // "before-pool" / "after-pool"
	onIns  bool
	onDel  bool
	wide   bool // read every watched account, not only those the momentum touches
	reads  int
	panics []string
	probe  *pnProbe // the reader is a probe of the listener table as well (s_poolnode_listeners.go)
}

func (r *pnReader) read(dm *nom.DetailedMomentum) {
	if dm == nil {
		return
	}
	seen := map[types.Address]bool{}
	var addrs []types.Address
	note := func(a types.Address) {
		if !seen[a] && !a.IsZero() {
			seen[a] = true
			addrs = append(addrs, a)
		}
	}
	for _, b := range dm.AccountBlocks {
		note(b.Address)
		if b.IsSendBlock() {
			note(b.ToAddress)
		}
	}
	if r.wide {
		for _, a := range pnWatch {
			note(a)
		}
	}
	if p := safely(func() {
		for _, a := range addrs {
			switch r.c.R.Intn(4) {
			case 0:
				r.ch.GetFrontierAccountStore(a).Identifier()
			case 1:
				r.ch.GetUncommittedAccountBlocksByAddress(a)
			case 2:
				fr, _ := r.ch.GetFrontierAccountStore(a).Frontier()
				if fr != nil {
					r.ch.GetAccountStore(a, fr.Identifier())
				}
			default:
				r.ch.GetFrontierAccountStore(a).Identifier()
				r.ch.GetUncommittedAccountBlocksByAddress(a)
			}
			r.reads++
		}
		for _, b := range dm.AccountBlocks {
			if r.c.R.Intn(2) == 0 {
				r.ch.GetPatch(b.Address, b.Identifier())
				r.reads++
			}
		}
		r.ch.GetAllUncommittedAccountBlocks()
	}); p != "" {
		r.panics = append(r.panics, firstLine(p))
	}
}

func (r *pnReader) InsertMomentum(dm *nom.DetailedMomentum) {
	r.probe.InsertMomentum(dm)
	if r.onIns {
		r.read(dm)
	}
}
func (r *pnReader) DeleteMomentum(dm *nom.DetailedMomentum) {
	r.probe.DeleteMomentum(dm)
	if r.onDel {
		r.read(dm)
	}
}

var pnWatch = func() []types.Address {
	var out []types.Address
	for _, kp := range g.AllKeyPairs {
		out = append(out, kp.Address)
	}
	for _, a := range []types.Address{types.PillarContract, types.PlasmaContract, types.StakeContract, types.SporkContract, types.TokenContract,
		types.SentinelContract, types.SwapContract, types.LiquidityContract, types.AcceleratorContract} {
		out = append(out, a)
	}
	return out
}()

// pnNode is a node under observation.
type pnNode struct {
	name    string
	ch      chain.Chain
	bridge  protocol.ChainBridge
	readers []*pnReader
	stop    func()
	ls      *pnListeners // the harness's listeners on the node's momentum event manager
}

// newPnFollower builds a follower node whose first listener (before the account pool) and last listener (after it) are readers.
func newPnFollower(c *Ctx, name string, mode int) (*pnNode, error) {
	dir, err := os.MkdirTemp("", "zvh-pn-")
	if err != nil {
		return nil, err
	}
	n := &pnNode{name: name}
	var ferr error
	if p := safely(func() {
		mgr := db.NewLevelDBManager(dir)
		ch := chain.NewChain(mgr, genesis.NewGenesis(g.EmbeddedGenesis))
		before := &pnReader{c: c, ch: ch, where: "before-pool"}
		after := &pnReader{c: c, ch: ch, where: "after-pool"}
		switch mode % 4 {
		case 0: // readers everywhere
			before.onIns, before.onDel, after.onIns, after.onDel = true, true, true, true
		case 1: // only behind the pool
			after.onIns, after.onDel = true, true
		case 2: // only in front of the pool
			before.onIns, before.onDel = true, true
		default: // a random choice, wide readers
			before.onIns, before.onDel, after.onIns, after.onDel = c.R.Intn(2) == 0, c.R.Intn(2) == 0, c.R.Intn(2) == 0, true
			before.wide, after.wide = c.R.Intn(2) == 0, c.R.Intn(2) == 0
		}
		n.ls = newPnListeners(c, ch)
		before.probe = n.ls.readerProbe("reader-before-pool")
		ch.Register(before) // Init registers the account pool: this listener is told first
		cons := consensus.NewConsensus(db.NewMemDB(), ch, true)
		common.DealWithErr(ch.Init())
		common.DealWithErr(cons.Init())
		common.DealWithErr(ch.Start())
		common.DealWithErr(cons.Start())
		after.probe = n.ls.readerProbe("reader-after-pool")
		ch.Register(after)
		n.ls.fixed = 2
		n.ls.verify(name, "creation", func(string, ...interface{}) {}) // reads the chain: the events are counted from here
		sup := vm.NewSupervisor(ch, cons)
		n.ch = ch
		n.bridge = protocol.NewChainBridge(ch, cons, verifier.NewVerifier(ch, cons), sup)
		n.readers = []*pnReader{before, after}
		n.stop = func() {
			safely(func() { cons.Stop(); ch.Stop() })
			os.RemoveAll(dir)
		}
	}); p != "" {
		ferr = fmt.Errorf("panic: %s", firstLine(p))
		os.RemoveAll(dir)
	}
	silence()
	return n, ferr
}

func (n *pnNode) height() uint64 { return n.ch.GetFrontierMomentumStore().Identifier().Height }
func (n *pnNode) frontierHash() types.Hash {
	return n.ch.GetFrontierMomentumStore().Identifier().Hash
}

func pnId(id types.HashHeight) string {
	if id.IsZero() {
		return "0:-"
	}
	return fmt.Sprintf("%d:%s", id.Height, hx(id.Hash[:6]))
}

// pnRun is one history.
type pnRun struct {
	c      *Ctx
	id     int
	hist   *history
	known  map[types.Address]map[types.HashHeight]bool // every account block the history knows, per account
	failed bool
}

func (r *pnRun) fail(format string, a ...interface{}) {
	r.failed = true
	r.c.Fail("pool-node run=%d: "+format, append([]interface{}{r.id}, a...)...)
}

func (r *pnRun) learn(blocks ...*nom.AccountBlock) {
	for _, b := range blocks {
		if b == nil {
			continue
		}
		if r.known[b.Address] == nil {
			r.known[b.Address] = map[types.HashHeight]bool{}
		}
		r.known[b.Address][b.Identifier()] = true
		for _, d := range b.DescendantBlocks {
			r.learn(d)
		}
	}
}

// check evaluates the monitors on a node after an operation. Returns false when one failed.
func (r *pnRun) check(n *pnNode, what string) bool {
	c := r.c
	ok := true
	// the failing input includes what happened to the node's listener table
	fail := func(format string, a ...interface{}) {
		if n.ls != nil && len(n.ls.ops) > 0 {
			format += " [register / unregister operations on this node's momentum event manager before: " + strings.ReplaceAll(n.ls.opsText(), "%", "%%") + "]"
		}
		r.fail(format, a...)
	}
	if !n.ls.verify(n.name, what, r.fail) {
		ok = false
	}
	for _, rd := range n.readers {
		if len(rd.panics) > 0 {
			fail("%s after %s: a reader inside a momentum notification (%s) panicked: %s", n.name, what, rd.where, rd.panics[0])
			rd.panics = nil
			ok = false
		}
	}
	if p := safely(func() {
		ledger := n.ch.GetFrontierMomentumStore()
		for _, a := range pnWatch {
			confirmed := ledger.GetAccountStore(a).Identifier()
			unc := n.ch.GetUncommittedAccountBlocksByAddress(a)
			// one chain extending the last confirmed block
			prev := confirmed
			pooled := map[types.HashHeight]bool{}
			var ids []string
			for i, b := range unc {
				if b == nil {
					fail("%s after %s: uncommitted block %d of %s is nil", n.name, what, i, addrName(a))
					ok = false
					return
				}
				ids = append(ids, pnId(b.Identifier()))
				if own := (types.HashHeight{Hash: b.PreviousHash, Height: b.Height - 1}); own != prev {
					fail("%s after %s: the uncommitted blocks of %s are [%s]; block %s has previous %s, but the chain so far ends in %s (last confirmed block of the account in the ledger: %s)",
						n.name, what, addrName(a), strings.Join(ids, " "), pnId(b.Identifier()), pnId(own), pnId(prev), pnId(confirmed))
					ok = false
					return
				}
				prev = b.Identifier()
				pooled[b.Identifier()] = true
			}
			if len(unc) > 0 {
				c.Hit("pn-account-with-pooled-blocks")
			}
			// the pool's frontier is the head of that chain, and shows the ledger's block at the confirmed height
			fs := n.ch.GetFrontierAccountStore(a)
			if got := fs.Identifier(); got != prev {
				fail("%s after %s: the pool's frontier of %s is %s; the account's last confirmed block in the ledger is %s and the pool lists %d uncommitted block(s) [%s] - the frontier is not the ledger frontier extended by the pooled blocks (a block of a momentum that is not on the chain is kept as stable)",
					n.name, what, addrName(a), pnId(got), pnId(confirmed), len(unc), strings.Join(ids, " "))
				ok = false
				return
			}
			if confirmed.Height > 0 {
				got, err := fs.ByHeight(confirmed.Height)
				if err != nil || got == nil || got.Identifier() != confirmed {
					fail("%s after %s: the pool's frontier store of %s shows %v at the confirmed height %d, the ledger holds %s", n.name, what, addrName(a), got, confirmed.Height, pnId(confirmed))
					ok = false
					return
				}
			}
			// the pool holds exactly the blocks of the uncommitted chain
			for _, id := range sortedIds(r.known[a]) {
				has := n.ch.GetPatch(a, id) != nil
				if has && !pooled[id] {
					fail("%s after %s: GetPatch(%s, %s) answers a patch, but the block is not on the account's uncommitted chain [%s] (last confirmed %s): a block that was displaced / rolled back / never accepted is still held by the pool - sync and gossip take a block for which GetPatch answers as already applied",
						n.name, what, addrName(a), pnId(id), strings.Join(ids, " "), pnId(confirmed))
					ok = false
					return
				}
				if !has && pooled[id] {
					fail("%s after %s: the pool lists %s/%s as uncommitted (chain [%s] on the last confirmed block %s) but holds no patch for it: the block was not inserted into this pool state - it is a leftover of a ledger state that no longer exists (a deleted momentum)",
						n.name, what, addrName(a), pnId(id), strings.Join(ids, " "), pnId(confirmed))
					ok = false
					return
				}
			}
		}
	}); p != "" {
		fail("%s after %s: reading the pool panics: %s", n.name, what, firstLine(p))
		ok = false
	}
	c.Hit("pn-check")
	return ok
}

// deliver hands a batch that must be adopted to InsertChain.
func (r *pnRun) deliver(n *pnNode, what string, path []types.Hash, from, to int) bool {
	var batch []*nom.DetailedMomentum
	for h := from; h <= to && h <= len(path); h++ {
		batch = append(batch, r.hist.dm(path[h-1]))
	}
	if len(batch) == 0 {
		return true
	}
	before := n.height()
	var idx int
	var err error
	n.ls.churn(n.name, r.fail)
	p := safely(func() { idx, err = n.bridge.InsertChain(wire(batch)) })
	last := batch[len(batch)-1].Momentum
	op := fmt.Sprintf("%s (InsertChain of %d momentum(s) %d..%d, node at height %d)", what, len(batch), batch[0].Momentum.Height, last.Height, before)
	r.c.Emit("pn-insert %s %s %d %d %d | %v", n.name, strings.ReplaceAll(what, " ", "_"), before, batch[0].Momentum.Height, last.Height, err == nil && p == "")
	good := true
	if p != "" {
		r.fail("%s: %s panics: %s", n.name, op, firstLine(p))
		good = false
	} else if err != nil {
		bad := batch[imin(imax(idx, 0), len(batch)-1)]
		var content []string
		for _, b := range bad.AccountBlocks {
			content = append(content, addrName(b.Address)+"/"+pnId(b.Identifier()))
		}
		r.fail("%s: %s is refused at momentum %d (content %s): %v - a valid batch produced by the network (extends the node's chain, or is a longer branch forking %d below its frontier) must be adopted",
			n.name, op, bad.Momentum.Height, strings.Join(content, " "), err, int(before)-int(batch[0].Momentum.Height)+1)
		good = false
	} else if n.frontierHash() != last.Hash {
		r.fail("%s: %s returned nil but the frontier is at height %d, not the last delivered momentum", n.name, op, n.height())
		good = false
	}
	if !r.check(n, op) {
		good = false
	}
	return good
}

// gossip delivers one account block the way a peer announces it. The outcome is not judged (a competitor may lose);
// the state of the pool is.
func (r *pnRun) gossip(n *pnNode, what string, b *nom.AccountBlock) error {
	var err error
	cp, derr := nom.DeserializeAccountBlock(mustSerialize(b))
	if derr != nil {
		return derr
	}
	if r.c.R.Intn(3) == 0 {
		n.ls.churn(n.name, r.fail)
	}
	if p := safely(func() { err = n.bridge.AddAccountBlocks([]*nom.AccountBlock{cp}) }); p != "" {
		r.fail("%s: %s (AddAccountBlocks of %s/%s) panics: %s", n.name, what, addrName(b.Address), pnId(b.Identifier()), firstLine(p))
		return fmt.Errorf("panic")
	}
	r.c.Emit("pn-gossip %s %s %s %s | %v", n.name, strings.ReplaceAll(what, " ", "_"), addrName(b.Address), pnId(b.Identifier()), err == nil)
	r.check(n, fmt.Sprintf("%s (AddAccountBlocks of %s/%s: %v)", what, addrName(b.Address), pnId(b.Identifier()), err))
	return err
}

func mustSerialize(b *nom.AccountBlock) []byte {
	d, err := b.Serialize()
	if err != nil {
		panic(err)
	}
	return d
}

func pnBlocksOf(dm *nom.DetailedMomentum, a types.Address) []*nom.AccountBlock {
	var out []*nom.AccountBlock
	for _, b := range dm.AccountBlocks {
		if b.Address == a {
			out = append(out, b)
		}
	}
	return out
}

func poolNodeHistory(c *Ctx, id int) {
	origGate := verifier.ReceiverMismatchEnforcementHeight
	defer func() { verifier.ReceiverMismatchEnforcementHeight = origGate }()
	verifier.ReceiverMismatchEnforcementHeight = 0
	muteStdout()
	a := NewNode()
	defer a.Stop()
	silence()
	r := &pnRun{c: c, id: id, hist: &history{byHash: map[types.Hash]*histNode{}}, known: map[types.Address]map[types.HashHeight]bool{}}
	aBridge := protocol.NewChainBridge(a.Chain(), a.Z.Consensus(), verifier.NewVerifier(a.Chain(), a.Z.Consensus()), a.Sup)
	aReader := &pnReader{c: c, ch: a.Chain(), where: "after-pool", onIns: true, onDel: true, wide: id%2 == 1}
	A := &pnNode{name: "producer", ch: a.Chain(), bridge: aBridge, readers: []*pnReader{aReader}, ls: newPnListeners(c, a.Chain())}
	if c.Args["producer-reader"] != "off" {
		aReader.probe = A.ls.readerProbe("reader-after-pool")
		A.ls.fixed = 1
		a.Chain().Register(aReader)
		defer a.Chain().UnRegister(aReader)
	}
	A.ls.verify("producer", "creation", func(string, ...interface{}) {})

	// the path from genesis to the producer's frontier, recorded
	pathNow := func() []types.Hash {
		st := a.Chain().GetFrontierMomentumStore()
		H := a.Height()
		out := make([]types.Hash, 0, H)
		for h := uint64(1); h <= H; h++ {
			m, err := st.GetMomentumByHeight(h)
			if err != nil || m == nil {
				panic(fmt.Sprintf("producer has no momentum %d", h))
			}
			if _, ok := r.hist.byHash[m.Hash]; !ok {
				dm := aBridge.GetBlock(m.Hash)
				r.hist.record(dm)
				r.learn(dm.AccountBlocks...)
			}
			out = append(out, m.Hash)
		}
		return out
	}
	a.OnMomentum = func(dm *nom.DetailedMomentum) {
		r.learn(dm.AccountBlocks...)
		r.check(A, fmt.Sprintf("producing momentum %d", dm.Momentum.Height))
		if c.R.Intn(3) == 0 {
			A.ls.churn("producer", r.fail)
		}
	}
	rollback := func(to types.HashHeight) bool {
		from := a.Height()
		var err error
		A.ls.churn("producer", r.fail)
		if p := safely(func() {
			ins := a.Chain().AcquireInsert("zvh pool-node rollback")
			defer ins.Unlock()
			err = a.Chain().RollbackTo(ins, to)
		}); p != "" {
			err = fmt.Errorf("panic: %s", firstLine(p))
		}
		c.Emit("pn-rollback producer %d %d | %v", from, to.Height, err == nil)
		if err != nil {
			r.fail("producer: RollbackTo(%d) from height %d failed: %v", to.Height, from, err)
			return false
		}
		c.Hit("pn-producer-rollback")
		return r.check(A, fmt.Sprintf("chain.RollbackTo from height %d to %d (%d momentum(s) deleted)", from, to.Height, from-to.Height))
	}
	submit := func(tpl *nom.AccountBlock) *nom.AccountBlock {
		b, err := a.Submit(tpl)
		if err != nil || b == nil {
			return nil
		}
		r.learn(b)
		return b
	}

	// ---- trunk
	produceTraffic(c, a, 8+c.R.Intn(14))
	if !r.check(A, "the trunk") {
		return
	}
	trunk := pathNow()
	F := len(trunk)
	fork := types.HashHeight{Hash: trunk[F-1], Height: uint64(F)}
	users := []types.Address{g.User1.Address, g.User2.Address, g.User3.Address, g.User4.Address, g.User5.Address}
	U := users[c.R.Intn(len(users))]
	V := users[c.R.Intn(len(users))]
	send := func(amount int64) *nom.AccountBlock {
		return submit(&nom.AccountBlock{BlockType: nom.BlockTypeUserSend, Address: U, ToAddress: V, TokenStandard: types.ZnnTokenStandard, Amount: big.NewInt(amount)})
	}
	grow := func(min int) bool {
		produceTraffic(c, a, 3+c.R.Intn(10))
		for int(a.Height()) < min {
			if _, err := a.Momentum(); err != nil {
				r.fail("producer cannot produce a momentum: %v", err)
				return false
			}
		}
		return !r.failed
	}
	// ---- branch X: [p, p2] in one momentum
	p1, p2 := send(int64(1000+c.R.Intn(1000))), send(int64(1+c.R.Intn(1000)))
	if p1 == nil || p2 == nil {
		c.Hit("pn-setup-failed")
		return
	}
	if _, err := a.Momentum(); err != nil {
		r.fail("producer cannot produce a momentum: %v", err)
		return
	}
	if !grow(F + 2) {
		return
	}
	X := pathNow()
	if !rollback(fork) {
		return
	}
	// ---- branch Y: [q, q2] in one momentum, longer than X
	q1, q2 := send(int64(3000+c.R.Intn(1000))), send(int64(1+c.R.Intn(1000)))
	if q1 == nil || q2 == nil {
		r.fail("producer after the rollback to %d: the account %s, whose blocks %s and %s were confirmed by the deleted momentums, cannot issue a block on its confirmed frontier any more", F, addrName(U), pnId(p1.Identifier()), pnId(p2.Identifier()))
		return
	}
	if q1.Height != p1.Height || q1.Hash == p1.Hash || q1.PreviousHash != p1.PreviousHash {
		r.fail("producer after the rollback to %d: the next block of %s is built at height %d on %s; before the deleted momentums it was height %d on %s", F, addrName(U),
			q1.Height, hx(q1.PreviousHash[:6]), p1.Height, hx(p1.PreviousHash[:6]))
		return
	}
	if _, err := a.Momentum(); err != nil {
		r.fail("producer cannot produce a momentum: %v", err)
		return
	}
	if !grow(len(X) + 1 + c.R.Intn(2)) {
		return
	}
	Y := pathNow()
	if !rollback(fork) {
		return
	}
	// ---- branch Z: p alone, p2 in the next momentum, longer than Y
	if err := r.gossip(A, "branch Z: p again", p1); err != nil {
		r.fail("producer after the rollback to %d refuses the block %s/%s it accepted on the same ledger state before: %v", F, addrName(U), pnId(p1.Identifier()), err)
		return
	}
	if _, err := a.Momentum(); err != nil {
		r.fail("producer cannot produce a momentum: %v", err)
		return
	}
	if err := r.gossip(A, "branch Z: p2", p2); err != nil {
		r.fail("producer refuses %s/%s on top of its confirmed parent: %v", addrName(U), pnId(p2.Identifier()), err)
		return
	}
	if !grow(len(Y) + 1 + c.R.Intn(2)) {
		return
	}
	Z := pathNow()
	if r.failed {
		return
	}
	branches := [][]types.Hash{X, Y, Z}
	names := []string{"X", "Y", "Z"}
	if x := pnBlocksOf(r.hist.dm(X[F]), U); len(x) != 2 || x[0].Hash != p1.Hash || x[1].Hash != p2.Hash {
		c.Hit("pn-setup-failed") // the momentum did not take both blocks (e.g. the limit): skip the directed part
		return
	}
	if y := pnBlocksOf(r.hist.dm(Y[F]), U); len(y) != 2 || y[0].Hash != q1.Hash || y[1].Hash != q2.Hash {
		c.Hit("pn-setup-failed")
		return
	}
	c.HitN("pn-history-momentums", len(r.hist.byHash))

	// the rule: which of p, q wins
	lose, loseChild, win, winChild := p1, p2, q1, q2
	loseBr, winBr := 0, 1
	if prioStatement(p1, q1) == "ok" {
		lose, loseChild, win, winChild = q1, q2, p1, p2
		loseBr, winBr = 1, 0
	}
	_ = winChild

	nf := 0
	followerReads := 0
	newFollower := func(mode int) *pnNode {
		n, err := newPnFollower(c, fmt.Sprintf("follower%d", nf), mode)
		nf++
		if err != nil {
			r.fail("cannot create a follower: %v", err)
			return nil
		}
		c.Hit("pn-follower")
		stop := n.stop
		n.stop = func() {
			for _, rd := range n.readers {
				followerReads += rd.reads
			}
			stop()
		}
		return n
	}
	syncTo := func(n *pnNode, path []types.Hash, to int) bool {
		for int(n.height()) < to {
			cur := int(n.height())
			k := 1 + c.R.Intn(6)
			if cur+k > to {
				k = to - cur
			}
			if !r.deliver(n, "sync", path, cur+1, cur+k) {
				return false
			}
		}
		return true
	}
	poolOf := func(n *pnNode, a types.Address) []types.Hash {
		var out []types.Hash
		safely(func() {
			for _, b := range n.ch.GetUncommittedAccountBlocksByAddress(a) {
				out = append(out, b.Hash)
			}
		})
		return out
	}

	// ---- 1. three-step sequences: pooled, displaced, then confirmed by a delivered momentum
	for v := 0; v < 6; v++ {
		n := newFollower(v)
		if n == nil {
			return
		}
		func() {
			defer n.stop()
			if !syncTo(n, trunk, F) {
				return
			}
			withChild := v%2 == 1
			r.gossip(n, "step 1: the lower-priority block is pooled", lose)
			if withChild {
				r.gossip(n, "step 1: its child is pooled", loseChild)
			}
			if got := poolOf(n, U); len(got) == 0 || got[0] != lose.Hash {
				r.fail("%s: a valid block %s/%s that extends the account's confirmed chain was gossiped but is not in the pool", n.name, addrName(U), pnId(lose.Identifier()))
				return
			}
			r.gossip(n, "step 2: the competitor with the higher priority arrives", win)
			if got := poolOf(n, U); len(got) != 1 || got[0] != win.Hash {
				r.fail("%s: competitors %s (plasma %d/%d) and %s (plasma %d/%d) for height %d of %s: the rule (higher plasma ratio, then smaller hash) names %s, the pool holds %d block(s) starting with %s after both were gossiped (loser first)",
					n.name, pnId(lose.Identifier()), lose.TotalPlasma, lose.BasePlasma, pnId(win.Identifier()), win.TotalPlasma, win.BasePlasma, win.Height, addrName(U), pnId(win.Identifier()), len(got),
					func() string {
						if len(got) == 0 {
							return "-"
						}
						return hx(got[0][:6])
					}())
			}
			c.Hit("pn-displaced")
			switch v / 2 {
			case 0: // the network confirmed the displaced block together with its child
				c.Hit("pn-three-step-loser-with-child")
				r.deliver(n, "step 3: a momentum confirming the displaced block and its child", branches[loseBr], F+1, F+1+c.R.Intn(2))
			case 1: // the network confirmed the winner with its child
				c.Hit("pn-three-step-winner-with-child")
				r.deliver(n, "step 3: a momentum confirming the pooled winner and its child", branches[winBr], F+1, F+1+c.R.Intn(2))
			default: // the network confirmed p alone, its child one momentum later
				c.Hit("pn-three-step-single")
				r.deliver(n, "step 3: a momentum confirming p alone", Z, F+1, F+1)
				r.deliver(n, "step 3: the next momentum confirming its child", Z, F+2, F+2+c.R.Intn(2))
			}
		}()
		if r.failed {
			return
		}
	}

	// ---- 2. reorganisations with readers: tip of one branch, gossiped blocks in the pool, a longer branch arrives
	for v := 0; v < 4; v++ {
		n := newFollower(v)
		if n == nil {
			return
		}
		func() {
			defer n.stop()
			from, to := 0, 1+c.R.Intn(2) // X -> Y or Z
			if v >= 2 {
				from, to = 1, 2 // Y -> Z
			}
			pos := len(branches[from])
			if c.R.Intn(3) == 0 {
				pos = F + 1 + c.R.Intn(len(branches[from])-F) // not the tip: still shorter than the other branch
			}
			if !syncTo(n, branches[from], pos) {
				return
			}
			// blocks of the other branch's first momentums, gossiped while the node is on this branch (most are refused)
			if c.R.Intn(2) == 0 {
				for _, b := range r.hist.dm(branches[to][F]).AccountBlocks {
					if !types.IsEmbeddedAddress(b.Address) && c.R.Intn(2) == 0 {
						r.gossip(n, "block of the other branch", b)
					}
				}
			}
			c.Hit(fmt.Sprintf("pn-switch-%s-to-%s", names[from], names[to]))
			c.Hit(fmt.Sprintf("pn-switch-depth-%d", imin(pos-F, 6)))
			if !r.deliver(n, fmt.Sprintf("switch from branch %s (height %d) to the longer branch %s forking at %d", names[from], pos, names[to], F), branches[to], F+1, len(branches[to])) {
				return
			}
			if to == 1 && len(Z) > len(Y) {
				c.Hit("pn-switch-Y-to-Z")
				r.deliver(n, fmt.Sprintf("second switch, from branch Y (height %d) to the longer branch Z forking at %d", len(Y), F), Z, F+1, len(Z))
			}
		}()
		if r.failed {
			return
		}
	}

	// ---- 3. random walks
	for v := 0; v < 2; v++ {
		n := newFollower(3)
		if n == nil {
			return
		}
		func() {
			defer n.stop()
			if !syncTo(n, trunk, F-c.R.Intn(imin(F-1, 3))) {
				return
			}
			cur := -1 // index of the branch the node is on (-1: trunk)
			for step := 0; step < 7; step++ {
				h := int(n.height())
				switch x := c.R.Intn(10); {
				case x < 4: // gossip blocks of a momentum one or two ahead on some branch
					br := branches[c.R.Intn(3)]
					k := h + c.R.Intn(2)
					if k < len(br) && k >= 1 {
						for _, b := range r.hist.dm(br[k]).AccountBlocks {
							if !types.IsEmbeddedAddress(b.Address) && b.MomentumAcknowledged.Height <= uint64(h) && c.R.Intn(3) != 0 {
								r.gossip(n, "walk: gossip", b)
							}
						}
					}
				case x < 7: // extend on the current branch (or enter one from the trunk)
					if cur < 0 {
						if h < F {
							if !syncTo(n, trunk, F) {
								return
							}
							continue
						}
						cur = c.R.Intn(3)
					}
					if h < len(branches[cur]) {
						if !r.deliver(n, "walk: extend on branch "+names[cur], branches[cur], h+1, h+1+c.R.Intn(3)) {
							return
						}
					}
				default: // a longer branch
					if h < F {
						continue
					}
					var cands []int
					for i := range branches {
						if i != cur && len(branches[i]) > h {
							cands = append(cands, i)
						}
					}
					if len(cands) == 0 {
						continue
					}
					to := cands[c.R.Intn(len(cands))]
					upto := h + 1 + c.R.Intn(len(branches[to])-h)
					c.Hit("pn-walk-switch")
					if !r.deliver(n, fmt.Sprintf("walk: switch to branch %s (up to %d) from height %d", names[to], upto, h), branches[to], F+1, upto) {
						return
					}
					cur = to
				}
				if r.failed {
					return
				}
			}
		}()
		if r.failed {
			return
		}
	}
	c.HitN("pn-reads-inside-notifications", aReader.reads+followerReads)
	c.Hit("pn-history")
}

func init() {
	register("pool-node", func(c *Ctx) {
		for i := 0; i < c.N; i++ {
			poolNodeHistory(c, i)
		}
	})
}
