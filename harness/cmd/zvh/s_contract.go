package main

import (
	"encoding/base64"
	"fmt"
	"math/big"
	"reflect"
	"regexp"
	"sort"
	"strings"

	"time"

	ecrypto "github.com/ethereum/go-ethereum/crypto"

	g "github.com/zenon-network/go-zenon/chain/genesis/mock"
	"github.com/zenon-network/go-zenon/chain/nom"
	"github.com/zenon-network/go-zenon/common"
	"github.com/zenon-network/go-zenon/common/crypto"
	"github.com/zenon-network/go-zenon/common/db"
	"github.com/zenon-network/go-zenon/common/types"
	"github.com/zenon-network/go-zenon/consensus"
	"github.com/zenon-network/go-zenon/rpc/api/embedded"
	"github.com/zenon-network/go-zenon/verifier"
	"github.com/zenon-network/go-zenon/vm"
	"github.com/zenon-network/go-zenon/zenon/mock"
	"github.com/zenon-network/go-zenon/vm/constants"
	"github.com/zenon-network/go-zenon/vm/embedded/definition"
	"github.com/zenon-network/go-zenon/vm/embedded/implementation"
)

// ---------------------------------------------------------------------------------------------------
// contract stream (C10): generated histories on a real node, contract-specific call generators for the
// contracts that lock funds (plasma, stake, htlc, pillar, sentinel + common QSR deposits). Every contract receive
// is printed with its decoded call, the frontier momentum it saw, and its outcome; after every momentum the
// contracts' storage entries (read through the definition.* getters) and balances are compared with the Lean
// model, and the model-free monitors evaluate the property directly on the real stores and blocks:
//   backing   Σ recorded liabilities ≤ the contract's balance, per contract and token, at every momentum
//   release   every payout of a withdrawal goes to the entitled party, with the locked amount, not before the
//             lock matured, its entry is gone afterwards, and no lock is ever paid twice
//   liveness  a matured withdrawal by the entitled party is never refused
// ---------------------------------------------------------------------------------------------------

// lockRec is the harness's own log of one locked deposit, built only from confirmed blocks (and the genesis
// storage): who deposited, how much, when it may be released.
type lockRec struct {
	contract types.Address
	kind     string // fusion, stake, htlc, pillar, sentinel-znn ...
	key      string
	entitled types.Address // the party a release must be addressed to
	second   types.Address // htlc: the hash-locked beneficiary
	tok      types.ZenonTokenStandard
	amount   *big.Int
	matureH  uint64 // releasable when the frontier height seen by the receive ≥ matureH (plasma)
	matureT  int64  // releasable when the frontier time seen by the receive ≥ matureT (stake, htlc reclaim); htlc unlock: only before
	regT     int64  // pillar / sentinel registration time (revocation window)
	paidAt   uint64 // momentum height of the release, 0 = still locked
	// htlc
	hashType uint8
	keyMax   uint8
	hashLock []byte
	// what the CALL asked for beyond amount / owner (asked-effect monitor, C09): start time of a stake = frontier time of
	// the receive; pillar: producer, reward address and percentages of the last confirmed Register / UpdatePillar
	startT   int64
	hasStart bool
	reg      *definition.RegisterParam
	ptype    uint8
	unlockedAt int64 // liquidity stake: frontier time of the administrator's UnlockLiquidityStakeEntries that released it early (0 = never)
}

type kParams struct {
	fuseExpiration                uint64
	stakeUnit, stakeMin, stakeMax int64
	pillarLock, pillarRevoke      int64
	sentinelLock, sentinelRevoke  int64
}

func readParams() kParams {
	return kParams{constants.FuseExpiration, constants.StakeTimeUnitSec, constants.StakeTimeMinSec, constants.StakeTimeMaxSec,
		constants.PillarEpochLockTime, constants.PillarEpochRevokeTime, constants.SentinelLockTimeWindow, constants.SentinelRevokeTimeWindow}
}
func (p kParams) install() {
	constants.FuseExpiration = p.fuseExpiration
	constants.StakeTimeUnitSec, constants.StakeTimeMinSec, constants.StakeTimeMaxSec = p.stakeUnit, p.stakeMin, p.stakeMax
	constants.PillarEpochLockTime, constants.PillarEpochRevokeTime = p.pillarLock, p.pillarRevoke
	constants.SentinelLockTimeWindow, constants.SentinelRevokeTimeWindow = p.sentinelLock, p.sentinelRevoke
}

var modelledContracts = []types.Address{types.PlasmaContract, types.StakeContract, types.HtlcContract, types.PillarContract, types.SentinelContract, types.LiquidityContract, types.BridgeContract}

// the TSS key pair of the bridge in the generated histories (the one of the repository's own bridge tests)
const (
	tssPubKey  = "AsAQx1M3LVXCuozDOqO5b9adj/PItYgwZFG/xTDBiZzT"
	tssPrivKey = "tuSwrTEUyJI1/3y5J8L8DSjzT/AQG2IK3JG+93qhhhI="
	bridgeNetClass, bridgeChainId = uint32(2), uint32(123)
)

func ecdsaSign(hash []byte, privateKeyB64 string) string {
	b, err := base64.StdEncoding.DecodeString(privateKeyB64)
	if err != nil {
		return ""
	}
	key, err := ecrypto.ToECDSA(b)
	if err != nil {
		return ""
	}
	sig, err := ecrypto.Sign(hash, key)
	if err != nil {
		return ""
	}
	return base64.StdEncoding.EncodeToString(sig)
}

func cname(a types.Address) string { return embeddedNames[a][2:] }

type contractRun struct {
	c      *Ctx
	n      *Node
	id     int
	failed bool
	p      kParams
	locks  map[string]*lockRec
	qsrLog map[string]*big.Int // contract/owner -> deposited QSR expected from the confirmed blocks
	// real-state snapshots used by the generators (refreshed from storage after every momentum)
	fusions   []*definition.FusionInfo
	stakes    []*definition.StakeInfo
	htlcs     []*definition.HtlcInfo
	pillars   []*definition.PillarInfo
	sentinels []*definition.SentinelInfo
	lstakes   []*definition.LiquidityStakeEntry
	lastTuples string
	liqAdmin   types.Address // liquidity: LiquidityInfo.Administrator as of the last momentum
	adminPhase string        // lock-vs-administration scenario: the administrative change made last (hit counters only)
	unwraps   []*definition.UnwrapTokenRequest
	runBal    map[types.Address]map[types.ZenonTokenStandard]*big.Int // balance of a contract just before the receive being monitored (last momentum's balance + the blocks since)
	revoked   map[string]bool // bridge: unwrap requests revoked by the administrator (from confirmed receives)
	burned    bool // the spork address burned ZNN of the liquidity contract while ZNN stakes were open
	deadIds   []types.Hash // ids of entries that were released (for repeated attempts)
	preimages map[types.Hash][]byte
	proxy     map[types.Address]bool // htlc: explicit proxy-unlock settings seen in confirmed receives
	proxyCalls map[types.Address]int // htlc: number of confirmed Allow/Deny receives per sender
	proxyHist map[types.Address]string // htlc: the confirmed Allow/Deny receives of a sender in order
	signedFor map[string]*definition.UnwrapTokenParam // bridge: signature made by the harness with the TSS key -> the request it signed
	touched   map[types.Address]bool
	tokens    map[types.ZenonTokenStandard]bool
	dumped    bool
	cons      *consMonitor // C01 conservation read from the real stores at every momentum (mon_conservation.go)
}

func (r *contractRun) fail(format string, a ...interface{}) {
	r.failed = true
	tag := ""
	if r.burned {
		tag = "after-BurnZnn-of-staked-ZNN: "
	}
	r.c.Fail("contract run=%d h=%d: %s%s", r.id, r.n.Height(), tag, fmt.Sprintf(format, a...))
}

// signedNote: for a signature the harness made itself, the request it was made for
func (r *contractRun) signedNote(p *definition.UnwrapTokenParam) string {
	if q := r.signedFor[p.Signature]; q != nil {
		if sameUnwrapFields(p, q) {
			return " (the harness signed exactly this request with the TSS key)"
		}
		return " (the harness made this signature with the TSS key for the request " + unwrapFields(q) + ")"
	}
	return ""
}

func (r *contractRun) storage(a types.Address) db.DB {
	return r.n.Chain().GetFrontierMomentumStore().GetAccountStore(a).Storage()
}

func lockKey(contract types.Address, kind string, parts ...string) string {
	return cname(contract) + "/" + kind + "/" + strings.Join(parts, "/")
}

func hxOrDash(b []byte) string {
	if len(b) == 0 {
		return "-"
	}
	return hx(b)
}

// ---------------------------------------------------------------------------------------------------
// decoding of calls
// ---------------------------------------------------------------------------------------------------

type decoded struct {
	method   string
	args     []string
	modelled bool
	// decoded values for the monitor
	id       types.Hash
	addr     types.Address
	dur      int64
	name     string
	htlc     *definition.CreateHtlcParam
	preimage []byte
	reg      *definition.RegisterParam
	unwrap   *definition.UnwrapTokenParam
	logIndex uint32
}

var pillarNameRe = regexp.MustCompile("^([a-zA-Z0-9]+[-._]?)*[a-zA-Z0-9]$")

// pillarNameOk is the oracle for checkPillarNameStatic (unexported): same length bound, same expression
func pillarNameOk(name string) bool {
	return len(name) != 0 && len(name) <= constants.PillarNameLengthMax && pillarNameRe.MatchString(name)
}

func abiOf(a types.Address) *contractABI {
	for i := range allContractABIs {
		if allContractABIs[i].addr == a {
			return &allContractABIs[i]
		}
	}
	return nil
}

func decodeCall(contract types.Address, data []byte) *decoded {
	d := &decoded{method: "?"}
	ca := abiOf(contract)
	if ca == nil {
		return d
	}
	m, err := ca.abi.MethodById(data)
	if err != nil {
		return d
	}
	d.method = m.Name
	switch contract {
	case types.PlasmaContract:
		switch m.Name {
		case definition.FuseMethodName:
			if ca.abi.UnpackMethod(&d.addr, m.Name, data) == nil {
				d.args, d.modelled = []string{addrName(d.addr)}, true
			}
		case definition.CancelFuseMethodName:
			if ca.abi.UnpackMethod(&d.id, m.Name, data) == nil {
				d.args, d.modelled = []string{h8z(d.id)}, true
			}
		}
	case types.StakeContract:
		switch m.Name {
		case definition.StakeMethodName:
			if ca.abi.UnpackMethod(&d.dur, m.Name, data) == nil {
				d.args, d.modelled = []string{fmt.Sprint(d.dur)}, true
			}
		case definition.CancelStakeMethodName:
			if ca.abi.UnpackMethod(&d.id, m.Name, data) == nil {
				d.args, d.modelled = []string{h8z(d.id)}, true
			}
		}
	case types.PillarContract:
		switch m.Name {
		case definition.DepositQsrMethodName, definition.WithdrawQsrMethodName, definition.UndelegateMethodName:
			d.args, d.modelled = []string{}, true
		case definition.RegisterMethodName, definition.UpdatePillarMethodName:
			p := new(definition.RegisterParam)
			if ca.abi.UnpackMethod(p, m.Name, data) == nil {
				d.reg, d.name = p, p.Name
				d.args, d.modelled = []string{p.Name, addrName(p.ProducerAddress), addrName(p.RewardAddress), fmt.Sprint(p.GiveBlockRewardPercentage), fmt.Sprint(p.GiveDelegateRewardPercentage), fmt.Sprint(pillarNameOk(p.Name))}, true
			}
		case definition.RevokeMethodName, definition.DelegateMethodName:
			if ca.abi.UnpackMethod(&d.name, m.Name, data) == nil {
				d.args, d.modelled = []string{d.name, fmt.Sprint(pillarNameOk(d.name))}, true
			}
		}
	case types.LiquidityContract:
		switch m.Name {
		case definition.LiquidityStakeMethodName:
			if ca.abi.UnpackMethod(&d.dur, m.Name, data) == nil {
				d.args, d.modelled = []string{fmt.Sprint(d.dur)}, true
			}
		case definition.CancelLiquidityStakeMethodName:
			if ca.abi.UnpackMethod(&d.id, m.Name, data) == nil {
				d.args, d.modelled = []string{h8z(d.id)}, true
			}
		case definition.BurnZnnMethodName:
			p := new(definition.BurnParam)
			if ca.abi.UnpackMethod(p, m.Name, data) == nil {
				d.args, d.modelled = []string{amt(p.BurnAmount)}, true
			}
		}
	case types.SentinelContract:
		switch m.Name {
		case definition.DepositQsrMethodName, definition.WithdrawQsrMethodName, definition.RegisterSentinelMethodName, definition.RevokeSentinelMethodName:
			d.args, d.modelled = []string{}, true
		}
	case types.HtlcContract:
		switch m.Name {
		case definition.CreateHtlcMethodName:
			p := new(definition.CreateHtlcParam)
			if ca.abi.UnpackMethod(p, m.Name, data) == nil {
				d.htlc = p
				d.args, d.modelled = []string{addrName(p.HashLocked), fmt.Sprint(p.ExpirationTime), fmt.Sprint(p.HashType), fmt.Sprint(p.KeyMaxSize), hxOrDash(p.HashLock)}, true
			}
		case definition.ReclaimHtlcMethodName:
			if ca.abi.UnpackMethod(&d.id, m.Name, data) == nil {
				d.args, d.modelled = []string{h8z(d.id)}, true
			}
		case definition.UnlockHtlcMethodName:
			p := new(definition.UnlockHtlcParam)
			if ca.abi.UnpackMethod(p, m.Name, data) == nil {
				d.id, d.preimage = p.Id, p.Preimage
				// the hash functions are parameters of the model: the harness supplies both digests of the preimage
				d.args, d.modelled = []string{h8z(p.Id), hxOrDash(p.Preimage), hx(crypto.Hash(p.Preimage)), hx(crypto.HashSHA256(p.Preimage))}, true
			}
		case definition.DenyHtlcProxyUnlockMethodName, definition.AllowHtlcProxyUnlockMethodName:
			d.args, d.modelled = []string{}, true
		}
	}
	return d
}

// bridgeOracle: what the bridge methods read from the administrator-managed configuration, evaluated on the storage as of
// the last momentum (the configuration is not changed while requests are generated): may the bridge act (initialised,
// not halted), and the token pair found for a token standard / foreign token address.
func (r *contractRun) bridgeCanAct(ackHeight uint64) bool {
	st := r.storage(types.BridgeContract)
	bi, err := definition.GetBridgeInfoVariable(st)
	if err != nil || len(bi.CompressedTssECDSAPubKey) == 0 || bi.Administrator.IsZero() {
		return false
	}
	si, err := definition.GetSecurityInfoVariable(st)
	if err != nil || len(si.Guardians) < constants.MinGuardians {
		return false
	}
	if bi.Halted || bi.UnhaltedAt+bi.UnhaltDurationInMomentums >= ackHeight {
		return false
	}
	oi, err := definition.GetOrchestratorInfoVariable(st)
	if err != nil || oi.WindowSize == 0 || oi.KeyGenThreshold == 0 || oi.ConfirmationsToFinality == 0 || oi.EstimatedMomentumTime == 0 {
		return false
	}
	return true
}

func (r *contractRun) bridgePair(networkClass, chainId uint32, match func(tp *definition.TokenPair) bool) *definition.TokenPair {
	ni, err := definition.GetNetworkInfoVariable(r.storage(types.BridgeContract), networkClass, chainId)
	if err != nil || ni == nil || len(ni.Name) == 0 {
		return nil
	}
	for i := range ni.TokenPairs {
		if match(&ni.TokenPairs[i]) {
			return &ni.TokenPairs[i]
		}
	}
	return nil
}

func pairArgs(tp *definition.TokenPair) []string {
	if tp == nil {
		return []string{"none"}
	}
	return []string{tokName(tp.TokenStandard), fmt.Sprint(tp.Redeemable), fmt.Sprint(tp.Owned), fmt.Sprint(tp.RedeemDelay)}
}

func unwrapKey(tx types.Hash, logIndex uint32) string { return fmt.Sprintf("%s/%d", h8z(tx), logIndex) }

// decodeBridge completes the decoded call of a bridge method with the oracle values its model takes as inputs
func (r *contractRun) decodeBridge(d *decoded, send *nom.AccountBlock, ackHeight uint64) {
	abi := definition.ABIBridge
	switch d.method {
	case definition.UnwrapTokenMethodName:
		p := new(definition.UnwrapTokenParam)
		if abi.UnpackMethod(p, d.method, send.Data) != nil {
			return
		}
		d.unwrap, d.id, d.logIndex = p, p.TransactionHash, p.LogIndex
		// signature oracle, independent of the code under test: the signature recovers the configured TSS key from the hash of
		// the documented encoding of exactly the presented fields, computed by the harness (s_contract_sig.go)
		sigOk := false
		if bi, err := definition.GetBridgeInfoVariable(r.storage(types.BridgeContract)); err == nil {
			sigOk = unwrapSigOkIndep(p, bi.DecompressedTssECDSAPubKey)
			if msg, err := implementation.GetUnwrapTokenRequestMessage(p); err == nil {
				if ok, err := implementation.CheckECDSASignature(msg, bi.DecompressedTssECDSAPubKey, p.Signature); (ok && err == nil) != sigOk {
					r.fail("bridge signature check: the contract's own check (CheckECDSASignature over GetUnwrapTokenRequestMessage) answers %v for the unwrap request %s with signature %s, but 'the signature is the TSS key's signature of exactly these fields' is %v%s",
						ok && err == nil, unwrapFields(p), p.Signature, sigOk, r.signedNote(p))
				}
			}
		}
		ta := strings.ToLower(p.TokenAddress)
		tp := r.bridgePair(p.NetworkClass, p.ChainId, func(t *definition.TokenPair) bool { return ta == t.TokenStandard.String() || ta == t.TokenAddress })
		d.args = append([]string{h8z(p.TransactionHash), fmt.Sprint(p.LogIndex), addrName(p.ToAddress), ta, amt(p.Amount), fmt.Sprint(r.bridgeCanAct(ackHeight)), fmt.Sprint(sigOk)}, pairArgs(tp)...)
		d.modelled = true
	case definition.RedeemUnwrapMethodName:
		p := new(definition.RedeemParam)
		if abi.UnpackMethod(p, d.method, send.Data) != nil {
			return
		}
		d.id, d.logIndex = p.TransactionHash, p.LogIndex
		var tp *definition.TokenPair
		if req, err := definition.GetUnwrapTokenRequestByTxHashAndLog(r.storage(types.BridgeContract), p.TransactionHash, p.LogIndex); err == nil && req != nil {
			tp = r.bridgePair(req.NetworkClass, req.ChainId, func(t *definition.TokenPair) bool {
				return reflect.DeepEqual(req.TokenStandard.Bytes(), t.TokenStandard.Bytes()) || req.TokenAddress == t.TokenAddress
			})
		}
		d.args = append([]string{h8z(p.TransactionHash), fmt.Sprint(p.LogIndex), fmt.Sprint(r.bridgeCanAct(ackHeight))}, pairArgs(tp)...)
		d.modelled = true
	case definition.RevokeUnwrapRequestMethodName:
		p := new(definition.RevokeUnwrapParam)
		if abi.UnpackMethod(p, d.method, send.Data) != nil {
			return
		}
		d.id, d.logIndex = p.TransactionHash, p.LogIndex
		isAdmin := false
		if bi, err := definition.GetBridgeInfoVariable(r.storage(types.BridgeContract)); err == nil {
			isAdmin = send.Address.String() == bi.Administrator.String()
		}
		d.args, d.modelled = []string{h8z(p.TransactionHash), fmt.Sprint(p.LogIndex), fmt.Sprint(isAdmin)}, true
	}
}

// h8z prints a hash as 8 bytes of hex, the zero hash included (ids are keys here, never "absent")
func h8z(h types.Hash) string { return hx(h[:8]) }

// ---------------------------------------------------------------------------------------------------
// per-momentum processing: print receives, update the lock log, run the release monitor
// ---------------------------------------------------------------------------------------------------

func isModelled(a types.Address) bool {
	for _, m := range modelledContracts {
		if m == a {
			return true
		}
	}
	return false
}

func (r *contractRun) onMomentum(dm *nom.DetailedMomentum) {
	c := r.c
	store := r.n.Chain().GetFrontierMomentumStore()
	blocks := append([]*nom.AccountBlock{}, dm.AccountBlocks...)
	sort.SliceStable(blocks, func(i, j int) bool {
		a, b := blocks[i], blocks[j]
		if a.Address != b.Address {
			return string(a.Address[:]) < string(b.Address[:])
		}
		return a.Height < b.Height
	})
	h := dm.Momentum.Height
	// C01: recorded supply = balances of all accounts + confirmed-unreceived sends, for every recorded token, at every momentum
	if r.cons != nil && !r.cons.checkConfirmed(fmt.Sprintf("momentum %d with %d account blocks", h, len(dm.AccountBlocks))) {
		r.failed = true
	}
	// C05: the election's input (pillar weights) against the pillar contract's storage and the balances
	switch w := pillarWeightsMonitor(store); w {
	case "":
	case "ok-with-delegations-to-inactive-pillars":
		c.Hit("weights-checked-with-delegations-to-inactive-pillars")
	default:
		r.fail("C05 weights at momentum %d: %s", h, w)
	}
	c.Hit("weights-checked")
	for _, b := range blocks {
		if b.BlockType != nom.BlockTypeContractReceive || !isModelled(b.Address) {
			continue
		}
		r.touched[b.Address] = true
		send, err := store.GetAccountBlockByHash(b.FromBlockHash)
		if err != nil || send == nil {
			r.fail("receive %s/%d: send block %s not found: %v", addrName(b.Address), b.Height, h8(b.FromBlockHash), err)
			continue
		}
		ack, err := store.GetMomentumByHash(b.MomentumAcknowledged.Hash)
		if err != nil || ack == nil {
			r.fail("receive %s/%d: acknowledged momentum not found: %v", addrName(b.Address), b.Height, err)
			continue
		}
		status := "?"
		if len(b.Data) == 8 {
			status = fmt.Sprint(common.BytesToUint64(b.Data))
		}
		var sb strings.Builder
		for _, d := range b.DescendantBlocks {
			kind := "-"
			if d.ToAddress == types.TokenContract {
				kind = tokCallString(d.Data)
			}
			fmt.Fprintf(&sb, " %s %s %s %s", addrName(d.ToAddress), tokName(d.TokenStandard), amt(d.Amount), kind)
			r.tokens[d.TokenStandard] = true
		}
		r.tokens[send.TokenStandard] = true
		d := decodeCall(b.Address, send.Data)
		if b.Address == types.BridgeContract {
			r.decodeBridge(d, send, ack.Height)
		}
		if b.Address == types.LiquidityContract {
			r.decodeLiquidityAdmin(d, send)
		}
		outcome := fmt.Sprintf("%s %d%s", status, len(b.DescendantBlocks), sb.String())
		head := fmt.Sprintf("%s %s %s %s %s %s %d %d", cname(b.Address), d.method, addrName(send.Address), tokName(send.TokenStandard), amt(send.Amount), h8z(send.Hash),
			ack.Height, ack.Timestamp.Unix())
		if d.modelled {
			c.Emit("K-call %s %s | %s", head, strings.Join(d.args, " "), outcome)
		} else {
			c.Emit("K-opaque %s %s | ok", head, outcome)
		}
		if status == "1" && d.method == definition.UpdateMethodName {
			switch b.Address {
			case types.StakeContract:
				r.emitStakeGC()
			case types.LiquidityContract:
				r.emitLStakeGC()
			}
		}
		switch status {
		case "1":
			c.Hit("applied-" + cname(b.Address) + "." + d.method)
		case "2":
			c.Hit("refunded-" + cname(b.Address) + "." + d.method)
		default:
			r.fail("contract receive %s/%d has status %s", addrName(b.Address), b.Height, status)
		}
		r.monitorReceive(b, send, d, status, ack, h)
		rb := r.runningBalance(b.Address, send.TokenStandard)
		rb.Add(rb, send.Amount)
		for _, dd := range b.DescendantBlocks {
			x := r.runningBalance(b.Address, dd.TokenStandard)
			x.Sub(x, dd.Amount)
		}
	}
	c.Emit("K-mom %d %d | ok", h, dm.Momentum.Timestamp.Unix())
	r.compareState(h)
	c.Hit("momentum")
}

// emitStakeGC / emitLStakeGC: cancelled entries deleted by a reward update (computeStakeRewardsForEpoch,
// computeLiquidityStakeRewardsForEpoch) — an input of the model, which accepts it only for entries recorded with amount 0
// and a revoke time; the lock log checks that they had been paid. Emitted right after the applied Update receive (a
// deleted entry was cancelled in an earlier momentum: its revoke time lies before the end of a finished epoch).
func (r *contractRun) emitStakeGC() {
	now := map[string]bool{}
	definition.IterateStakeEntries(r.storage(types.StakeContract), func(s *definition.StakeInfo) error {
		now[string(s.StakeAddress[:])+string(s.Id[:])] = true
		return nil
	})
	keep := r.stakes[:0]
	for _, s := range r.stakes {
		if !now[string(s.StakeAddress[:])+string(s.Id[:])] {
			r.c.Emit("K-stake-gc %s %s | ok", addrName(s.StakeAddress), h8z(s.Id))
			r.c.Hit("stake-entry-deleted-by-reward-update")
		} else {
			keep = append(keep, s)
		}
	}
	r.stakes = keep
}

func (r *contractRun) emitLStakeGC() {
	now := map[string]bool{}
	for _, e := range definition.GetAllLiquidityStakeEntries(r.storage(types.LiquidityContract)) {
		now[string(e.StakeAddress[:])+string(e.Id[:])] = true
	}
	keep := r.lstakes[:0]
	for _, e := range r.lstakes {
		if !now[string(e.StakeAddress[:])+string(e.Id[:])] {
			r.c.Emit("K-lstake-gc %s %s | ok", addrName(e.StakeAddress), h8z(e.Id))
			r.c.Hit("liquidity-stake-entry-deleted-by-reward-update")
		} else {
			keep = append(keep, e)
		}
	}
	r.lstakes = keep
}

// releaseCheck: a successful withdrawal must pay exactly the lock, to the entitled party, once.
func (r *contractRun) releaseCheck(b *nom.AccountBlock, what string, lk *lockRec, key string, dst types.Address, descIdx int, h uint64) {
	if lk == nil {
		r.fail("release: %s by %s paid out but no such deposit was ever recorded (key %s)", what, addrName(b.Address), key)
		return
	}
	if lk.paidAt != 0 {
		r.fail("release: %s paid twice: lock %s was already released at momentum %d and is paid again at %d", what, key, lk.paidAt, h)
		return
	}
	if descIdx >= len(b.DescendantBlocks) {
		r.fail("release: %s succeeded without the expected payout block (lock %s, %d descendants)", what, key, len(b.DescendantBlocks))
		return
	}
	d := b.DescendantBlocks[descIdx]
	if d.ToAddress != dst {
		r.fail("release: %s paid %s %s to %s, the entitled party of lock %s is %s", what, amt(d.Amount), tokName(d.TokenStandard), addrName(d.ToAddress), key, addrName(dst))
	}
	if d.TokenStandard != lk.tok || d.Amount.Cmp(lk.amount) != 0 {
		r.fail("release: %s paid %s %s, lock %s holds %s %s", what, amt(d.Amount), tokName(d.TokenStandard), key, amt(lk.amount), tokName(lk.tok))
	}
	lk.paidAt = h
}

func (r *contractRun) monitorReceive(b, send *nom.AccountBlock, d *decoded, status string, ack *nom.Momentum, h uint64) {
	ok := status == "1"
	ackT := ack.Timestamp.Unix()
	// a refused call must be refunded exactly; an applied deposit keeps the funds
	if !ok {
		if send.Amount.Sign() > 0 {
			if len(b.DescendantBlocks) != 1 || b.DescendantBlocks[0].ToAddress != send.Address || b.DescendantBlocks[0].TokenStandard != send.TokenStandard || b.DescendantBlocks[0].Amount.Cmp(send.Amount) != 0 {
				r.fail("refund: refused call %s.%s from %s with %s %s was not refunded exactly", cname(b.Address), d.method, addrName(send.Address), amt(send.Amount), tokName(send.TokenStandard))
			}
		} else if len(b.DescendantBlocks) != 0 {
			r.fail("refund: refused zero-amount call %s.%s produced %d descendant blocks", cname(b.Address), d.method, len(b.DescendantBlocks))
		}
	}
	switch b.Address {
	case types.PlasmaContract:
		switch d.method {
		case definition.FuseMethodName:
			if ok {
				key := lockKey(b.Address, "fusion", addrName(send.Address), h8z(send.Hash))
				r.locks[key] = &lockRec{contract: b.Address, kind: "fusion", key: key, entitled: send.Address, second: d.addr, tok: send.TokenStandard,
					amount: new(big.Int).Set(send.Amount), matureH: ack.Height + r.p.fuseExpiration}
				if len(b.DescendantBlocks) != 0 {
					r.fail("release: Fuse produced %d descendant blocks", len(b.DescendantBlocks))
				}
			}
		case definition.CancelFuseMethodName:
			key := lockKey(b.Address, "fusion", addrName(send.Address), h8z(d.id))
			lk := r.locks[key]
			if ok {
				r.releaseCheck(b, "CancelFuse", lk, key, send.Address, 0, h)
				if lk != nil && ack.Height < lk.matureH {
					r.fail("release: CancelFuse of %s succeeded at frontier height %d, the fusion is locked until height %d", key, ack.Height, lk.matureH)
				}
				if len(b.DescendantBlocks) != 1 {
					r.fail("release: CancelFuse produced %d descendant blocks", len(b.DescendantBlocks))
				}
				r.deadIds = append(r.deadIds, d.id)
			} else if lk != nil && lk.paidAt == 0 && ack.Height >= lk.matureH && send.Amount.Sign() == 0 {
				r.fail("liveness: matured CancelFuse of %s by its owner was refused at frontier height %d (locked until %d)", key, ack.Height, lk.matureH)
			}
			if !ok {
				switch {
				case send.Amount.Sign() != 0:
					r.c.Hit("refusal-plasma.CancelFuse-carries-amount")
				case lk == nil:
					r.c.Hit("refusal-plasma.CancelFuse-not-owner-or-unknown-id")
				case lk.paidAt != 0:
					r.c.Hit("refusal-plasma.CancelFuse-already-released")
				case ack.Height < lk.matureH:
					r.c.Hit("refusal-plasma.CancelFuse-too-early")
				}
			}
		}
	case types.StakeContract:
		switch d.method {
		case definition.StakeMethodName:
			if ok {
				key := lockKey(b.Address, "stake", addrName(send.Address), h8z(send.Hash))
				r.locks[key] = &lockRec{contract: b.Address, kind: "stake", key: key, entitled: send.Address, tok: send.TokenStandard,
					amount: new(big.Int).Set(send.Amount), matureT: ackT + d.dur, startT: ackT, hasStart: true}
				if len(b.DescendantBlocks) != 0 {
					r.fail("release: Stake produced %d descendant blocks", len(b.DescendantBlocks))
				}
			}
		case definition.CancelStakeMethodName:
			key := lockKey(b.Address, "stake", addrName(send.Address), h8z(d.id))
			lk := r.locks[key]
			if ok {
				if lk != nil && lk.paidAt != 0 {
					// the stake entry stays in storage with amount 0 until the next reward epoch: a repeated cancel "succeeds" and must pay nothing
					if len(b.DescendantBlocks) != 1 || b.DescendantBlocks[0].Amount.Sign() != 0 {
						r.fail("release: Cancel paid twice: stake %s was released at momentum %d and a repeated cancel at %d paid again", key, lk.paidAt, h)
					}
					r.c.Hit("stake-repeated-cancel-pays-zero")
				} else {
					r.releaseCheck(b, "Cancel(stake)", lk, key, send.Address, 0, h)
					if lk != nil && ackT < lk.matureT {
						r.fail("release: Cancel of %s succeeded at frontier time %d, the stake is locked until %d", key, ackT, lk.matureT)
					}
					r.deadIds = append(r.deadIds, d.id)
				}
			} else if lk != nil && lk.paidAt == 0 && ackT >= lk.matureT && send.Amount.Sign() == 0 {
				r.fail("liveness: matured Cancel of %s by its owner was refused at frontier time %d (locked until %d)", key, ackT, lk.matureT)
			}
			if !ok {
				switch {
				case send.Amount.Sign() != 0:
					r.c.Hit("refusal-stake.Cancel-carries-amount")
				case lk == nil:
					r.c.Hit("refusal-stake.Cancel-not-owner-or-unknown-id")
				case ackT < lk.matureT:
					r.c.Hit("refusal-stake.Cancel-too-early")
				}
			}
		}
	case types.HtlcContract:
		switch d.method {
		case definition.CreateHtlcMethodName:
			if ok {
				key := lockKey(b.Address, "htlc", h8z(send.Hash))
				r.locks[key] = &lockRec{contract: b.Address, kind: "htlc", key: key, entitled: send.Address, second: d.htlc.HashLocked, tok: send.TokenStandard,
					amount: new(big.Int).Set(send.Amount), matureT: d.htlc.ExpirationTime, hashType: d.htlc.HashType, keyMax: d.htlc.KeyMaxSize, hashLock: append([]byte{}, d.htlc.HashLock...)}
				if len(b.DescendantBlocks) != 0 {
					r.fail("release: Create(htlc) produced %d descendant blocks", len(b.DescendantBlocks))
				}
				if ackT >= d.htlc.ExpirationTime {
					r.fail("release: htlc %s was created at frontier time %d although it expires at %d", key, ackT, d.htlc.ExpirationTime)
				}
			}
		case definition.ReclaimHtlcMethodName:
			key := lockKey(b.Address, "htlc", h8z(d.id))
			lk := r.locks[key]
			if ok {
				var to types.Address
				if lk != nil {
					to = lk.entitled
				}
				r.releaseCheck(b, "Reclaim", lk, key, to, 0, h)
				if lk != nil {
					if send.Address != lk.entitled {
						r.fail("release: Reclaim of %s was called by %s, only the time-locked party %s may reclaim", key, addrName(send.Address), addrName(lk.entitled))
					}
					if ackT < lk.matureT {
						r.fail("release: Reclaim of %s succeeded at frontier time %d, before its expiration %d", key, ackT, lk.matureT)
					}
				}
				if len(b.DescendantBlocks) != 1 {
					r.fail("release: Reclaim produced %d descendant blocks", len(b.DescendantBlocks))
				}
				r.deadIds = append(r.deadIds, d.id)
			} else if lk != nil && lk.paidAt == 0 && send.Address == lk.entitled && ackT >= lk.matureT && send.Amount.Sign() == 0 {
				r.fail("liveness: Reclaim of the expired htlc %s by its time-locked party was refused at frontier time %d (expired at %d)", key, ackT, lk.matureT)
			}
			if !ok {
				switch {
				case send.Amount.Sign() != 0:
					r.c.Hit("refusal-htlc.Reclaim-carries-amount")
				case lk == nil:
					r.c.Hit("refusal-htlc.Reclaim-unknown-id")
				case lk.paidAt != 0:
					r.c.Hit("refusal-htlc.Reclaim-already-released")
				case send.Address != lk.entitled:
					r.c.Hit("refusal-htlc.Reclaim-not-the-time-locked-party")
				case ackT < lk.matureT:
					r.c.Hit("refusal-htlc.Reclaim-too-early")
				}
			}
		case definition.UnlockHtlcMethodName:
			key := lockKey(b.Address, "htlc", h8z(d.id))
			lk := r.locks[key]
			preimageOk := func() bool {
				if lk == nil || len(d.preimage) > int(lk.keyMax) {
					return false
				}
				var hp []byte
				if lk.hashType == definition.HashTypeSHA3 {
					hp = crypto.Hash(d.preimage)
				} else if lk.hashType == definition.HashTypeSHA256 {
					hp = crypto.HashSHA256(d.preimage)
				}
				return string(hp) == string(lk.hashLock)
			}
			allowed := func() bool {
				if lk == nil {
					return false
				}
				if send.Address == lk.second {
					return true
				}
				v, set := r.proxy[lk.second]
				return !set || v
			}
			if ok {
				var to types.Address
				if lk != nil {
					to = lk.second
				}
				r.releaseCheck(b, "Unlock", lk, key, to, 0, h)
				if lk != nil {
					if !allowed() {
						r.fail("release: Unlock of %s was called by %s although %s has denied proxy unlocks (its confirmed calls: [%s ])", key, addrName(send.Address), addrName(lk.second), r.proxyHist[lk.second])
					}
					if ackT >= lk.matureT {
						r.fail("release: Unlock of %s succeeded at frontier time %d, it expired at %d", key, ackT, lk.matureT)
					}
					if !preimageOk() {
						r.fail("release: Unlock of %s by %s succeeded with a preimage of %d bytes (KeyMaxSize of the entry: %d, hash type %d) that is not a correct preimage: it is longer than the entry admits or does not hash to the lock; %s %s released to %s",
						key, addrName(send.Address), len(d.preimage), lk.keyMax, lk.hashType, amt(lk.amount), tokName(lk.tok), addrName(lk.second))
					}
				}
				if len(b.DescendantBlocks) != 1 {
					r.fail("release: Unlock produced %d descendant blocks", len(b.DescendantBlocks))
				}
				r.deadIds = append(r.deadIds, d.id)
			} else if lk != nil && lk.paidAt == 0 && allowed() && ackT < lk.matureT && preimageOk() && send.Amount.Sign() == 0 && !types.IsEmbeddedAddress(lk.second) {
				r.fail("liveness: Unlock of %s with the correct preimage before expiry (frontier time %d < %d) was refused", key, ackT, lk.matureT)
			}
			if !ok {
				switch {
				case send.Amount.Sign() != 0:
					r.c.Hit("refusal-htlc.Unlock-carries-amount")
				case lk == nil:
					r.c.Hit("refusal-htlc.Unlock-unknown-id")
				case lk.paidAt != 0:
					r.c.Hit("refusal-htlc.Unlock-already-released")
				case !allowed():
					r.c.Hit("refusal-htlc.Unlock-proxy-denied")
				case ackT >= lk.matureT:
					r.c.Hit("refusal-htlc.Unlock-expired")
				case len(d.preimage) > int(lk.keyMax):
					r.c.Hit("refusal-htlc.Unlock-preimage-too-long")
				case !preimageOk():
					r.c.Hit("refusal-htlc.Unlock-wrong-preimage")
				case types.IsEmbeddedAddress(lk.second):
					r.c.Hit("refusal-htlc.Unlock-beneficiary-is-a-contract")
				}
			} else if lk != nil && send.Address != lk.second {
				r.c.Hit("htlc-unlock-by-proxy")
			}
		case definition.DenyHtlcProxyUnlockMethodName:
			r.proxyCalls[send.Address]++
			if ok {
				r.proxy[send.Address] = false
				r.proxyHist[send.Address] += fmt.Sprintf(" Deny@%d", h)
			}
		case definition.AllowHtlcProxyUnlockMethodName:
			r.proxyCalls[send.Address]++
			if ok {
				r.proxy[send.Address] = true
				r.proxyHist[send.Address] += fmt.Sprintf(" Allow@%d", h)
			}
		}
	case types.BridgeContract:
		key := lockKey(b.Address, "unwrap", unwrapKey(d.id, d.logIndex))
		lk := r.locks[key]
		switch d.method {
		case definition.UnwrapTokenMethodName:
			if ok && d.unwrap != nil {
				p := d.unwrap
				if lk != nil {
					r.fail("release: unwrap request %s registered twice", key)
				}
				bi, _ := definition.GetBridgeInfoVariable(r.storage(types.BridgeContract))
				if bi == nil || !unwrapSigOkIndep(p, bi.DecompressedTssECDSAPubKey) {
					r.fail("release: unwrap request %s was registered as %s although its signature %s is not the TSS key's signature of exactly these fields%s", key, unwrapFields(p), p.Signature, r.signedNote(p))
				}
				if q := r.signedFor[p.Signature]; q != nil && !sameUnwrapFields(p, q) {
					r.fail("release: unwrap request %s was registered as %s with the TSS signature the harness made for the DIFFERENT request %s - the signed request is not the one that is paid", key, unwrapFields(p), unwrapFields(q))
				}
				if p.Amount.BitLen() > 64 {
					r.c.Hit("unwrap-registered-amount-above-2^64")
				}
				ta := strings.ToLower(p.TokenAddress)
				tp := r.bridgePair(p.NetworkClass, p.ChainId, func(t *definition.TokenPair) bool { return ta == t.TokenStandard.String() || ta == t.TokenAddress })
				if tp == nil {
					r.fail("release: unwrap request %s registered for a token address without a configured pair", key)
					break
				}
				r.locks[key] = &lockRec{contract: b.Address, kind: "unwrap", key: key, entitled: p.ToAddress, tok: tp.TokenStandard, amount: new(big.Int).Set(p.Amount), matureH: ack.Height}
			}
		case definition.RevokeUnwrapRequestMethodName:
			if ok {
				r.revoked[key] = true
			}
		case definition.RedeemUnwrapMethodName:
			var tp *definition.TokenPair
			if req, err := definition.GetUnwrapTokenRequestByTxHashAndLog(r.storage(types.BridgeContract), d.id, d.logIndex); err == nil && req != nil {
				tp = r.bridgePair(req.NetworkClass, req.ChainId, func(t *definition.TokenPair) bool {
					return reflect.DeepEqual(req.TokenStandard.Bytes(), t.TokenStandard.Bytes()) || req.TokenAddress == t.TokenAddress
				})
			}
			if ok {
				if lk == nil {
					r.fail("release: Redeem of %s paid out but no such unwrap request was ever registered", key)
					break
				}
				if lk.paidAt != 0 {
					r.fail("release: Redeem paid twice: unwrap request %s was redeemed at momentum %d and again at %d", key, lk.paidAt, h)
					break
				}
				if r.revoked[key] {
					r.fail("release: Redeem of %s succeeded although the administrator revoked the request", key)
				}
				if tp == nil || len(b.DescendantBlocks) != 1 {
					r.fail("release: Redeem of %s: no configured token pair or %d descendants", key, len(b.DescendantBlocks))
					break
				}
				if ack.Height-lk.matureH < uint64(tp.RedeemDelay) {
					r.fail("release: Redeem of %s succeeded at frontier height %d, registered at %d with a redeem delay of %d momentums", key, ack.Height, lk.matureH, tp.RedeemDelay)
				}
				dd := b.DescendantBlocks[0]
				if tp.Owned {
					want := fmt.Sprintf("mint:%s:%s:%s", tokName(tp.TokenStandard), amt(lk.amount), addrName(lk.entitled))
					if dd.ToAddress != types.TokenContract || dd.Amount.Sign() != 0 || tokCallString(dd.Data) != want {
						r.fail("release: Redeem of %s (bridge-owned token) must mint %s, got %s %s", key, want, descString(b), tokCallString(dd.Data))
					}
				} else if dd.ToAddress != lk.entitled || dd.TokenStandard != tp.TokenStandard || dd.Amount.Cmp(lk.amount) != 0 {
					r.fail("release: Redeem of %s paid %s, the signed request names %s %s for %s", key, descString(b), amt(lk.amount), tokName(tp.TokenStandard), addrName(lk.entitled))
				}
				lk.paidAt = h
				if send.Address != lk.entitled {
					r.c.Hit("bridge-redeem-called-by-third-party")
				}
			} else {
				switch {
				case send.Amount.Sign() != 0:
					r.c.Hit("refusal-bridge.Redeem-carries-amount")
				case lk == nil:
					r.c.Hit("refusal-bridge.Redeem-unknown-request")
				case lk.paidAt != 0:
					r.c.Hit("refusal-bridge.Redeem-already-redeemed")
				case r.revoked[key]:
					r.c.Hit("refusal-bridge.Redeem-revoked")
				case tp == nil:
					r.c.Hit("refusal-bridge.Redeem-no-pair")
				case ack.Height-lk.matureH < uint64(tp.RedeemDelay):
					r.c.Hit("refusal-bridge.Redeem-before-delay")
				case !tp.Owned && r.runningBalance(types.BridgeContract, tp.TokenStandard).Cmp(lk.amount) < 0:
					r.c.Hit("refusal-bridge.Redeem-bridge-balance-too-low")
				case types.IsEmbeddedAddress(lk.entitled):
					r.c.Hit("refusal-bridge.Redeem-recipient-is-a-contract")
				default:
					r.fail("liveness: Redeem of %s after its delay (frontier height %d, registered %d, delay %d) was refused", key, ack.Height, lk.matureH, tp.RedeemDelay)
				}
			}
		}
	case types.LiquidityContract:
		switch d.method {
		case definition.LiquidityStakeMethodName:
			if ok {
				key := lockKey(b.Address, "lstake", addrName(send.Address), h8z(send.Hash))
				r.locks[key] = &lockRec{contract: b.Address, kind: "lstake", key: key, entitled: send.Address, tok: send.TokenStandard,
					amount: new(big.Int).Set(send.Amount), matureT: ackT + d.dur, startT: ackT, hasStart: true}
				if len(b.DescendantBlocks) != 0 {
					r.fail("release: LiquidityStake produced %d descendant blocks", len(b.DescendantBlocks))
				}
			}
		case definition.CancelLiquidityStakeMethodName:
			key := lockKey(b.Address, "lstake", addrName(send.Address), h8z(d.id))
			lk := r.locks[key]
			if ok {
				if lk != nil && lk.paidAt != 0 {
					if len(b.DescendantBlocks) != 1 || b.DescendantBlocks[0].Amount.Sign() != 0 {
						r.fail("release: CancelLiquidityStake paid twice: stake %s was released at momentum %d and a repeated cancel at %d paid again", key, lk.paidAt, h)
					}
					r.c.Hit("lstake-repeated-cancel-pays-zero")
				} else {
					r.releaseCheck(b, "CancelLiquidityStake", lk, key, send.Address, 0, h)
					if lk != nil && ackT < lk.matureT {
						r.fail("release: CancelLiquidityStake of %s succeeded at frontier time %d, the stake is locked until %d", key, ackT, lk.matureT)
					}
				}
			} else if lk != nil && lk.paidAt == 0 && ackT >= lk.matureT && send.Amount.Sign() == 0 {
				r.fail("liveness: matured CancelLiquidityStake of %s by its owner was refused at frontier time %d (locked until %d)", key, ackT, lk.matureT)
			} else {
				switch {
				case send.Amount.Sign() != 0:
					r.c.Hit("refusal-liquidity.CancelLiquidityStake-carries-amount")
				case lk == nil:
					r.c.Hit("refusal-liquidity.CancelLiquidityStake-not-owner-or-unknown-id")
				default:
					r.c.Hit("refusal-liquidity.CancelLiquidityStake-too-early")
					if r.adminPhase != "" {
						r.c.Hit("lock-holds-early-cancel-refused-after-" + r.adminPhase)
					}
				}
			}
			if ok && lk != nil && lk.unlockedAt != 0 && lk.paidAt == h {
				r.c.Hit("lstake-released-early-after-administrator-unlock")
			}
		default:
			r.monitorLiquidityAdmin(b, send, d, ok, ackT)
		}
	case types.PillarContract, types.SentinelContract:
		qkey := cname(b.Address) + "/" + addrName(send.Address)
		logged := r.qsrLog[qkey]
		if logged == nil {
			logged = new(big.Int)
		}
		inWindow := func(regT, lock, revoke int64) bool { return (ackT-regT)%(lock+revoke) >= lock }
		switch {
		case d.method == definition.DepositQsrMethodName:
			if ok {
				r.qsrLog[qkey] = new(big.Int).Add(logged, send.Amount)
				if len(b.DescendantBlocks) != 0 {
					r.fail("release: DepositQsr produced %d descendant blocks", len(b.DescendantBlocks))
				}
			}
		case d.method == definition.WithdrawQsrMethodName:
			if ok {
				if len(b.DescendantBlocks) != 1 || b.DescendantBlocks[0].ToAddress != send.Address || b.DescendantBlocks[0].TokenStandard != types.QsrTokenStandard ||
					b.DescendantBlocks[0].Amount.Cmp(logged) != 0 {
					r.fail("release: WithdrawQsr(%s) by %s paid %s, the confirmed deposits of that account minus what registrations consumed are %s QSR", cname(b.Address), addrName(send.Address), descString(b), amt(logged))
				}
				r.qsrLog[qkey] = new(big.Int)
			} else if logged.Sign() > 0 && send.Amount.Sign() == 0 {
				r.fail("liveness: WithdrawQsr(%s) by %s was refused although %s QSR are deposited", cname(b.Address), addrName(send.Address), amt(logged))
			} else {
				r.c.Hit("refusal-" + cname(b.Address) + ".WithdrawQsr-nothing-deposited-or-amount")
			}
		case b.Address == types.PillarContract && d.method == definition.RegisterMethodName:
			if ok {
				if len(b.DescendantBlocks) != 1 || b.DescendantBlocks[0].ToAddress != types.TokenContract || b.DescendantBlocks[0].TokenStandard != types.QsrTokenStandard ||
					tokCallString(b.DescendantBlocks[0].Data) != "burn" {
					r.fail("release: pillar Register must burn the QSR cost, got %s", descString(b))
					break
				}
				burned := b.DescendantBlocks[0].Amount
				if burned.Cmp(logged) > 0 {
					r.fail("release: pillar Register by %s burned %s QSR, only %s were deposited by that account", addrName(send.Address), amt(burned), amt(logged))
				}
				r.qsrLog[qkey] = new(big.Int).Sub(logged, burned)
				key := lockKey(b.Address, "pillar", d.name)
				if old := r.locks[key]; old != nil {
					r.fail("release: pillar name %s registered twice", d.name)
				}
				r.locks[key] = &lockRec{contract: b.Address, kind: "pillar", key: key, entitled: send.Address, tok: send.TokenStandard, amount: new(big.Int).Set(send.Amount), regT: ackT, reg: d.reg, ptype: definition.NormalPillarType}
			}
		case b.Address == types.PillarContract && d.method == definition.UpdatePillarMethodName:
			// an applied UpdatePillar: from now on the entry must show the producer / reward address / percentages of THIS call
			if ok && d.reg != nil {
				if lk := r.locks[lockKey(b.Address, "pillar", d.name)]; lk != nil {
					lk.reg = d.reg
					r.c.Hit("asked-effect-pillar-update-logged")
				}
			}
		case b.Address == types.PillarContract && d.method == definition.RevokeMethodName:
			key := lockKey(b.Address, "pillar", d.name)
			lk := r.locks[key]
			if ok {
				var to types.Address
				if lk != nil {
					to = lk.entitled
				}
				r.releaseCheck(b, "Revoke(pillar)", lk, key, to, 0, h)
				if lk != nil {
					if send.Address != lk.entitled {
						r.fail("release: Revoke of pillar %s was called by %s, its stake address is %s", d.name, addrName(send.Address), addrName(lk.entitled))
					}
					if !inWindow(lk.regT, r.p.pillarLock, r.p.pillarRevoke) {
						r.fail("release: Revoke of pillar %s succeeded at frontier time %d outside the revoke window (registered %d, lock %d, window %d)", d.name, ackT, lk.regT, r.p.pillarLock, r.p.pillarRevoke)
					}
				}
				if len(b.DescendantBlocks) != 1 {
					r.fail("release: Revoke(pillar) produced %d descendant blocks", len(b.DescendantBlocks))
				}
			} else {
				switch {
				case send.Amount.Sign() != 0:
					r.c.Hit("refusal-pillar.Revoke-carries-amount")
				case lk == nil:
					r.c.Hit("refusal-pillar.Revoke-unknown-name")
				case lk.paidAt != 0:
					r.c.Hit("refusal-pillar.Revoke-already-revoked")
				case send.Address != lk.entitled:
					r.c.Hit("refusal-pillar.Revoke-not-the-owner")
				case !inWindow(lk.regT, r.p.pillarLock, r.p.pillarRevoke):
					r.c.Hit("refusal-pillar.Revoke-outside-window")
				default:
					r.fail("liveness: Revoke of pillar %s by its owner inside the revoke window (frontier time %d, registered %d) was refused", d.name, ackT, lk.regT)
				}
			}
		case b.Address == types.SentinelContract && d.method == definition.RegisterSentinelMethodName:
			if ok {
				if constants.SentinelQsrDepositAmount.Cmp(logged) > 0 {
					r.fail("release: sentinel Register by %s succeeded with only %s QSR deposited", addrName(send.Address), amt(logged))
				}
				r.qsrLog[qkey] = new(big.Int).Sub(logged, constants.SentinelQsrDepositAmount)
				kz, kq := lockKey(b.Address, "sentinel-znn", addrName(send.Address)), lockKey(b.Address, "sentinel-qsr", addrName(send.Address))
				if r.locks[kz] != nil {
					r.fail("release: sentinel of %s registered twice", addrName(send.Address))
				}
				r.locks[kz] = &lockRec{contract: b.Address, kind: "sentinel-znn", key: kz, entitled: send.Address, tok: types.ZnnTokenStandard, amount: new(big.Int).Set(send.Amount), regT: ackT}
				r.locks[kq] = &lockRec{contract: b.Address, kind: "sentinel-qsr", key: kq, entitled: send.Address, tok: types.QsrTokenStandard, amount: new(big.Int).Set(constants.SentinelQsrDepositAmount), regT: ackT}
				if len(b.DescendantBlocks) != 0 {
					r.fail("release: sentinel Register produced %d descendant blocks", len(b.DescendantBlocks))
				}
			}
		case b.Address == types.SentinelContract && d.method == definition.RevokeSentinelMethodName:
			kz, kq := lockKey(b.Address, "sentinel-znn", addrName(send.Address)), lockKey(b.Address, "sentinel-qsr", addrName(send.Address))
			lz, lq := r.locks[kz], r.locks[kq]
			if ok {
				r.releaseCheck(b, "Revoke(sentinel, ZNN)", lz, kz, send.Address, 0, h)
				r.releaseCheck(b, "Revoke(sentinel, QSR)", lq, kq, send.Address, 1, h)
				if lz != nil && !inWindow(lz.regT, r.p.sentinelLock, r.p.sentinelRevoke) {
					r.fail("release: Revoke of the sentinel of %s succeeded at frontier time %d outside the revoke window (registered %d, lock %d, window %d)", addrName(send.Address), ackT, lz.regT, r.p.sentinelLock, r.p.sentinelRevoke)
				}
				if len(b.DescendantBlocks) != 2 {
					r.fail("release: Revoke(sentinel) produced %d descendant blocks", len(b.DescendantBlocks))
				}
			} else {
				switch {
				case send.Amount.Sign() != 0:
					r.c.Hit("refusal-sentinel.Revoke-carries-amount")
				case lz == nil:
					r.c.Hit("refusal-sentinel.Revoke-not-registered")
				case lz.paidAt != 0:
					r.c.Hit("refusal-sentinel.Revoke-already-revoked")
				case !inWindow(lz.regT, r.p.sentinelLock, r.p.sentinelRevoke):
					r.c.Hit("refusal-sentinel.Revoke-outside-window")
				default:
					r.fail("liveness: Revoke of the sentinel of %s inside the revoke window (frontier time %d, registered %d) was refused", addrName(send.Address), ackT, lz.regT)
				}
			}
		}
	}
}

func (r *contractRun) runningBalance(a types.Address, t types.ZenonTokenStandard) *big.Int {
	if r.runBal[a] == nil {
		r.runBal[a] = map[types.ZenonTokenStandard]*big.Int{}
	}
	if r.runBal[a][t] == nil {
		r.runBal[a][t] = new(big.Int)
	}
	return r.runBal[a][t]
}

func balanceAt(n *Node, a types.Address, t types.ZenonTokenStandard) *big.Int {
	b, _ := n.Chain().GetFrontierMomentumStore().GetAccountStore(a).GetBalance(t)
	if b == nil {
		return new(big.Int)
	}
	return b
}

func descString(b *nom.AccountBlock) string {
	var sb strings.Builder
	fmt.Fprintf(&sb, "%d descendants:", len(b.DescendantBlocks))
	for _, d := range b.DescendantBlocks {
		fmt.Fprintf(&sb, " %s %s -> %s", amt(d.Amount), tokName(d.TokenStandard), addrName(d.ToAddress))
	}
	return sb.String()
}

// ---------------------------------------------------------------------------------------------------
// state dump, comparison with the lock log, backing monitor
// ---------------------------------------------------------------------------------------------------

func sortFusions(l []*definition.FusionInfo) {
	sort.Slice(l, func(i, j int) bool {
		if l[i].Owner != l[j].Owner {
			return string(l[i].Owner[:]) < string(l[j].Owner[:])
		}
		return string(l[i].Id[:]) < string(l[j].Id[:])
	})
}

type liab struct {
	sums map[types.ZenonTokenStandard]*big.Int
}

func (l *liab) add(t types.ZenonTokenStandard, x *big.Int) {
	if l.sums == nil {
		l.sums = map[types.ZenonTokenStandard]*big.Int{}
	}
	if l.sums[t] == nil {
		l.sums[t] = new(big.Int)
	}
	l.sums[t].Add(l.sums[t], x)
}

var fusedGapGenesis map[types.Address]*big.Int


// askedEffect (C09, "applies the call"): the entry READ BACK through the real definition.* getters must show, field by
// field, what the confirmed call that created it asked for — owner, beneficiary, token, expiry / lock times, hash lock —
// not merely some storage write. The expectation comes from the lock log, which is built from confirmed send blocks only.
func (r *contractRun) askedEffect(what, key, field string, got, want interface{}) {
	g, w := fmt.Sprint(got), fmt.Sprint(want)
	if g != w {
		r.fail("asked-effect: %s %s records %s = %s, the confirmed call asked for %s", what, key, field, g, w)
	}
}

func (r *contractRun) compareState(h uint64) {
	c := r.c
	full := func(a types.Address) bool { return !r.dumped || r.touched[a] }
	owed := map[types.Address]*liab{}
	for _, a := range modelledContracts {
		owed[a] = &liab{}
	}
	seenLock := map[string]bool{}
	checkLock := func(key string, amount *big.Int, what string) {
		seenLock[key] = true
		lk := r.locks[key]
		if lk == nil {
			r.fail("storage: %s %s exists in storage with amount %s but no deposit was ever confirmed for it", what, key, amt(amount))
			return
		}
		if lk.paidAt != 0 {
			if amount.Sign() != 0 {
				r.fail("release: %s %s was paid out at momentum %d but is still recorded with amount %s (it can be paid again)", what, key, lk.paidAt, amt(amount))
			}
		} else if amount.Cmp(lk.amount) != 0 {
			r.fail("storage: %s %s records amount %s, the confirmed deposit was %s", what, key, amt(amount), amt(lk.amount))
		}
	}

	// ---- plasma ----
	{
		st := r.storage(types.PlasmaContract)
		fl, err := definition.AllFusionInfoVerif(st)
		if err != nil {
			r.fail("AllFusionInfoVerif: %v", err)
		}
		sortFusions(fl)
		r.fusions = fl
		perBen := map[types.Address]*big.Int{}
		total := new(big.Int)
		for _, f := range fl {
			if full(types.PlasmaContract) {
				c.Emit("K-fusion %s %s | %s %d %s", addrName(f.Owner), h8z(f.Id), amt(f.Amount), f.ExpirationHeight, addrName(f.Beneficiary))
			}
			owed[types.PlasmaContract].add(types.QsrTokenStandard, f.Amount)
			total.Add(total, f.Amount)
			if perBen[f.Beneficiary] == nil {
				perBen[f.Beneficiary] = new(big.Int)
			}
			perBen[f.Beneficiary].Add(perBen[f.Beneficiary], f.Amount)
			checkLock(lockKey(types.PlasmaContract, "fusion", addrName(f.Owner), h8z(f.Id)), f.Amount, "fusion")
			if k := lockKey(types.PlasmaContract, "fusion", addrName(f.Owner), h8z(f.Id)); r.locks[k] != nil {
				lk := r.locks[k]
				r.askedEffect("fusion", k, "beneficiary", addrName(f.Beneficiary), addrName(lk.second))
				r.askedEffect("fusion", k, "expiration height", f.ExpirationHeight, lk.matureH)
				r.askedEffect("fusion", k, "owner", addrName(f.Owner), addrName(lk.entitled))
				c.Hit("asked-effect-checked-fusion")
			}
		}
		fa, err := definition.AllFusedAmountVerif(st)
		if err != nil {
			r.fail("AllFusedAmountVerif: %v", err)
		}
		sort.Slice(fa, func(i, j int) bool { return string(fa[i].Beneficiary[:]) < string(fa[j].Beneficiary[:]) })
		ftotal := new(big.Int)
		gap := map[types.Address]*big.Int{}
		for _, f := range fa {
			if full(types.PlasmaContract) {
				c.Emit("K-fused %s | %s", addrName(f.Beneficiary), amt(f.Amount))
			}
			ftotal.Add(ftotal, f.Amount)
			e := perBen[f.Beneficiary]
			if e == nil {
				e = new(big.Int)
			}
			gap[f.Beneficiary] = new(big.Int).Sub(f.Amount, e)
			if f.Amount.Sign() <= 0 {
				r.fail("fused: beneficiary %s has a stored fused amount of %s", addrName(f.Beneficiary), amt(f.Amount))
			}
		}
		for b, e := range perBen {
			if gap[b] == nil {
				gap[b] = new(big.Int).Neg(e)
			}
		}
		c.Emit("K-digest plasma | %d %s %d %s", len(fl), amt(total), len(fa), amt(ftotal))
		// T2 monitor: per beneficiary, fused amount = Σ of its fusion entries. The mock genesis fixture itself is
		// inconsistent (nine configured fusions share the key (User1, zero id) and overwrite each other while each
		// beneficiary's total is kept), so the monitor checks that the difference never moves away from its genesis value.
		if fusedGapGenesis == nil || !r.dumped {
			fusedGapGenesis = gap
			for _, v := range gap {
				if v.Sign() != 0 {
					c.Hit("genesis-fixture-fused-amount-without-entry")
				}
			}
		} else {
			keys := map[types.Address]bool{}
			for b := range gap {
				keys[b] = true
			}
			for b := range fusedGapGenesis {
				keys[b] = true
			}
			kl := make([]types.Address, 0, len(keys))
			for b := range keys {
				kl = append(kl, b)
			}
			sort.Slice(kl, func(i, j int) bool { return string(kl[i][:]) < string(kl[j][:]) })
			for _, b := range kl {
				x, y := gap[b], fusedGapGenesis[b]
				if x == nil {
					x = new(big.Int)
				}
				if y == nil {
					y = new(big.Int)
				}
				if x.Cmp(y) != 0 {
					r.fail("fused: beneficiary %s: fused amount minus the sum of its fusion entries is %s (was %s at genesis)", addrName(b), amt(x), amt(y))
				}
			}
		}
	}
	// ---- stake ----
	{
		st := r.storage(types.StakeContract)
		var sl []*definition.StakeInfo
		if err := definition.IterateStakeEntries(st, func(s *definition.StakeInfo) error { sl = append(sl, s); return nil }); err != nil {
			r.fail("IterateStakeEntries: %v", err)
		}
		sort.Slice(sl, func(i, j int) bool {
			if sl[i].StakeAddress != sl[j].StakeAddress {
				return string(sl[i].StakeAddress[:]) < string(sl[j].StakeAddress[:])
			}
			return string(sl[i].Id[:]) < string(sl[j].Id[:])
		})
		r.emitStakeGC()
		r.stakes = sl
		total := new(big.Int)
		for _, s := range sl {
			if full(types.StakeContract) {
				c.Emit("K-stake %s %s | %s %s %d %d %d", addrName(s.StakeAddress), h8z(s.Id), amt(s.Amount), amt(s.WeightedAmount), s.StartTime, s.RevokeTime, s.ExpirationTime)
			}
			owed[types.StakeContract].add(types.ZnnTokenStandard, s.Amount)
			total.Add(total, s.Amount)
			checkLock(lockKey(types.StakeContract, "stake", addrName(s.StakeAddress), h8z(s.Id)), s.Amount, "stake")
			if k := lockKey(types.StakeContract, "stake", addrName(s.StakeAddress), h8z(s.Id)); r.locks[k] != nil {
				lk := r.locks[k]
				r.askedEffect("stake", k, "expiration time", s.ExpirationTime, lk.matureT)
				if lk.hasStart {
					r.askedEffect("stake", k, "start time", s.StartTime, lk.startT)
				}
				r.askedEffect("stake", k, "stake address", addrName(s.StakeAddress), addrName(lk.entitled))
				if lk.paidAt == 0 {
					r.askedEffect("stake", k, "revoke time", s.RevokeTime, 0)
				}
				c.Hit("asked-effect-checked-stake")
			}
			if (s.RevokeTime != 0) != (s.Amount.Sign() == 0) {
				r.fail("storage: stake %s/%s has revoke time %d and amount %s", addrName(s.StakeAddress), h8z(s.Id), s.RevokeTime, amt(s.Amount))
			}
		}
		c.Emit("K-digest stake | %d %s", len(sl), amt(total))
	}

	// ---- htlc ----
	{
		st := r.storage(types.HtlcContract)
		hl, err := definition.AllHtlcInfoVerif(st)
		if err != nil {
			r.fail("AllHtlcInfoVerif: %v", err)
		}
		sort.Slice(hl, func(i, j int) bool { return string(hl[i].Id[:]) < string(hl[j].Id[:]) })
		r.htlcs = hl
		for _, e := range hl {
			if full(types.HtlcContract) {
				c.Emit("K-htlc %s | %s %s %s %s %d %d %d %s", h8z(e.Id), addrName(e.TimeLocked), addrName(e.HashLocked), tokName(e.TokenStandard), amt(e.Amount), e.ExpirationTime, e.HashType, e.KeyMaxSize, hxOrDash(e.HashLock))
			}
			r.tokens[e.TokenStandard] = true
			owed[types.HtlcContract].add(e.TokenStandard, e.Amount)
			checkLock(lockKey(types.HtlcContract, "htlc", h8z(e.Id)), e.Amount, "htlc")
			if k := lockKey(types.HtlcContract, "htlc", h8z(e.Id)); r.locks[k] != nil {
				lk := r.locks[k]
				r.askedEffect("htlc", k, "time-locked party", addrName(e.TimeLocked), addrName(lk.entitled))
				r.askedEffect("htlc", k, "hash-locked party", addrName(e.HashLocked), addrName(lk.second))
				r.askedEffect("htlc", k, "token", tokName(e.TokenStandard), tokName(lk.tok))
				r.askedEffect("htlc", k, "expiration time", e.ExpirationTime, lk.matureT)
				r.askedEffect("htlc", k, "hash type", e.HashType, lk.hashType)
				r.askedEffect("htlc", k, "key max size", e.KeyMaxSize, lk.keyMax)
				r.askedEffect("htlc", k, "hash lock", hxOrDash(e.HashLock), hxOrDash(lk.hashLock))
				c.Hit("asked-effect-checked-htlc")
			}
		}
		pl, err := definition.AllHtlcProxyUnlockInfoVerif(st)
		if err != nil {
			r.fail("AllHtlcProxyUnlockInfoVerif: %v", err)
		}
		sort.Slice(pl, func(i, j int) bool { return string(pl[i].Address[:]) < string(pl[j].Address[:]) })
		for _, e := range pl {
			if full(types.HtlcContract) {
				c.Emit("K-proxy %s | %v", addrName(e.Address), e.Allowed)
			}
			if v, set := r.proxy[e.Address]; !set || v != e.Allowed {
				r.fail("storage: proxy-unlock setting of %s is allowed=%v after its confirmed calls [%s ] (call@momentum), the confirmed calls say set=%v allowed=%v: the flag is what the LAST Allow/Deny call said", addrName(e.Address), e.Allowed, r.proxyHist[e.Address], set, v)
			}
		}
		c.Emit("K-digest htlc | %d %d", len(hl), len(pl))
	}

	// ---- pillar ----
	qsrSeen := map[string]bool{}
	dumpQsr := func(a types.Address) {
		dl, err := definition.AllQsrDepositVerif(r.storage(a))
		if err != nil {
			r.fail("AllQsrDepositVerif(%s): %v", cname(a), err)
		}
		sort.Slice(dl, func(i, j int) bool { return string(dl[i].Address[:]) < string(dl[j].Address[:]) })
		total := new(big.Int)
		for _, e := range dl {
			if full(a) {
				c.Emit("K-qsr %s %s | %s", cname(a), addrName(*e.Address), amt(e.Qsr))
			}
			owed[a].add(types.QsrTokenStandard, e.Qsr)
			total.Add(total, e.Qsr)
			k := cname(a) + "/" + addrName(*e.Address)
			qsrSeen[k] = true
			lg := r.qsrLog[k]
			if lg == nil {
				lg = new(big.Int)
			}
			if lg.Cmp(e.Qsr) != 0 {
				r.fail("storage: %s records a QSR deposit of %s for %s, the confirmed deposits minus consumption and withdrawals are %s", cname(a), amt(e.Qsr), addrName(*e.Address), amt(lg))
			}
		}
		c.Emit("K-digest qsr-%s | %d %s", cname(a), len(dl), amt(total))
	}
	{
		st := r.storage(types.PillarContract)
		pl, err := definition.GetPillarsList(st, false, definition.AnyPillarType)
		if err != nil {
			r.fail("GetPillarsList: %v", err)
		}
		sort.Slice(pl, func(i, j int) bool { return pl[i].Name < pl[j].Name })
		r.pillars = pl
		total := new(big.Int)
		for _, e := range pl {
			if full(types.PillarContract) {
				c.Emit("K-pillar %s | %s %s %d %d %s %s %d %d %d", e.Name, addrName(e.StakeAddress), amt(e.Amount), e.RegistrationTime, e.RevokeTime, addrName(e.BlockProducingAddress),
					addrName(e.RewardWithdrawAddress), e.PillarType, e.GiveBlockRewardPercentage, e.GiveDelegateRewardPercentage)
			}
			owed[types.PillarContract].add(types.ZnnTokenStandard, e.Amount)
			total.Add(total, e.Amount)
			checkLock(lockKey(types.PillarContract, "pillar", e.Name), e.Amount, "pillar")
			if k := lockKey(types.PillarContract, "pillar", e.Name); r.locks[k] != nil {
				lk := r.locks[k]
				r.askedEffect("pillar", k, "stake address", addrName(e.StakeAddress), addrName(lk.entitled))
				r.askedEffect("pillar", k, "registration time", e.RegistrationTime, lk.regT)
				if lk.reg != nil {
					r.askedEffect("pillar", k, "producer address", addrName(e.BlockProducingAddress), addrName(lk.reg.ProducerAddress))
					r.askedEffect("pillar", k, "reward address", addrName(e.RewardWithdrawAddress), addrName(lk.reg.RewardAddress))
					r.askedEffect("pillar", k, "block reward percentage", e.GiveBlockRewardPercentage, lk.reg.GiveBlockRewardPercentage)
					r.askedEffect("pillar", k, "delegate reward percentage", e.GiveDelegateRewardPercentage, lk.reg.GiveDelegateRewardPercentage)
					r.askedEffect("pillar", k, "pillar type", e.PillarType, lk.ptype)
					c.Hit("asked-effect-checked-pillar-registered-in-history")
				}
				c.Hit("asked-effect-checked-pillar")
			}
			if (e.RevokeTime != 0) != (e.Amount.Sign() == 0) {
				r.fail("storage: pillar %s has revoke time %d and amount %s", e.Name, e.RevokeTime, amt(e.Amount))
			}
		}
		if full(types.PillarContract) {
			for _, kp := range g.AllKeyPairs {
				pp, err := definition.GetProducingPillarName(st, kp.Address)
				if err == nil && pp != nil {
					c.Emit("K-producing %s | %s", addrName(kp.Address), pp.Name)
				} else {
					c.Emit("K-producing %s | none", addrName(kp.Address))
				}
			}
			dl, err := definition.GetDelegationsList(st)
			if err != nil {
				r.fail("GetDelegationsList: %v", err)
			}
			sort.Slice(dl, func(i, j int) bool { return string(dl[i].Backer[:]) < string(dl[j].Backer[:]) })
			for _, e := range dl {
				c.Emit("K-deleg %s | %s", addrName(e.Backer), e.Name)
			}
			c.Emit("K-ndeleg | %d", len(dl))
		}
		c.Emit("K-digest pillar | %d %s", len(pl), amt(total))
		dumpQsr(types.PillarContract)
	}
	// ---- sentinel ----
	{
		sl := definition.GetAllSentinelInfo(r.storage(types.SentinelContract))
		sort.Slice(sl, func(i, j int) bool { return string(sl[i].Owner[:]) < string(sl[j].Owner[:]) })
		r.sentinels = sl
		tz, tq := new(big.Int), new(big.Int)
		for _, e := range sl {
			if full(types.SentinelContract) {
				c.Emit("K-sentinel %s | %d %d %s %s", addrName(e.Owner), e.RegistrationTimestamp, e.RevokeTimestamp, amt(e.ZnnAmount), amt(e.QsrAmount))
			}
			owed[types.SentinelContract].add(types.ZnnTokenStandard, e.ZnnAmount)
			owed[types.SentinelContract].add(types.QsrTokenStandard, e.QsrAmount)
			tz.Add(tz, e.ZnnAmount)
			tq.Add(tq, e.QsrAmount)
			checkLock(lockKey(types.SentinelContract, "sentinel-znn", addrName(e.Owner)), e.ZnnAmount, "sentinel collateral (ZNN)")
			checkLock(lockKey(types.SentinelContract, "sentinel-qsr", addrName(e.Owner)), e.QsrAmount, "sentinel collateral (QSR)")
			if k := lockKey(types.SentinelContract, "sentinel-znn", addrName(e.Owner)); r.locks[k] != nil {
				lk := r.locks[k]
				r.askedEffect("sentinel", k, "registration time", e.RegistrationTimestamp, lk.regT)
				if lk.paidAt == 0 {
					r.askedEffect("sentinel", k, "revoke time", e.RevokeTimestamp, 0)
				}
				c.Hit("asked-effect-checked-sentinel")
			}
		}
		c.Emit("K-digest sentinel | %d %s %s", len(sl), amt(tz), amt(tq))
		dumpQsr(types.SentinelContract)
	}
	// ---- liquidity (stake entries only; reward pools are outside the liability sums) ----
	{
		st := r.storage(types.LiquidityContract)
		if info, err := definition.GetLiquidityInfo(st); err == nil && info != nil {
			r.liqAdmin = info.Administrator
			var sb strings.Builder
			for _, tt := range info.TokenTuples {
				fmt.Fprintf(&sb, " %s %s", tokName(types.ParseZTSPanic(tt.TokenStandard)), amt(tt.MinAmount))
			}
			if sb.String() != r.lastTuples {
				// configuration set by the administrator through a time-challenged call: an input of the model
				c.Emit("K-liq-tuples%s", sb.String())
				r.lastTuples = sb.String()
			}
		}
		ll := definition.GetAllLiquidityStakeEntries(st)
		sort.Slice(ll, func(i, j int) bool {
			if ll[i].StakeAddress != ll[j].StakeAddress {
				return string(ll[i].StakeAddress[:]) < string(ll[j].StakeAddress[:])
			}
			return string(ll[i].Id[:]) < string(ll[j].Id[:])
		})
		r.emitLStakeGC()
		r.lstakes = ll
		total := new(big.Int)
		for _, e := range ll {
			if full(types.LiquidityContract) {
				c.Emit("K-lstake %s %s | %s %s %s %d %d %d", addrName(e.StakeAddress), h8z(e.Id), amt(e.Amount), tokName(e.TokenStandard), amt(e.WeightedAmount), e.StartTime, e.RevokeTime, e.ExpirationTime)
			}
			owed[types.LiquidityContract].add(e.TokenStandard, e.Amount)
			total.Add(total, e.Amount)
			checkLock(lockKey(types.LiquidityContract, "lstake", addrName(e.StakeAddress), h8z(e.Id)), e.Amount, "liquidity stake")
			if k := lockKey(types.LiquidityContract, "lstake", addrName(e.StakeAddress), h8z(e.Id)); r.locks[k] != nil {
				lk := r.locks[k]
				r.askedEffect("liquidity stake", k, "token", tokName(e.TokenStandard), tokName(lk.tok))
				r.askedEffect("liquidity stake", k, "expiration time", e.ExpirationTime, lk.matureT)
				if lk.hasStart {
					r.askedEffect("liquidity stake", k, "start time", e.StartTime, lk.startT)
				}
				c.Hit("asked-effect-checked-lstake")
			}
		}
		c.Emit("K-digest liquidity | %d %s", len(ll), amt(total))
	}

	// ---- bridge: unwrap requests (no liability sum: redeems of foreign-owned tokens are paid from what was wrapped) ----
	{
		ul, err := definition.GetUnwrapTokenRequests(r.storage(types.BridgeContract))
		if err != nil {
			r.fail("GetUnwrapTokenRequests: %v", err)
		}
		sort.Slice(ul, func(i, j int) bool {
			if ul[i].TransactionHash != ul[j].TransactionHash {
				return string(ul[i].TransactionHash[:]) < string(ul[j].TransactionHash[:])
			}
			return ul[i].LogIndex < ul[j].LogIndex
		})
		r.unwraps = ul
		nred := 0
		for _, e := range ul {
			if full(types.BridgeContract) {
				c.Emit("K-unwrap %s %d | %d %s %s %s %s %d %d", h8z(e.TransactionHash), e.LogIndex, e.RegistrationMomentumHeight, addrName(e.ToAddress), e.TokenAddress, tokName(e.TokenStandard), amt(e.Amount), e.Redeemed, e.Revoked)
			}
			r.tokens[e.TokenStandard] = true
			key := lockKey(types.BridgeContract, "unwrap", unwrapKey(e.TransactionHash, e.LogIndex))
			seenLock[key] = true
			lk := r.locks[key]
			if lk == nil {
				r.fail("storage: unwrap request %s exists in storage but no UnwrapToken call was ever confirmed for it", key)
				continue
			}
			if (lk.paidAt != 0) != (e.Redeemed != 0) {
				r.fail("release: unwrap request %s: paid at momentum %d, recorded redeemed flag %d (a paid request that is not flagged can be paid again)", key, lk.paidAt, e.Redeemed)
			}
			if e.Amount.Cmp(lk.amount) != 0 || e.ToAddress != lk.entitled {
				r.fail("storage: unwrap request %s records %s for %s, the signed call named %s for %s", key, amt(e.Amount), addrName(e.ToAddress), amt(lk.amount), addrName(lk.entitled))
			}
			if r.revoked[key] != (e.Revoked != 0) {
				r.fail("storage: unwrap request %s: revoked flag %d, confirmed revocations say %v", key, e.Revoked, r.revoked[key])
			}
			if e.Redeemed != 0 {
				nred++
			}
		}
		c.Emit("K-digest bridge | %d %d", len(ul), nred)
	}

	// a logged deposit must be recorded
	qk := make([]string, 0, len(r.qsrLog))
	for k := range r.qsrLog {
		qk = append(qk, k)
	}
	sort.Strings(qk)
	for _, k := range qk {
		if r.qsrLog[k].Sign() != 0 && !qsrSeen[k] {
			r.fail("storage: the QSR deposit %s of %s QSR (confirmed, not consumed, not withdrawn) is not recorded in storage", k, amt(r.qsrLog[k]))
		}
	}

	// every open lock of the log must still be recorded (a lock that vanished without a payout is lost money)
	lkeys := make([]string, 0, len(r.locks))
	for k := range r.locks {
		lkeys = append(lkeys, k)
	}
	sort.Strings(lkeys)
	for _, k := range lkeys {
		lk := r.locks[k]
		if lk.paidAt == 0 && !seenLock[k] {
			r.fail("storage: lock %s (%s %s) was never paid out but its entry is gone from storage", k, amt(lk.amount), tokName(lk.tok))
		}
	}

	// ---- balances and the backing monitor ----
	store := r.n.Chain().GetFrontierMomentumStore()
	toks := make([]types.ZenonTokenStandard, 0, len(r.tokens))
	for t := range r.tokens {
		toks = append(toks, t)
	}
	sort.Slice(toks, func(i, j int) bool { return string(toks[i][:]) < string(toks[j][:]) })
	for _, a := range modelledContracts {
		for _, t := range toks {
			if t == types.ZeroTokenStandard {
				continue
			}
			bal, err := store.GetAccountStore(a).GetBalance(t)
			if err != nil {
				r.fail("GetBalance(%s,%s): %v", addrName(a), tokName(t), err)
				continue
			}
			if full(a) {
				c.Emit("K-bal %s %s | %s", cname(a), tokName(t), amt(bal))
			}
			if rb := r.runningBalance(a, t); r.dumped && rb.Cmp(bal) != 0 {
				r.fail("balance: contract %s holds %s %s, its receives and descendant sends since genesis add up to %s", cname(a), amt(bal), tokName(t), amt(rb))
			}
			r.runningBalance(a, t).Set(bal)
			o := owed[a].sums[t]
			if o == nil {
				o = new(big.Int)
			}
			if o.Cmp(bal) > 0 {
				r.fail("backing: contract %s owes %s %s (sum of its recorded entries) but holds only %s at momentum %d", cname(a), amt(o), tokName(t), amt(bal), h)
			}
		}
	}
	r.dumped = true
	for a := range r.touched {
		delete(r.touched, a)
	}
}

// ---------------------------------------------------------------------------------------------------
// history generation
// ---------------------------------------------------------------------------------------------------

// newNodeWithEpoch is NewNode with a shorter reward epoch (the mock constructor takes it; the repository's liquidity
// tests use it), so that reward updates — which also delete cancelled stake entries — fall inside a history.
func newNodeWithEpoch(d time.Duration) *Node {
	n := NewNode()
	n.Stop()
	types.AcceleratorSpork.SporkId, types.HtlcSpork.SporkId, types.BridgeAndLiquiditySpork.SporkId = origSporkIds[0], origSporkIds[1], origSporkIds[2]
	t := &hT{}
	z := mock.NewMockZenonWithCustomEpochDuration(t, d)
	silenceLoggers()
	return &Node{Z: z, T: t, Sup: vm.NewSupervisor(z.Chain(), z.Consensus()), names: map[types.Address]string{}}
}

func init() {
	register("contract", func(c *Ctx) {
		for i := 0; i < c.N; i++ {
			contractHistory(c, i)
		}
	})
}

var foreignAddrs = []types.Address{
	types.ParseAddressPanic("z1qr9vtwsfr2n0nsxl2nfh6l5esqjh2wfj85cfq9"),
	types.ParseAddressPanic("z1qqvwzz2xq7q5gwk6uhcddgrpxlfcyzc8rsu82s"),
}

func contractHistory(c *Ctx, id int) {
	origGate := verifier.ReceiverMismatchEnforcementHeight
	origParams := readParams()
	origAdmin, origMinG, origAdminDelay, origSoftDelay, origUnhalt := constants.InitialBridgeAdministrator, constants.MinGuardians, constants.MinAdministratorDelay, constants.MinSoftDelay, constants.MinUnhaltDurationInMomentums
	defer func() {
		verifier.ReceiverMismatchEnforcementHeight = origGate
		origParams.install()
		constants.InitialBridgeAdministrator, constants.MinGuardians, constants.MinAdministratorDelay, constants.MinSoftDelay, constants.MinUnhaltDurationInMomentums = origAdmin, origMinG, origAdminDelay, origSoftDelay, origUnhalt
	}()
	verifier.ReceiverMismatchEnforcementHeight = 0
	p := origParams
	production := c.Args["params"] == "production" || (c.Args["params"] == "" && id%6 == 5)
	if !production {
		// shortened lock periods (the constants are package variables; the repository's own tests shorten them the same way)
		p.fuseExpiration = uint64(2 + c.R.Intn(25))
		p.stakeUnit = int64(10 * (3 + c.R.Intn(10)))
		p.stakeMin, p.stakeMax = p.stakeUnit, 12*p.stakeUnit
		p.pillarLock, p.pillarRevoke = int64(10*(2+c.R.Intn(12))), int64(10*(1+c.R.Intn(6)))
		p.sentinelLock, p.sentinelRevoke = int64(10*(2+c.R.Intn(12))), int64(10*(1+c.R.Intn(6)))
		c.Hit("history-params-shortened")
	} else {
		c.Hit("history-params-production")
	}
	p.install()

	// one history in six runs with 10-minute reward epochs and frequent Update calls by the producers
	origEpoch, origUpdMin, origRewardLimit := consensus.EpochDuration, constants.UpdateMinNumMomentums, constants.RewardTimeLimit
	defer func() {
		consensus.EpochDuration, constants.UpdateMinNumMomentums, constants.RewardTimeLimit = origEpoch, origUpdMin, origRewardLimit
	}()
	shortEpochs := !production && (c.Args["epochs"] == "short" || (c.Args["epochs"] == "" && id%6 == 1))
	var n *Node
	if shortEpochs {
		constants.UpdateMinNumMomentums, constants.RewardTimeLimit = 15, 0
		n = newNodeWithEpoch(10 * time.Minute)
		c.Hit("history-short-reward-epochs")
	} else {
		n = NewNode()
	}
	defer n.Stop()
	r := &contractRun{c: c, n: n, id: id, p: p, locks: map[string]*lockRec{}, qsrLog: map[string]*big.Int{}, preimages: map[types.Hash][]byte{}, proxy: map[types.Address]bool{}, signedFor: map[string]*definition.UnwrapTokenParam{}, proxyCalls: map[types.Address]int{}, proxyHist: map[types.Address]string{}, revoked: map[string]bool{}, runBal: map[types.Address]map[types.ZenonTokenStandard]*big.Int{},
		touched: map[types.Address]bool{}, tokens: map[types.ZenonTokenStandard]bool{types.ZnnTokenStandard: true, types.QsrTokenStandard: true}}

	c.Emit("K-reset")
	c.Emit("K-param fuseMinAmount %s", amt(constants.FuseMinAmount))
	c.Emit("K-param costPerFusionUnit %d", constants.CostPerFusionUnit)
	c.Emit("K-param fuseExpiration %d", p.fuseExpiration)
	c.Emit("K-param stakeMinAmount %s", amt(constants.StakeMinAmount))
	c.Emit("K-param stakeTimeUnit %d", p.stakeUnit)
	c.Emit("K-param stakeTimeMin %d", p.stakeMin)
	c.Emit("K-param stakeTimeMax %d", p.stakeMax)
	c.Emit("K-param pillarStakeAmount %s", amt(constants.PillarStakeAmount))
	c.Emit("K-param pillarQsrBase %s", amt(constants.PillarQsrStakeBaseAmount))
	c.Emit("K-param pillarQsrIncrease %s", amt(constants.PillarQsrStakeIncreaseAmount))
	c.Emit("K-param pillarLock %d", p.pillarLock)
	c.Emit("K-param pillarRevoke %d", p.pillarRevoke)
	c.Emit("K-param sentinelZnn %s", amt(constants.SentinelZnnRegisterAmount))
	c.Emit("K-param sentinelQsr %s", amt(constants.SentinelQsrDepositAmount))
	c.Emit("K-param sentinelLock %d", p.sentinelLock)
	c.Emit("K-param sentinelRevoke %d", p.sentinelRevoke)

	// the genesis state is the initial state of the model and of the lock log
	store := n.Chain().GetFrontierMomentumStore()
	for _, a := range modelledContracts {
		for _, t := range []types.ZenonTokenStandard{types.ZnnTokenStandard, types.QsrTokenStandard} {
			bal, _ := store.GetAccountStore(a).GetBalance(t)
			if bal != nil && bal.Sign() != 0 {
				c.Emit("K-init-bal %s %s %s", cname(a), tokName(t), amt(bal))
			}
		}
	}
	fl, err := definition.AllFusionInfoVerif(r.storage(types.PlasmaContract))
	if err != nil {
		r.fail("genesis fusions: %v", err)
		return
	}
	sortFusions(fl)
	for _, f := range fl {
		c.Emit("K-init-fusion %s %s %s %d %s", addrName(f.Owner), h8z(f.Id), amt(f.Amount), f.ExpirationHeight, addrName(f.Beneficiary))
		key := lockKey(types.PlasmaContract, "fusion", addrName(f.Owner), h8z(f.Id))
		r.locks[key] = &lockRec{contract: types.PlasmaContract, kind: "fusion", key: key, entitled: f.Owner, second: f.Beneficiary, tok: types.QsrTokenStandard,
			amount: new(big.Int).Set(f.Amount), matureH: f.ExpirationHeight}
	}
	fa, _ := definition.AllFusedAmountVerif(r.storage(types.PlasmaContract))
	sort.Slice(fa, func(i, j int) bool { return string(fa[i].Beneficiary[:]) < string(fa[j].Beneficiary[:]) })
	for _, f := range fa {
		c.Emit("K-init-fused %s %s", addrName(f.Beneficiary), amt(f.Amount))
	}
	gp, err := definition.GetPillarsList(r.storage(types.PillarContract), false, definition.AnyPillarType)
	if err != nil {
		r.fail("genesis pillars: %v", err)
		return
	}
	sort.Slice(gp, func(i, j int) bool { return gp[i].Name < gp[j].Name })
	for _, e := range gp {
		c.Emit("K-init-pillar %s %s %s %d %d %s %s %d %d %d", e.Name, addrName(e.StakeAddress), amt(e.Amount), e.RegistrationTime, e.RevokeTime, addrName(e.BlockProducingAddress),
			addrName(e.RewardWithdrawAddress), e.PillarType, e.GiveBlockRewardPercentage, e.GiveDelegateRewardPercentage)
		key := lockKey(types.PillarContract, "pillar", e.Name)
		r.locks[key] = &lockRec{contract: types.PillarContract, kind: "pillar", key: key, entitled: e.StakeAddress, tok: types.ZnnTokenStandard, amount: new(big.Int).Set(e.Amount), regT: e.RegistrationTime, ptype: e.PillarType}
	}
	gd, err := definition.GetDelegationsList(r.storage(types.PillarContract))
	if err != nil {
		r.fail("genesis delegations: %v", err)
		return
	}
	sort.Slice(gd, func(i, j int) bool { return string(gd[i].Backer[:]) < string(gd[j].Backer[:]) })
	for _, e := range gd {
		c.Emit("K-init-deleg %s %s", addrName(e.Backer), e.Name)
	}
	r.compareState(n.Height())
	if r.failed {
		return
	}

	r.cons = newConsMonitor(c, n, fmt.Sprintf("contract run=%d", id))
	n.OnMomentum = r.onMomentum
	momentum := func() bool {
		if _, err := n.Momentum(); err != nil {
			r.fail("momentum production failed: %v", err)
			return false
		}
		return !r.failed
	}
	advance := func(k int) bool {
		for i := 0; i < k; i++ {
			if !momentum() {
				return false
			}
		}
		return true
	}

	withHtlc := c.Args["htlc"] == "1" || (c.Args["htlc"] == "" && id%3 != 0)
	if withHtlc { // htlc exists only under its spork; activated in the order accelerator -> bridge/liquidity -> htlc
		for i, sp := range []*types.ImplementedSpork{types.AcceleratorSpork, types.BridgeAndLiquiditySpork, types.HtlcSpork} {
			if err := n.ActivateSpork(sp, fmt.Sprintf("spork-%d", i)); err != nil {
				r.fail("spork activation: %v", err)
				return
			}
			if r.failed {
				return
			}
		}
		c.Hit("history-with-htlc")
	}

	users := []types.Address{g.User1.Address, g.User2.Address, g.User3.Address, g.User4.Address, g.User5.Address,
		g.Pillar4.Address, g.Pillar5.Address, g.Pillar6.Address}
	everyone := append([]types.Address{g.User6.Address, g.User7.Address, g.Pillar1.Address}, users...)
	anyAddr := append(append([]types.Address{}, everyone...), foreignAddrs...)
	anyAddr = append(anyAddr, types.PlasmaContract)
	pick := func(l []types.Address) types.Address { return l[c.R.Intn(len(l))] }

	call := func(from, to types.Address, tok types.ZenonTokenStandard, amount *big.Int, method string, data []byte) *nom.AccountBlock {
		b, err := n.Submit(&nom.AccountBlock{BlockType: nom.BlockTypeUserSend, Address: from, ToAddress: to, TokenStandard: tok, Amount: amount, Data: data})
		tag := cname(to) + "." + method
		if err != nil {
			c.Hit("send-rejected-" + tag)
			return nil
		}
		c.Hit("send-accepted-" + tag)
		return b
	}
	qsr := func(units int64) *big.Int { return new(big.Int).Mul(big.NewInt(units), big.NewInt(g.Zexp)) }
	randomHash := func() types.Hash {
		var h types.Hash
		c.R.Read(h[:])
		return h
	}
	frontierTime := func() int64 {
		m, _ := n.Chain().GetFrontierMomentumStore().GetFrontierMomentum()
		return m.Timestamp.Unix()
	}

	// liquidity staking needs the administrator's configuration (guardians, then the token tuples, both time-challenged);
	// ZNN and QSR themselves are configured as stakeable tokens, or ZNN alone (then QSR stakes are refused)
	withLiq := withHtlc && (c.Args["liq"] == "1" || (c.Args["liq"] == "" && id%2 == 0))
	if withLiq {
		constants.InitialBridgeAdministrator, constants.MinGuardians, constants.MinAdministratorDelay, constants.MinSoftDelay = g.User5.Address, 4, 20, 10
		admin := g.User5.Address
		guardians := []types.Address{g.User1.Address, g.User2.Address, g.User3.Address, g.User4.Address}
		for k := 0; k < 2; k++ {
			if call(admin, types.LiquidityContract, types.ZnnTokenStandard, big.NewInt(0), "NominateGuardians", definition.ABILiquidity.PackMethodPanic(definition.NominateGuardiansMethodName, guardians)) == nil {
				withLiq = false
				break
			}
			if !advance(2 + (1-k)*22) {
				return
			}
		}
		zts := []string{types.ZnnTokenStandard.String(), types.QsrTokenStandard.String()}
		pct := []uint32{5000, 5000}
		mins := []*big.Int{big.NewInt(1000), big.NewInt(2000)}
		if id%4 == 0 {
			zts, pct, mins = zts[:1], []uint32{10000}, mins[:1]
		}
		for k := 0; k < 2 && withLiq; k++ {
			if call(admin, types.LiquidityContract, types.ZnnTokenStandard, big.NewInt(0), "SetTokenTuple", definition.ABILiquidity.PackMethodPanic(definition.SetTokenTupleMethodName, zts, pct, pct, mins)) == nil {
				withLiq = false
				break
			}
			if !advance(2 + (1-k)*12) {
				return
			}
		}
		if info, err := definition.GetLiquidityInfo(r.storage(types.LiquidityContract)); err != nil || len(info.TokenTuples) != len(zts) {
			withLiq = false
			c.Hit("liquidity-setup-failed")
		} else {
			c.Hit("history-with-liquidity")
		}
	}

	// bridge: orchestrator info, guardians, TSS key, a network and token pairs (ZNN redeemable and foreign-owned, QSR not
	// redeemable, a token owned by the bridge contract), every administrative change through its time challenge
	withBridge := withHtlc && !withLiq && (c.Args["bridge"] == "1" || (c.Args["bridge"] == "" && id%2 == 1))
	var ownedZts types.ZenonTokenStandard
	tokenAddrs := map[types.ZenonTokenStandard]string{}
	var altNets [][2]uint32
	if withBridge {
		constants.InitialBridgeAdministrator, constants.MinGuardians, constants.MinAdministratorDelay, constants.MinSoftDelay, constants.MinUnhaltDurationInMomentums = g.User5.Address, 4, 20, 10, 5
		admin := g.User5.Address
		adminCall := func(method string, args ...interface{}) bool {
			return call(admin, types.BridgeContract, types.ZnnTokenStandard, big.NewInt(0), method, definition.ABIBridge.PackMethodPanic(method, args...)) != nil
		}
		challenged := func(delay int, method string, args ...interface{}) bool {
			for k := 0; k < 2; k++ {
				if !adminCall(method, args...) {
					return false
				}
				if !advance(2 + (1-k)*(delay+2)) {
					return false
				}
			}
			return true
		}
		okSetup := adminCall(definition.SetOrchestratorInfoMethodName, uint64(6), uint32(3), uint32(15), uint32(10)) && advance(2) &&
			challenged(20, definition.NominateGuardiansMethodName, []types.Address{g.User1.Address, g.User2.Address, g.User3.Address, g.User4.Address, g.User5.Address}) &&
			challenged(10, definition.ChangeTssECDSAPubKeyMethodName, tssPubKey, "", "") &&
			adminCall(definition.SetNetworkMethodName, bridgeNetClass, bridgeChainId, "Ethereum", "0x323b5d4c32345ced77393b3530b1eed0f346429d", "{}") && advance(2)
		if okSetup { // a token owned by the bridge: issued by User1, ownership handed to the bridge contract
			if call(g.User1.Address, types.TokenContract, types.ZnnTokenStandard, constants.TokenIssueAmount, "IssueToken", definition.ABIToken.PackMethodPanic(definition.IssueMethodName,
				"bridged", "BRG", "", big.NewInt(0), big.NewInt(1000000*g.Zexp), uint8(8), true, true, false)) != nil && advance(3) {
				tl, _ := definition.GetTokenInfoList(r.storage(types.TokenContract))
				for _, ti := range tl {
					if ti.Owner == g.User1.Address && ti.TokenSymbol == "BRG" {
						ownedZts = ti.TokenStandard
					}
				}
				if ownedZts != types.ZeroTokenStandard {
					okSetup = call(g.User1.Address, types.TokenContract, types.ZnnTokenStandard, big.NewInt(0), "UpdateToken", definition.ABIToken.PackMethodPanic(definition.UpdateTokenMethodName,
						ownedZts, types.BridgeContract, true, true)) != nil && advance(3)
				}
			}
		}
		redeemDelay := uint32(2 + c.R.Intn(9))
		tokenAddrs[types.ZnnTokenStandard] = "0x5fbdb2315678afecb367f032d93f642f64180aa3"
		tokenAddrs[types.QsrTokenStandard] = "0x5aaeb6053f3e94c9b9a09f33669435e7ef1beaed"
		okSetup = okSetup &&
			challenged(10, definition.SetTokenPairMethod, bridgeNetClass, bridgeChainId, types.ZnnTokenStandard, tokenAddrs[types.ZnnTokenStandard], true, true, false, big.NewInt(100), uint32(15), redeemDelay, "{}") &&
			challenged(10, definition.SetTokenPairMethod, bridgeNetClass, bridgeChainId, types.QsrTokenStandard, tokenAddrs[types.QsrTokenStandard], true, false, false, big.NewInt(100), uint32(0), uint32(3), "{}")
		if okSetup && ownedZts != types.ZeroTokenStandard {
			tokenAddrs[ownedZts] = "0xfb6916095ca1df60bb79ce92ce3ea74c37c5d359"
			okSetup = challenged(10, definition.SetTokenPairMethod, bridgeNetClass, bridgeChainId, ownedZts, tokenAddrs[ownedZts], true, true, true, big.NewInt(1), uint32(0), redeemDelay+1, "{}")
		}
		// two further networks with the SAME ZNN pair (same foreign token address, same delay): a request signed for one network
		// and presented for the other differs in the chain id / in the network class alone and reaches the signature check
		if okSetup && !r.failed {
			for _, nc := range [][2]uint32{{bridgeNetClass, bridgeChainId + 1}, {definition.NoMClass, bridgeChainId}} {
				if adminCall(definition.SetNetworkMethodName, nc[0], nc[1], fmt.Sprintf("Net-%d-%d", nc[0], nc[1]), "0x323b5d4c32345ced77393b3530b1eed0f346429d", "{}") && advance(2) &&
					challenged(10, definition.SetTokenPairMethod, nc[0], nc[1], types.ZnnTokenStandard, tokenAddrs[types.ZnnTokenStandard], true, true, false, big.NewInt(100), uint32(15), redeemDelay, "{}") {
					if r.bridgePair(nc[0], nc[1], func(t *definition.TokenPair) bool { return t.TokenStandard == types.ZnnTokenStandard }) != nil {
						altNets = append(altNets, nc)
					}
				}
			}
			c.Hit(fmt.Sprintf("bridge-further-networks-%d", len(altNets)))
		}
		ni, _ := definition.GetNetworkInfoVariable(r.storage(types.BridgeContract), bridgeNetClass, bridgeChainId)
		if !okSetup || r.failed || ni == nil || len(ni.TokenPairs) < 2 || !r.bridgeCanAct(n.Height()+1) {
			withBridge = false
			c.Hit("bridge-setup-failed")
			if r.failed {
				return
			}
		} else {
			c.Hit("history-with-bridge")
			c.Hit(fmt.Sprintf("bridge-token-pairs-%d", len(ni.TokenPairs)))
		}
	}

	steps := 70 + c.R.Intn(50)
	if c.Tier == "thorough" {
		steps = 180 + c.R.Intn(120)
	}
	if production {
		steps = steps / 2
	}
	budget := 300 // momentums per history
	if c.Tier == "thorough" {
		budget = 800
	}
	start := n.Height()
	zero := big.NewInt(0)
	withAmount := func() (*big.Int, types.ZenonTokenStandard) { // a withdrawal call that wrongly carries an amount
		if c.R.Intn(15) == 0 {
			return big.NewInt(1 + int64(c.R.Intn(5))), types.QsrTokenStandard
		}
		return zero, types.ZnnTokenStandard
	}

	// directed scenario of every liquidity history: a lock holds whatever the administrator does between deposit and release
	if withLiq && c.Args["lockadmin"] != "0" {
		if !r.lockVsAdministration(histEnv{call: call, advance: advance, now: frontierTime, qsr: qsr}, users) {
			return
		}
		start = n.Height()
	}

	genPlasma := func() {
		if c.R.Intn(100) < 45 { // Fuse
			from := pick(users)
			am := qsr(int64(10 + c.R.Intn(120)))
			tok := types.QsrTokenStandard
			switch c.R.Intn(12) {
			case 0:
				am = qsr(int64(c.R.Intn(10))) // below the minimum
			case 1:
				am = new(big.Int).Add(am, big.NewInt(int64(1+c.R.Intn(1000)))) // not a multiple of the fusion unit
			case 2:
				tok = types.ZnnTokenStandard
			case 3:
				am = qsr(int64(1000 + c.R.Intn(5000)))
			}
			call(from, types.PlasmaContract, tok, am, "Fuse", definition.ABIPlasma.PackMethodPanic(definition.FuseMethodName, pick(anyAddr)))
			return
		}
		// CancelFuse: owner / other / unknown id / repeated / with amount
		var id types.Hash
		var from types.Address
		y := c.R.Intn(10)
		switch {
		case y < 6 && len(r.fusions) > 0:
			f := r.fusions[c.R.Intn(len(r.fusions))]
			// prefer entries created in this history over the genesis ones (those feed the accounts' plasma)
			for k := 0; k < 3 && f.ExpirationHeight == 0; k++ {
				f = r.fusions[c.R.Intn(len(r.fusions))]
			}
			id, from = f.Id, f.Owner
		case y < 8 && len(r.fusions) > 0:
			f := r.fusions[c.R.Intn(len(r.fusions))]
			id, from = f.Id, pick(users) // mostly not the owner
		case y < 9 && len(r.deadIds) > 0:
			id, from = r.deadIds[c.R.Intn(len(r.deadIds))], pick(users)
			lkeys := make([]string, 0, len(r.locks))
			for k := range r.locks {
				lkeys = append(lkeys, k)
			}
			sort.Strings(lkeys)
			for _, k := range lkeys { // the former owner repeats the cancel
				if l := r.locks[k]; l.kind == "fusion" && strings.HasSuffix(l.key, "/"+h8z(id)) {
					from = l.entitled
				}
			}
		default:
			id, from = randomHash(), pick(users)
		}
		am, tok := withAmount()
		if keyOf(from) == nil {
			return
		}
		call(from, types.PlasmaContract, tok, am, "CancelFuse", definition.ABIPlasma.PackMethodPanic(definition.CancelFuseMethodName, id))
	}

	genStake := func() {
		if c.R.Intn(100) < 45 { // Stake
			from := pick(users)
			am := qsr(int64(1 + c.R.Intn(60)))
			tok := types.ZnnTokenStandard
			dur := p.stakeUnit * int64(1+c.R.Intn(3))
			switch c.R.Intn(14) {
			case 0:
				dur = p.stakeUnit * int64(1+c.R.Intn(12))
			case 1:
				dur = p.stakeUnit*13 + int64(c.R.Intn(3))*p.stakeUnit // too long
			case 2:
				dur = p.stakeUnit + 1 + int64(c.R.Intn(int(p.stakeUnit)-1)) // not a multiple
			case 3:
				dur = int64(c.R.Intn(int(p.stakeUnit))) // too short
			case 4:
				dur = -p.stakeUnit
			case 5:
				am = big.NewInt(int64(c.R.Intn(int(g.Zexp)))) // below the minimum
			case 6:
				tok = types.QsrTokenStandard
			}
			call(from, types.StakeContract, tok, am, "Stake", definition.ABIStake.PackMethodPanic(definition.StakeMethodName, dur))
			return
		}
		var id types.Hash
		var from types.Address
		y := c.R.Intn(10)
		switch {
		case y < 6 && len(r.stakes) > 0:
			s := r.stakes[c.R.Intn(len(r.stakes))]
			id, from = s.Id, s.StakeAddress // includes already revoked entries (repeated cancel)
		case y < 8 && len(r.stakes) > 0:
			s := r.stakes[c.R.Intn(len(r.stakes))]
			id, from = s.Id, pick(users)
		default:
			id, from = randomHash(), pick(users)
		}
		am, tok := withAmount()
		if keyOf(from) == nil {
			return
		}
		call(from, types.StakeContract, tok, am, "Cancel", definition.ABIStake.PackMethodPanic(definition.CancelStakeMethodName, id))
	}

	hashOf := func(ty uint8, pre []byte) []byte {
		if ty == definition.HashTypeSHA256 {
			return crypto.HashSHA256(pre)
		}
		return crypto.Hash(pre)
	}
	unlockCall := func(e *definition.HtlcInfo, from types.Address, pre []byte) {
		am, tok := withAmount()
		call(from, types.HtlcContract, tok, am, "Unlock", definition.ABIHtlc.PackMethodPanic(definition.UnlockHtlcMethodName, e.Id, pre))
	}
	// proxy scenario: the hash-locked party of an open entry denies (or allows again) proxy unlocks, then a third party
	// presents the correct preimage before expiry
	proxyFlow := func() bool {
		var cands []*definition.HtlcInfo
		for _, e := range r.htlcs {
			if keyOf(e.HashLocked) != nil && e.ExpirationTime > frontierTime()+60 && len(r.preimages[e.Id]) <= int(e.KeyMaxSize) {
				cands = append(cands, e)
			}
		}
		if len(cands) == 0 {
			return true
		}
		e := cands[c.R.Intn(len(cands))]
		method := definition.DenyHtlcProxyUnlockMethodName
		if c.R.Intn(3) == 0 {
			method = definition.AllowHtlcProxyUnlockMethodName
		}
		if call(e.HashLocked, types.HtlcContract, types.ZnnTokenStandard, zero, method, definition.ABIHtlc.PackMethodPanic(method)) == nil {
			return true
		}
		if !advance(2) {
			return false
		}
		third := pick(users)
		for k := 0; k < 5 && third == e.HashLocked; k++ {
			third = pick(users)
		}
		call(third, types.HtlcContract, types.ZnnTokenStandard, zero, "Unlock", definition.ABIHtlc.PackMethodPanic(definition.UnlockHtlcMethodName, e.Id, r.preimages[e.Id]))
		c.Hit("flow-htlc-proxy-" + method)
		return true
	}
	// proxy-flag history: the hash-locked party B of a fresh entry makes a generated sequence over {Allow, Deny} of length
	// 0..4 (all 31 sequences; on top of whatever B called earlier in the history; one time in three all calls queue up in ONE
	// momentum), the flag is read back through the RPC method embedded.htlc.getProxyUnlockStatus and through
	// definition.GetHtlcProxyUnlockInfo after every confirmed call: it is what B's LAST call said (no call ever: allowed, no
	// entry); then a third party presents the correct preimage (released iff the last call was Allow or there was none), then
	// B itself (always released). The receives are judged by the release monitor, the storage comparison and the Lean replay.
	proxyHistoryFlow := func() bool {
		B := pick(users)
		D, T := pick(users), pick(users)
		for k := 0; k < 8 && T == B; k++ {
			T = pick(users)
		}
		if T == B {
			return true
		}
		L := []int{0, 1, 2, 2, 2, 3, 3, 3, 4, 4}[c.R.Intn(10)]
		seq := make([]bool, L)
		name := ""
		for i := range seq {
			seq[i] = c.R.Intn(2) == 0
			if seq[i] {
				name += "A"
			} else {
				name += "D"
			}
		}
		pre := make([]byte, 32)
		c.R.Read(pre)
		ty := uint8(c.R.Intn(2))
		tok := types.ZnnTokenStandard
		if c.R.Intn(2) == 0 {
			tok = types.QsrTokenStandard
		}
		exp := frontierTime() + 10*int64(40+c.R.Intn(20))
		b := call(D, types.HtlcContract, tok, qsr(int64(1+c.R.Intn(20))), "Create", definition.ABIHtlc.PackMethodPanic(definition.CreateHtlcMethodName, B, exp, ty, uint8(32), hashOf(ty, pre)))
		if b == nil {
			return true
		}
		r.preimages[b.Hash] = pre
		if !advance(3) { // the entry exists and every earlier call of B has been received
			return false
		}
		api := embedded.NewHtlcApi(n.Z)
		readBack := func(after string) bool {
			want, set := r.proxy[B] // the last confirmed call of B, kept by the release monitor from the confirmed receives
			got, err := api.GetProxyUnlockStatus(B)
			if err != nil {
				r.fail("htlc proxy flag: getProxyUnlockStatus(%s) after %s: %v", addrName(B), after, err)
				return false
			}
			if got != (!set || want) {
				r.fail("htlc proxy flag: after the calls %s of %s (last confirmed call: set=%v allow=%v) embedded.htlc.getProxyUnlockStatus answers %v - the flag must be what the LAST Allow/Deny call said (allowed when there was none)",
					after, addrName(B), set, want, got)
				return false
			}
			info, err := definition.GetHtlcProxyUnlockInfo(r.storage(types.HtlcContract), B)
			if set && (err != nil || info == nil || info.Allowed != want) {
				r.fail("htlc proxy flag: after the calls %s of %s the stored entry (GetHtlcProxyUnlockInfo) is %+v / %v, the last call said allow=%v", after, addrName(B), info, err, want)
				return false
			}
			if !set && err == nil {
				r.fail("htlc proxy flag: %s never called Allow/Deny but an entry %+v is stored", addrName(B), info)
				return false
			}
			return true
		}
		batched := L >= 2 && c.R.Intn(3) == 0
		received0 := r.proxyCalls[B]
		done := "[]"
		if _, set := r.proxy[B]; set {
			done = "[earlier calls]"
		}
		for i, allow := range seq {
			method := definition.DenyHtlcProxyUnlockMethodName
			if allow {
				method = definition.AllowHtlcProxyUnlockMethodName
			}
			if call(B, types.HtlcContract, types.ZnnTokenStandard, zero, method, definition.ABIHtlc.PackMethodPanic(method)) == nil {
				return true
			}
			done += " " + method
			if batched && i < L-1 {
				continue
			}
			if !advance(2) {
				return false
			}
			for k := 0; k < 4 && r.proxyCalls[B] < received0+i+1; k++ { // every call made so far has been received by the contract
				if !advance(1) {
					return false
				}
			}
			if r.proxyCalls[B] != received0+i+1 {
				c.Hit("flow-htlc-proxy-history-abandoned")
				return true
			}
			if !readBack(done) {
				return false
			}
		}
		if L == 0 && (!advance(2) || !readBack(done)) {
			return !r.failed
		}
		ends := "none"
		if L == 1 {
			ends = name
		} else if L >= 2 {
			ends = name[L-2:]
		}
		if _, set := r.proxy[B]; L == 0 && set {
			ends = "earlier"
		}
		c.Hit(fmt.Sprintf("flow-htlc-proxy-history-ends-%s", ends))
		c.Hit(fmt.Sprintf("flow-htlc-proxy-history-len-%d", L))
		if batched {
			c.Hit("flow-htlc-proxy-history-in-one-momentum")
		}
		want, set := r.proxy[B]
		allowedNow := !set || want
		// the third party presents the correct preimage
		if call(T, types.HtlcContract, types.ZnnTokenStandard, zero, "Unlock", definition.ABIHtlc.PackMethodPanic(definition.UnlockHtlcMethodName, b.Hash, pre)) == nil {
			return true
		}
		if !advance(2) {
			return false
		}
		open := false
		for _, e := range r.htlcs {
			if e.Id == b.Hash {
				open = true
			}
		}
		if open == allowedNow {
			r.fail("htlc proxy unlock: %s made the calls %s (last call: set=%v allow=%v); the Unlock of %s by the third party %s with the correct preimage before expiry left the entry open=%v - a proxy unlock succeeds iff the LAST Allow/Deny call of the hash-locked party was Allow or there was none",
				addrName(B), done, set, want, h8z(b.Hash), addrName(T), open)
			return false
		}
		if allowedNow {
			c.Hit("flow-htlc-proxy-history-proxy-unlock-released")
			return true
		}
		c.Hit("flow-htlc-proxy-history-proxy-unlock-refused")
		// the hash-locked party itself is never bound by its own flag
		if call(B, types.HtlcContract, types.ZnnTokenStandard, zero, "Unlock", definition.ABIHtlc.PackMethodPanic(definition.UnlockHtlcMethodName, b.Hash, pre)) == nil {
			return true
		}
		if !advance(2) {
			return false
		}
		for _, e := range r.htlcs {
			if e.Id == b.Hash {
				r.fail("htlc own unlock: the Unlock of %s by its hash-locked party %s with the correct preimage before expiry left the entry open (proxy flag history %s)", h8z(b.Hash), addrName(B), done)
				return false
			}
		}
		c.Hit("flow-htlc-proxy-history-own-unlock-released")
		return true
	}
	// length-boundary scenario: an entry whose secret has a length at / next to the entry's KeyMaxSize, at 255 / 256 / 257,
	// at twice the maximum, or one that fits KeyMaxSize only modulo 2^8 (k*256 + j with j <= KeyMaxSize) - the hash lock IS
	// the digest of that secret, so the length rule alone decides. The hash-locked party (or a third party) presents it
	// before expiry; the receive is judged by the release monitor and by the Lean state machine (length > KeyMaxSize => refused,
	// funds stay locked and go back to the depositor after expiry).
	lenFlow := func() bool {
		keyMax := []uint8{0, 1, 8, 31, 32, 32, 33, 40, 64, 128, 254, 255}[c.R.Intn(12)]
		K := int(keyMax)
		var L int
		switch c.R.Intn(4) {
		case 0, 1: // fits only after a wrap-around of a narrow length type
			L = 256*[]int{1, 1, 1, 2, 3, 4, 8, 16, 32, 63}[c.R.Intn(10)] + c.R.Intn(K+1)
			if c.R.Intn(3) == 0 {
				L = 256*(1+c.R.Intn(63)) + K
			}
		case 2: // next to the entry's own maximum
			L = []int{K - 1, K, K + 1, 2 * K, 2*K + 1, K + 256 + 1, K + 255}[c.R.Intn(7)]
		default: // fixed boundaries of the byte-length encodings
			L = []int{0, 1, 31, 32, 33, 64, 255, 256, 257, 511, 512, 513, 4096, 16256, 16257}[c.R.Intn(15)]
		}
		if L < 0 {
			L = 0
		}
		pre := make([]byte, L)
		c.R.Read(pre)
		ty := uint8(c.R.Intn(2))
		from, hashLocked := pick(users), pick(users)
		tok := types.ZnnTokenStandard
		if c.R.Intn(2) == 0 {
			tok = types.QsrTokenStandard
		}
		exp := frontierTime() + 10*int64(8+c.R.Intn(20))
		b := call(from, types.HtlcContract, tok, qsr(int64(1+c.R.Intn(20))), "Create", definition.ABIHtlc.PackMethodPanic(definition.CreateHtlcMethodName, hashLocked, exp, ty, keyMax, hashOf(ty, pre)))
		if b == nil {
			return true
		}
		r.preimages[b.Hash] = pre
		if !advance(2) {
			return false
		}
		by := hashLocked
		if c.R.Intn(4) == 0 {
			by = pick(users)
		}
		call(by, types.HtlcContract, types.ZnnTokenStandard, zero, "Unlock", definition.ABIHtlc.PackMethodPanic(definition.UnlockHtlcMethodName, b.Hash, pre))
		switch {
		case L > K && L%256 <= K:
			c.Hit("flow-htlc-preimage-length-fits-only-mod-256")
		case L > K:
			c.Hit("flow-htlc-preimage-length-above-max")
		case L == K:
			c.Hit("flow-htlc-preimage-length-at-max")
		default:
			c.Hit("flow-htlc-preimage-length-below-max")
		}
		return true
	}
	genHtlc := func() bool {
		y := c.R.Intn(100)
		if c.R.Intn(8) == 0 {
			return proxyFlow()
		}
		if c.R.Intn(12) == 0 {
			return proxyHistoryFlow()
		}
		if c.R.Intn(6) == 0 {
			return lenFlow()
		}
		if len(r.htlcs) == 0 && y >= 35 && y < 90 && c.R.Intn(5) != 0 {
			y = 0 // nothing to release yet: create
		}
		switch {
		case y < 35: // Create
			from := pick(users)
			tok := types.ZnnTokenStandard
			if c.R.Intn(2) == 0 {
				tok = types.QsrTokenStandard
			}
			am := qsr(int64(1 + c.R.Intn(40)))
			if c.R.Intn(8) == 0 {
				am = big.NewInt(int64(1 + c.R.Intn(3)))
			}
			hashLocked := pick(users)
			if c.R.Intn(4) == 0 {
				hashLocked = pick(anyAddr)
			}
			now := frontierTime()
			exp := now + 10*int64(4+c.R.Intn(40))
			ty := uint8(c.R.Intn(2))
			keyMax := []uint8{32, 32, 255, 8, 0, 40}[c.R.Intn(6)]
			pre := make([]byte, []int{32, 32, 8, 0, 40, 33, 1}[c.R.Intn(7)])
			c.R.Read(pre)
			if int(keyMax) < len(pre) && c.R.Intn(5) != 0 {
				keyMax = uint8(len(pre)) // mostly a preimage that fits (exactly)
			}
			lock := hashOf(ty, pre)
			switch c.R.Intn(16) {
			case 0:
				exp = now + 10 + 10*int64(c.R.Intn(3)) // expires at / right after the receive: "already expired" boundary
			case 1:
				exp = now - 10*int64(c.R.Intn(5))
			case 2:
				exp = -exp
			case 3:
				ty = uint8(2 + c.R.Intn(254)) // invalid hash type
			case 4:
				lock = lock[:31] // wrong digest size
			case 5:
				lock = append(lock, 0)
			case 6:
				am = big.NewInt(0)
			case 7:
				exp = 1<<62 + int64(c.R.Intn(1000))
			case 8: // digest length bounds: empty, twice the size, 255 / 256 / 257, the right size modulo 2^8
				n := []int{0, 1, 64, 255, 256, 257, 256 + 32, 512 + 32, 256 + 31}[c.R.Intn(9)]
				lock = make([]byte, n)
				c.R.Read(lock)
				c.Hit("htlc-create-digest-length-boundary")
			}
			if b := call(from, types.HtlcContract, tok, am, "Create", definition.ABIHtlc.PackMethodPanic(definition.CreateHtlcMethodName, hashLocked, exp, ty, keyMax, lock)); b != nil {
				r.preimages[b.Hash] = pre
			}
		case y < 70: // Unlock: hash-locked party / third party (proxy) / time-locked party; right, wrong, too long, empty preimage
			if len(r.htlcs) == 0 && len(r.deadIds) == 0 {
				return true
			}
			var e *definition.HtlcInfo
			if len(r.htlcs) > 0 && c.R.Intn(10) != 0 {
				e = r.htlcs[c.R.Intn(len(r.htlcs))]
				for k := 0; k < 4 && e.ExpirationTime <= frontierTime()+10; k++ { // prefer entries that can still be unlocked
					e = r.htlcs[c.R.Intn(len(r.htlcs))]
				}
			} else if len(r.deadIds) > 0 {
				e = &definition.HtlcInfo{Id: r.deadIds[c.R.Intn(len(r.deadIds))], HashLocked: pick(users), TimeLocked: pick(users)}
			} else {
				e = &definition.HtlcInfo{Id: randomHash(), HashLocked: pick(users), TimeLocked: pick(users)}
			}
			from := e.HashLocked
			switch c.R.Intn(6) {
			case 0, 1:
				from = pick(users)
			case 2:
				from = e.TimeLocked
			}
			if keyOf(from) == nil {
				from = pick(users)
			}
			pre := r.preimages[e.Id]
			switch c.R.Intn(12) {
			case 0:
				pre = make([]byte, len(pre))
				c.R.Read(pre)
			case 1:
				pre = append(append([]byte{}, pre...), byte(c.R.Intn(256)))
			case 2:
				pre = []byte{}
			case 3:
				pre = make([]byte, 256+c.R.Intn(50))
			}
			unlockCall(e, from, pre)
		case y < 90: // Reclaim: time-locked party / others, before / after expiry
			var id types.Hash
			var from types.Address
			switch {
			case len(r.htlcs) > 0 && c.R.Intn(10) != 0:
				e := r.htlcs[c.R.Intn(len(r.htlcs))]
				id, from = e.Id, e.TimeLocked
				if c.R.Intn(4) == 0 {
					from = pick(users)
				}
			case len(r.deadIds) > 0:
				id, from = r.deadIds[c.R.Intn(len(r.deadIds))], pick(users)
			default:
				id, from = randomHash(), pick(users)
			}
			am, tok := withAmount()
			call(from, types.HtlcContract, tok, am, "Reclaim", definition.ABIHtlc.PackMethodPanic(definition.ReclaimHtlcMethodName, id))
		case y < 95:
			am, tok := withAmount()
			call(pick(everyone), types.HtlcContract, tok, am, "DenyProxyUnlock", definition.ABIHtlc.PackMethodPanic(definition.DenyHtlcProxyUnlockMethodName))
		default:
			am, tok := withAmount()
			call(pick(everyone), types.HtlcContract, tok, am, "AllowProxyUnlock", definition.ABIHtlc.PackMethodPanic(definition.AllowHtlcProxyUnlockMethodName))
		}
		return true
	}

	pillarKeys := []types.Address{g.Pillar1.Address, g.Pillar2.Address, g.Pillar3.Address, g.Pillar4.Address, g.Pillar5.Address, g.Pillar6.Address, g.Pillar7.Address, g.Pillar8.Address}
	rich := []types.Address{g.Pillar4.Address, g.Pillar5.Address, g.Pillar6.Address, g.Pillar7.Address, g.Pillar8.Address, g.User1.Address, g.User2.Address}
	newNames := 0
	depositCall := func(to types.Address, from types.Address) {
		am := qsr(int64(1000 * (1 + c.R.Intn(60))))
		tok := types.QsrTokenStandard
		switch c.R.Intn(10) {
		case 0:
			am = big.NewInt(int64(1 + c.R.Intn(1000)))
		case 1:
			am = big.NewInt(0)
		case 2:
			tok = types.ZnnTokenStandard
			am = qsr(int64(1 + c.R.Intn(10)))
		case 3, 4: // exactly what the next registration needs
			if to == types.PillarContract {
				active := 0
				for _, e := range r.pillars {
					if e.RevokeTime == 0 && e.PillarType == definition.NormalPillarType {
						active++
					}
				}
				am = new(big.Int).Add(constants.PillarQsrStakeBaseAmount, new(big.Int).Mul(constants.PillarQsrStakeIncreaseAmount, big.NewInt(int64(active))))
			} else {
				am = new(big.Int).Set(constants.SentinelQsrDepositAmount)
			}
			if c.R.Intn(4) == 0 {
				am.Sub(am, big.NewInt(1)) // one unit short
			}
		}
		call(from, to, tok, am, "DepositQsr", definition.ABICommon.PackMethodPanic(definition.DepositQsrMethodName))
	}
	withdrawCall := func(to types.Address, from types.Address) {
		// mostly an account that has something deposited there
		var deps []types.Address
		for _, a := range everyone {
			if v := r.qsrLog[cname(to)+"/"+addrName(a)]; v != nil && v.Sign() > 0 {
				deps = append(deps, a)
			}
		}
		if len(deps) > 0 && c.R.Intn(3) != 0 {
			from = pick(deps)
		}
		am, tok := withAmount()
		call(from, to, tok, am, "WithdrawQsr", definition.ABICommon.PackMethodPanic(definition.WithdrawQsrMethodName))
	}
	balanceOf := func(a types.Address, t types.ZenonTokenStandard) *big.Int {
		b, _ := n.Chain().GetFrontierAccountStore(a).GetBalance(t)
		if b == nil {
			return new(big.Int)
		}
		return b
	}
	// a complete valid flow: deposit what the registration costs (sometimes more), wait for the receive, register
	flow := func(to types.Address) bool {
		need := new(big.Int).Set(constants.SentinelQsrDepositAmount)
		znn := constants.SentinelZnnRegisterAmount
		if to == types.PillarContract {
			active := 0
			for _, e := range r.pillars {
				if e.RevokeTime == 0 && e.PillarType == definition.NormalPillarType {
					active++
				}
			}
			need = new(big.Int).Add(constants.PillarQsrStakeBaseAmount, new(big.Int).Mul(constants.PillarQsrStakeIncreaseAmount, big.NewInt(int64(active))))
			znn = constants.PillarStakeAmount
		}
		var cands []types.Address
		for _, a := range rich {
			if balanceOf(a, types.QsrTokenStandard).Cmp(need) >= 0 && balanceOf(a, types.ZnnTokenStandard).Cmp(znn) >= 0 {
				cands = append(cands, a)
			}
		}
		if len(cands) == 0 {
			return true
		}
		from := pick(cands)
		am := new(big.Int).Set(need)
		if c.R.Intn(3) == 0 && balanceOf(from, types.QsrTokenStandard).Cmp(new(big.Int).Add(need, qsr(500))) >= 0 {
			am.Add(am, qsr(int64(1+c.R.Intn(500)))) // a surplus stays deposited and can be withdrawn
		}
		if call(from, to, types.QsrTokenStandard, am, "DepositQsr", definition.ABICommon.PackMethodPanic(definition.DepositQsrMethodName)) == nil {
			return true
		}
		if !advance(2) {
			return false
		}
		if to == types.PillarContract {
			used := map[types.Address]bool{}
			for _, kp := range pillarKeys {
				if pp, err := definition.GetProducingPillarName(r.storage(types.PillarContract), kp); err == nil && pp != nil {
					used[kp] = true
				}
			}
			var free []types.Address
			for _, kp := range pillarKeys[3:] {
				if !used[kp] {
					free = append(free, kp)
				}
			}
			if len(free) == 0 {
				return true
			}
			name := fmt.Sprintf("vp-%d-%d", id, newNames)
			newNames++
			call(from, to, types.ZnnTokenStandard, znn, "Register", definition.ABIPillars.PackMethodPanic(definition.RegisterMethodName, name, pick(free), pick(everyone), uint8(c.R.Intn(101)), uint8(c.R.Intn(101))))
			c.Hit("flow-pillar-register")
		} else {
			call(from, to, types.ZnnTokenStandard, znn, "Register", definition.ABISentinel.PackMethodPanic(definition.RegisterSentinelMethodName))
			c.Hit("flow-sentinel-register")
		}
		return true
	}
	genPillar := func() bool {
		y := c.R.Intn(100)
		if c.R.Intn(5) == 0 {
			return flow(types.PillarContract)
		}
		switch {
		case y < 25:
			depositCall(types.PillarContract, pick(rich))
		case y < 35:
			from := pick(rich)
			if c.R.Intn(4) == 0 {
				from = pick(users)
			}
			withdrawCall(types.PillarContract, from)
		case y < 60: // Register: new name / taken name, free / taken producer address, right / wrong amount
			from := pick(rich)
			name := fmt.Sprintf("vp-%d-%d", id, newNames)
			newNames++
			producer := pick(pillarKeys[3:])
			am := new(big.Int).Set(constants.PillarStakeAmount)
			tok := types.ZnnTokenStandard
			switch c.R.Intn(12) {
			case 0:
				if len(r.pillars) > 0 {
					name = r.pillars[c.R.Intn(len(r.pillars))].Name // taken (possibly by a revoked pillar)
				}
			case 1:
				producer = pick(pillarKeys[:3]) // producing address of a genesis pillar
			case 2:
				am = new(big.Int).Sub(am, big.NewInt(1))
			case 3:
				tok = types.QsrTokenStandard
			case 4:
				name = "bad name!"
			case 5, 6: // length bounds of the name: 1, max-1, max, max+1, 2*max, 255, 256, 257, 256+j (fits only modulo 2^8)
				M := constants.PillarNameLengthMax
				L := []int{1, M - 1, M, M + 1, 2 * M, 255, 256, 257, 256 + 1 + c.R.Intn(M), 256 + M, 512 + M}[c.R.Intn(11)]
				name = (name + "-" + strings.Repeat("x", L))[:L]
				if strings.HasSuffix(name, "-") {
					name = name[:L-1] + "x"
				}
				c.Hit("pillar-register-name-length-boundary")
			}
			call(from, types.PillarContract, tok, am, "Register", definition.ABIPillars.PackMethodPanic(definition.RegisterMethodName, name, producer, pick(everyone), uint8(c.R.Intn(101)), uint8(c.R.Intn(120))))
		case y < 85: // Revoke: owner / other, inside / outside the window, repeated, unknown
			var name string
			var from types.Address
			switch {
			case len(r.pillars) > 0 && c.R.Intn(8) != 0:
				e := r.pillars[c.R.Intn(len(r.pillars))]
				name, from = e.Name, e.StakeAddress
				if c.R.Intn(5) == 0 {
					from = pick(rich)
				}
				// the chain needs producers: the owners of the first two genesis pillars never revoke
				if from == e.StakeAddress && (e.Name == g.Pillar1Name || e.Name == g.Pillar2Name) {
					from = pick(rich)
				}
			default:
				name, from = fmt.Sprintf("unknown-%d", c.R.Intn(5)), pick(rich)
			}
			am, tok := withAmount()
			call(from, types.PillarContract, tok, am, "Revoke", definition.ABIPillars.PackMethodPanic(definition.RevokeMethodName, name))
		case y < 93:
			name := g.Pillar1Name
			if len(r.pillars) > 0 {
				name = r.pillars[c.R.Intn(len(r.pillars))].Name
			}
			if c.R.Intn(6) == 0 {
				name = "nobody"
			}
			call(pick(users), types.PillarContract, types.ZnnTokenStandard, zero, "Delegate", definition.ABIPillars.PackMethodPanic(definition.DelegateMethodName, name))
		case y < 97:
			call(pick(users), types.PillarContract, types.ZnnTokenStandard, zero, "Undelegate", definition.ABIPillars.PackMethodPanic(definition.UndelegateMethodName))
		default: // UpdatePillar by owner / other: reward address and percentages, producing address among the nodes' keys
			if len(r.pillars) == 0 {
				return true
			}
			e := r.pillars[c.R.Intn(len(r.pillars))]
			from := e.StakeAddress
			if c.R.Intn(4) == 0 {
				from = pick(rich)
			}
			producer := e.BlockProducingAddress
			if c.R.Intn(3) == 0 {
				producer = pick(pillarKeys[3:])
			}
			call(from, types.PillarContract, types.ZnnTokenStandard, zero, "UpdatePillar", definition.ABIPillars.PackMethodPanic(definition.UpdatePillarMethodName, e.Name, producer, pick(everyone), uint8(c.R.Intn(101)), uint8(c.R.Intn(101))))
		}
		return true
	}
	genSentinel := func() bool {
		y := c.R.Intn(100)
		if c.R.Intn(5) == 0 {
			return flow(types.SentinelContract)
		}
		switch {
		case y < 30:
			depositCall(types.SentinelContract, pick(rich))
		case y < 42:
			from := pick(rich)
			if c.R.Intn(4) == 0 {
				from = pick(users)
			}
			withdrawCall(types.SentinelContract, from)
		case y < 65:
			am := new(big.Int).Set(constants.SentinelZnnRegisterAmount)
			tok := types.ZnnTokenStandard
			switch c.R.Intn(10) {
			case 0:
				am = new(big.Int).Add(am, big.NewInt(1))
			case 1:
				tok = types.QsrTokenStandard
			}
			call(pick(rich), types.SentinelContract, tok, am, "Register", definition.ABISentinel.PackMethodPanic(definition.RegisterSentinelMethodName))
		default:
			from := pick(rich)
			if len(r.sentinels) > 0 && c.R.Intn(5) != 0 {
				from = r.sentinels[c.R.Intn(len(r.sentinels))].Owner
			}
			am, tok := withAmount()
			call(from, types.SentinelContract, tok, am, "Revoke", definition.ABISentinel.PackMethodPanic(definition.RevokeSentinelMethodName))
		}
		return true
	}

	unwrapSeq := 0
	// UnwrapToken: signed by the TSS key / by another key / altered after signing / duplicate / unknown token / not redeemable;
	// amounts at and beyond 2^64; the one-field mutation family: the signature is made for request R (by the harness's own
	// statement of the message, s_contract_sig.go) and presented with R' that differs from R in ONE field of the message -
	// every field in turn (force names the field, "" = generated) -, then mostly R itself in the same momentum
	genUnwrap := func(force string) {
		toks := []types.ZenonTokenStandard{types.ZnnTokenStandard, types.ZnnTokenStandard, types.QsrTokenStandard}
		if ownedZts != types.ZeroTokenStandard {
			toks = append(toks, ownedZts, ownedZts)
		}
		tok := toks[c.R.Intn(len(toks))]
		nets := append([][2]uint32{{bridgeNetClass, bridgeChainId}}, altNets...)
		net := nets[0]
		if len(altNets) > 0 && (c.R.Intn(6) == 0 || force == "network-class" || force == "chain-id") {
			net, tok = nets[c.R.Intn(len(nets))], types.ZnnTokenStandard
		}
		if force == "token-address" || force == "amount" {
			tok = types.ZnnTokenStandard
		}
		p := &definition.UnwrapTokenParam{NetworkClass: net[0], ChainId: net[1], LogIndex: uint32(c.R.Intn(3)), ToAddress: pick(anyAddr),
			TokenAddress: tokenAddrs[tok], Amount: qsr(int64(1 + c.R.Intn(20)))}
		if c.R.Intn(4) == 0 {
			var kind string
			p.Amount, kind = unwrapBoundaryAmount(c.R, p.Amount)
			c.Hit("bridge-unwrap-amount-" + kind)
		}
		unwrapSeq++
		p.TransactionHash = types.NewHash([]byte(fmt.Sprintf("eth-tx-%d-%d", id, unwrapSeq)))
		variant := c.R.Intn(18)
		if force != "" {
			variant = 8
		}
		switch variant {
		case 0:
			if len(r.unwraps) > 0 { // an already registered (tx, log)
				e := r.unwraps[c.R.Intn(len(r.unwraps))]
				p.TransactionHash, p.LogIndex = e.TransactionHash, e.LogIndex
			}
		case 1:
			p.TokenAddress = "0x00000000000000000000000000000000000000aa" // no pair
		case 2:
			p.ChainId = 77 // unknown network
		case 3:
			p.Amount = qsr(2000000) // more than the bridge holds
		}
		msg, ok := unwrapHashIndep(p)
		if !ok {
			return
		}
		key := tssPrivKey
		if variant == 4 {
			key = "tuSwrTEUyJI1/3y5J8L8DSjzT/AQG2IK3JG+93qhhhE=" // another key
		}
		p.Signature = ecdsaSign(msg, key)
		if key == tssPrivKey && p.Signature != "" {
			r.signedFor[p.Signature] = copyUnwrap(p)
		}
		submit := func(q *definition.UnwrapTokenParam) {
			am, tk := withAmount()
			call(pick(users), types.BridgeContract, tk, am, "UnwrapToken", definition.ABIBridge.PackMethodPanic(definition.UnwrapTokenMethodName,
				q.NetworkClass, q.ChainId, q.TransactionHash, q.LogIndex, q.ToAddress, q.TokenAddress, q.Amount, q.Signature))
		}
		switch {
		case variant == 5:
			p.Amount = new(big.Int).Add(p.Amount, big.NewInt(1)) // altered after signing
		case variant == 6:
			p.ToAddress = pick(users) // redirected after signing
		case variant == 7:
			p.Signature = ""
		case variant >= 8 && variant <= 11:
			altTokens := []string{tokenAddrs[types.ZnnTokenStandard]}
			if ownedZts != types.ZeroTokenStandard {
				altTokens = append(altTokens, tokenAddrs[ownedZts], tokenAddrs[ownedZts])
			}
			if c.R.Intn(4) == 0 {
				altTokens = append(altTokens, tokenAddrs[types.QsrTokenStandard], "0x00000000000000000000000000000000000000aa")
			}
			muts := unwrapMutations(c.R, p, altTokens, []types.Address{pick(users), pick(anyAddr)}, nets)
			classes := []string{}
			byClass := map[string][]unwrapMutation{}
			for _, m := range muts {
				k := mutClass(m.name)
				if byClass[k] == nil {
					classes = append(classes, k)
				}
				byClass[k] = append(byClass[k], m)
			}
			if len(classes) == 0 {
				break
			}
			cl := classes[c.R.Intn(len(classes))]
			if c.R.Intn(4) == 0 {
				cl = "amount"
			}
			if force != "" && byClass[force] != nil {
				cl = force
			}
			m := byClass[cl][c.R.Intn(len(byClass[cl]))]
			submit(m.p) // R' first: it must be refused; then R itself, which must still be accepted
			c.Hit("bridge-unwrap-signed-for-another-request-" + cl)
			if cl == "amount" && new(big.Int).Sub(m.p.Amount, p.Amount).TrailingZeroBits() >= 64 {
				c.Hit("bridge-unwrap-signed-amount-differs-by-multiple-of-2^64")
			}
			if c.R.Intn(4) == 0 {
				return
			}
		}
		submit(p)
	}
	genBridge := func() {
		y := c.R.Intn(100)
		if len(r.unwraps) == 0 && y >= 55 && c.R.Intn(5) != 0 {
			y = 20 + c.R.Intn(35) // nothing to redeem yet: register a request
		}
		switch {
		case y < 20: // WrapToken: funds the bridge (foreign-owned tokens stay in its balance, bridge-owned ones are burned)
			tok := []types.ZenonTokenStandard{types.ZnnTokenStandard, types.ZnnTokenStandard, types.QsrTokenStandard}[c.R.Intn(3)]
			am := qsr(int64(1 + c.R.Intn(40)))
			if c.R.Intn(10) == 0 {
				am = big.NewInt(int64(c.R.Intn(100)))
			}
			call(pick(users), types.BridgeContract, tok, am, "WrapToken", definition.ABIBridge.PackMethodPanic(definition.WrapTokenMethodName, bridgeNetClass, bridgeChainId, "0xb794f5ea0ba39494ce839613fffba74279579268"))
		case y < 55:
			genUnwrap("")
		case y < 92: // Redeem: by anybody, before / after the delay, repeated, revoked, unknown
			var tx types.Hash
			var li uint32
			if len(r.unwraps) > 0 && c.R.Intn(10) != 0 {
				e := r.unwraps[c.R.Intn(len(r.unwraps))]
				for k := 0; k < 2 && e.Redeemed != 0; k++ { // prefer open requests, keep some repeated ones
					e = r.unwraps[c.R.Intn(len(r.unwraps))]
				}
				tx, li = e.TransactionHash, e.LogIndex
			} else {
				tx, li = randomHash(), uint32(c.R.Intn(3))
			}
			am, tk := withAmount()
			call(pick(users), types.BridgeContract, tk, am, "Redeem", definition.ABIBridge.PackMethodPanic(definition.RedeemUnwrapMethodName, tx, li))
		default: // RevokeUnwrapRequest: administrator / somebody else
			if len(r.unwraps) == 0 {
				return
			}
			e := r.unwraps[c.R.Intn(len(r.unwraps))]
			from := g.User5.Address
			if c.R.Intn(3) == 0 {
				from = pick(users)
			}
			call(from, types.BridgeContract, types.ZnnTokenStandard, zero, "RevokeUnwrapRequest", definition.ABIBridge.PackMethodPanic(definition.RevokeUnwrapRequestMethodName, e.TransactionHash, e.LogIndex))
		}
	}

	genLiquidity := func() {
		// one call in ten is administrative (single-step actions at random points of the random stakes' lives): halt on / off,
		// an unlock of a random token by the administrator or by somebody else
		if c.R.Intn(10) == 0 && !r.liqAdmin.IsZero() && keyOf(r.liqAdmin) != nil {
			tok := []types.ZenonTokenStandard{types.ZnnTokenStandard, types.QsrTokenStandard}[c.R.Intn(2)]
			switch c.R.Intn(4) {
			case 0:
				call(r.liqAdmin, types.LiquidityContract, types.ZnnTokenStandard, zero, "SetIsHalted", definition.ABILiquidity.PackMethodPanic(definition.SetIsHaltedMethodName, c.R.Intn(2) == 0))
			case 1:
				call(r.liqAdmin, types.LiquidityContract, tok, zero, "UnlockLiquidityStakeEntries", definition.ABILiquidity.PackMethodPanic(definition.UnlockLiquidityStakeEntriesMethodName))
			default:
				call(pick(users), types.LiquidityContract, tok, zero, "UnlockLiquidityStakeEntries", definition.ABILiquidity.PackMethodPanic(definition.UnlockLiquidityStakeEntriesMethodName))
			}
			return
		}
		if c.R.Intn(100) < 45 {
			from := pick(users)
			tok := types.ZnnTokenStandard
			if c.R.Intn(2) == 0 {
				tok = types.QsrTokenStandard
			}
			am := qsr(int64(1 + c.R.Intn(30)))
			dur := p.stakeUnit * int64(1+c.R.Intn(3))
			switch c.R.Intn(12) {
			case 0:
				am = big.NewInt(int64(c.R.Intn(2000))) // around the tuples' minimum amounts
			case 1:
				am = big.NewInt(0)
			case 2:
				dur = p.stakeUnit * int64(1+c.R.Intn(12))
			case 3:
				dur = p.stakeUnit*13 + int64(c.R.Intn(50))
			case 4:
				dur = p.stakeUnit - 1
			}
			call(from, types.LiquidityContract, tok, am, "LiquidityStake", definition.ABILiquidity.PackMethodPanic(definition.LiquidityStakeMethodName, dur))
			return
		}
		var id types.Hash
		var from types.Address
		y := c.R.Intn(10)
		switch {
		case y < 6 && len(r.lstakes) > 0:
			e := r.lstakes[c.R.Intn(len(r.lstakes))]
			id, from = e.Id, e.StakeAddress
		case y < 8 && len(r.lstakes) > 0:
			e := r.lstakes[c.R.Intn(len(r.lstakes))]
			id, from = e.Id, pick(users)
		default:
			id, from = randomHash(), pick(users)
		}
		am, tok := withAmount()
		call(from, types.LiquidityContract, tok, am, "CancelLiquidityStake", definition.ABILiquidity.PackMethodPanic(definition.CancelLiquidityStakeMethodName, id))
	}

	// run to the edge of a lock — just before / exactly at / just after maturity — then the entitled party withdraws
	genEdge := func() bool {
		var open []*lockRec
		keys := make([]string, 0, len(r.locks))
		for k := range r.locks {
			keys = append(keys, k)
		}
		sort.Strings(keys)
		for _, k := range keys {
			l := r.locks[k]
			if l.paidAt != 0 {
				continue
			}
			switch l.kind {
			case "unwrap":
				if !r.revoked[l.key] {
					open = append(open, l)
				}
			case "pillar", "sentinel-znn":
				if l.key != lockKey(types.PillarContract, "pillar", g.Pillar1Name) && l.key != lockKey(types.PillarContract, "pillar", g.Pillar2Name) {
					open = append(open, l)
				}
			case "sentinel-qsr":
			default:
				if l.matureH > n.Height() || (l.matureT > frontierTime() && l.matureT < frontierTime()+10*int64(budget)) {
					open = append(open, l)
				}
			}
		}
		if len(open) == 0 {
			return true
		}
		l := open[c.R.Intn(len(open))]
		delta := int64(c.R.Intn(3)) - 1
		// a send submitted at frontier F is confirmed in F+1 and received with F+1 as its frontier momentum
		var need int64
		switch l.kind {
		case "fusion":
			need = int64(l.matureH) + delta - 1 - int64(n.Height())
		case "unwrap":
			tp := r.bridgePair(bridgeNetClass, bridgeChainId, func(t *definition.TokenPair) bool { return t.TokenStandard == l.tok })
			if tp == nil {
				return true
			}
			need = int64(l.matureH) + int64(tp.RedeemDelay) + delta - 1 - int64(n.Height())
			if need < 0 {
				need = 0
			}
		case "pillar", "sentinel-znn":
			// the next opening or closing of the revoke window
			lock, rev := r.p.pillarLock, r.p.pillarRevoke
			if l.kind != "pillar" {
				lock, rev = r.p.sentinelLock, r.p.sentinelRevoke
			}
			cyc := lock + rev
			phase := (frontierTime() - l.regT) % cyc
			var target int64
			if c.R.Intn(2) == 0 {
				target = frontierTime() + ((lock-phase)%cyc+cyc)%cyc // window opens
			} else {
				target = frontierTime() + (cyc - phase) // window closes
			}
			need = (target-frontierTime())/10 + delta - 1
			if need > 400 {
				return true
			}
		default:
			need = (l.matureT-frontierTime())/10 + delta - 1
		}
		if need < 0 || int(n.Height()-start)+int(need) > budget {
			return true
		}
		if !advance(int(need)) {
			return false
		}
		parts := strings.Split(l.key, "/")
		last := parts[len(parts)-1]
		switch l.kind {
		case "fusion":
			for _, f := range r.fusions {
				if h8z(f.Id) == last && f.Owner == l.entitled {
					call(l.entitled, types.PlasmaContract, types.ZnnTokenStandard, zero, "CancelFuse", definition.ABIPlasma.PackMethodPanic(definition.CancelFuseMethodName, f.Id))
					c.Hit(fmt.Sprintf("edge-fusion-delta%+d", delta))
				}
			}
		case "stake":
			for _, f := range r.stakes {
				if h8z(f.Id) == last && f.StakeAddress == l.entitled {
					call(l.entitled, types.StakeContract, types.ZnnTokenStandard, zero, "Cancel", definition.ABIStake.PackMethodPanic(definition.CancelStakeMethodName, f.Id))
					c.Hit(fmt.Sprintf("edge-stake-delta%+d", delta))
				}
			}
		case "unwrap":
			for _, e := range r.unwraps {
				if lockKey(types.BridgeContract, "unwrap", unwrapKey(e.TransactionHash, e.LogIndex)) == l.key {
					call(pick(users), types.BridgeContract, types.ZnnTokenStandard, zero, "Redeem", definition.ABIBridge.PackMethodPanic(definition.RedeemUnwrapMethodName, e.TransactionHash, e.LogIndex))
					c.Hit(fmt.Sprintf("edge-unwrap-delay-delta%+d", delta))
				}
			}
		case "lstake":
			for _, f := range r.lstakes {
				if h8z(f.Id) == last && f.StakeAddress == l.entitled {
					call(l.entitled, types.LiquidityContract, types.ZnnTokenStandard, zero, "CancelLiquidityStake", definition.ABILiquidity.PackMethodPanic(definition.CancelLiquidityStakeMethodName, f.Id))
					c.Hit(fmt.Sprintf("edge-lstake-delta%+d", delta))
				}
			}
		case "pillar":
			call(l.entitled, types.PillarContract, types.ZnnTokenStandard, zero, "Revoke", definition.ABIPillars.PackMethodPanic(definition.RevokeMethodName, last))
			c.Hit(fmt.Sprintf("edge-pillar-window-delta%+d", delta))
		case "sentinel-znn":
			call(l.entitled, types.SentinelContract, types.ZnnTokenStandard, zero, "Revoke", definition.ABISentinel.PackMethodPanic(definition.RevokeSentinelMethodName))
			c.Hit(fmt.Sprintf("edge-sentinel-window-delta%+d", delta))
		case "htlc":
			for _, e := range r.htlcs {
				if h8z(e.Id) != last {
					continue
				}
				if c.R.Intn(2) == 0 || keyOf(e.HashLocked) == nil {
					call(e.TimeLocked, types.HtlcContract, types.ZnnTokenStandard, zero, "Reclaim", definition.ABIHtlc.PackMethodPanic(definition.ReclaimHtlcMethodName, e.Id))
					c.Hit(fmt.Sprintf("edge-htlc-reclaim-delta%+d", delta))
				} else {
					call(e.HashLocked, types.HtlcContract, types.ZnnTokenStandard, zero, "Unlock", definition.ABIHtlc.PackMethodPanic(definition.UnlockHtlcMethodName, e.Id, r.preimages[e.Id]))
					c.Hit(fmt.Sprintf("edge-htlc-unlock-delta%+d", delta))
				}
			}
		}
		return true
	}

	// directed scenarios of every history: (htlc) one proxy-flag history followed by a proxy unlock and an own unlock;
	// (bridge) the message sweep and one signature made for request R presented with R' differing in one field - the field
	// rotates with the history
	if withHtlc && !proxyHistoryFlow() {
		return
	}
	if withBridge && !r.failed {
		toks := []string{tokenAddrs[types.ZnnTokenStandard], tokenAddrs[types.QsrTokenStandard], "0x00000000000000000000000000000000000000aa", "0xFFfFfFffFFfffFFfFFfFFFFFffFFFffffFfFFFfF"}
		if w := unwrapMessageSweep(c.R, 6, toks, anyAddr, c.Hit); w != "" && c.Args["sweep"] != "0" {
			r.fail("bridge unwrap message: %s", w)
			return
		}
		genUnwrap([]string{"amount", "network-class", "chain-id", "tx-hash", "log-index", "to-address", "token-address", "amount"}[(id/2)%8])
		if !advance(2) {
			return
		}
	}
	midSporks := !withHtlc && (c.Args["midspork"] == "1" || (c.Args["midspork"] == "" && id%6 == 3))
	for s := 0; s < steps && !r.failed && int(n.Height()-start) < budget; s++ {
		if midSporks && s == steps/2 {
			// a lock holds whatever is activated while it is open: the three sporks are activated in the middle of a history
			// that began without them, then locks are run to their edges (genEdge: maturity -1 / 0 / +1 by the entitled party)
			for _, l := range r.locks {
				if l.paidAt == 0 {
					c.Hit("lock-open-at-mid-history-spork-activation-" + l.kind)
				}
			}
			for i, sp := range []*types.ImplementedSpork{types.AcceleratorSpork, types.BridgeAndLiquiditySpork, types.HtlcSpork} {
				if err := n.ActivateSpork(sp, fmt.Sprintf("mid-spork-%d", i)); err != nil {
					c.Hit("mid-history-spork-activation-not-possible") // the spork address ran out of plasma (its fusion was cancelled by the history)
					break
				}
				c.Hit("history-spork-activated-while-funds-are-locked")
				if r.failed {
					return
				}
			}
			for i := 0; i < 4; i++ {
				if !genEdge() {
					return
				}
			}
		}
		x := c.R.Intn(100)
		rewardOdds := 40
		if shortEpochs {
			rewardOdds = 10
		}
		if c.R.Intn(rewardOdds) == 0 { // reward bookkeeping calls (outside the liability sums): Update / CollectReward by anybody
			to := []types.Address{types.StakeContract, types.PillarContract, types.SentinelContract}[c.R.Intn(3)]
			if c.R.Intn(2) == 0 {
				call(pick(users), to, types.ZnnTokenStandard, zero, "Update", definition.ABICommon.PackMethodPanic(definition.UpdateMethodName))
			} else {
				from := pick(append(append([]types.Address{}, users...), g.Pillar1.Address, g.Pillar2.Address, g.Pillar7.Address))
				if to == types.StakeContract && len(r.stakes) > 0 && c.R.Intn(4) != 0 {
					from = r.stakes[c.R.Intn(len(r.stakes))].StakeAddress // somebody who has (had) a stake
				}
				if to == types.SentinelContract && len(r.sentinels) > 0 && c.R.Intn(4) != 0 {
					from = r.sentinels[c.R.Intn(len(r.sentinels))].Owner
				}
				call(from, to, types.ZnnTokenStandard, zero, "CollectReward", definition.ABICommon.PackMethodPanic(definition.CollectRewardMethodName))
			}
			continue
		}
		if withLiq && c.R.Intn(100) < 30 {
			genLiquidity()
			continue
		}
		if withBridge && c.R.Intn(100) < 35 {
			genBridge()
			continue
		}
		switch {
		case x < 14:
			genPlasma()
		case x < 28:
			genStake()
		case x < 46:
			if withHtlc {
				if !genHtlc() {
					return
				}
			} else if c.R.Intn(2) == 0 {
				genPlasma()
			} else {
				genStake()
			}
		case x < 60:
			if !genPillar() {
				return
			}
		case x < 72:
			if !genSentinel() {
				return
			}
		case x < 82:
			if !genEdge() {
				return
			}
		default:
			if !advance(1 + c.R.Intn(3)) {
				return
			}
		}
	}
	// drain: every confirmed call is answered
	if !r.failed {
		advance(3)
	}
	// known finding F14: ZNN configured as a stakeable token is not kept apart from the contract's reward funds —
	// the spork address may burn (BurnZnn) or give away (Fund) the contract's whole ZNN balance, staked principal included
	if !r.failed && withLiq && (c.Args["burn"] == "1" || (c.Args["burn"] == "" && id%4 == 2)) {
		staked := new(big.Int)
		var victim *definition.LiquidityStakeEntry
		for _, e := range r.lstakes {
			if e.TokenStandard == types.ZnnTokenStandard && e.Amount.Sign() > 0 {
				staked.Add(staked, e.Amount)
				victim = e
			}
		}
		if victim == nil {
			if call(g.User1.Address, types.LiquidityContract, types.ZnnTokenStandard, qsr(7), "LiquidityStake", definition.ABILiquidity.PackMethodPanic(definition.LiquidityStakeMethodName, p.stakeUnit)) != nil && advance(3) {
				for _, e := range r.lstakes {
					if e.TokenStandard == types.ZnnTokenStandard && e.Amount.Sign() > 0 {
						staked.Add(staked, e.Amount)
						victim = e
					}
				}
			}
		}
		if victim != nil && !r.failed {
			bal := balanceOf(types.LiquidityContract, types.ZnnTokenStandard)
			if call(g.Spork.Address, types.LiquidityContract, types.ZnnTokenStandard, zero, "BurnZnn", definition.ABILiquidity.PackMethodPanic(definition.BurnZnnMethodName, bal)) != nil {
				r.burned = true
				c.Hit("scenario-spork-burns-staked-znn")
				advance(3)
				if r.failed { // the backing monitor fired; the history ends here
					return
				}
			}
		}
	}
	if !r.failed {
		c.Hit("history-complete")
	}
}
