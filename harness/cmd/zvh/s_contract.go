package main

import (
	"fmt"
	"math/big"
	"sort"
	"strings"

	g "github.com/zenon-network/go-zenon/chain/genesis/mock"
	"github.com/zenon-network/go-zenon/chain/nom"
	"github.com/zenon-network/go-zenon/common"
	"github.com/zenon-network/go-zenon/common/crypto"
	"github.com/zenon-network/go-zenon/common/db"
	"github.com/zenon-network/go-zenon/common/types"
	"github.com/zenon-network/go-zenon/verifier"
	"github.com/zenon-network/go-zenon/vm/constants"
	"github.com/zenon-network/go-zenon/vm/embedded/definition"
)

// ---------------------------------------------------------------------------------------------------
// contract stream (C10): generated histories on a real node, contract-specific call generators for the
// contracts that lock funds (plasma, stake, htlc, pillar, sentinel + common QSR deposits). Every contract receive
// is printed with its decoded call, the frontier momentum it saw, and its outcome; after every momentum the
// contracts' storage entries (read through the definition.* getters) and balances are compared with the Lean
// model, and the model-free monitors evaluate the property directly on the real stores and blocks:
//   backing   Σ recorded liabilities ≤ the contract's balance, per contract and token, at every momentum
//   release   every payout of a withdrawal goes to the entitled party, with the locked amount, not before the
//             lock matured, its entry is gone afterwards, and no lock is ever paid twice
//   liveness  a matured withdrawal by the entitled party is never refused
// ---------------------------------------------------------------------------------------------------

// lockRec is the harness's own log of one locked deposit, built only from confirmed blocks (and the genesis
// storage): who deposited, how much, when it may be released.
type lockRec struct {
	contract types.Address
	kind     string // fusion, stake, htlc, pillar, sentinel-znn ...
	key      string
	entitled types.Address // the party a release must be addressed to
	second   types.Address // htlc: the hash-locked beneficiary
	tok      types.ZenonTokenStandard
	amount   *big.Int
	matureH  uint64 // releasable when the frontier height seen by the receive ≥ matureH (plasma)
	matureT  int64  // releasable when the frontier time seen by the receive ≥ matureT (stake, htlc reclaim); htlc unlock: only before
	regT     int64  // pillar / sentinel registration time (revocation window)
	paidAt   uint64 // momentum height of the release, 0 = still locked
	// htlc
	hashType uint8
	keyMax   uint8
	hashLock []byte
}

type kParams struct {
	fuseExpiration                uint64
	stakeUnit, stakeMin, stakeMax int64
	pillarLock, pillarRevoke      int64
	sentinelLock, sentinelRevoke  int64
}

func readParams() kParams {
	return kParams{constants.FuseExpiration, constants.StakeTimeUnitSec, constants.StakeTimeMinSec, constants.StakeTimeMaxSec,
		constants.PillarEpochLockTime, constants.PillarEpochRevokeTime, constants.SentinelLockTimeWindow, constants.SentinelRevokeTimeWindow}
}
func (p kParams) install() {
	constants.FuseExpiration = p.fuseExpiration
	constants.StakeTimeUnitSec, constants.StakeTimeMinSec, constants.StakeTimeMaxSec = p.stakeUnit, p.stakeMin, p.stakeMax
	constants.PillarEpochLockTime, constants.PillarEpochRevokeTime = p.pillarLock, p.pillarRevoke
	constants.SentinelLockTimeWindow, constants.SentinelRevokeTimeWindow = p.sentinelLock, p.sentinelRevoke
}

var modelledContracts = []types.Address{types.PlasmaContract, types.StakeContract, types.HtlcContract, types.PillarContract, types.SentinelContract}

func cname(a types.Address) string { return embeddedNames[a][2:] }

type contractRun struct {
	c      *Ctx
	n      *Node
	id     int
	failed bool
	p      kParams
	locks  map[string]*lockRec
	qsrLog map[string]*big.Int // contract/owner -> deposited QSR expected from the confirmed blocks
	// real-state snapshots used by the generators (refreshed from storage after every momentum)
	fusions   []*definition.FusionInfo
	stakes    []*definition.StakeInfo
	htlcs     []*definition.HtlcInfo
	deadIds   []types.Hash // ids of entries that were released (for repeated attempts)
	preimages map[types.Hash][]byte
	proxy     map[types.Address]bool // htlc: explicit proxy-unlock settings seen in confirmed receives
	touched   map[types.Address]bool
	tokens    map[types.ZenonTokenStandard]bool
	dumped    bool
}

func (r *contractRun) fail(format string, a ...interface{}) {
	r.failed = true
	r.c.Fail("contract run=%d h=%d: %s", r.id, r.n.Height(), fmt.Sprintf(format, a...))
}

func (r *contractRun) storage(a types.Address) db.DB {
	return r.n.Chain().GetFrontierMomentumStore().GetAccountStore(a).Storage()
}

func lockKey(contract types.Address, kind string, parts ...string) string {
	return cname(contract) + "/" + kind + "/" + strings.Join(parts, "/")
}

func hxOrDash(b []byte) string {
	if len(b) == 0 {
		return "-"
	}
	return hx(b)
}

// ---------------------------------------------------------------------------------------------------
// decoding of calls
// ---------------------------------------------------------------------------------------------------

type decoded struct {
	method   string
	args     []string
	modelled bool
	// decoded values for the monitor
	id       types.Hash
	addr     types.Address
	dur      int64
	name     string
	htlc     *definition.CreateHtlcParam
	preimage []byte
}

func abiOf(a types.Address) *contractABI {
	for i := range allContractABIs {
		if allContractABIs[i].addr == a {
			return &allContractABIs[i]
		}
	}
	return nil
}

func decodeCall(contract types.Address, data []byte) *decoded {
	d := &decoded{method: "?"}
	ca := abiOf(contract)
	if ca == nil {
		return d
	}
	m, err := ca.abi.MethodById(data)
	if err != nil {
		return d
	}
	d.method = m.Name
	switch contract {
	case types.PlasmaContract:
		switch m.Name {
		case definition.FuseMethodName:
			if ca.abi.UnpackMethod(&d.addr, m.Name, data) == nil {
				d.args, d.modelled = []string{addrName(d.addr)}, true
			}
		case definition.CancelFuseMethodName:
			if ca.abi.UnpackMethod(&d.id, m.Name, data) == nil {
				d.args, d.modelled = []string{h8z(d.id)}, true
			}
		}
	case types.StakeContract:
		switch m.Name {
		case definition.StakeMethodName:
			if ca.abi.UnpackMethod(&d.dur, m.Name, data) == nil {
				d.args, d.modelled = []string{fmt.Sprint(d.dur)}, true
			}
		case definition.CancelStakeMethodName:
			if ca.abi.UnpackMethod(&d.id, m.Name, data) == nil {
				d.args, d.modelled = []string{h8z(d.id)}, true
			}
		}
	case types.HtlcContract:
		switch m.Name {
		case definition.CreateHtlcMethodName:
			p := new(definition.CreateHtlcParam)
			if ca.abi.UnpackMethod(p, m.Name, data) == nil {
				d.htlc = p
				d.args, d.modelled = []string{addrName(p.HashLocked), fmt.Sprint(p.ExpirationTime), fmt.Sprint(p.HashType), fmt.Sprint(p.KeyMaxSize), hxOrDash(p.HashLock)}, true
			}
		case definition.ReclaimHtlcMethodName:
			if ca.abi.UnpackMethod(&d.id, m.Name, data) == nil {
				d.args, d.modelled = []string{h8z(d.id)}, true
			}
		case definition.UnlockHtlcMethodName:
			p := new(definition.UnlockHtlcParam)
			if ca.abi.UnpackMethod(p, m.Name, data) == nil {
				d.id, d.preimage = p.Id, p.Preimage
				// the hash functions are parameters of the model: the harness supplies both digests of the preimage
				d.args, d.modelled = []string{h8z(p.Id), hxOrDash(p.Preimage), hx(crypto.Hash(p.Preimage)), hx(crypto.HashSHA256(p.Preimage))}, true
			}
		case definition.DenyHtlcProxyUnlockMethodName, definition.AllowHtlcProxyUnlockMethodName:
			d.args, d.modelled = []string{}, true
		}
	}
	return d
}

// h8z prints a hash as 8 bytes of hex, the zero hash included (ids are keys here, never "absent")
func h8z(h types.Hash) string { return hx(h[:8]) }

// ---------------------------------------------------------------------------------------------------
// per-momentum processing: print receives, update the lock log, run the release monitor
// ---------------------------------------------------------------------------------------------------

func isModelled(a types.Address) bool {
	for _, m := range modelledContracts {
		if m == a {
			return true
		}
	}
	return false
}

func (r *contractRun) onMomentum(dm *nom.DetailedMomentum) {
	c := r.c
	store := r.n.Chain().GetFrontierMomentumStore()
	blocks := append([]*nom.AccountBlock{}, dm.AccountBlocks...)
	sort.SliceStable(blocks, func(i, j int) bool {
		a, b := blocks[i], blocks[j]
		if a.Address != b.Address {
			return string(a.Address[:]) < string(b.Address[:])
		}
		return a.Height < b.Height
	})
	h := dm.Momentum.Height
	for _, b := range blocks {
		if b.BlockType != nom.BlockTypeContractReceive || !isModelled(b.Address) {
			continue
		}
		r.touched[b.Address] = true
		send, err := store.GetAccountBlockByHash(b.FromBlockHash)
		if err != nil || send == nil {
			r.fail("receive %s/%d: send block %s not found: %v", addrName(b.Address), b.Height, h8(b.FromBlockHash), err)
			continue
		}
		ack, err := store.GetMomentumByHash(b.MomentumAcknowledged.Hash)
		if err != nil || ack == nil {
			r.fail("receive %s/%d: acknowledged momentum not found: %v", addrName(b.Address), b.Height, err)
			continue
		}
		status := "?"
		if len(b.Data) == 8 {
			status = fmt.Sprint(common.BytesToUint64(b.Data))
		}
		var sb strings.Builder
		for _, d := range b.DescendantBlocks {
			kind := "-"
			if d.ToAddress == types.TokenContract {
				kind = tokCallString(d.Data)
			}
			fmt.Fprintf(&sb, " %s %s %s %s", addrName(d.ToAddress), tokName(d.TokenStandard), amt(d.Amount), kind)
			r.tokens[d.TokenStandard] = true
		}
		r.tokens[send.TokenStandard] = true
		d := decodeCall(b.Address, send.Data)
		outcome := fmt.Sprintf("%s %d%s", status, len(b.DescendantBlocks), sb.String())
		head := fmt.Sprintf("%s %s %s %s %s %s %d %d", cname(b.Address), d.method, addrName(send.Address), tokName(send.TokenStandard), amt(send.Amount), h8z(send.Hash),
			ack.Height, ack.Timestamp.Unix())
		if d.modelled {
			c.Emit("K-call %s %s | %s", head, strings.Join(d.args, " "), outcome)
		} else {
			c.Emit("K-opaque %s %s", head, outcome)
		}
		switch status {
		case "1":
			c.Hit("applied-" + cname(b.Address) + "." + d.method)
		case "2":
			c.Hit("refunded-" + cname(b.Address) + "." + d.method)
		default:
			r.fail("contract receive %s/%d has status %s", addrName(b.Address), b.Height, status)
		}
		r.monitorReceive(b, send, d, status, ack, h)
	}
	c.Emit("K-mom %d %d | ok", h, dm.Momentum.Timestamp.Unix())
	r.compareState(h)
	c.Hit("momentum")
}

// releaseCheck: a successful withdrawal must pay exactly the lock, to the entitled party, once.
func (r *contractRun) releaseCheck(b *nom.AccountBlock, what string, lk *lockRec, key string, dst types.Address, descIdx int, h uint64) {
	if lk == nil {
		r.fail("release: %s by %s paid out but no such deposit was ever recorded (key %s)", what, addrName(b.Address), key)
		return
	}
	if lk.paidAt != 0 {
		r.fail("release: %s paid twice: lock %s was already released at momentum %d and is paid again at %d", what, key, lk.paidAt, h)
		return
	}
	if descIdx >= len(b.DescendantBlocks) {
		r.fail("release: %s succeeded without the expected payout block (lock %s, %d descendants)", what, key, len(b.DescendantBlocks))
		return
	}
	d := b.DescendantBlocks[descIdx]
	if d.ToAddress != dst {
		r.fail("release: %s paid %s %s to %s, the entitled party of lock %s is %s", what, amt(d.Amount), tokName(d.TokenStandard), addrName(d.ToAddress), key, addrName(dst))
	}
	if d.TokenStandard != lk.tok || d.Amount.Cmp(lk.amount) != 0 {
		r.fail("release: %s paid %s %s, lock %s holds %s %s", what, amt(d.Amount), tokName(d.TokenStandard), key, amt(lk.amount), tokName(lk.tok))
	}
	lk.paidAt = h
}

func (r *contractRun) monitorReceive(b, send *nom.AccountBlock, d *decoded, status string, ack *nom.Momentum, h uint64) {
	ok := status == "1"
	ackT := ack.Timestamp.Unix()
	// a refused call must be refunded exactly; an applied deposit keeps the funds
	if !ok {
		if send.Amount.Sign() > 0 {
			if len(b.DescendantBlocks) != 1 || b.DescendantBlocks[0].ToAddress != send.Address || b.DescendantBlocks[0].TokenStandard != send.TokenStandard || b.DescendantBlocks[0].Amount.Cmp(send.Amount) != 0 {
				r.fail("refund: refused call %s.%s from %s with %s %s was not refunded exactly", cname(b.Address), d.method, addrName(send.Address), amt(send.Amount), tokName(send.TokenStandard))
			}
		} else if len(b.DescendantBlocks) != 0 {
			r.fail("refund: refused zero-amount call %s.%s produced %d descendant blocks", cname(b.Address), d.method, len(b.DescendantBlocks))
		}
	}
	switch b.Address {
	case types.PlasmaContract:
		switch d.method {
		case definition.FuseMethodName:
			if ok {
				key := lockKey(b.Address, "fusion", addrName(send.Address), h8z(send.Hash))
				r.locks[key] = &lockRec{contract: b.Address, kind: "fusion", key: key, entitled: send.Address, second: d.addr, tok: send.TokenStandard,
					amount: new(big.Int).Set(send.Amount), matureH: ack.Height + r.p.fuseExpiration}
				if len(b.DescendantBlocks) != 0 {
					r.fail("release: Fuse produced %d descendant blocks", len(b.DescendantBlocks))
				}
			}
		case definition.CancelFuseMethodName:
			key := lockKey(b.Address, "fusion", addrName(send.Address), h8z(d.id))
			lk := r.locks[key]
			if ok {
				r.releaseCheck(b, "CancelFuse", lk, key, send.Address, 0, h)
				if lk != nil && ack.Height < lk.matureH {
					r.fail("release: CancelFuse of %s succeeded at frontier height %d, the fusion is locked until height %d", key, ack.Height, lk.matureH)
				}
				if len(b.DescendantBlocks) != 1 {
					r.fail("release: CancelFuse produced %d descendant blocks", len(b.DescendantBlocks))
				}
				r.deadIds = append(r.deadIds, d.id)
			} else if lk != nil && lk.paidAt == 0 && ack.Height >= lk.matureH && send.Amount.Sign() == 0 {
				r.fail("liveness: matured CancelFuse of %s by its owner was refused at frontier height %d (locked until %d)", key, ack.Height, lk.matureH)
			}
		}
	case types.StakeContract:
		switch d.method {
		case definition.StakeMethodName:
			if ok {
				key := lockKey(b.Address, "stake", addrName(send.Address), h8z(send.Hash))
				r.locks[key] = &lockRec{contract: b.Address, kind: "stake", key: key, entitled: send.Address, tok: send.TokenStandard,
					amount: new(big.Int).Set(send.Amount), matureT: ackT + d.dur}
				if len(b.DescendantBlocks) != 0 {
					r.fail("release: Stake produced %d descendant blocks", len(b.DescendantBlocks))
				}
			}
		case definition.CancelStakeMethodName:
			key := lockKey(b.Address, "stake", addrName(send.Address), h8z(d.id))
			lk := r.locks[key]
			if ok {
				if lk != nil && lk.paidAt != 0 {
					// the stake entry stays in storage with amount 0 until the next reward epoch: a repeated cancel "succeeds" and must pay nothing
					if len(b.DescendantBlocks) != 1 || b.DescendantBlocks[0].Amount.Sign() != 0 {
						r.fail("release: Cancel paid twice: stake %s was released at momentum %d and a repeated cancel at %d paid again", key, lk.paidAt, h)
					}
					r.c.Hit("stake-repeated-cancel-pays-zero")
				} else {
					r.releaseCheck(b, "Cancel(stake)", lk, key, send.Address, 0, h)
					if lk != nil && ackT < lk.matureT {
						r.fail("release: Cancel of %s succeeded at frontier time %d, the stake is locked until %d", key, ackT, lk.matureT)
					}
					r.deadIds = append(r.deadIds, d.id)
				}
			} else if lk != nil && lk.paidAt == 0 && ackT >= lk.matureT && send.Amount.Sign() == 0 {
				r.fail("liveness: matured Cancel of %s by its owner was refused at frontier time %d (locked until %d)", key, ackT, lk.matureT)
			}
		}
	case types.HtlcContract:
		switch d.method {
		case definition.CreateHtlcMethodName:
			if ok {
				key := lockKey(b.Address, "htlc", h8z(send.Hash))
				r.locks[key] = &lockRec{contract: b.Address, kind: "htlc", key: key, entitled: send.Address, second: d.htlc.HashLocked, tok: send.TokenStandard,
					amount: new(big.Int).Set(send.Amount), matureT: d.htlc.ExpirationTime, hashType: d.htlc.HashType, keyMax: d.htlc.KeyMaxSize, hashLock: append([]byte{}, d.htlc.HashLock...)}
				if len(b.DescendantBlocks) != 0 {
					r.fail("release: Create(htlc) produced %d descendant blocks", len(b.DescendantBlocks))
				}
				if ackT >= d.htlc.ExpirationTime {
					r.fail("release: htlc %s was created at frontier time %d although it expires at %d", key, ackT, d.htlc.ExpirationTime)
				}
			}
		case definition.ReclaimHtlcMethodName:
			key := lockKey(b.Address, "htlc", h8z(d.id))
			lk := r.locks[key]
			if ok {
				var to types.Address
				if lk != nil {
					to = lk.entitled
				}
				r.releaseCheck(b, "Reclaim", lk, key, to, 0, h)
				if lk != nil {
					if send.Address != lk.entitled {
						r.fail("release: Reclaim of %s was called by %s, only the time-locked party %s may reclaim", key, addrName(send.Address), addrName(lk.entitled))
					}
					if ackT < lk.matureT {
						r.fail("release: Reclaim of %s succeeded at frontier time %d, before its expiration %d", key, ackT, lk.matureT)
					}
				}
				if len(b.DescendantBlocks) != 1 {
					r.fail("release: Reclaim produced %d descendant blocks", len(b.DescendantBlocks))
				}
				r.deadIds = append(r.deadIds, d.id)
			} else if lk != nil && lk.paidAt == 0 && send.Address == lk.entitled && ackT >= lk.matureT && send.Amount.Sign() == 0 {
				r.fail("liveness: Reclaim of the expired htlc %s by its time-locked party was refused at frontier time %d (expired at %d)", key, ackT, lk.matureT)
			}
		case definition.UnlockHtlcMethodName:
			key := lockKey(b.Address, "htlc", h8z(d.id))
			lk := r.locks[key]
			preimageOk := func() bool {
				if lk == nil || len(d.preimage) > int(lk.keyMax) {
					return false
				}
				var hp []byte
				if lk.hashType == definition.HashTypeSHA3 {
					hp = crypto.Hash(d.preimage)
				} else if lk.hashType == definition.HashTypeSHA256 {
					hp = crypto.HashSHA256(d.preimage)
				}
				return string(hp) == string(lk.hashLock)
			}
			allowed := func() bool {
				if lk == nil {
					return false
				}
				if send.Address == lk.second {
					return true
				}
				v, set := r.proxy[lk.second]
				return !set || v
			}
			if ok {
				var to types.Address
				if lk != nil {
					to = lk.second
				}
				r.releaseCheck(b, "Unlock", lk, key, to, 0, h)
				if lk != nil {
					if !allowed() {
						r.fail("release: Unlock of %s was called by %s although %s has denied proxy unlocks", key, addrName(send.Address), addrName(lk.second))
					}
					if ackT >= lk.matureT {
						r.fail("release: Unlock of %s succeeded at frontier time %d, it expired at %d", key, ackT, lk.matureT)
					}
					if !preimageOk() {
						r.fail("release: Unlock of %s succeeded with a preimage (%d bytes, max %d) that does not hash to the lock", key, len(d.preimage), lk.keyMax)
					}
				}
				if len(b.DescendantBlocks) != 1 {
					r.fail("release: Unlock produced %d descendant blocks", len(b.DescendantBlocks))
				}
				r.deadIds = append(r.deadIds, d.id)
			} else if lk != nil && lk.paidAt == 0 && allowed() && ackT < lk.matureT && preimageOk() && send.Amount.Sign() == 0 && !types.IsEmbeddedAddress(lk.second) {
				r.fail("liveness: Unlock of %s with the correct preimage before expiry (frontier time %d < %d) was refused", key, ackT, lk.matureT)
			}
		case definition.DenyHtlcProxyUnlockMethodName:
			if ok {
				r.proxy[send.Address] = false
			}
		case definition.AllowHtlcProxyUnlockMethodName:
			if ok {
				r.proxy[send.Address] = true
			}
		}
	}
}

// ---------------------------------------------------------------------------------------------------
// state dump, comparison with the lock log, backing monitor
// ---------------------------------------------------------------------------------------------------

func sortFusions(l []*definition.FusionInfo) {
	sort.Slice(l, func(i, j int) bool {
		if l[i].Owner != l[j].Owner {
			return string(l[i].Owner[:]) < string(l[j].Owner[:])
		}
		return string(l[i].Id[:]) < string(l[j].Id[:])
	})
}

type liab struct {
	sums map[types.ZenonTokenStandard]*big.Int
}

func (l *liab) add(t types.ZenonTokenStandard, x *big.Int) {
	if l.sums == nil {
		l.sums = map[types.ZenonTokenStandard]*big.Int{}
	}
	if l.sums[t] == nil {
		l.sums[t] = new(big.Int)
	}
	l.sums[t].Add(l.sums[t], x)
}

var fusedGapGenesis map[types.Address]*big.Int

func (r *contractRun) compareState(h uint64) {
	c := r.c
	full := func(a types.Address) bool { return !r.dumped || r.touched[a] }
	owed := map[types.Address]*liab{}
	for _, a := range modelledContracts {
		owed[a] = &liab{}
	}
	seenLock := map[string]bool{}
	checkLock := func(key string, amount *big.Int, what string) {
		seenLock[key] = true
		lk := r.locks[key]
		if lk == nil {
			r.fail("storage: %s %s exists in storage with amount %s but no deposit was ever confirmed for it", what, key, amt(amount))
			return
		}
		if lk.paidAt != 0 {
			if amount.Sign() != 0 {
				r.fail("release: %s %s was paid out at momentum %d but is still recorded with amount %s (it can be paid again)", what, key, lk.paidAt, amt(amount))
			}
		} else if amount.Cmp(lk.amount) != 0 {
			r.fail("storage: %s %s records amount %s, the confirmed deposit was %s", what, key, amt(amount), amt(lk.amount))
		}
	}

	// ---- plasma ----
	{
		st := r.storage(types.PlasmaContract)
		fl, err := definition.AllFusionInfoVerif(st)
		if err != nil {
			r.fail("AllFusionInfoVerif: %v", err)
		}
		sortFusions(fl)
		r.fusions = fl
		perBen := map[types.Address]*big.Int{}
		total := new(big.Int)
		for _, f := range fl {
			if full(types.PlasmaContract) {
				c.Emit("K-fusion %s %s | %s %d %s", addrName(f.Owner), h8z(f.Id), amt(f.Amount), f.ExpirationHeight, addrName(f.Beneficiary))
			}
			owed[types.PlasmaContract].add(types.QsrTokenStandard, f.Amount)
			total.Add(total, f.Amount)
			if perBen[f.Beneficiary] == nil {
				perBen[f.Beneficiary] = new(big.Int)
			}
			perBen[f.Beneficiary].Add(perBen[f.Beneficiary], f.Amount)
			checkLock(lockKey(types.PlasmaContract, "fusion", addrName(f.Owner), h8z(f.Id)), f.Amount, "fusion")
		}
		fa, err := definition.AllFusedAmountVerif(st)
		if err != nil {
			r.fail("AllFusedAmountVerif: %v", err)
		}
		sort.Slice(fa, func(i, j int) bool { return string(fa[i].Beneficiary[:]) < string(fa[j].Beneficiary[:]) })
		ftotal := new(big.Int)
		gap := map[types.Address]*big.Int{}
		for _, f := range fa {
			if full(types.PlasmaContract) {
				c.Emit("K-fused %s | %s", addrName(f.Beneficiary), amt(f.Amount))
			}
			ftotal.Add(ftotal, f.Amount)
			e := perBen[f.Beneficiary]
			if e == nil {
				e = new(big.Int)
			}
			gap[f.Beneficiary] = new(big.Int).Sub(f.Amount, e)
			if f.Amount.Sign() <= 0 {
				r.fail("fused: beneficiary %s has a stored fused amount of %s", addrName(f.Beneficiary), amt(f.Amount))
			}
		}
		for b, e := range perBen {
			if gap[b] == nil {
				gap[b] = new(big.Int).Neg(e)
			}
		}
		c.Emit("K-digest plasma | %d %s %d %s", len(fl), amt(total), len(fa), amt(ftotal))
		// T2 monitor: per beneficiary, fused amount = Σ of its fusion entries. The mock genesis fixture itself is
		// inconsistent (nine configured fusions share the key (User1, zero id) and overwrite each other while each
		// beneficiary's total is kept), so the monitor checks that the difference never moves away from its genesis value.
		if fusedGapGenesis == nil || !r.dumped {
			fusedGapGenesis = gap
			for _, v := range gap {
				if v.Sign() != 0 {
					c.Hit("genesis-fixture-fused-amount-without-entry")
				}
			}
		} else {
			keys := map[types.Address]bool{}
			for b := range gap {
				keys[b] = true
			}
			for b := range fusedGapGenesis {
				keys[b] = true
			}
			kl := make([]types.Address, 0, len(keys))
			for b := range keys {
				kl = append(kl, b)
			}
			sort.Slice(kl, func(i, j int) bool { return string(kl[i][:]) < string(kl[j][:]) })
			for _, b := range kl {
				x, y := gap[b], fusedGapGenesis[b]
				if x == nil {
					x = new(big.Int)
				}
				if y == nil {
					y = new(big.Int)
				}
				if x.Cmp(y) != 0 {
					r.fail("fused: beneficiary %s: fused amount minus the sum of its fusion entries is %s (was %s at genesis)", addrName(b), amt(x), amt(y))
				}
			}
		}
	}
	// ---- stake ----
	{
		st := r.storage(types.StakeContract)
		var sl []*definition.StakeInfo
		if err := definition.IterateStakeEntries(st, func(s *definition.StakeInfo) error { sl = append(sl, s); return nil }); err != nil {
			r.fail("IterateStakeEntries: %v", err)
		}
		sort.Slice(sl, func(i, j int) bool {
			if sl[i].StakeAddress != sl[j].StakeAddress {
				return string(sl[i].StakeAddress[:]) < string(sl[j].StakeAddress[:])
			}
			return string(sl[i].Id[:]) < string(sl[j].Id[:])
		})
		r.stakes = sl
		total := new(big.Int)
		for _, s := range sl {
			if full(types.StakeContract) {
				c.Emit("K-stake %s %s | %s %s %d %d %d", addrName(s.StakeAddress), h8z(s.Id), amt(s.Amount), amt(s.WeightedAmount), s.StartTime, s.RevokeTime, s.ExpirationTime)
			}
			owed[types.StakeContract].add(types.ZnnTokenStandard, s.Amount)
			total.Add(total, s.Amount)
			checkLock(lockKey(types.StakeContract, "stake", addrName(s.StakeAddress), h8z(s.Id)), s.Amount, "stake")
			if (s.RevokeTime != 0) != (s.Amount.Sign() == 0) {
				r.fail("storage: stake %s/%s has revoke time %d and amount %s", addrName(s.StakeAddress), h8z(s.Id), s.RevokeTime, amt(s.Amount))
			}
		}
		c.Emit("K-digest stake | %d %s", len(sl), amt(total))
	}

	// ---- htlc ----
	{
		st := r.storage(types.HtlcContract)
		hl, err := definition.AllHtlcInfoVerif(st)
		if err != nil {
			r.fail("AllHtlcInfoVerif: %v", err)
		}
		sort.Slice(hl, func(i, j int) bool { return string(hl[i].Id[:]) < string(hl[j].Id[:]) })
		r.htlcs = hl
		for _, e := range hl {
			if full(types.HtlcContract) {
				c.Emit("K-htlc %s | %s %s %s %s %d %d %d %s", h8z(e.Id), addrName(e.TimeLocked), addrName(e.HashLocked), tokName(e.TokenStandard), amt(e.Amount), e.ExpirationTime, e.HashType, e.KeyMaxSize, hxOrDash(e.HashLock))
			}
			r.tokens[e.TokenStandard] = true
			owed[types.HtlcContract].add(e.TokenStandard, e.Amount)
			checkLock(lockKey(types.HtlcContract, "htlc", h8z(e.Id)), e.Amount, "htlc")
		}
		pl, err := definition.AllHtlcProxyUnlockInfoVerif(st)
		if err != nil {
			r.fail("AllHtlcProxyUnlockInfoVerif: %v", err)
		}
		sort.Slice(pl, func(i, j int) bool { return string(pl[i].Address[:]) < string(pl[j].Address[:]) })
		for _, e := range pl {
			if full(types.HtlcContract) {
				c.Emit("K-proxy %s | %v", addrName(e.Address), e.Allowed)
			}
			if v, set := r.proxy[e.Address]; !set || v != e.Allowed {
				r.fail("storage: proxy-unlock setting of %s is %v, the confirmed calls say set=%v value=%v", addrName(e.Address), e.Allowed, set, v)
			}
		}
		c.Emit("K-digest htlc | %d %d", len(hl), len(pl))
	}

	// every open lock of the log must still be recorded (a lock that vanished without a payout is lost money)
	lkeys := make([]string, 0, len(r.locks))
	for k := range r.locks {
		lkeys = append(lkeys, k)
	}
	sort.Strings(lkeys)
	for _, k := range lkeys {
		lk := r.locks[k]
		if lk.paidAt == 0 && !seenLock[k] {
			r.fail("storage: lock %s (%s %s) was never paid out but its entry is gone from storage", k, amt(lk.amount), tokName(lk.tok))
		}
	}

	// ---- balances and the backing monitor ----
	store := r.n.Chain().GetFrontierMomentumStore()
	toks := make([]types.ZenonTokenStandard, 0, len(r.tokens))
	for t := range r.tokens {
		toks = append(toks, t)
	}
	sort.Slice(toks, func(i, j int) bool { return string(toks[i][:]) < string(toks[j][:]) })
	for _, a := range modelledContracts {
		for _, t := range toks {
			if t == types.ZeroTokenStandard {
				continue
			}
			bal, err := store.GetAccountStore(a).GetBalance(t)
			if err != nil {
				r.fail("GetBalance(%s,%s): %v", addrName(a), tokName(t), err)
				continue
			}
			if full(a) {
				c.Emit("K-bal %s %s | %s", cname(a), tokName(t), amt(bal))
			}
			o := owed[a].sums[t]
			if o == nil {
				o = new(big.Int)
			}
			if o.Cmp(bal) > 0 {
				r.fail("backing: contract %s owes %s %s (sum of its recorded entries) but holds only %s at momentum %d", cname(a), amt(o), tokName(t), amt(bal), h)
			}
		}
	}
	r.dumped = true
	for a := range r.touched {
		delete(r.touched, a)
	}
}

// ---------------------------------------------------------------------------------------------------
// history generation
// ---------------------------------------------------------------------------------------------------

func init() {
	register("contract", func(c *Ctx) {
		for i := 0; i < c.N; i++ {
			contractHistory(c, i)
		}
	})
}

var foreignAddrs = []types.Address{
	types.ParseAddressPanic("z1qr9vtwsfr2n0nsxl2nfh6l5esqjh2wfj85cfq9"),
	types.ParseAddressPanic("z1qqvwzz2xq7q5gwk6uhcddgrpxlfcyzc8rsu82s"),
}

func contractHistory(c *Ctx, id int) {
	origGate := verifier.ReceiverMismatchEnforcementHeight
	origParams := readParams()
	defer func() {
		verifier.ReceiverMismatchEnforcementHeight = origGate
		origParams.install()
	}()
	verifier.ReceiverMismatchEnforcementHeight = 0
	p := origParams
	production := c.Args["params"] == "production" || (c.Args["params"] == "" && id%6 == 5)
	if !production {
		// shortened lock periods (the constants are package variables; the repository's own tests shorten them the same way)
		p.fuseExpiration = uint64(2 + c.R.Intn(25))
		p.stakeUnit = int64(10 * (3 + c.R.Intn(10)))
		p.stakeMin, p.stakeMax = p.stakeUnit, 12*p.stakeUnit
		p.pillarLock, p.pillarRevoke = int64(10*(2+c.R.Intn(12))), int64(10*(1+c.R.Intn(6)))
		p.sentinelLock, p.sentinelRevoke = int64(10*(2+c.R.Intn(12))), int64(10*(1+c.R.Intn(6)))
		c.Hit("history-params-shortened")
	} else {
		c.Hit("history-params-production")
	}
	p.install()

	n := NewNode()
	defer n.Stop()
	r := &contractRun{c: c, n: n, id: id, p: p, locks: map[string]*lockRec{}, qsrLog: map[string]*big.Int{}, preimages: map[types.Hash][]byte{}, proxy: map[types.Address]bool{},
		touched: map[types.Address]bool{}, tokens: map[types.ZenonTokenStandard]bool{types.ZnnTokenStandard: true, types.QsrTokenStandard: true}}

	c.Emit("K-reset")
	c.Emit("K-param fuseMinAmount %s", amt(constants.FuseMinAmount))
	c.Emit("K-param costPerFusionUnit %d", constants.CostPerFusionUnit)
	c.Emit("K-param fuseExpiration %d", p.fuseExpiration)
	c.Emit("K-param stakeMinAmount %s", amt(constants.StakeMinAmount))
	c.Emit("K-param stakeTimeUnit %d", p.stakeUnit)
	c.Emit("K-param stakeTimeMin %d", p.stakeMin)
	c.Emit("K-param stakeTimeMax %d", p.stakeMax)

	// the genesis state is the initial state of the model and of the lock log
	store := n.Chain().GetFrontierMomentumStore()
	for _, a := range modelledContracts {
		for _, t := range []types.ZenonTokenStandard{types.ZnnTokenStandard, types.QsrTokenStandard} {
			bal, _ := store.GetAccountStore(a).GetBalance(t)
			if bal != nil && bal.Sign() != 0 {
				c.Emit("K-init-bal %s %s %s", cname(a), tokName(t), amt(bal))
			}
		}
	}
	fl, err := definition.AllFusionInfoVerif(r.storage(types.PlasmaContract))
	if err != nil {
		r.fail("genesis fusions: %v", err)
		return
	}
	sortFusions(fl)
	for _, f := range fl {
		c.Emit("K-init-fusion %s %s %s %d %s", addrName(f.Owner), h8z(f.Id), amt(f.Amount), f.ExpirationHeight, addrName(f.Beneficiary))
		key := lockKey(types.PlasmaContract, "fusion", addrName(f.Owner), h8z(f.Id))
		r.locks[key] = &lockRec{contract: types.PlasmaContract, kind: "fusion", key: key, entitled: f.Owner, second: f.Beneficiary, tok: types.QsrTokenStandard,
			amount: new(big.Int).Set(f.Amount), matureH: f.ExpirationHeight}
	}
	fa, _ := definition.AllFusedAmountVerif(r.storage(types.PlasmaContract))
	sort.Slice(fa, func(i, j int) bool { return string(fa[i].Beneficiary[:]) < string(fa[j].Beneficiary[:]) })
	for _, f := range fa {
		c.Emit("K-init-fused %s %s", addrName(f.Beneficiary), amt(f.Amount))
	}
	r.compareState(n.Height())
	if r.failed {
		return
	}

	n.OnMomentum = r.onMomentum
	momentum := func() bool {
		if _, err := n.Momentum(); err != nil {
			r.fail("momentum production failed: %v", err)
			return false
		}
		return !r.failed
	}
	advance := func(k int) bool {
		for i := 0; i < k; i++ {
			if !momentum() {
				return false
			}
		}
		return true
	}

	withHtlc := c.Args["htlc"] == "1" || (c.Args["htlc"] == "" && id%3 != 0)
	if withHtlc { // htlc exists only under its spork; activated in the order accelerator -> bridge/liquidity -> htlc
		for i, sp := range []*types.ImplementedSpork{types.AcceleratorSpork, types.BridgeAndLiquiditySpork, types.HtlcSpork} {
			if err := n.ActivateSpork(sp, fmt.Sprintf("spork-%d", i)); err != nil {
				r.fail("spork activation: %v", err)
				return
			}
			if r.failed {
				return
			}
		}
		c.Hit("history-with-htlc")
	}

	users := []types.Address{g.User1.Address, g.User2.Address, g.User3.Address, g.User4.Address, g.User5.Address,
		g.Pillar4.Address, g.Pillar5.Address, g.Pillar6.Address}
	everyone := append([]types.Address{g.User6.Address, g.User7.Address, g.Pillar1.Address}, users...)
	anyAddr := append(append([]types.Address{}, everyone...), foreignAddrs...)
	anyAddr = append(anyAddr, types.PlasmaContract)
	pick := func(l []types.Address) types.Address { return l[c.R.Intn(len(l))] }

	call := func(from, to types.Address, tok types.ZenonTokenStandard, amount *big.Int, method string, data []byte) *nom.AccountBlock {
		b, err := n.Submit(&nom.AccountBlock{BlockType: nom.BlockTypeUserSend, Address: from, ToAddress: to, TokenStandard: tok, Amount: amount, Data: data})
		tag := cname(to) + "." + method
		if err != nil {
			c.Hit("send-rejected-" + tag)
			return nil
		}
		c.Hit("send-accepted-" + tag)
		return b
	}
	qsr := func(units int64) *big.Int { return new(big.Int).Mul(big.NewInt(units), big.NewInt(g.Zexp)) }
	randomHash := func() types.Hash {
		var h types.Hash
		c.R.Read(h[:])
		return h
	}
	frontierTime := func() int64 {
		m, _ := n.Chain().GetFrontierMomentumStore().GetFrontierMomentum()
		return m.Timestamp.Unix()
	}

	steps := 70 + c.R.Intn(50)
	if c.Tier == "thorough" {
		steps = 180 + c.R.Intn(120)
	}
	if production {
		steps = steps / 2
	}
	budget := 300 // momentums per history
	if c.Tier == "thorough" {
		budget = 800
	}
	start := n.Height()
	zero := big.NewInt(0)
	withAmount := func() (*big.Int, types.ZenonTokenStandard) { // a withdrawal call that wrongly carries an amount
		if c.R.Intn(15) == 0 {
			return big.NewInt(1 + int64(c.R.Intn(5))), types.QsrTokenStandard
		}
		return zero, types.ZnnTokenStandard
	}

	genPlasma := func() {
		if c.R.Intn(100) < 45 { // Fuse
			from := pick(users)
			am := qsr(int64(10 + c.R.Intn(120)))
			tok := types.QsrTokenStandard
			switch c.R.Intn(12) {
			case 0:
				am = qsr(int64(c.R.Intn(10))) // below the minimum
			case 1:
				am = new(big.Int).Add(am, big.NewInt(int64(1+c.R.Intn(1000)))) // not a multiple of the fusion unit
			case 2:
				tok = types.ZnnTokenStandard
			case 3:
				am = qsr(int64(1000 + c.R.Intn(5000)))
			}
			call(from, types.PlasmaContract, tok, am, "Fuse", definition.ABIPlasma.PackMethodPanic(definition.FuseMethodName, pick(anyAddr)))
			return
		}
		// CancelFuse: owner / other / unknown id / repeated / with amount
		var id types.Hash
		var from types.Address
		y := c.R.Intn(10)
		switch {
		case y < 6 && len(r.fusions) > 0:
			f := r.fusions[c.R.Intn(len(r.fusions))]
			// prefer entries created in this history over the genesis ones (those feed the accounts' plasma)
			for k := 0; k < 3 && f.ExpirationHeight == 0; k++ {
				f = r.fusions[c.R.Intn(len(r.fusions))]
			}
			id, from = f.Id, f.Owner
		case y < 8 && len(r.fusions) > 0:
			f := r.fusions[c.R.Intn(len(r.fusions))]
			id, from = f.Id, pick(users) // mostly not the owner
		case y < 9 && len(r.deadIds) > 0:
			id, from = r.deadIds[c.R.Intn(len(r.deadIds))], pick(users)
			lkeys := make([]string, 0, len(r.locks))
			for k := range r.locks {
				lkeys = append(lkeys, k)
			}
			sort.Strings(lkeys)
			for _, k := range lkeys { // the former owner repeats the cancel
				if l := r.locks[k]; l.kind == "fusion" && strings.HasSuffix(l.key, "/"+h8z(id)) {
					from = l.entitled
				}
			}
		default:
			id, from = randomHash(), pick(users)
		}
		am, tok := withAmount()
		if keyOf(from) == nil {
			return
		}
		call(from, types.PlasmaContract, tok, am, "CancelFuse", definition.ABIPlasma.PackMethodPanic(definition.CancelFuseMethodName, id))
	}

	genStake := func() {
		if c.R.Intn(100) < 45 { // Stake
			from := pick(users)
			am := qsr(int64(1 + c.R.Intn(60)))
			tok := types.ZnnTokenStandard
			dur := p.stakeUnit * int64(1+c.R.Intn(3))
			switch c.R.Intn(14) {
			case 0:
				dur = p.stakeUnit * int64(1+c.R.Intn(12))
			case 1:
				dur = p.stakeUnit*13 + int64(c.R.Intn(3))*p.stakeUnit // too long
			case 2:
				dur = p.stakeUnit + 1 + int64(c.R.Intn(int(p.stakeUnit)-1)) // not a multiple
			case 3:
				dur = int64(c.R.Intn(int(p.stakeUnit))) // too short
			case 4:
				dur = -p.stakeUnit
			case 5:
				am = big.NewInt(int64(c.R.Intn(int(g.Zexp)))) // below the minimum
			case 6:
				tok = types.QsrTokenStandard
			}
			call(from, types.StakeContract, tok, am, "Stake", definition.ABIStake.PackMethodPanic(definition.StakeMethodName, dur))
			return
		}
		var id types.Hash
		var from types.Address
		y := c.R.Intn(10)
		switch {
		case y < 6 && len(r.stakes) > 0:
			s := r.stakes[c.R.Intn(len(r.stakes))]
			id, from = s.Id, s.StakeAddress // includes already revoked entries (repeated cancel)
		case y < 8 && len(r.stakes) > 0:
			s := r.stakes[c.R.Intn(len(r.stakes))]
			id, from = s.Id, pick(users)
		default:
			id, from = randomHash(), pick(users)
		}
		am, tok := withAmount()
		if keyOf(from) == nil {
			return
		}
		call(from, types.StakeContract, tok, am, "Cancel", definition.ABIStake.PackMethodPanic(definition.CancelStakeMethodName, id))
	}

	hashOf := func(ty uint8, pre []byte) []byte {
		if ty == definition.HashTypeSHA256 {
			return crypto.HashSHA256(pre)
		}
		return crypto.Hash(pre)
	}
	unlockCall := func(e *definition.HtlcInfo, from types.Address, pre []byte) {
		am, tok := withAmount()
		call(from, types.HtlcContract, tok, am, "Unlock", definition.ABIHtlc.PackMethodPanic(definition.UnlockHtlcMethodName, e.Id, pre))
	}
	genHtlc := func() {
		y := c.R.Intn(100)
		switch {
		case y < 35: // Create
			from := pick(users)
			tok := types.ZnnTokenStandard
			if c.R.Intn(2) == 0 {
				tok = types.QsrTokenStandard
			}
			am := qsr(int64(1 + c.R.Intn(40)))
			if c.R.Intn(8) == 0 {
				am = big.NewInt(int64(1 + c.R.Intn(3)))
			}
			hashLocked := pick(users)
			if c.R.Intn(4) == 0 {
				hashLocked = pick(anyAddr)
			}
			now := frontierTime()
			exp := now + 10*int64(4+c.R.Intn(40))
			ty := uint8(c.R.Intn(2))
			keyMax := []uint8{32, 32, 255, 8, 0, 40}[c.R.Intn(6)]
			pre := make([]byte, []int{32, 32, 8, 0, 40, 33, 1}[c.R.Intn(7)])
			c.R.Read(pre)
			if int(keyMax) < len(pre) && c.R.Intn(5) != 0 {
				keyMax = uint8(len(pre)) // mostly a preimage that fits (exactly)
			}
			lock := hashOf(ty, pre)
			switch c.R.Intn(16) {
			case 0:
				exp = now + 10 + 10*int64(c.R.Intn(3)) // expires at / right after the receive: "already expired" boundary
			case 1:
				exp = now - 10*int64(c.R.Intn(5))
			case 2:
				exp = -exp
			case 3:
				ty = uint8(2 + c.R.Intn(254)) // invalid hash type
			case 4:
				lock = lock[:31] // wrong digest size
			case 5:
				lock = append(lock, 0)
			case 6:
				am = big.NewInt(0)
			case 7:
				exp = 1<<62 + int64(c.R.Intn(1000))
			}
			if b := call(from, types.HtlcContract, tok, am, "Create", definition.ABIHtlc.PackMethodPanic(definition.CreateHtlcMethodName, hashLocked, exp, ty, keyMax, lock)); b != nil {
				r.preimages[b.Hash] = pre
			}
		case y < 70: // Unlock: hash-locked party / third party (proxy) / time-locked party; right, wrong, too long, empty preimage
			if len(r.htlcs) == 0 && len(r.deadIds) == 0 {
				return
			}
			var e *definition.HtlcInfo
			if len(r.htlcs) > 0 && c.R.Intn(10) != 0 {
				e = r.htlcs[c.R.Intn(len(r.htlcs))]
			} else if len(r.deadIds) > 0 {
				e = &definition.HtlcInfo{Id: r.deadIds[c.R.Intn(len(r.deadIds))], HashLocked: pick(users), TimeLocked: pick(users)}
			} else {
				e = &definition.HtlcInfo{Id: randomHash(), HashLocked: pick(users), TimeLocked: pick(users)}
			}
			from := e.HashLocked
			switch c.R.Intn(6) {
			case 0, 1:
				from = pick(users)
			case 2:
				from = e.TimeLocked
			}
			if keyOf(from) == nil {
				from = pick(users)
			}
			pre := r.preimages[e.Id]
			switch c.R.Intn(12) {
			case 0:
				pre = make([]byte, len(pre))
				c.R.Read(pre)
			case 1:
				pre = append(append([]byte{}, pre...), byte(c.R.Intn(256)))
			case 2:
				pre = []byte{}
			case 3:
				pre = make([]byte, 256+c.R.Intn(50))
			}
			unlockCall(e, from, pre)
		case y < 90: // Reclaim: time-locked party / others, before / after expiry
			var id types.Hash
			var from types.Address
			switch {
			case len(r.htlcs) > 0 && c.R.Intn(10) != 0:
				e := r.htlcs[c.R.Intn(len(r.htlcs))]
				id, from = e.Id, e.TimeLocked
				if c.R.Intn(4) == 0 {
					from = pick(users)
				}
			case len(r.deadIds) > 0:
				id, from = r.deadIds[c.R.Intn(len(r.deadIds))], pick(users)
			default:
				id, from = randomHash(), pick(users)
			}
			am, tok := withAmount()
			call(from, types.HtlcContract, tok, am, "Reclaim", definition.ABIHtlc.PackMethodPanic(definition.ReclaimHtlcMethodName, id))
		case y < 95:
			am, tok := withAmount()
			call(pick(everyone), types.HtlcContract, tok, am, "DenyProxyUnlock", definition.ABIHtlc.PackMethodPanic(definition.DenyHtlcProxyUnlockMethodName))
		default:
			am, tok := withAmount()
			call(pick(everyone), types.HtlcContract, tok, am, "AllowProxyUnlock", definition.ABIHtlc.PackMethodPanic(definition.AllowHtlcProxyUnlockMethodName))
		}
	}

	// run to the edge of a lock — just before / exactly at / just after maturity — then the entitled party withdraws
	genEdge := func() bool {
		var open []*lockRec
		keys := make([]string, 0, len(r.locks))
		for k := range r.locks {
			keys = append(keys, k)
		}
		sort.Strings(keys)
		for _, k := range keys {
			if l := r.locks[k]; l.paidAt == 0 && (l.matureH > n.Height() || (l.matureT > frontierTime() && l.matureT < frontierTime()+10*int64(budget))) {
				open = append(open, l)
			}
		}
		if len(open) == 0 {
			return true
		}
		l := open[c.R.Intn(len(open))]
		delta := int64(c.R.Intn(3)) - 1
		// a send submitted at frontier F is confirmed in F+1 and received with F+1 as its frontier momentum
		var need int64
		if l.kind == "fusion" {
			need = int64(l.matureH) + delta - 1 - int64(n.Height())
		} else {
			need = (l.matureT-frontierTime())/10 + delta - 1
		}
		if need < 0 || int(n.Height()-start)+int(need) > budget {
			return true
		}
		if !advance(int(need)) {
			return false
		}
		parts := strings.Split(l.key, "/")
		last := parts[len(parts)-1]
		switch l.kind {
		case "fusion":
			for _, f := range r.fusions {
				if h8z(f.Id) == last && f.Owner == l.entitled {
					call(l.entitled, types.PlasmaContract, types.ZnnTokenStandard, zero, "CancelFuse", definition.ABIPlasma.PackMethodPanic(definition.CancelFuseMethodName, f.Id))
					c.Hit(fmt.Sprintf("edge-fusion-delta%+d", delta))
				}
			}
		case "stake":
			for _, f := range r.stakes {
				if h8z(f.Id) == last && f.StakeAddress == l.entitled {
					call(l.entitled, types.StakeContract, types.ZnnTokenStandard, zero, "Cancel", definition.ABIStake.PackMethodPanic(definition.CancelStakeMethodName, f.Id))
					c.Hit(fmt.Sprintf("edge-stake-delta%+d", delta))
				}
			}
		case "htlc":
			for _, e := range r.htlcs {
				if h8z(e.Id) != last {
					continue
				}
				if c.R.Intn(2) == 0 || keyOf(e.HashLocked) == nil {
					call(e.TimeLocked, types.HtlcContract, types.ZnnTokenStandard, zero, "Reclaim", definition.ABIHtlc.PackMethodPanic(definition.ReclaimHtlcMethodName, e.Id))
					c.Hit(fmt.Sprintf("edge-htlc-reclaim-delta%+d", delta))
				} else {
					call(e.HashLocked, types.HtlcContract, types.ZnnTokenStandard, zero, "Unlock", definition.ABIHtlc.PackMethodPanic(definition.UnlockHtlcMethodName, e.Id, r.preimages[e.Id]))
					c.Hit(fmt.Sprintf("edge-htlc-unlock-delta%+d", delta))
				}
			}
		}
		return true
	}

	for s := 0; s < steps && !r.failed && int(n.Height()-start) < budget; s++ {
		x := c.R.Intn(100)
		switch {
		case x < 20:
			genPlasma()
		case x < 40:
			genStake()
		case x < 65:
			if withHtlc {
				genHtlc()
			} else if c.R.Intn(2) == 0 {
				genPlasma()
			} else {
				genStake()
			}
		case x < 77:
			if !genEdge() {
				return
			}
		default:
			if !advance(1 + c.R.Intn(3)) {
				return
			}
		}
	}
	// drain: every confirmed call is answered
	if !r.failed {
		advance(3)
	}
	if !r.failed {
		c.Hit("history-complete")
	}
}
