package main

import (
	"fmt"
	"math/big"
	"sort"
	"strings"

	"github.com/zenon-network/go-zenon/common/db"
	"github.com/zenon-network/go-zenon/common/types"
	"github.com/zenon-network/go-zenon/consensus/storage"
)

// ---------------------------------------------------------------------------------------------------
// rewards-pure stream, consensus points (C11): the aggregation of period points into an epoch point on the REAL
// storage.Point objects, kept the way the node keeps them — in a real storage.DB (LRU cache over a key-value store).
// One case = 1..6 adjacent period points with pillar sets that change from period to period (pillars entering and
// leaving), the older ones finished (stored, so later reads return the cached object), the newest one sometimes still
// in progress (rebuilt on every read). The epoch point is computed with the statements of
// compoundPoints.generatePointFromLower (NewEmptyPoint, LeftAppend newest first, weights divided by the number of
// points present) several times in a row, period points are read directly in between, then the cache is dropped
// (a new storage.DB over the same key-value store = a restarted node) and everything is asked again.
//   model   : every fold is a `pt-fold` line recomputed by the Lean function `Points.compound` from the VALUES of the
//             period points as generated;
//   monitors: every fold of the same points gives the same answer; a period point read from the cache at any time
//             equals the point that was stored and equals what the restarted DB decodes from the stored bytes.
// ---------------------------------------------------------------------------------------------------

type ptDetail struct {
	id             int
	expected, fact uint32
	weight         *big.Int
}

type ptSpec struct {
	details []ptDetail // sorted by id
	total   *big.Int
}

func ptName(id int) string { return fmt.Sprintf("pillar-%02d", id) }

func (s *ptSpec) build(prev, end types.Hash) *storage.Point {
	p := storage.NewEmptyPoint(end)
	p.PrevHash = prev
	p.TotalWeight = new(big.Int).Set(s.total)
	for _, d := range s.details {
		p.Pillars[ptName(d.id)] = &storage.ProducerDetail{ExpectedNum: d.expected, FactualNum: d.fact, Weight: new(big.Int).Set(d.weight)}
	}
	return p
}

func (s *ptSpec) tokens() string {
	var sb strings.Builder
	fmt.Fprintf(&sb, "%d %s", len(s.details), s.total)
	for _, d := range s.details {
		fmt.Fprintf(&sb, " %d %d %d %s", d.id, d.expected, d.fact, d.weight)
	}
	return sb.String()
}

// canonical text of a real point: "<n> <total> {<id> <expected> <factual> <weight>}*" sorted by pillar
func ptCanon(p *storage.Point) string {
	if p == nil {
		return "nil"
	}
	names := make([]string, 0, len(p.Pillars))
	for n := range p.Pillars {
		names = append(names, n)
	}
	sort.Strings(names)
	var sb strings.Builder
	fmt.Fprintf(&sb, "%d %s", len(names), p.TotalWeight)
	for _, n := range names {
		var id int
		fmt.Sscanf(n, "pillar-%d", &id)
		d := p.Pillars[n]
		fmt.Fprintf(&sb, " %d %d %d %s", id, d.ExpectedNum, d.FactualNum, d.Weight)
	}
	return sb.String()
}

func randPtSpec(c *Ctx, ids []int) *ptSpec {
	s := &ptSpec{total: new(big.Int)}
	for _, id := range ids {
		d := ptDetail{id: id, expected: uint32(c.R.Intn(31)), weight: new(big.Int)}
		d.fact = uint32(c.R.Intn(int(d.expected) + 1))
		switch c.R.Intn(4) {
		case 0: // no delegated weight
		case 1:
			d.weight.SetInt64(int64(c.R.Intn(1000)))
		default:
			d.weight.Rand(c.R, new(big.Int).Lsh(big.NewInt(1), uint(10+c.R.Intn(80))))
		}
		s.total.Add(s.total, d.weight)
		s.details = append(s.details, d)
	}
	return s
}

func pointsFoldCase(c *Ctx) {
	defer func() {
		if r := recover(); r != nil {
			c.Fail("points: aggregation of period points panicked: %v", r)
		}
	}()
	k := 1 + c.R.Intn(6)
	npill := 1 + c.R.Intn(7)
	// pillar sets per period, oldest first: start from a random subset, pillars enter and leave from period to period
	present := map[int]bool{}
	for id := 0; id < npill; id++ {
		if c.R.Intn(3) != 0 {
			present[id] = true
		}
	}
	specs := make([]*ptSpec, k)
	for i := 0; i < k; i++ {
		for id := 0; id < npill; id++ {
			if c.R.Intn(4) == 0 {
				present[id] = !present[id]
			}
		}
		var ids []int
		for id := 0; id < npill; id++ {
			if present[id] {
				ids = append(ids, id)
			}
		}
		specs[i] = randPtSpec(c, ids)
	}
	hashes := make([]types.Hash, k+1)
	for i := range hashes {
		c.R.Read(hashes[i][:])
	}
	newestInProgress := c.R.Intn(2) == 0
	kv := db.NewMemDB()
	sdb := storage.NewConsensusDB(kv, 4, 64)
	for i := 0; i < k; i++ {
		if i == k-1 && newestInProgress {
			continue
		}
		if err := sdb.StorePointByHeight(storage.PrefixPeriodPoint, uint64(i), specs[i].build(hashes[i], hashes[i+1])); err != nil {
			c.Fail("points: StorePointByHeight: %v", err)
			return
		}
	}
	var storedIdx []int
	for i := 0; i < k; i++ {
		if !(i == k-1 && newestInProgress) {
			storedIdx = append(storedIdx, i)
		}
	}
	// cs-* lines (s_consstore.go), emitted when the case is over — also when a monitor below ends it early
	defer csFoldPoints(c, kv, sdb, storedIdx, func(i int) *storage.Point { return specs[i].build(hashes[i], hashes[i+1]) })
	get := func(d *storage.DB, i int) *storage.Point {
		if i == k-1 && newestInProgress {
			return specs[i].build(hashes[i], hashes[i+1]) // generatePointFromChain: a new object on every read
		}
		p, err := d.GetPointByHeight(storage.PrefixPeriodPoint, uint64(i))
		if err != nil || p == nil {
			c.Fail("points: a stored period point cannot be read back: %v", err)
			return storage.NewEmptyPoint(hashes[i+1])
		}
		return p
	}
	// the statements of compoundPoints.generatePointFromLower
	fold := func(d *storage.DB) *storage.Point {
		result := storage.NewEmptyPoint(hashes[k])
		num := int64(0)
		for i := k - 1; i >= 0; i-- {
			num++
			if err := result.LeftAppend(get(d, i)); err != nil {
				c.Fail("points: LeftAppend of adjacent points failed: %v", err)
			}
		}
		result.TotalWeight.Set(big.NewInt(0))
		rate := big.NewInt(num)
		for _, p := range result.Pillars {
			p.Weight.Quo(p.Weight, rate)
			result.TotalWeight.Add(result.TotalWeight, p.Weight)
		}
		return result
	}
	var lhs strings.Builder
	fmt.Fprintf(&lhs, "pt-fold %d", k)
	for i := k - 1; i >= 0; i-- {
		lhs.WriteString(" " + specs[i].tokens())
	}
	checkPeriods := func(d *storage.DB, when string) {
		for i := 0; i < k; i++ {
			want := ptCanon(specs[i].build(hashes[i], hashes[i+1]))
			if got := ptCanon(get(d, i)); got != want {
				c.Fail("C11 consensus-statistics (points): period point %d of %d read %s is %q, it was stored as %q — computing the epoch point changed a cached period point", i, k, when, got, want)
				return
			}
		}
	}
	first := ""
	asks := 2 + c.R.Intn(3)
	for a := 0; a < asks; a++ {
		got := ptCanon(fold(sdb))
		c.Emit("%s | %s", lhs.String(), got)
		c.Hit("points-fold")
		if a == 0 {
			first = got
		} else if got != first {
			c.Fail("C11 consensus-statistics (points): the epoch point of the same %d period points is %q when computed the first time and %q when computed again (time %d) — the answer depends on what was asked before", k, first, got, a+1)
			return
		}
		if c.R.Intn(2) == 0 {
			checkPeriods(sdb, fmt.Sprintf("from the cache after %d aggregations", a+1))
		}
	}
	checkPeriods(sdb, "from the cache at the end")
	// restart: a new cache over the same stored bytes
	cold := storage.NewConsensusDB(kv, 4, 64)
	checkPeriods(cold, "by a restarted DB")
	if got := ptCanon(fold(cold)); got != first {
		c.Fail("C11 consensus-statistics (points): the epoch point is %q on the running instance and %q after a restart (same stored period points)", first, got)
	}
	if k >= 2 {
		c.Hit("points-multi-period")
	}
}
