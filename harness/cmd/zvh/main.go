// zvh — verification harness for go-zenon.
//
//	zvh facts  --out <dir>                          regenerate Lean facts from /repo
//	zvh trace  <stream> --seed S --n N [--out f] [--stats f]   run real code, one op per line
//	zvh replay <stream> --file f                    re-run ops of a replay file
//
// Every random choice derives from --seed. Lines are "<op tokens> | <observed>".
package main

import (
	"bufio"
	"encoding/json"
	"flag"
	"fmt"
	"math/rand"
	"os"
	"sort"
	"strconv"
	"strings"
)

// Ctx is handed to every stream.
type Ctx struct {
	R     *rand.Rand
	Seed  int64
	N     int
	Tier  string
	Args  map[string]string
	w     *bufio.Writer
	Stats map[string]int
	Fails []string // monitor failures (model-free property oracles)
	lines int
	// emitOnly: when set, only the lines whose format starts with it (and the '#' lines) are printed - a stream that runs the
	// histories of another stream under its own monitors prints its own lines only
	emitOnly string
}

func (c *Ctx) Emit(format string, a ...interface{}) {
	if c.emitOnly != "" && !strings.HasPrefix(format, c.emitOnly) && !strings.HasPrefix(format, "#") {
		return
	}
	fmt.Fprintf(c.w, format, a...)
	c.w.WriteByte('\n')
	c.lines++
	if flushEveryLine {
		c.w.Flush()
	}
}

// flushEveryLine (VERIF_FLUSH=1): the trace survives a crash of the process (a panic on a goroutine of the node under test)
var flushEveryLine = os.Getenv("VERIF_FLUSH") != ""

func (c *Ctx) Hit(k string)         { c.Stats[k]++ }
func (c *Ctx) HitN(k string, n int) { c.Stats[k] += n }
func (c *Ctx) Fail(format string, a ...interface{}) {
	s := fmt.Sprintf(format, a...)
	c.Fails = append(c.Fails, s)
	c.Emit("#MONITOR-FAIL %s", s)
}

type Stream func(c *Ctx)

var streams = map[string]Stream{}

func register(name string, s Stream) { streams[name] = s }

func main() {
	if len(os.Args) < 2 {
		usage()
	}
	switch os.Args[1] {
	case "spork-halt-child":
		sporkHaltChild()
	case "spork-restart-child":
		sporkRestartChild()
	case "rpcserver-child":
		sd, _ := strconv.ParseInt(os.Args[2], 10, 64)
		nr, _ := strconv.Atoi(os.Args[3])
		rpcServerChild(sd, nr)
	case "p2pnet-child":
		sd, _ := strconv.ParseInt(os.Args[2], 10, 64)
		nr, _ := strconv.Atoi(os.Args[3])
		p2pNetChild(sd, nr, os.Args[4], os.Args[5], os.Args[6])
	case "p2phs-child":
		sd, _ := strconv.ParseInt(os.Args[2], 10, 64)
		nr, _ := strconv.Atoi(os.Args[3])
		p2pHsChild(sd, nr, os.Args[4], os.Args[5], os.Args[6])
	case "facts":
		fs := flag.NewFlagSet("facts", flag.ExitOnError)
		out := fs.String("out", "", "output directory for Gen/*.lean")
		repo := fs.String("repo", "/repo", "repository root")
		fs.Parse(os.Args[2:])
		if *out == "" {
			usage()
		}
		if err := runFacts(*repo, *out); err != nil {
			fmt.Fprintln(os.Stderr, "facts:", err)
			os.Exit(2)
		}
	case "trace":
		if len(os.Args) < 3 {
			usage()
		}
		name := os.Args[2]
		s, ok := streams[name]
		if !ok {
			names := []string{}
			for k := range streams {
				names = append(names, k)
			}
			sort.Strings(names)
			fmt.Fprintln(os.Stderr, "unknown stream", name, "have", names)
			os.Exit(2)
		}
		fs := flag.NewFlagSet("trace", flag.ExitOnError)
		seed := fs.Int64("seed", 1, "PRNG seed")
		n := fs.Int("n", 1000, "number of cases")
		tier := fs.String("tier", "quick", "tier")
		out := fs.String("out", "", "output file (default stdout)")
		stats := fs.String("stats", "", "stats json file")
		arg := fs.String("arg", "", "k=v,k=v stream arguments")
		fs.Parse(os.Args[3:])
		var f *os.File = os.Stdout
		if *out != "" {
			var err error
			f, err = os.Create(*out)
			if err != nil {
				fmt.Fprintln(os.Stderr, err)
				os.Exit(2)
			}
			defer f.Close()
		}
		c := &Ctx{R: rand.New(rand.NewSource(*seed)), Seed: *seed, N: *n, Tier: *tier,
			w: bufio.NewWriterSize(f, 1<<20), Stats: map[string]int{}, Args: parseArgs(*arg)}
		s(c)
		c.w.Flush()
		if *stats != "" {
			b, _ := json.MarshalIndent(map[string]interface{}{
				"stream": name, "seed": *seed, "n": *n, "lines": c.lines, "stats": c.Stats, "monitor_failures": c.Fails,
			}, "", " ")
			os.WriteFile(*stats, b, 0o644)
		}
	default:
		usage()
	}
}

func parseArgs(s string) map[string]string {
	m := map[string]string{}
	cur, key := "", ""
	flush := func() {
		if key != "" {
			m[key] = cur
		}
		key, cur = "", ""
	}
	for i := 0; i < len(s); i++ {
		switch {
		case s[i] == '=' && key == "":
			key, cur = cur, ""
		case s[i] == ',':
			flush()
		default:
			cur += string(s[i])
		}
	}
	flush()
	return m
}

func usage() {
	fmt.Fprintln(os.Stderr, "usage: zvh facts --out dir | zvh trace <stream> --seed S --n N [--out f] [--stats f]")
	os.Exit(2)
}
