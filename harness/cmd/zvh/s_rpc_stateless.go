package main

import (
	"encoding/json"
	"fmt"
	"math/big"
	"reflect"
	"strings"

	"github.com/zenon-network/go-zenon/chain"
	g "github.com/zenon-network/go-zenon/chain/genesis/mock"
	"github.com/zenon-network/go-zenon/chain/nom"
	"github.com/zenon-network/go-zenon/common/types"
	"github.com/zenon-network/go-zenon/consensus"
	"github.com/zenon-network/go-zenon/rpc"
	"github.com/zenon-network/go-zenon/rpc/api"
	"github.com/zenon-network/go-zenon/rpc/api/embedded"
	"github.com/zenon-network/go-zenon/verifier"
	"github.com/zenon-network/go-zenon/vm/embedded/definition"
	"github.com/zenon-network/go-zenon/zenon"
)

// ---------------------------------------------------------------------------------------------------
// rpc stream, statelessness family (C18: "every ledger and embedded-contract query returns exactly what the chain
// contains AT THE FRONTIER").
//
// A node creates its API objects ONCE, at start-up, and serves every request of its lifetime through them. So does this
// family: ONE set of API objects (rpc.GetApis ledger + embedded, exactly what the node registers) is created on the
// genesis chain and then asked, at every observation point of a history that grows, is reorganised (chain.RollbackTo by
// 1..5 momentums, then a DIFFERENT branch grows back to and beyond the old height; on a follower: a longer branch
// delivered through ChainBridge.InsertChain) and grows again. At every observation point
//   (a) every method of every service whose parameters can be filled from a catalogue (addresses, hashes of the current
//       and of every abandoned branch, token standards, names, heights / counts, pages, timestamps — found by reflection)
//       is asked through the long-lived object and through an object created NOW: the two answers (JSON) must be equal —
//       an API object holds no state of its own about the chain;
//   (b) the momentum getters of the ledger API (by height, by page, detailed, by hash, frontier) are compared, through
//       both objects, with the momentum store of the current frontier: hash, previous hash, height, timestamp, content,
//       producer of every height asked; the blocks of the detailed answer are the blocks of the store's content, confirmed
//       by that very momentum;
//   (c) every momentum hash of an abandoned branch is unknown to getMomentumByHash and every account block that only the
//       abandoned branch confirmed is unknown to getAccountBlockByHash;
//   (d) the cross-getter / contract-storage statement of s_rpc_xgetters.go holds for the long-lived objects.
// ---------------------------------------------------------------------------------------------------

type chainZenon struct {
	zenon.Zenon
	ch   chain.Chain
	cons consensus.Consensus
}

func (z chainZenon) Chain() chain.Chain             { return z.ch }
func (z chainZenon) Consensus() consensus.Consensus { return z.cons }

type rpcSvc struct {
	ns string
	v  reflect.Value
}
type rpcSvcs []rpcSvc

// rpcServicesOf: the services a node registers (the pillar API in its synchronous variant: the node's variant refreshes
// weights and statistics in the background at most every five minutes, which is documented staleness, not judged here)
func rpcServicesOf(z zenon.Zenon) rpcSvcs {
	var out rpcSvcs
	for _, svc := range rpc.GetApis(z, nil, "ledger", "embedded") {
		service := svc.Service
		if svc.Namespace == "embedded.pillar" {
			service = embedded.NewPillarApi(z, true)
		}
		out = append(out, rpcSvc{svc.Namespace, reflect.ValueOf(service)})
	}
	return out
}

func (s rpcSvcs) get(ns string) (reflect.Value, bool) {
	for _, x := range s {
		if x.ns == ns {
			return x.v, true
		}
	}
	return reflect.Value{}, false
}

// call: method by its RPC name (first letter lower case); the answer as the JSON a client sees, or "error: …"
func (s rpcSvcs) call(ns, method string, args ...interface{}) (string, bool) {
	v, ok := s.get(ns)
	if !ok {
		return "harness: no service " + ns, false
	}
	m := v.MethodByName(strings.ToUpper(method[:1]) + method[1:])
	if !m.IsValid() {
		return "harness: no method " + ns + "." + method, false
	}
	in := make([]reflect.Value, len(args))
	for i, a := range args {
		in[i] = reflect.ValueOf(a)
	}
	return callJSON(m, in)
}

func callJSON(m reflect.Value, in []reflect.Value) (ans string, ok bool) {
	if p := safely(func() {
		r := m.Call(in)
		if len(r) == 2 && !r[1].IsNil() {
			ans = "error: " + firstLine(fmt.Sprint(r[1].Interface()))
			return
		}
		if len(r) == 1 && r[0].Type().Implements(reflect.TypeOf((*error)(nil)).Elem()) {
			ans = "error-only: " + fmt.Sprint(r[0].Interface())
			return
		}
		b, err := json.Marshal(r[0].Interface())
		if err != nil {
			ans = "unmarshalable: " + firstLine(err.Error())
			return
		}
		ans, ok = string(b), true
	}); p != "" {
		return "panic: " + firstLine(p), false
	}
	return ans, ok
}

// ---- the catalogue of arguments

type rpcCat struct {
	addrs  []types.Address
	hashes []types.Hash
	zts    []types.ZenonTokenStandard
	strs   []string
	u64s   []uint64
	u32s   []uint32
	u8s    []uint8
	i64s   []int64
	ranges [][2]uint64 // (height, count)
	pages  [][2]uint32 // (index, size)
}

// rpcMemory: what earlier observation points of the history have seen (hashes of branches that may be abandoned by now)
type rpcMemory struct {
	hashes []types.Hash
	seenH  map[types.Hash]bool
	zts    []types.ZenonTokenStandard
	seenZ  map[types.ZenonTokenStandard]bool
}

func (m *rpcMemory) addHash(h types.Hash) {
	if m.seenH == nil {
		m.seenH = map[types.Hash]bool{}
	}
	if !m.seenH[h] && len(m.hashes) < 60 {
		m.seenH[h] = true
		m.hashes = append(m.hashes, h)
	}
}
func (m *rpcMemory) addZts(z types.ZenonTokenStandard) {
	if m.seenZ == nil {
		m.seenZ = map[types.ZenonTokenStandard]bool{}
	}
	if !m.seenZ[z] && len(m.zts) < 12 {
		m.seenZ[z] = true
		m.zts = append(m.zts, z)
	}
}

func buildRpcCat(ch chain.Chain, mem *rpcMemory) *rpcCat {
	st := ch.GetFrontierMomentumStore()
	fr, _ := st.GetFrontierMomentum()
	H := fr.Height
	cat := &rpcCat{}
	var unknown types.Address
	copy(unknown[:], []byte{0, 7, 7, 7, 7})
	cat.addrs = []types.Address{g.User1.Address, g.User2.Address, g.User3.Address, g.User4.Address, g.Pillar1.Address, types.TokenContract, types.PlasmaContract, unknown}
	// the last momentums and the blocks they confirm; the frontier blocks of some accounts (pool included)
	for h := H; h >= 1 && h+6 > H; h-- {
		if m, _ := st.GetMomentumByHeight(h); m != nil {
			mem.addHash(m.Hash)
			for k, hd := range m.Content {
				if k < 3 {
					mem.addHash(hd.Hash)
				}
			}
		}
	}
	for _, a := range cat.addrs[:6] {
		if b, _ := ch.GetFrontierAccountStore(a).Frontier(); b != nil {
			mem.addHash(b.Hash)
		}
	}
	cat.hashes = append([]types.Hash{{}, types.NewHash([]byte("nothing"))}, mem.hashes...)
	if tl, err := definition.GetTokenInfoList(xgStorage(ch, types.TokenContract)); err == nil {
		for _, t := range tl {
			mem.addZts(t.TokenStandard)
		}
	}
	mem.addZts(types.ZnnTokenStandard)
	mem.addZts(types.QsrTokenStandard)
	var noZts types.ZenonTokenStandard
	copy(noZts[:], []byte("no-such-ts"))
	cat.zts = append([]types.ZenonTokenStandard{noZts}, mem.zts...)
	cat.strs = []string{"no-such-name", g.Pillar1Name, g.Pillar2Name, g.User1.Address.String(), "0xb794f5ea0ba39494ce839613fffba74279579268"}
	cat.u64s = []uint64{0, 1, 2}
	cat.u32s = []uint32{0, 1, bridgeNetClass, bridgeChainId}
	cat.u8s = []uint8{0, 1}
	ts := int64(fr.TimestampUnix)
	cat.i64s = []int64{0, ts - 25, ts, ts + 100}
	lo := func(k uint64) uint64 {
		if H > k {
			return H - k
		}
		return 1
	}
	cat.ranges = [][2]uint64{{1, 1024}, {lo(7), 10}, {lo(2), 5}, {H, 1}, {H + 1, 3}, {lo(H / 2), 4}}
	cat.pages = [][2]uint32{{0, 1024}, {0, 3}, {1, 3}, {0, 1}, {2, 2}}
	return cat
}

func (cat *rpcCat) forType(t reflect.Type) []reflect.Value {
	var out []reflect.Value
	add := func(v interface{}) { out = append(out, reflect.ValueOf(v).Convert(t)) }
	switch {
	case t == reflect.TypeOf(types.Address{}):
		for _, a := range cat.addrs {
			add(a)
		}
	case t == reflect.TypeOf(types.Hash{}):
		for _, h := range cat.hashes {
			add(h)
		}
	case t == reflect.TypeOf(types.ZenonTokenStandard{}):
		for _, z := range cat.zts {
			add(z)
		}
	case t == reflect.TypeOf([]types.Hash{}):
		add(cat.hashes)
	case t.Kind() == reflect.String:
		for _, s := range cat.strs {
			add(s)
		}
	case t.Kind() == reflect.Uint64:
		for _, v := range cat.u64s {
			add(v)
		}
	case t.Kind() == reflect.Uint32:
		for _, v := range cat.u32s {
			add(v)
		}
	case t.Kind() == reflect.Uint8:
		for _, v := range cat.u8s {
			add(v)
		}
	case t.Kind() == reflect.Int64:
		for _, v := range cat.i64s {
			add(v)
		}
	}
	return out
}

type rpcQuestion struct {
	svc, meth int
	name      string
	args      []reflect.Value
}

func argLabel(a reflect.Value) string {
	switch x := a.Interface().(type) {
	case types.Address:
		return addrName(x)
	case types.Hash:
		return h8(x)
	case []types.Hash:
		return fmt.Sprintf("[%d hashes]", len(x))
	default:
		return fmt.Sprintf("%v", x)
	}
}

// rpcQuestions: every method of every service with every (capped) combination of catalogue arguments. Two trailing uint32
// are (pageIndex, pageSize), two trailing uint64 are (height, count); methods with a parameter the catalogue cannot fill
// (the block of publishRawTransaction, the parameter object of getRequiredPoWForAccountBlock) are not questions.
func rpcQuestions(svcs rpcSvcs, cat *rpcCat, methodsSeen map[string]bool) []rpcQuestion {
	const capPerMethod = 40
	u32, u64 := reflect.TypeOf(uint32(0)), reflect.TypeOf(uint64(0))
	var out []rpcQuestion
	for si, svc := range svcs {
		t := svc.v.Type()
		for mi := 0; mi < t.NumMethod(); mi++ {
			meth := t.Method(mi)
			ft := meth.Func.Type()
			ni := ft.NumIn()
			if ft.NumOut() != 2 || meth.Name == "String" {
				continue
			}
			lead := ni - 1 // parameters without the receiver
			var tails [][]reflect.Value
			switch {
			case lead >= 2 && ft.In(ni-1) == u32 && ft.In(ni-2) == u32:
				lead -= 2
				for _, p := range cat.pages {
					tails = append(tails, []reflect.Value{reflect.ValueOf(p[0]), reflect.ValueOf(p[1])})
				}
			case lead >= 2 && ft.In(ni-1) == u64 && ft.In(ni-2) == u64:
				lead -= 2
				for _, p := range cat.ranges {
					tails = append(tails, []reflect.Value{reflect.ValueOf(p[0]), reflect.ValueOf(p[1])})
				}
			default:
				tails = [][]reflect.Value{{}}
			}
			combos := [][]reflect.Value{{}}
			feasible := true
			for p := 1; p <= lead; p++ {
				cands := cat.forType(ft.In(p))
				if len(cands) == 0 {
					feasible = false
					break
				}
				var next [][]reflect.Value
				for _, c := range combos {
					for _, cand := range cands {
						next = append(next, append(append([]reflect.Value{}, c...), cand))
					}
				}
				combos = next
			}
			if !feasible {
				continue
			}
			var all [][]reflect.Value
			for _, c := range combos {
				for _, tl := range tails {
					all = append(all, append(append([]reflect.Value{}, c...), tl...))
				}
			}
			// capped by a fixed stride (no random draw: the same questions at every observation point)
			stride := 1
			if len(all) > capPerMethod {
				stride = (len(all) + capPerMethod - 1) / capPerMethod
			}
			mname := strings.ToLower(meth.Name[:1]) + meth.Name[1:]
			if methodsSeen != nil {
				methodsSeen[svc.ns+"."+mname] = true
			}
			for k := 0; k < len(all); k += stride {
				// (stride and the number of tails are often multiples of each other: shift by the row so that every tail is met)
				idx := k + (k/stride)%stride
				if idx >= len(all) {
					idx = k
				}
				args := all[idx]
				lab := make([]string, len(args))
				for i, a := range args {
					lab[i] = argLabel(a)
				}
				out = append(out, rpcQuestion{si, mi, fmt.Sprintf("%s.%s(%s)", svc.ns, mname, strings.Join(lab, ",")), args})
			}
		}
	}
	return out
}

func (q rpcQuestion) ask(svcs rpcSvcs) string {
	ans, _ := callJSON(svcs[q.svc].v.Method(q.meth), q.args)
	return ans
}

// ---- (b) the momentum getters of the ledger API against the momentum store of the frontier

func expectMomentumJSON(m *nom.Momentum) string {
	if m == nil {
		return "null"
	}
	b, _ := json.Marshal(&api.Momentum{Momentum: m, Producer: m.Producer()})
	return string(b)
}

func ledgerMomentumTruth(ch chain.Chain, l *api.LedgerApi, who string, cat *rpcCat, fail func(string, ...interface{})) {
	st := ch.GetFrontierMomentumStore()
	fr, err := st.GetFrontierMomentum()
	if err != nil {
		return
	}
	H := fr.Height
	// (a momentum without data is read back with nil or with empty data depending on the reader: one JSON form for both)
	js := func(v interface{}) string {
		b, _ := json.Marshal(v)
		return strings.ReplaceAll(string(b), `"data":null`, `"data":""`)
	}
	reported := 0
	bad := func(format string, a ...interface{}) {
		if reported++; reported <= 2 {
			fail("C18: %s: "+format, append([]interface{}{who}, a...)...)
		}
	}
	checkList := func(call string, list []*api.Momentum, want []uint64, count int) {
		if uint64(count) != H {
			bad("%s reports count=%d, the frontier of the momentum store is at height %d", call, count, H)
		}
		if len(list) != len(want) {
			bad("%s returns %d momentums, the chain of height %d holds %d in that range", call, len(list), H, len(want))
			return
		}
		for i, m := range list {
			ref, _ := st.GetMomentumByHeight(want[i])
			if ref == nil {
				bad("%s: the store holds no momentum at height %d", call, want[i])
				return
			}
			if got, exp := js(m), js(json.RawMessage(expectMomentumJSON(ref))); got != exp {
				what := "content"
				if m.Momentum != nil && m.Hash != ref.Hash {
					what = "hash"
				}
				bad("%s answers at height %d a momentum whose %s is not the chain's: the call returns %.300s — the momentum store of the frontier (height %d) holds %.300s", call, want[i], what, got, H, exp)
				return
			}
		}
	}
	for _, r := range cat.ranges {
		h, cnt := r[0], r[1]
		var want []uint64
		for k := uint64(0); k < cnt && h+k <= H; k++ {
			want = append(want, h+k)
		}
		var res *api.MomentumList
		var err error
		if p := safely(func() { res, err = l.GetMomentumsByHeight(h, cnt) }); p != "" || err != nil || res == nil {
			bad("getMomentumsByHeight(%d,%d) fails: %v %s", h, cnt, err, p)
			continue
		}
		checkList(fmt.Sprintf("ledger.getMomentumsByHeight(%d,%d)", h, cnt), res.List, want, res.Count)
		var det *api.DetailedMomentumList
		if p := safely(func() { det, err = l.GetDetailedMomentumsByHeight(h, cnt) }); p != "" || err != nil || det == nil {
			bad("getDetailedMomentumsByHeight(%d,%d) fails: %v %s", h, cnt, err, p)
			continue
		}
		call := fmt.Sprintf("ledger.getDetailedMomentumsByHeight(%d,%d)", h, cnt)
		var ms []*api.Momentum
		for _, d := range det.List {
			ms = append(ms, d.Momentum)
		}
		checkList(call, ms, want, det.Count)
		if len(det.List) != len(want) {
			continue
		}
		for i, d := range det.List {
			ref, _ := st.GetMomentumByHeight(want[i])
			if ref == nil {
				continue
			}
			var got, exp []string
			for _, b := range d.AccountBlocks {
				got = append(got, fmt.Sprintf("%s/%d/%s", addrName(b.Address), b.Height, h8(b.Hash)))
				if b.ConfirmationDetail == nil || b.ConfirmationDetail.MomentumHash != ref.Hash || b.ConfirmationDetail.MomentumHeight != ref.Height {
					bad("%s lists under momentum %d:%s block %s whose confirmation detail is %s", call, ref.Height, h8(ref.Hash), h8(b.Hash), js(b.ConfirmationDetail))
				}
			}
			for _, hd := range ref.Content {
				exp = append(exp, fmt.Sprintf("%s/%d/%s", addrName(hd.Address), hd.Height, h8(hd.Hash)))
			}
			if strings.Join(got, " ") != strings.Join(exp, " ") {
				bad("%s lists under height %d the blocks [%s]; the momentum %s of the chain confirms [%s]", call, want[i], strings.Join(got, " "), h8(ref.Hash), strings.Join(exp, " "))
			}
		}
	}
	for _, p := range cat.pages {
		i, sz := p[0], p[1]
		var want []uint64
		for q := uint64(i) * uint64(sz); q < uint64(i)*uint64(sz)+uint64(sz) && q < H; q++ {
			want = append(want, H-q)
		}
		var res *api.MomentumList
		var err error
		if p := safely(func() { res, err = l.GetMomentumsByPage(i, sz) }); p != "" || err != nil || res == nil {
			bad("getMomentumsByPage(%d,%d) fails: %v %s", i, sz, err, p)
			continue
		}
		checkList(fmt.Sprintf("ledger.getMomentumsByPage(%d,%d)", i, sz), res.List, want, res.Count)
	}
	if m, err := l.GetFrontierMomentum(); err != nil || js(m) != js(json.RawMessage(expectMomentumJSON(fr))) {
		bad("ledger.getFrontierMomentum answers %.200s (%v), the frontier of the store is %d:%s", js(m), err, H, h8(fr.Hash))
	}
	for _, h := range cat.hashes {
		ref, _ := st.GetMomentumByHash(h)
		m, err := l.GetMomentumByHash(h)
		got := "null"
		if m != nil && m.Momentum != nil {
			got = js(m)
		}
		if err != nil || got != js(json.RawMessage(expectMomentumJSON(ref))) {
			bad("ledger.getMomentumByHash(%s) answers %.200s (%v), the store of the frontier holds %.200s", h8(h), got, err, expectMomentumJSON(ref))
		}
	}
}

// ---- the observer of one history

type rpcObserver struct {
	c       *Ctx
	id      int
	what    string // family name in messages
	ch      chain.Chain
	z       zenon.Zenon
	old     rpcSvcs
	mem     *rpcMemory
	events  []string
	fails   int
	methods map[string]bool
	// abandoned: momentum hash -> height, block hash -> "address/height" of branches the chain has left
	abMom   map[types.Hash]uint64
	abBlock map[types.Hash]string
}

func newRpcObserver(c *Ctx, id int, what string, z zenon.Zenon) *rpcObserver {
	return &rpcObserver{c: c, id: id, what: what, ch: z.Chain(), z: z, old: rpcServicesOf(z), mem: &rpcMemory{}, methods: map[string]bool{},
		abMom: map[types.Hash]uint64{}, abBlock: map[types.Hash]string{}}
}

func (o *rpcObserver) event(format string, a ...interface{}) {
	o.events = append(o.events, fmt.Sprintf(format, a...))
}
func (o *rpcObserver) history() string {
	ev := o.events
	if len(ev) > 14 {
		ev = append([]string{"…"}, ev[len(ev)-14:]...)
	}
	return strings.Join(ev, "; ")
}
func (o *rpcObserver) fail(format string, a ...interface{}) {
	if o.fails++; o.fails <= 5 {
		o.c.Fail("rpc run=%d %s: %s; history: API objects created at genesis; %s", o.id, o.what, fmt.Sprintf(format, a...), o.history())
	}
}

// branch: the momentums (and the blocks they confirm) above `above` on the current chain
func (o *rpcObserver) branch(above uint64) (moms map[types.Hash]uint64, blocks map[types.Hash]string) {
	moms, blocks = map[types.Hash]uint64{}, map[types.Hash]string{}
	st := o.ch.GetFrontierMomentumStore()
	H := st.Identifier().Height
	for h := above + 1; h <= H; h++ {
		if m, _ := st.GetMomentumByHeight(h); m != nil {
			moms[m.Hash] = h
			for _, hd := range m.Content {
				blocks[hd.Hash] = fmt.Sprintf("%s/%d", addrName(hd.Address), hd.Height)
			}
		}
	}
	return
}

// left: called after the chain was switched; `moms` / `blocks` describe the branch as it was before
func (o *rpcObserver) left(moms map[types.Hash]uint64, blocks map[types.Hash]string) (abandoned int) {
	st := o.ch.GetFrontierMomentumStore()
	for h, ht := range moms {
		if m, _ := st.GetMomentumByHash(h); m == nil {
			o.abMom[h] = ht
			o.mem.addHash(h)
			abandoned++
		}
	}
	for h, s := range blocks {
		if b, _ := st.GetAccountBlockByHash(h); b == nil {
			o.abBlock[h] = s
		}
	}
	// (a block of an abandoned branch may be confirmed again later)
	for h := range o.abBlock {
		if b, _ := st.GetAccountBlockByHash(h); b != nil {
			delete(o.abBlock, h)
		}
	}
	return
}

func (o *rpcObserver) observe(label string) {
	c := o.c
	H := o.ch.GetFrontierMomentumStore().Identifier().Height
	o.event("asked at height %d (%s)", H, label)
	fresh := rpcServicesOf(o.z)
	cat := buildRpcCat(o.ch, o.mem)
	// (a) long-lived object == object created now, for every question
	qs := rpcQuestions(o.old, cat, o.methods)
	diff := 0
	for _, q := range qs {
		a, b := q.ask(o.old), q.ask(fresh)
		c.Hit("stateless-question")
		if strings.HasPrefix(a, "panic: ") {
			o.fail("C18: %s panicked: %s", q.name, a)
			continue
		}
		if a != b {
			if diff++; diff <= 2 {
				d := 0
				for d < len(a) && d < len(b) && a[d] == b[d] {
					d++
				}
				from := d - 60
				if from < 0 {
					from = 0
				}
				o.fail("C18: stateless: %s asked at height %d through the API object that has served the node since start-up answers …%.260s; the same question through an API object created now answers …%.260s (first difference at byte %d)", q.name, H, a[from:], b[from:], d)
			}
		}
	}
	c.Emit("#rpc-stateless run=%d %s height=%d questions=%d differing=%d", o.id, nameTok(label), H, len(qs), diff)
	// (b) the ledger's momentum getters against the store, through both objects
	for _, w := range []struct {
		who  string
		svcs rpcSvcs
	}{{"through the API object created at start-up", o.old}, {"through an API object created now", fresh}} {
		if v, ok := w.svcs.get("ledger"); ok {
			if l, ok := v.Interface().(*api.LedgerApi); ok {
				ledgerMomentumTruth(o.ch, l, w.who, cat, o.fail)
				c.Hit("stateless-ledger-truth")
				// (c) abandoned branches are unknown (a contract block of an abandoned branch is generated again, with the same
				// hash, when the new branch confirms the same call: what the store of the frontier holds now decides)
				st := o.ch.GetFrontierMomentumStore()
				for h, ht := range o.abMom {
					if ref, _ := st.GetMomentumByHash(h); ref != nil {
						continue
					}
					if m, err := l.GetMomentumByHash(h); err == nil && m != nil && m.Momentum != nil {
						o.fail("C18: %s ledger.getMomentumByHash(%s) still answers the momentum of height %d of a branch the chain has left", w.who, h8(h), ht)
						break
					}
					c.Hit("stateless-abandoned-momentum-unknown")
				}
				for h, s := range o.abBlock {
					if ref, _ := st.GetAccountBlockByHash(h); ref != nil {
						c.Hit("stateless-abandoned-block-confirmed-again")
						continue
					}
					if b, err := l.GetAccountBlockByHash(h); err == nil && b != nil {
						o.fail("C18: %s ledger.getAccountBlockByHash(%s) still answers block %s that only an abandoned branch confirmed", w.who, h8(h), s)
						break
					}
					c.Hit("stateless-abandoned-block-unknown")
				}
			}
		}
	}
	// (d) cross-getter consistency and contract storage, through the long-lived objects
	xgObserve(c, o.ch, o.old, o.fail, nil, o.mem)
	c.Hit("stateless-observation")
}

func rollbackBy(ch chain.Chain, k uint64) error {
	st := ch.GetFrontierMomentumStore()
	H := st.Identifier().Height
	target, err := st.GetMomentumByHeight(H - k)
	if err != nil || target == nil {
		return fmt.Errorf("no momentum at height %d: %v", H-k, err)
	}
	ins := ch.AcquireInsert("zvh rpc rollback")
	defer ins.Unlock()
	return ch.RollbackTo(ins, target.Identifier())
}

// rpcStatelessHistory: the family on the producing mock node (chain.RollbackTo + a different branch)
func rpcStatelessHistory(c *Ctx, id int) {
	origGate := verifier.ReceiverMismatchEnforcementHeight
	defer func() { verifier.ReceiverMismatchEnforcementHeight = origGate }()
	verifier.ReceiverMismatchEnforcementHeight = 0
	n := NewNode()
	defer n.Stop()
	o := newRpcObserver(c, id, "stateless", n.Z)
	if c.R.Intn(2) == 0 {
		o.observe("genesis")
	}
	produceTraffic(c, n, 20+c.R.Intn(30))
	o.event("generated traffic up to height %d", n.Height())
	o.observe("after growth")
	serial := int64(1)
	rounds := 2 + c.R.Intn(2)
	for r := 0; r < rounds; r++ {
		H := n.Height()
		k := uint64(1 + c.R.Intn(5))
		if k+2 > H {
			k = 1
		}
		moms, blocks := o.branch(H - k)
		if err := rollbackBy(n.Chain(), k); err != nil {
			c.Fail("rpc run=%d stateless: setup: rollback by %d from height %d failed: %v", id, k, H, err)
			return
		}
		o.event("rolled back by %d to height %d", k, H-k)
		c.Hit("stateless-rollback")
		if c.R.Intn(3) == 0 {
			o.left(moms, blocks)
			o.observe("right after the rollback")
		}
		// a different branch: its first momentum confirms a send the abandoned branch never held
		serial++
		if _, err := n.Submit(&nom.AccountBlock{BlockType: nom.BlockTypeUserSend, Address: g.User5.Address, ToAddress: g.User6.Address,
			TokenStandard: types.ZnnTokenStandard, Amount: big.NewInt(1000*int64(id+1) + serial)}); err != nil {
			c.Hit("stateless-branch-send-refused")
		}
		grow := k + uint64(c.R.Intn(4)) // back to the old height and 0..3 beyond
		switch c.R.Intn(3) {
		case 0: // exactly the old height: every height keeps its number, every hash above the fork changes
			grow = k
		case 1: // one below the old height (the node is asked while the new branch is still shorter)
			if k > 1 {
				grow = k - 1
			}
		}
		for n.Height() < H-k+grow {
			if c.R.Intn(2) == 0 {
				produceTraffic(c, n, 1+c.R.Intn(4))
			}
			if n.Height() < H-k+grow {
				if _, err := n.Momentum(); err != nil {
					c.Fail("rpc run=%d stateless: setup: momentum production after the rollback failed: %v", id, err)
					return
				}
			}
		}
		ab := o.left(moms, blocks)
		o.event("a different branch grew to height %d (%d momentums of the old branch abandoned)", n.Height(), ab)
		if ab > 0 {
			c.Hit("stateless-reorganisation")
		} else {
			c.Hit("stateless-reorganisation-same-branch")
		}
		o.observe("after the reorganisation")
		if c.R.Intn(2) == 0 {
			produceTraffic(c, n, 3+c.R.Intn(10))
			o.event("generated traffic up to height %d", n.Height())
			o.observe("after growth")
		}
	}
	c.HitN("stateless-methods-asked", len(o.methods))
	for _, must := range []string{"ledger.getMomentumsByHeight", "ledger.getMomentumsByPage", "ledger.getDetailedMomentumsByHeight", "ledger.getAccountBlocksByHeight",
		"ledger.getAccountBlockByHash", "ledger.getAccountInfoByAddress", "embedded.token.getByZts", "embedded.token.getAll", "embedded.pillar.getByName",
		"embedded.plasma.get", "embedded.accelerator.getProjectById", "embedded.bridge.getNetworkInfo", "embedded.htlc.getById", "embedded.swap.getAssets"} {
		if !o.methods[must] {
			c.Fail("rpc run=%d stateless: harness: %s is not among the questions found by reflection", id, must)
		}
	}
	c.Hit("stateless-history")
}

// rpcStatelessFollower: the family on a node that only receives chains (ChainBridge.InsertChain): it follows branch A,
// is asked, then receives the longer branch B that forks 1..5 momentums below A's tip
func rpcStatelessFollower(c *Ctx, id int) {
	origGate := verifier.ReceiverMismatchEnforcementHeight
	defer func() { verifier.ReceiverMismatchEnforcementHeight = origGate }()
	verifier.ReceiverMismatchEnforcementHeight = 0
	n := NewNode()
	defer n.Stop()
	f, err := newZFollower("")
	if err != nil {
		c.Fail("rpc run=%d stateless-follower: setup: %v", id, err)
		return
	}
	defer f.Destroy()
	var dms []*nom.DetailedMomentum
	n.OnMomentum = func(dm *nom.DetailedMomentum) { dms = append(dms, dm) }
	o := newRpcObserver(c, id, "stateless-follower", chainZenon{ch: f.ch, cons: f.cons})
	// deliver: in batches; the first one holds at least minFirst momentums (a side chain is only accepted once it is longer)
	deliver := func(from, minFirst int) bool {
		batch := wire(dms[from:])
		for len(batch) > 0 {
			k := imin(len(batch), imax(minFirst, 1+c.R.Intn(20)))
			minFirst = 0
			if idx, err := f.InsertChain(batch[:k]); err != nil {
				c.Fail("rpc run=%d stateless-follower: setup: the follower refuses momentum %d of the producer's chain: %v", id, batch[imin(imax(idx, 0), k-1)].Momentum.Height, err)
				return false
			}
			batch = batch[k:]
		}
		return true
	}
	produceTraffic(c, n, 15+c.R.Intn(25))
	if !deliver(0, 0) {
		return
	}
	delivered := len(dms)
	o.event("branch A delivered up to height %d", f.Height())
	o.observe("on branch A")
	for r := 0; r < 2; r++ {
		H := n.Height()
		k := uint64(1 + c.R.Intn(5))
		if k+2 > H {
			k = 1
		}
		moms, blocks := o.branch(H - k)
		if err := rollbackBy(n.Chain(), k); err != nil {
			c.Fail("rpc run=%d stateless-follower: setup: producer rollback failed: %v", id, err)
			return
		}
		dms = dms[:len(dms)-int(k)]
		if _, err := n.Submit(&nom.AccountBlock{BlockType: nom.BlockTypeUserSend, Address: g.User5.Address, ToAddress: g.User6.Address,
			TokenStandard: types.ZnnTokenStandard, Amount: big.NewInt(5000*int64(id+1) + int64(r))}); err != nil {
			c.Hit("stateless-branch-send-refused")
		}
		for n.Height() <= H+uint64(c.R.Intn(3)) {
			if c.R.Intn(2) == 0 {
				produceTraffic(c, n, 1+c.R.Intn(4))
			}
			if _, err := n.Momentum(); err != nil {
				c.Fail("rpc run=%d stateless-follower: setup: momentum production failed: %v", id, err)
				return
			}
		}
		if !deliver(delivered-int(k), int(k)+1) {
			return
		}
		delivered = len(dms)
		if f.ch.GetFrontierMomentumStore().Identifier() != n.Chain().GetFrontierMomentumStore().Identifier() {
			c.Hit("stateless-follower-did-not-switch")
			return
		}
		ab := o.left(moms, blocks)
		o.event("the longer branch B (fork %d below the tip, %d momentums abandoned) delivered through InsertChain up to height %d", k, ab, f.Height())
		if ab > 0 {
			c.Hit("stateless-follower-reorganisation")
		}
		o.observe("after the bridge reorganisation")
	}
	c.Hit("stateless-follower-history")
}
