package main

import (
	"fmt"
	"math/big"
	"os"
	"runtime/debug"
	"sort"
	"strings"
	"time"

	"github.com/inconshreveable/log15"
	"github.com/zenon-network/go-zenon/common"
	"github.com/zenon-network/go-zenon/common/db"
	"github.com/zenon-network/go-zenon/common/types"
	"github.com/zenon-network/go-zenon/consensus/api"
	"github.com/zenon-network/go-zenon/vm/constants"
	"github.com/zenon-network/go-zenon/vm/embedded/definition"
	"github.com/zenon-network/go-zenon/vm/embedded/implementation"
	"github.com/zenon-network/go-zenon/vm/vm_context"
)

// C11 stream `rewards-pure`: the reward arithmetic of vm/constants and vm/embedded/implementation evaluated on the
// real functions. The contract-level functions (computeStakeRewardsForEpoch, computeSentinelRewardsForEpoch,
// computeDetailedPillarReward) run against a context that only provides an in-memory storage, an epoch ticker and the
// consensus statistics chosen by the generator.

type rewardCtx struct {
	vm_context.AccountVmContext // nil: any method not overridden below panics (recovered per operation)
	storage                     db.DB
	ticker                      common.Ticker
	stats                       *api.EpochStats
	delegations                 map[string]*types.PillarDelegationDetail
	balance                     *big.Int
}

func (r *rewardCtx) Storage() db.DB             { return r.storage }
func (r *rewardCtx) EpochTicker() common.Ticker { return r.ticker }
func (r *rewardCtx) Address() *types.Address    { return &types.PillarContract }
func (r *rewardCtx) EpochStats(epoch uint64) (*api.EpochStats, error) {
	return r.stats, nil
}
func (r *rewardCtx) GetBalance(ts types.ZenonTokenStandard) (*big.Int, error) {
	return new(big.Int).Set(r.balance), nil
}
func (r *rewardCtx) GetPillarDelegationsByEpoch(epoch uint64) (map[string]*types.PillarDelegationDetail, error) {
	return r.delegations, nil
}

func newRewardCtx(epoch uint64, start, end int64) *rewardCtx {
	interval := time.Duration(end-start) * time.Second
	st := time.Unix(start, 0).Add(-interval * time.Duration(epoch))
	return &rewardCtx{storage: db.DisableNotFound(db.NewMemDB()), ticker: common.NewTicker(st, interval)}
}

func idxAddress(kind byte, i int) types.Address {
	var a types.Address
	a[0] = 0 // user address
	a[1] = kind
	a[18] = byte(i >> 8)
	a[19] = byte(i)
	return a
}

func guard(f func() string) (res string) {
	defer func() {
		if r := recover(); r != nil {
			if os.Getenv("ZVH_DEBUG_PANIC") != "" {
				fmt.Fprintf(os.Stderr, "panic: %v\n%s\n", r, debug.Stack())
			}
			res = "panic"
		}
	}()
	return f()
}

func bigSum(xs []*big.Int) *big.Int {
	s := big.NewInt(0)
	for _, x := range xs {
		s.Add(s, x)
	}
	return s
}

func randEpoch(c *Ctx) uint64 {
	switch c.R.Intn(6) {
	case 0:
		return uint64(c.R.Intn(12)) * 30
	case 1:
		return uint64(c.R.Intn(12))*30 + 29
	case 2:
		return randU64(c)
	default:
		return uint64(c.R.Intn(500))
	}
}

// epoch window [start, end) in unix seconds
func randWindow(c *Ctx) (int64, int64) {
	start := int64(1637755200) + int64(c.R.Intn(2000))*86400
	durs := []int64{86400, 3600, 100, 10, 1, 86400 * 7}
	return start, start + durs[c.R.Intn(len(durs))]
}

// a timestamp relative to the window: before, at the edges, inside, after, or zero
func randTimeAround(c *Ctx, start, end int64) int64 {
	d := end - start
	switch c.R.Intn(9) {
	case 0:
		return 0
	case 1:
		return start
	case 2:
		return end
	case 3:
		return start - 1 - int64(c.R.Intn(100000))
	case 4:
		return end + 1 + int64(c.R.Intn(100000))
	case 5:
		return start + d/10 + int64(c.R.Intn(3)) - 1 // around the 90% sentinel threshold
	case 6:
		return end - d/10 + int64(c.R.Intn(3)) - 1
	default:
		return start + c.R.Int63n(d+1)
	}
}

func randAmount(c *Ctx) *big.Int {
	switch c.R.Intn(6) {
	case 0:
		return big.NewInt(0)
	case 1:
		return big.NewInt(int64(1 + c.R.Intn(3)))
	case 2:
		return new(big.Int).Mul(big.NewInt(int64(1+c.R.Intn(100000))), big.NewInt(constants.Decimals))
	case 3:
		return new(big.Int).Lsh(big.NewInt(1), uint(c.R.Intn(120)))
	default:
		return big.NewInt(c.R.Int63n(1 << 50))
	}
}

func init() {
	register("rewards-pure", func(c *Ctx) {
		log15.Root().SetHandler(log15.DiscardHandler()) // the contracts log every reward at debug level
		// ---- emission tables: every epoch 0..400, tick boundaries far out, random uint64 epochs
		for e := uint64(0); e <= 400; e++ {
			rewardConsts(c, e)
		}
		for _, e := range []uint64{1<<31 - 1, 1 << 31, 1<<32 - 1, 1 << 32, 1<<63 - 1, 1 << 63, 1<<64 - 1, 30*(1<<59) - 1, 30 * (1 << 59)} {
			rewardConsts(c, e)
		}
		for i := 0; i < c.N/10+1; i++ {
			rewardConsts(c, randEpoch(c))
		}
		// ---- weighted stake / sentinel / liquidity stake of one entry over one epoch window
		for i := 0; i < c.N; i++ {
			start, end := randWindow(c)
			s, r := randTimeAround(c, start, end), randTimeAround(c, start, end)
			if c.R.Intn(3) == 0 {
				r = 0
			}
			amt := randAmount(c)
			switch c.R.Intn(3) {
			case 0:
				v := guard(func() string {
					return implementation.GetWeightedStakeVerif(&definition.StakeInfo{StartTime: s, RevokeTime: r, WeightedAmount: amt}, start, end).String()
				})
				c.Emit("wstake %d %d %s %d %d | %s", s, r, amt, start, end, v)
				c.Hit("wstake")
			case 1:
				v := guard(func() string {
					return implementation.GetWeightedLiquidityStakeVerif(&definition.LiquidityStakeEntry{StartTime: s, RevokeTime: r, WeightedAmount: amt}, start, end).String()
				})
				c.Emit("wliq %d %d %s %d %d | %s", s, r, amt, start, end, v)
				c.Hit("wliq")
			default:
				v := guard(func() string {
					return implementation.GetWeightedSentinelVerif(&definition.SentinelInfo{RegistrationTimestamp: s, RevokeTimestamp: r}, start, end).String()
				})
				c.Emit("wsentinel %d %d %d %d | %s", s, r, start, end, v)
				c.Hit("wsentinel-" + v)
			}
		}
		// ---- pillars: computePillarRewardForEpoch on random epoch statistics
		for i := 0; i < c.N/4+1; i++ {
			pillarEpochCase(c)
		}
		// ---- contract level: stake, sentinel, detailed pillar reward on an in-memory storage
		for i := 0; i < c.N/10+1; i++ {
			stakeEpochCase(c)
			sentinelEpochCase(c)
			pillarDetailCase(c)
			liquidityEpochCase(c)
		}
		// ---- consensus points: period points -> epoch point on real, cached storage.Point objects
		for i := 0; i < c.N/10+1; i++ {
			pointsFoldCase(c)
		}
	})
}

func rewardConsts(c *Ctx, e uint64) {
	var vals []*big.Int
	res := guard(func() string {
		zn := big.NewInt(constants.NetworkZnnRewardPerEpoch(e))
		qn := big.NewInt(constants.NetworkQsrRewardPerEpoch(e))
		d, p := constants.PillarRewardPerMomentum(e)
		sz, sq := constants.SentinelRewardForEpoch(e)
		lz, lq := constants.LiquidityRewardForEpoch(e)
		st := constants.StakeQsrRewardPerEpoch(e)
		vals = []*big.Int{zn, qn, d, p, sz, sq, lz, lq, st}
		ss := make([]string, len(vals))
		for i, v := range vals {
			ss[i] = v.String()
		}
		return strings.Join(ss, " ")
	})
	c.Emit("reward-consts %d | %s", e, res)
	if res == "panic" {
		c.Fail("reward tables: lookup for epoch %d panics", e)
		return
	}
	c.Hit(fmt.Sprintf("tick-%02d", minU64(e/constants.RewardTickDurationInEpochs, 12)))
	// model-free monitor: the contracts' pieces never exceed the network emission of the epoch, per coin
	mpe := big.NewInt(constants.MomentumsPerEpoch)
	znn := new(big.Int).Add(new(big.Int).Mul(vals[2], mpe), new(big.Int).Mul(vals[3], mpe))
	znn.Add(znn, vals[4]).Add(znn, vals[6])
	qsr := bigSum([]*big.Int{vals[8], vals[5], vals[7]})
	for i, v := range vals {
		if v.Sign() < 0 {
			c.Fail("reward tables: negative amount for epoch %d (value %d = %s)", e, i, v)
		}
	}
	if znn.Cmp(vals[0]) > 0 {
		c.Fail("reward tables: ZNN pieces of epoch %d sum to %s, more than the network emission %s", e, znn, vals[0])
	}
	if qsr.Cmp(vals[1]) > 0 {
		c.Fail("reward tables: QSR pieces of epoch %d sum to %s, more than the network emission %s", e, qsr, vals[1])
	}
}

func minU64(a, b uint64) uint64 {
	if a < b {
		return a
	}
	return b
}

type pstat struct {
	name               string
	produced, expected uint64
	weight             *big.Int
}

// random epoch statistics; valid = produced <= expected for all and sum of weights = total weight
func randEpochStats(c *Ctx) (epoch uint64, stats []pstat, totalWeight *big.Int, valid bool) {
	epoch = uint64(c.R.Intn(400))
	n := 1 + c.R.Intn(8)
	if c.R.Intn(10) == 0 {
		n = 20 + c.R.Intn(80)
	}
	valid = true
	slots := uint64(constants.MomentumsPerEpoch)
	if c.R.Intn(4) == 0 {
		slots = uint64(1 + c.R.Intn(200))
	}
	stats = make([]pstat, n)
	sum := big.NewInt(0)
	left := slots
	for i := range stats {
		exp := left / uint64(n-i)
		if c.R.Intn(3) == 0 && left > 0 {
			exp = uint64(c.R.Int63n(int64(left) + 1))
		}
		if c.R.Intn(12) == 0 {
			exp = 0
		}
		left -= exp
		var prod uint64
		switch c.R.Intn(5) {
		case 0:
			prod = 0
		case 1, 2:
			prod = exp
		default:
			prod = uint64(c.R.Int63n(int64(exp) + 1))
		}
		w := randAmount(c)
		stats[i] = pstat{name: fmt.Sprintf("p%03d", i), produced: prod, expected: exp, weight: w}
		sum.Add(sum, w)
	}
	totalWeight = sum
	switch c.R.Intn(12) {
	case 0: // invalid: a pillar produced more than expected
		i := c.R.Intn(n)
		stats[i].produced = stats[i].expected + 1 + uint64(c.R.Intn(5))
		valid = false
	case 1: // invalid: total weight smaller than the sum
		if sum.Sign() > 0 {
			totalWeight = new(big.Int).Quo(sum, big.NewInt(2))
			valid = totalWeight.Cmp(sum) >= 0
		}
	case 2: // total weight larger than the sum: still fine for the bound
		totalWeight = new(big.Int).Add(sum, randAmount(c))
	case 3:
		totalWeight = big.NewInt(0)
		valid = sum.Sign() == 0
	}
	return
}

func mkStats(epoch uint64, stats []pstat, totalWeight *big.Int) *api.EpochStats {
	es := &api.EpochStats{Epoch: epoch, Pillars: map[string]*api.EpochPillarStats{}, TotalWeight: totalWeight}
	for _, s := range stats {
		es.Pillars[s.name] = &api.EpochPillarStats{Epoch: epoch, BlockNum: s.produced, ExceptedBlockNum: s.expected, Weight: s.weight, Name: s.name}
	}
	return es
}

func statsArgs(stats []pstat) string {
	ss := make([]string, 0, len(stats)*3)
	for _, s := range stats {
		ss = append(ss, fmt.Sprint(s.produced), fmt.Sprint(s.expected), s.weight.String())
	}
	return strings.Join(ss, " ")
}

func pillarEpochCase(c *Ctx) {
	epoch, stats, tw, valid := randEpochStats(c)
	es := mkStats(epoch, stats, tw)
	totals := big.NewInt(0)
	res := guard(func() string {
		ss := make([]string, 0, len(stats)*3)
		for _, s := range stats {
			r := implementation.ComputePillarRewardForEpochVerif(es, s.name)
			ss = append(ss, r.DelegationReward.String(), r.BlockReward.String(), r.TotalReward.String())
			totals.Add(totals, r.TotalReward)
		}
		return strings.Join(ss, " ")
	})
	c.Emit("pillar-epoch %d %s %d %s | %s", epoch, tw, len(stats), statsArgs(stats), res)
	if res == "panic" {
		c.Fail("computePillarRewardForEpoch panics on epoch %d stats %s", epoch, statsArgs(stats))
		return
	}
	// model-free monitor: sum of pillar totals <= (delegation + producing per momentum) * expected momentums
	if valid {
		c.Hit("pillar-epoch-valid")
		d, p := constants.PillarRewardPerMomentum(epoch)
		var e uint64
		for _, s := range stats {
			e += s.expected
		}
		bound := new(big.Int).Mul(new(big.Int).Add(d, p), new(big.Int).SetUint64(e))
		if totals.Cmp(bound) > 0 {
			c.Fail("pillar rewards of epoch %d sum to %s, more than the emission for %d expected momentums %s (total weight %s, stats %s)",
				epoch, totals, e, bound, tw, statsArgs(stats))
		}
	} else {
		c.Hit("pillar-epoch-invalid-stats")
	}
}

func stakeEpochCase(c *Ctx) {
	epoch := uint64(c.R.Intn(400))
	start, end := randWindow(c)
	ctx := newRewardCtx(epoch, start, end)
	n := c.R.Intn(9)
	if c.R.Intn(10) == 0 {
		n = 30 + c.R.Intn(60)
	}
	args := []string{}
	for i := 0; i < n; i++ {
		s, r := randTimeAround(c, start, end), randTimeAround(c, start, end)
		if c.R.Intn(2) == 0 {
			r = 0
		}
		amt := randAmount(c)
		var id types.Hash
		id[0] = byte(i)
		info := &definition.StakeInfo{Amount: amt, WeightedAmount: amt, StartTime: s, RevokeTime: r, ExpirationTime: 0,
			StakeAddress: idxAddress(1, i), Id: id}
		common.DealWithErr(info.Save(ctx.storage))
		args = append(args, fmt.Sprint(s), fmt.Sprint(r), amt.String())
	}
	sum := big.NewInt(0)
	res := guard(func() string {
		if err := implementation.ComputeStakeRewardsForEpochVerif(ctx, epoch); err != nil {
			return "err"
		}
		ss := []string{}
		for i := 0; i < n; i++ {
			a := idxAddress(1, i)
			dep, err := definition.GetRewardDeposit(ctx.storage, &a)
			common.DealWithErr(err)
			if dep.Znn.Sign() != 0 {
				return "znn-credited"
			}
			ss = append(ss, dep.Qsr.String())
			sum.Add(sum, dep.Qsr)
		}
		if len(ss) == 0 {
			return "-"
		}
		return strings.Join(ss, " ")
	})
	c.Emit("stake-epoch %d %d %d %d %s | %s", epoch, start, end, n, strings.Join(args, " "), res)
	c.Hit("stake-epoch")
	if res == "panic" || res == "err" || res == "znn-credited" {
		c.Fail("computeStakeRewardsForEpoch: %s on epoch %d window [%d,%d) entries %s", res, epoch, start, end, strings.Join(args, " "))
		return
	}
	if t := constants.StakeQsrRewardPerEpoch(epoch); sum.Cmp(t) > 0 {
		c.Fail("stake rewards of epoch %d sum to %s QSR, more than the epoch's stake emission %s (window [%d,%d) entries %s)",
			epoch, sum, t, start, end, strings.Join(args, " "))
	}
	if sum.Sign() > 0 {
		c.Hit("stake-epoch-paid")
	}
}

func sentinelEpochCase(c *Ctx) {
	epoch := uint64(c.R.Intn(400))
	start, end := randWindow(c)
	ctx := newRewardCtx(epoch, start, end)
	n := c.R.Intn(9)
	if c.R.Intn(10) == 0 {
		n = 30 + c.R.Intn(60)
	}
	args := []string{}
	for i := 0; i < n; i++ {
		s, r := randTimeAround(c, start, end), randTimeAround(c, start, end)
		if c.R.Intn(3) != 0 {
			s = start - int64(c.R.Intn(1000))
		}
		if c.R.Intn(2) == 0 {
			r = 0
		}
		info := &definition.SentinelInfo{SentinelInfoKey: definition.SentinelInfoKey{Owner: idxAddress(2, i)},
			RegistrationTimestamp: s, RevokeTimestamp: r, ZnnAmount: big.NewInt(1), QsrAmount: big.NewInt(1)}
		info.Save(ctx.storage)
		args = append(args, fmt.Sprint(s), fmt.Sprint(r))
	}
	sz, sq := big.NewInt(0), big.NewInt(0)
	res := guard(func() string {
		if err := implementation.ComputeSentinelRewardsForEpochVerif(ctx, epoch); err != nil {
			return "err"
		}
		ss := []string{}
		for i := 0; i < n; i++ {
			a := idxAddress(2, i)
			dep, err := definition.GetRewardDeposit(ctx.storage, &a)
			common.DealWithErr(err)
			ss = append(ss, dep.Znn.String(), dep.Qsr.String())
			sz.Add(sz, dep.Znn)
			sq.Add(sq, dep.Qsr)
		}
		if len(ss) == 0 {
			return "-"
		}
		return strings.Join(ss, " ")
	})
	c.Emit("sentinel-epoch %d %d %d %d %s | %s", epoch, start, end, n, strings.Join(args, " "), res)
	c.Hit("sentinel-epoch")
	if res == "panic" || res == "err" {
		c.Fail("computeSentinelRewardsForEpoch: %s on epoch %d window [%d,%d) entries %s", res, epoch, start, end, strings.Join(args, " "))
		return
	}
	tz, tq := constants.SentinelRewardForEpoch(epoch)
	if sz.Cmp(tz) > 0 || sq.Cmp(tq) > 0 {
		c.Fail("sentinel rewards of epoch %d sum to %s ZNN / %s QSR, more than the epoch's sentinel emission %s / %s (window [%d,%d) entries %s)",
			epoch, sz, sq, tz, tq, start, end, strings.Join(args, " "))
	}
	if sz.Sign() > 0 {
		c.Hit("sentinel-epoch-paid")
	}
}

// computeDetailedPillarReward: epoch stats + registered pillars with their give-percentages + delegations.
// line: pillar-detail <epoch> <totalWeight> <n> {produced expected weight giveBlock giveDelegate nBackers {amount}*}*
//
//	| {creditedToPillar {creditedToBacker}*}*
func pillarDetailCase(c *Ctx) {
	epoch, stats, tw, valid := randEpochStats(c)
	if len(stats) > 12 {
		stats = stats[:12]
		valid = false // weights no longer sum up; only the per-pillar split is monitored
	}
	ctx := newRewardCtx(epoch, 1637755200, 1637755200+86400)
	ctx.stats = mkStats(epoch, stats, tw)
	ctx.delegations = map[string]*types.PillarDelegationDetail{}
	args := []string{}
	nb := make([]int, len(stats))
	for i, s := range stats {
		gb, gd := uint8(c.R.Intn(101)), uint8(c.R.Intn(101))
		switch c.R.Intn(5) {
		case 0:
			gb, gd = 0, 0
		case 1:
			gb, gd = 100, 100
		}
		info := &definition.PillarInfo{Name: s.name, BlockProducingAddress: idxAddress(3, i), RewardWithdrawAddress: idxAddress(4, i),
			StakeAddress: idxAddress(5, i), Amount: big.NewInt(1), RegistrationTime: 1, RevokeTime: 0,
			GiveBlockRewardPercentage: gb, GiveDelegateRewardPercentage: gd, PillarType: 1}
		common.DealWithErr(info.Save(ctx.storage))
		nb[i] = c.R.Intn(5)
		det := &types.PillarDelegationDetail{PillarDelegation: types.PillarDelegation{Name: s.name, Producing: idxAddress(3, i), Weight: s.weight},
			Backers: map[types.Address]*big.Int{}}
		a := []string{fmt.Sprint(s.produced), fmt.Sprint(s.expected), s.weight.String(), fmt.Sprint(gb), fmt.Sprint(gd), fmt.Sprint(nb[i])}
		for j := 0; j < nb[i]; j++ {
			amt := randAmount(c)
			if c.R.Intn(4) == 0 {
				amt = big.NewInt(0)
			}
			det.Backers[idxAddress(byte(10+i), j)] = amt
			a = append(a, amt.String())
		}
		if c.R.Intn(8) != 0 || nb[i] > 0 {
			ctx.delegations[s.name] = det
		} else {
			a[5] = "x" // pillar without a delegation record for the epoch
		}
		args = append(args, strings.Join(a, " "))
	}
	type credit struct {
		pillar  *big.Int
		backers []*big.Int
	}
	credits := make([]credit, len(stats))
	res := guard(func() string {
		if err := implementation.ComputeDetailedPillarRewardVerif(ctx, epoch); err != nil {
			return "err"
		}
		ss := []string{}
		for i := range stats {
			a := idxAddress(4, i)
			dep, err := definition.GetRewardDeposit(ctx.storage, &a)
			common.DealWithErr(err)
			credits[i].pillar = dep.Znn
			ss = append(ss, dep.Znn.String())
			for j := 0; j < nb[i]; j++ {
				b := idxAddress(byte(10+i), j)
				bd, err := definition.GetRewardDeposit(ctx.storage, &b)
				common.DealWithErr(err)
				credits[i].backers = append(credits[i].backers, bd.Znn)
				ss = append(ss, bd.Znn.String())
			}
		}
		return strings.Join(ss, " ")
	})
	c.Emit("pillar-detail %d %s %d %s | %s", epoch, tw, len(stats), strings.Join(args, " "), res)
	c.Hit("pillar-detail")
	if res == "panic" || res == "err" {
		c.Fail("computeDetailedPillarReward: %s on epoch %d total weight %s pillars %s", res, epoch, tw, strings.Join(args, " | "))
		return
	}
	// model-free monitor: what is credited for a pillar (reward address + backers) never exceeds its TotalReward, nothing
	// negative is credited, and the whole epoch stays within the pillar emission
	all := big.NewInt(0)
	for i, s := range stats {
		r := implementation.ComputePillarRewardForEpochVerif(ctx.stats, s.name)
		sum := new(big.Int).Add(credits[i].pillar, bigSum(credits[i].backers))
		all.Add(all, sum)
		if sum.Cmp(r.TotalReward) > 0 {
			c.Fail("pillar %d of epoch %d: credited %s to pillar and backers, more than its total reward %s (pillars %s)", i, epoch, sum, r.TotalReward, strings.Join(args, " | "))
		}
		if credits[i].pillar.Sign() < 0 {
			c.Fail("pillar %d of epoch %d: negative amount %s credited to the reward address", i, epoch, credits[i].pillar)
		}
	}
	if valid {
		d, p := constants.PillarRewardPerMomentum(epoch)
		var e uint64
		for _, s := range stats {
			e += s.expected
		}
		bound := new(big.Int).Mul(new(big.Int).Add(d, p), new(big.Int).SetUint64(e))
		if all.Cmp(bound) > 0 {
			c.Fail("pillar contract credits %s ZNN for epoch %d, more than the emission for %d expected momentums %s", all, epoch, e, bound)
		}
	}
}

// computeLiquidityStakeRewardsForEpoch: token tuples with percentages, weighted stakes per token, optional additional
// reward taken from the contract balance.
// line: liq-epoch <epoch> <start> <end> <addZnn> <addQsr> <nTok> {<znnPct> <qsrPct> <nStakes> {start revoke weighted}*}*
//       | {znn qsr}* per stake ; <minted znn> <minted qsr>        (or `err` = ErrInvalidRewards)
func liquidityEpochCase(c *Ctx) {
	epoch := uint64(c.R.Intn(400))
	start, end := randWindow(c)
	ctx := newRewardCtx(epoch, start, end)
	ctx.balance = new(big.Int).Lsh(big.NewInt(1), 100)
	addZ, addQ := big.NewInt(0), big.NewInt(0)
	if c.R.Intn(3) == 0 {
		addZ = big.NewInt(c.R.Int63n(1 << 40))
		addQ = big.NewInt(c.R.Int63n(1 << 40))
	}
	nTok := c.R.Intn(5)
	info := &definition.LiquidityInfo{Administrator: idxAddress(6, 0), ZnnReward: addZ, QsrReward: addQ}
	left := [2]uint32{10000, 10000}
	args := []string{}
	nStakes := 0
	type stakeRef struct{ addr types.Address }
	refs := []stakeRef{}
	valid := true
	for t := 0; t < nTok; t++ {
		var pct [2]uint32
		for k := 0; k < 2; k++ {
			switch {
			case t == nTok-1 && c.R.Intn(2) == 0:
				pct[k] = left[k] // percentages sum to exactly 10000
			case c.R.Intn(15) == 0:
				pct[k] = left[k] + uint32(1+c.R.Intn(5000)) // invalid configuration: more than 100% in total
				valid = false
			default:
				pct[k] = uint32(c.R.Intn(int(left[k]) + 1))
			}
			if pct[k] <= left[k] {
				left[k] -= pct[k]
			} else {
				left[k] = 0
			}
		}
		var zts types.ZenonTokenStandard
		zts[0] = byte(t + 1)
		info.TokenTuples = append(info.TokenTuples, definition.TokenTuple{TokenStandard: zts.String(), ZnnPercentage: pct[0], QsrPercentage: pct[1], MinAmount: big.NewInt(1)})
		ns := c.R.Intn(5)
		a := []string{fmt.Sprint(pct[0]), fmt.Sprint(pct[1]), fmt.Sprint(ns)}
		for j := 0; j < ns; j++ {
			s, r := randTimeAround(c, start, end), randTimeAround(c, start, end)
			if c.R.Intn(2) == 0 {
				r = 0
			}
			amt := randAmount(c)
			var id types.Hash
			id[0], id[1] = byte(t), byte(j)
			addr := idxAddress(byte(20+t), j)
			e := &definition.LiquidityStakeEntry{Amount: amt, TokenStandard: zts, WeightedAmount: amt, StartTime: s, RevokeTime: r,
				StakeAddress: addr, Id: id}
			common.DealWithErr(e.Save(ctx.storage))
			refs = append(refs, stakeRef{addr})
			a = append(a, fmt.Sprint(s), fmt.Sprint(r), amt.String())
			nStakes++
		}
		args = append(args, strings.Join(a, " "))
	}
	enc, err := definition.EncodeLiquidityInfo(info)
	common.DealWithErr(err)
	common.DealWithErr(enc.Save(ctx.storage))
	credZ, credQ := big.NewInt(0), big.NewInt(0)
	mintZ, mintQ := big.NewInt(0), big.NewInt(0)
	res := guard(func() string {
		blocks, err := implementation.ComputeLiquidityStakeRewardsForEpochVerif(ctx, epoch)
		if err != nil {
			if err == constants.ErrInvalidRewards {
				return "err"
			}
			return "other-err"
		}
		for _, b := range blocks {
			if b.ToAddress != types.TokenContract {
				return "bad-block"
			}
			param := new(definition.MintParam)
			if err := definition.ABIToken.UnpackMethod(param, definition.MintMethodName, b.Data); err != nil {
				continue // burn of the additional reward
			}
			if param.ReceiveAddress != types.LiquidityContract {
				return "bad-mint-target"
			}
			switch param.TokenStandard {
			case types.ZnnTokenStandard:
				mintZ.Add(mintZ, param.Amount)
			case types.QsrTokenStandard:
				mintQ.Add(mintQ, param.Amount)
			default:
				return "bad-mint-token"
			}
		}
		ss := []string{}
		for _, r := range refs {
			a := r.addr
			dep, err := definition.GetRewardDeposit(ctx.storage, &a)
			common.DealWithErr(err)
			ss = append(ss, dep.Znn.String(), dep.Qsr.String())
			credZ.Add(credZ, dep.Znn)
			credQ.Add(credQ, dep.Qsr)
		}
		ss = append(ss, ";", mintZ.String(), mintQ.String())
		return strings.Join(ss, " ")
	})
	c.Emit("liq-epoch %d %d %d %s %s %d %s | %s", epoch, start, end, addZ, addQ, nTok, strings.Join(args, " "), res)
	c.Hit("liq-epoch")
	desc := fmt.Sprintf("epoch %d window [%d,%d) additional %s/%s tokens %s", epoch, start, end, addZ, addQ, strings.Join(args, " | "))
	switch res {
	case "panic", "other-err", "bad-block", "bad-mint-target", "bad-mint-token":
		c.Fail("computeLiquidityStakeRewardsForEpoch: %s on %s", res, desc)
		return
	case "err":
		c.Hit("liq-epoch-invalid-rewards")
		if valid {
			c.Fail("computeLiquidityStakeRewardsForEpoch: ErrInvalidRewards although the token percentages sum to at most 100%%: %s", desc)
		}
		return
	}
	// model-free monitor: credited to stakers + minted to the contract = epoch emission + additional reward, per coin —
	// never more
	tz, tq := constants.LiquidityRewardForEpoch(epoch)
	tz.Add(tz, addZ)
	tq.Add(tq, addQ)
	if new(big.Int).Add(credZ, mintZ).Cmp(tz) > 0 || new(big.Int).Add(credQ, mintQ).Cmp(tq) > 0 {
		c.Fail("liquidity rewards exceed the epoch amount: credited %s/%s + minted %s/%s, epoch amount incl. additional reward %s/%s (%s)",
			credZ, credQ, mintZ, mintQ, tz, tq, desc)
	}
	if credZ.Sign() > 0 {
		c.Hit("liq-epoch-paid")
	}
}

var _ = sort.Strings
