package main

// variants stream (C13), the lines the Lean model of the acceptance path answers (Model/Accept.lean, Driver/Accept.lean):
// for the two deliveries that go straight through Supervisor.ApplyBlock into the account pool - a user block by gossip and a
// generated contract receive by gossip - one line per delivered variant with everything the model needs:
//
//   acc <path> <where> <name> hon=<0|1> H <bp> <tp> <ch> <pk> <sig> D <bp> <tp> <ch> <pk> <sig> sigok=<0|1> pkown=<0|1>
//       | <accepted|rejected> <equal|different|->
//
//   path   user | contract          where  receive | descendant | block   (which object of the delivery was altered)
//   hon    the node's own verdict on the HONEST copy in the same state, by a dry run of Supervisor.ApplyBlock that inserts
//          nothing: the oracle for every check that reads covered fields and node state only (verifier.AccountBlock, plasma,
//          funds, embedded method, regeneration) - `Env.verifierOK` / `Env.generate` of the model
//   H / D  the uncovered fields of the honest block and of the delivered top-level block (base plasma, total plasma, changes
//          hash, public key, signature; byte strings in hex, empty = -)
//   sigok  wallet.VerifySignature(D.pk, hash, D.sig) (the Ed25519 oracle); pkown: types.PubKeyToAddress(D.pk) == address
//   observed: the follower's answer, and whether what it then holds under the hash has the bytes of the honest block
// The driver runs `Accept.applyBlock` on both blocks in an environment built from the oracle values and predicts both
// answers. The legacy `variant …` lines of the other delivery paths (inside momentums, after a reorganisation) carry no
// observation for the model (" => " instead of " | "): they are decided by the monitors alone.

import (
	"bytes"

	"github.com/zenon-network/go-zenon/chain/nom"
	"github.com/zenon-network/go-zenon/common/types"
	"github.com/zenon-network/go-zenon/wallet"
)

func accUncovered(b *nom.AccountBlock) string {
	h := func(x []byte) string {
		if len(x) == 0 {
			return "-"
		}
		return hx(x)
	}
	return uitoa(b.BasePlasma) + " " + uitoa(b.TotalPlasma) + " " + hx(b.ChangesHash.Bytes()) + " " + h(b.PublicKey) + " " + h(b.Signature)
}

func uitoa(x uint64) string {
	var buf [20]byte
	i := len(buf)
	for {
		i--
		buf[i] = byte('0' + x%10)
		x /= 10
		if x == 0 {
			break
		}
	}
	return string(buf[i:])
}

// accPre: everything that has to be read BEFORE the delivery (ApplyBlock writes into the delivered object)
type accPre struct {
	honOK, usable bool
	dstr          string
	sigok, pkown  bool
}

// accBefore: would the follower accept the honest copy right now (nothing is inserted), and the delivered fields / oracles
func accBefore(f *zFollower, honest, delivered *nom.AccountBlock) (p accPre) {
	if f.ch.GetPatch(honest.Address, honest.Identifier()) != nil {
		return // a block is held under this identifier: AddAccountBlocks skips the delivery
	}
	cp := rewireBlock(honest)
	if cp == nil {
		return
	}
	var err error
	if pn := safely(func() { _, err = f.sup.ApplyBlock(cp) }); pn != "" {
		return
	}
	p.honOK, p.usable = err == nil, true
	p.dstr = accUncovered(delivered)
	safely(func() {
		v, err := wallet.VerifySignature(delivered.PublicKey, delivered.Hash.Bytes(), delivered.Signature)
		p.sigok = err == nil && v
	})
	safely(func() { p.pkown = types.PubKeyToAddress(delivered.PublicKey) == delivered.Address })
	return
}

// accEmit: call after the delivery. stored = "equal" / "different" / "missing" when accepted.
func accEmit(c *Ctx, f *zFollower, path, where, name string, p accPre, honest *nom.AccountBlock, gerr error) {
	if !p.usable {
		return
	}
	b01 := func(x bool) string {
		if x {
			return "1"
		}
		return "0"
	}
	res := "rejected -"
	if gerr == nil {
		res = "accepted missing"
		all := append([]*nom.AccountBlock{honest}, honest.DescendantBlocks...)
		same, found := true, false
		for i, o := range all {
			hb, _ := f.ch.GetFrontierAccountStore(o.Address).ByHash(o.Hash)
			if hb == nil {
				continue
			}
			if i == 0 {
				found = true
			}
			x, _ := hb.Serialize()
			y, _ := o.Serialize()
			if !bytes.Equal(x, y) {
				same = false
			}
		}
		if found {
			if same {
				res = "accepted equal"
			} else {
				res = "accepted different"
			}
		}
	}
	c.Emit("acc %s %s %s hon=%s H %s D %s sigok=%s pkown=%s | %s", path, where, name, b01(p.honOK), accUncovered(honest), p.dstr, b01(p.sigok), b01(p.pkown), res)
	c.Hit("acc-" + path + "-" + where + "-" + res[:len(res)-len(res[indexByte(res, ' '):])] + "-" + res[indexByte(res, ' ')+1:])
	// model-free monitor of the sentence: an accepted variant with the hash of the honest block is stored with the honest
	// block's bytes unless the altered field is the known residue (reported by the callers' own monitors for ChangesHash)
}

func indexByte(s string, b byte) int {
	for i := 0; i < len(s); i++ {
		if s[i] == b {
			return i
		}
	}
	return len(s)
}
