package main

// `nc-` lines of the sync-batches stream (C06, Model/NodeCache.lean, Driver/NodeCache.lean): followers whose consensus
// database the harness keeps a handle on are taken through extensions, reorganisations (the real chainBridge.InsertChain),
// plain chain.RollbackTo calls and EpochStats queries; after every event the harness prints what the REAL node's chain and
// consensus database look like (every stored period / epoch point with its end hash, the stored election keys, the end block
// of every tick) and the Lean model — replaying the same events — must hold the same database, classify every query the same
// way (served from the store <=> the stored end hash is the chain's and the epoch is finished) and count the same momentums
// per pillar.
//
//	nc-new <fid> <genesisHash> <periodSeconds> <periodsPerEpoch>
//	nc-insert <fid> <hash>:<secondsAfterGenesis>:<pillar>   | <height>
//	nc-rollback <fid> <k>                                     | <frontier hash>
//	nc-epoch <fid> <T>                                        | future / served <point> / recomputed <point> / error:<text>
//	nc-stored <fid>                                           | P[<tick>:<endHash>:<point>;…] E[…]
//	nc-ends <fid> <n>                                         | <hash>,…
//	nc-elkeys <fid>                                           | <hash>,…
//
// <point> = <sum of ExpectedNum / NodeCount>:<pillar>=<FactualNum>,… with the pillars numbered by sorted name.
// Model-free monitor: every EpochStats answer is compared with a COLD consensus instance on the same chain (empty database,
// not listening) — the consensus part of "a node that only ever saw the adopted branch".

import (
	"encoding/binary"
	"encoding/json"
	"fmt"
	"os"
	"sort"
	"strings"
	"time"

	"github.com/zenon-network/go-zenon/chain"
	"github.com/zenon-network/go-zenon/chain/genesis"
	g "github.com/zenon-network/go-zenon/chain/genesis/mock"
	"github.com/zenon-network/go-zenon/chain/nom"
	"github.com/zenon-network/go-zenon/common"
	"github.com/zenon-network/go-zenon/common/db"
	"github.com/zenon-network/go-zenon/common/types"
	"github.com/zenon-network/go-zenon/consensus"
	"github.com/zenon-network/go-zenon/consensus/api"
	"github.com/zenon-network/go-zenon/consensus/storage"
	"github.com/zenon-network/go-zenon/protocol"
	"github.com/zenon-network/go-zenon/verifier"
	"github.com/zenon-network/go-zenon/vm"
	"github.com/zenon-network/go-zenon/vm/constants"
)

type ncMom struct {
	hash types.Hash
	ts   int64
	prod int
}

type ncFollower struct {
	*follower
	consDB  db.DB
	id      int
	genTs   int64
	emitted []ncMom // the chain as the lines so far describe it (genesis not listed)
	maxTs   int64
	ok      bool
}

var ncPillarByAddr map[types.Address]int
var ncPillarByName map[string]int

func ncInitPillars() {
	if ncPillarByAddr != nil {
		return
	}
	ps := g.EmbeddedGenesis.PillarConfig.Pillars
	names := make([]string, len(ps))
	for i, p := range ps {
		names[i] = p.Name
	}
	sort.Strings(names)
	ncPillarByName = map[string]int{}
	for i, n := range names {
		ncPillarByName[n] = i + 1
	}
	ncPillarByAddr = map[types.Address]int{}
	for _, p := range ps {
		ncPillarByAddr[p.BlockProducingAddress] = ncPillarByName[p.Name]
	}
}

func (r *syncRun) newNcFollower() *ncFollower {
	dir, err := os.MkdirTemp("", "zvh-ncfol-")
	if err != nil {
		panic(err)
	}
	mgr := db.NewLevelDBManager(dir)
	ch := chain.NewChain(mgr, genesis.NewGenesis(g.EmbeddedGenesis))
	consDB := db.NewMemDB()
	cons := consensus.NewConsensus(consDB, ch, true)
	common.DealWithErr(ch.Init())
	common.DealWithErr(cons.Init())
	common.DealWithErr(ch.Start())
	common.DealWithErr(cons.Start())
	sup := vm.NewSupervisor(ch, cons)
	br := protocol.NewChainBridge(ch, cons, verifier.NewVerifier(ch, cons), sup)
	silence()
	f := &ncFollower{follower: &follower{dir: dir, mgr: mgr, ch: ch, cons: cons, sup: sup, bridge: br}, consDB: consDB, ok: true}
	f.id = 9000 + r.nextF
	r.nextF++
	gm := ch.GetGenesisMomentum()
	f.genTs = gm.Timestamp.Unix()
	period := constants.ConsensusConfig.BlockTime * int64(constants.ConsensusConfig.NodeCount)
	mult := int64(consensus.EpochDuration/time.Second) / period
	r.c.Emit("nc-new %d %s %d %d", f.id, h8e(gm.Hash), period, mult)
	return f
}

func ncPeriodSeconds() int64 {
	return constants.ConsensusConfig.BlockTime * int64(constants.ConsensusConfig.NodeCount)
}

// sync prints what happened to the node's chain since the last line: k momentums deleted, then the new ones inserted.
func (r *syncRun) ncSync(f *ncFollower) {
	st := f.ch.GetFrontierMomentumStore()
	fr, err := st.GetFrontierMomentum()
	if err != nil {
		panic(err)
	}
	var cur []ncMom
	for h := uint64(2); h <= fr.Height; h++ {
		m, err := st.GetMomentumByHeight(h)
		if err != nil || m == nil {
			panic(fmt.Sprintf("nc: follower %d cannot read its momentum at height %d: %v", f.id, h, err))
		}
		cur = append(cur, ncMom{m.Hash, m.Timestamp.Unix() - f.genTs, ncPillarByAddr[m.Producer()]})
	}
	cp := 0
	for cp < len(cur) && cp < len(f.emitted) && cur[cp].hash == f.emitted[cp].hash {
		cp++
	}
	if k := len(f.emitted) - cp; k > 0 {
		top := f.ch.GetGenesisMomentum().Hash
		if cp > 0 {
			top = cur[cp-1].hash
		}
		r.c.Emit("nc-rollback %d %d | %s", f.id, k, h8e(top))
		r.c.Hit("nc-rollbacks")
		r.c.HitN("nc-momentums-rolled-back", k)
	}
	for i := cp; i < len(cur); i++ {
		r.c.Emit("nc-insert %d %s:%d:%d | %d", f.id, h8e(cur[i].hash), cur[i].ts, cur[i].prod, i+2)
		if cur[i].ts > f.maxTs {
			f.maxTs = cur[i].ts
		}
	}
	r.c.HitN("nc-momentums-inserted", len(cur)-cp)
	f.emitted = cur
}

func ncCounts(m map[int]uint64) string {
	var ks []int
	for k, v := range m {
		if v > 0 {
			ks = append(ks, k)
		}
	}
	if len(ks) == 0 {
		return "-"
	}
	sort.Ints(ks)
	ss := make([]string, len(ks))
	for i, k := range ks {
		ss[i] = fmt.Sprintf("%d=%d", k, m[k])
	}
	return strings.Join(ss, ",")
}

func ncPointStr(p *storage.Point) string {
	var exp uint64
	m := map[int]uint64{}
	for name, d := range p.Pillars {
		exp += uint64(d.ExpectedNum)
		m[ncPillarByName[name]] += uint64(d.FactualNum)
	}
	return fmt.Sprintf("%d:%s", exp/uint64(constants.ConsensusConfig.NodeCount), ncCounts(m))
}

// stored reads every point of one kind out of the node's consensus database (not through its cache).
func (f *ncFollower) stored(prefix byte) map[uint64]*storage.Point {
	out := map[uint64]*storage.Point{}
	it := f.consDB.NewIterator([]byte{prefix})
	defer it.Release()
	for it.Next() {
		k := it.Key()
		if len(k) != 9 {
			continue
		}
		p := &storage.Point{}
		if err := p.Unmarshal(append([]byte{}, it.Value()...)); err != nil {
			panic(fmt.Sprintf("nc: stored point does not unmarshal: %v", err))
		}
		out[binary.BigEndian.Uint64(k[1:9])] = p
	}
	return out
}

func (r *syncRun) ncStored(f *ncFollower) {
	part := func(prefix byte) string {
		m := f.stored(prefix)
		var ts []uint64
		for t := range m {
			ts = append(ts, t)
		}
		sort.Slice(ts, func(i, j int) bool { return ts[i] < ts[j] })
		ss := make([]string, len(ts))
		for i, t := range ts {
			ss[i] = fmt.Sprintf("%d:%s:%s", t, h8e(m[t].EndHash), ncPointStr(m[t]))
		}
		return strings.Join(ss, ";")
	}
	r.c.Emit("nc-stored %d | P[%s] E[%s]", f.id, part(storage.PrefixPeriodPoint), part(storage.PrefixEpochPoint))
}

func (r *syncRun) ncEnds(f *ncFollower) {
	n := int(f.maxTs/ncPeriodSeconds()) + 2
	st := f.ch.GetFrontierMomentumStore()
	hs := make([]string, n)
	for t := 0; t < n; t++ {
		e := time.Unix(f.genTs+int64(t+1)*ncPeriodSeconds(), 0)
		m, err := st.GetMomentumBeforeTime(&e)
		if err != nil || m == nil {
			hs[t] = "error"
			continue
		}
		hs[t] = h8e(m.Hash)
	}
	r.c.Emit("nc-ends %d %d | %s", f.id, n, strings.Join(hs, ","))
}

func (r *syncRun) ncElKeys(f *ncFollower) {
	it := f.consDB.NewIterator([]byte{storage.PrefixElectionResult})
	defer it.Release()
	var ks []string
	for it.Next() {
		k := it.Key()
		if len(k) == 1+types.HashSize {
			var h types.Hash
			copy(h[:], k[1:])
			ks = append(ks, h8e(h))
		}
	}
	sort.Strings(ks)
	// (two momentums sharing their first 8 hash bytes would merge here and in the model alike)
	out := ks[:0]
	for i, k := range ks {
		if i == 0 || k != ks[i-1] {
			out = append(out, k)
		}
	}
	s := "-"
	if len(out) > 0 {
		s = strings.Join(out, ",")
	}
	r.c.Emit("nc-elkeys %d | %s", f.id, s)
}

func ncStatsStr(s *api.EpochStats) string {
	var exp uint64
	m := map[int]uint64{}
	for name, d := range s.Pillars {
		exp += d.ExceptedBlockNum
		m[ncPillarByName[name]] += d.BlockNum
	}
	return fmt.Sprintf("%d:%s", exp/uint64(constants.ConsensusConfig.NodeCount), ncCounts(m))
}

// ncEpoch asks the real node for the statistics of epoch T, classifies the answer by what happened to the stored point, and
// compares it with a cold consensus instance on the same chain. what = where in the scenario (for the failure text).
func (r *syncRun) ncEpoch(f *ncFollower, T uint64, what string) {
	c := r.c
	before := f.stored(storage.PrefixEpochPoint)[T]
	var st *api.EpochStats
	var err error
	if p := safely(func() { st, err = f.cons.FrontierPillarReader().EpochStats(T) }); p != "" {
		err = fmt.Errorf("panic: %s", p)
	}
	after := f.stored(storage.PrefixEpochPoint)[T]
	obs := ""
	switch {
	case err != nil:
		obs = "error:" + strings.ReplaceAll(firstLine(err.Error()), " ", "_")
	case st == nil:
		obs = "future"
	case before != nil && after != nil && before.EndHash == after.EndHash:
		obs = "served " + ncStatsStr(st)
		c.Hit("nc-epoch-served")
	default:
		obs = "recomputed " + ncStatsStr(st)
		c.Hit("nc-epoch-recomputed")
		if before != nil {
			c.Hit("nc-epoch-stored-point-invalidated")
		}
	}
	c.Emit("nc-epoch %d %d | %s", f.id, T, obs)
	// model-free: a consensus instance with an empty database that never listened to anything, on the same chain
	cold := consensus.NewConsensus(db.NewMemDB(), f.ch, true)
	var cs *api.EpochStats
	var cerr error
	if p := safely(func() { cs, cerr = cold.FrontierPillarReader().EpochStats(T) }); p != "" {
		cerr = fmt.Errorf("panic: %s", p)
	}
	js := func(v *api.EpochStats, err error) string {
		if err != nil {
			return "error: " + firstLine(err.Error())
		}
		b, _ := json.Marshal(v)
		return string(b)
	}
	if a, b := js(st, err), js(cs, cerr); a != b {
		fr := f.frontier()
		unfinished := fr.Timestamp.Unix()-f.genTs < int64(T+1)*int64(consensus.EpochDuration/time.Second)
		if unfinished && err == nil && cerr == nil {
			// (finding FX1, repaired in b4e9eef: a recurrence is reported under its own text; the scenario goes on)
			c.Fail("C06: nc follower %d (%s): statistics of the UNFINISHED epoch %d with the frontier at height %d: %.260s — a consensus instance without history on the same chain: %.260s",
				f.id, what, T, fr.Height, a, b)
			return
		}
		c.Fail("C06: nc follower %d (%s): consensus statistics of epoch %d with the frontier at height %d: %.260s — a consensus instance without history on the same chain: %.260s",
			f.id, what, T, fr.Height, a, b)
		f.ok = false
		return
	}
	c.Hit("nc-epoch-compared-with-cold-instance")
}

func (r *syncRun) ncDump(f *ncFollower) {
	r.ncStored(f)
	r.ncEnds(f)
	r.ncElKeys(f)
}

// ncDeliver hands genuine momentums to the real InsertChain in batches of varied sizes and prints what it did to the chain.
func (r *syncRun) ncDeliver(f *ncFollower, dms []*nom.DetailedMomentum, oneBatch bool) bool {
	for len(dms) > 0 {
		k := len(dms)
		if !oneBatch {
			k = 1 + r.c.R.Intn(24)
			if k > len(dms) {
				k = len(dms)
			}
		}
		idx, err, pn := f.insertChain(wire(dms[:k]))
		r.ncSync(f)
		if err != nil || pn != nil {
			r.c.Hit("nc-batch-refused-" + classifyInsertErr(err))
			_ = idx
			return false
		}
		dms = dms[k:]
	}
	return true
}

func (r *syncRun) ncSeg(path []types.Hash, fromH, toH int) []*nom.DetailedMomentum {
	var out []*nom.DetailedMomentum
	for _, e := range r.seg(path, fromH, toH) {
		out = append(out, e.dm)
	}
	return out
}

func (r *syncRun) ncRollback(f *ncFollower, toHeight int) bool {
	st := f.ch.GetFrontierMomentumStore()
	m, err := st.GetMomentumByHeight(uint64(toHeight))
	if err != nil || m == nil {
		return false
	}
	ins := f.ch.AcquireInsert("zvh nc rollback")
	err = f.ch.RollbackTo(ins, m.Identifier())
	ins.Unlock()
	r.ncSync(f)
	return err == nil
}

func (r *syncRun) ncQueries(f *ncFollower, what string) {
	maxE := uint64(f.maxTs/int64(consensus.EpochDuration/time.Second)) + 1
	for e := uint64(0); e <= maxE && f.ok; e++ {
		r.ncEpoch(f, e, what)
	}
	r.ncDump(f)
}

// nodeCache runs the scenarios. `a` is the producer of the history (on the trunk tip); it is used to build one more branch —
// with a long production gap — and put back.
func (r *syncRun) nodeCache(a *producer) {
	c := r.c
	ncInitPillars()
	hist := r.hist
	trunk := hist.paths[0]
	L := len(trunk)
	var fols []*ncFollower
	defer func() {
		for _, f := range fols {
			f.stop()
		}
	}()
	reps := 3
	if c.Tier == "thorough" {
		reps = 12
	}
	mk := func() *ncFollower {
		f := r.newNcFollower()
		fols = append(fols, f)
		return f
	}

	// ---- S1: the switch across an election-tick and epoch boundary (the last branch of the history), asked before and after
	{
		br := len(hist.paths) - 1
		fork := int(hist.forkAt[br])
		f := mk()
		if r.ncDeliver(f, r.ncSeg(trunk, 2, L), false) {
			r.ncQueries(f, "on the trunk tip")
			if r.ncDeliver(f, r.ncSeg(hist.paths[br], fork+1, len(hist.paths[br])), true) {
				c.Hit("nc-switch-across-tick")
				r.ncDump(f) // before anybody asks: the abandoned branch's points are still stored
				r.ncQueries(f, "after the switch across a tick boundary")
			}
		}
	}
	// ---- S1b: the same switch with nobody asking before it (only what InsertMomentum precomputed is stored)
	{
		br := len(hist.paths) - 1
		fork := int(hist.forkAt[br])
		f := mk()
		if r.ncDeliver(f, r.ncSeg(trunk, 2, L), false) && r.ncDeliver(f, r.ncSeg(hist.paths[br], fork+1, len(hist.paths[br])), true) {
			r.ncQueries(f, "after a switch nobody asked before")
		}
	}
	// ---- S2: switches at other depths, asked at random moments
	for n, tries := 0, 0; n < reps && tries < 40*reps; tries++ {
		br := 1 + c.R.Intn(len(hist.paths)-1)
		fork := int(hist.forkAt[br])
		pos := fork + 1 + c.R.Intn(30)
		// the node's chain must be shorter than the branch and the fork point within the window of InsertChain
		if pos > L || pos >= len(hist.paths[br]) || pos-fork > 30 {
			continue
		}
		n++
		f := mk()
		if !r.ncDeliver(f, r.ncSeg(trunk, 2, pos), false) {
			continue
		}
		if c.R.Intn(2) == 0 {
			r.ncQueries(f, fmt.Sprintf("on the trunk at height %d", pos))
		}
		// the batch that makes the node switch must reach above its frontier; the rest of the branch follows in one or many batches
		first := imin(len(hist.paths[br]), pos+1+c.R.Intn(6))
		if r.ncDeliver(f, r.ncSeg(hist.paths[br], fork+1, first), true) &&
			r.ncDeliver(f, r.ncSeg(hist.paths[br], first+1, len(hist.paths[br])), c.R.Intn(2) == 0) {
			c.Hit("nc-switch")
			r.ncQueries(f, fmt.Sprintf("after the switch from trunk height %d to branch %d (fork at %d)", pos, br, fork))
			// and back to the trunk when it is the longer chain within the window
			if d := len(hist.paths[br]) - fork; d <= 30 && L > len(hist.paths[br]) {
				if r.ncDeliver(f, r.ncSeg(trunk, fork+1, L), true) {
					c.Hit("nc-switch-back")
					r.ncQueries(f, "after switching back to the trunk")
				}
			}
		}
	}
	// ---- S3: plain RollbackTo (what InsertChain does first), asked while the node sits on the fork point, then extended again
	for n := 0; n < reps; n++ {
		pos := L - c.R.Intn(12)
		k := 1 + c.R.Intn(40)
		if n == 0 {
			// back across the epoch end (height 61 is the first momentum of epoch 1 with the ten-minute epochs of this stream)
			pos, k = L, L-58
		}
		if pos-k < 1 {
			k = pos - 1
		}
		f := mk()
		if !r.ncDeliver(f, r.ncSeg(trunk, 2, pos), false) {
			continue
		}
		if c.R.Intn(2) == 0 {
			r.ncQueries(f, "before a rollback")
		}
		if r.ncRollback(f, pos-k) {
			c.Hit("nc-plain-rollback")
			r.ncQueries(f, fmt.Sprintf("after RollbackTo from height %d to %d", pos, pos-k))
			if r.ncDeliver(f, r.ncSeg(trunk, pos-k+1, imin(L, pos-k+1+c.R.Intn(30))), false) {
				r.ncQueries(f, "after extending again")
			}
		}
	}
	// ---- S4: a branch with a production gap: its momentum g1 is the last of epoch 0 and lies in the epoch's FIRST period, the
	//      next one is in epoch 1. A node that holds the branch stores the point of epoch 0 (all periods merged) under end hash
	//      g1; rolled back to g1 the epoch is unfinished again while the end hash still matches (FX1: the stored point must not
	//      be served then — since b4e9eef it is deleted and the running epoch recomputed from its started periods).
	{
		fpH := 12 + c.R.Intn(12) // fork point in the first period (heights 1..30)
		fp := hist.byHash[trunk[fpH-1]]
		var gap []*nom.DetailedMomentum
		built := safely(func() {
			if err := a.rollbackTo(types.HashHeight{Hash: fp.hash, Height: fp.height}); err != nil {
				panic(err)
			}
			gap = append(gap, a.momentum())
			// to the first slots of epoch 1: (fpH momentums = (fpH-1)*10 s; epoch 1 starts at 600 s)
			gap = append(gap, a.momentumSkipping(int64(61-fpH+c.R.Intn(3))))
			for i := 0; i < 3; i++ {
				gap = append(gap, a.momentum())
			}
			// put the producer back on the trunk
			if err := a.rollbackTo(types.HashHeight{Hash: fp.hash, Height: fp.height}); err != nil {
				panic(err)
			}
			var batch []*nom.DetailedMomentum
			for _, hh := range trunk[fpH:] {
				batch = append(batch, hist.dm(hh))
			}
			if idx, err := a.bridge.InsertChain(batch); err != nil {
				panic(fmt.Sprintf("restoring the trunk on the producer failed at %d: %v", idx, err))
			}
		})
		if built != "" {
			panic("nc: building the gap branch failed: " + built)
		}
		f := mk()
		if r.ncDeliver(f, r.ncSeg(trunk, 2, fpH), false) && r.ncDeliver(f, gap, false) {
			c.Hit("nc-gap-branch")
			r.ncQueries(f, "on the branch with a production gap")
			if r.ncRollback(f, fpH+1) {
				c.Hit("nc-gap-rollback-to-last-momentum-of-epoch")
				r.ncQueries(f, "rolled back to the last momentum of an epoch that was finished before")
				// and once the trunk continues from there nothing is left
				if f.ok && r.ncRollback(f, fpH) && r.ncDeliver(f, r.ncSeg(trunk, fpH+1, L), false) {
					r.ncQueries(f, "after adopting the trunk from the gap branch")
				}
			}
		}
	}
}
