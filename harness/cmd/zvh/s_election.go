package main

import (
	"encoding/hex"
	"fmt"
	"math/big"
	"math/rand"
	"strings"
	"time"

	"github.com/zenon-network/go-zenon/common"
	"github.com/zenon-network/go-zenon/common/types"
	"github.com/zenon-network/go-zenon/consensus"
	"github.com/zenon-network/go-zenon/vm/constants"
)

// Stream `election` (C05): random delegation sets x heights through the REAL
// consensus.NewElectionAlgorithm(ctx).SelectProducers.
//
//	elect <nodeCount> <randCount> <height> <k> <name>:<producing>:<weight>{k} P <seed> <n> <csv> ... | ok <name>:<producing>,... | panic | hang
//
// The `P` groups are the outputs of Go's math/rand Perm for the (seed, n) pairs the real code uses (oracle
// values: rand.Perm is a parameter of the model; the driver checks that each is a permutation of 0..n-1).

type pdIn struct {
	name   string
	prod   types.Address
	weight *big.Int
}

func hexOrDash(b []byte) string {
	if len(b) == 0 {
		return "-"
	}
	return hex.EncodeToString(b)
}

func mkDelegs(in []pdIn) []*types.PillarDelegation {
	out := make([]*types.PillarDelegation, len(in))
	for i, d := range in {
		out[i] = &types.PillarDelegation{Name: d.name, Producing: d.prod, Weight: new(big.Int).Set(d.weight)}
	}
	return out
}

func electCtx(nodeCount, randCount uint8) *consensus.Context {
	g := time.Unix(1000000000, 0)
	return &consensus.Context{
		Ticker:      common.NewTicker(g, time.Second*time.Duration(uint64(constants.ConsensusConfig.BlockTime)*uint64(nodeCount))),
		Consensus:   constants.Consensus{BlockTime: constants.ConsensusConfig.BlockTime, NodeCount: nodeCount, RandCount: randCount, CountingZTS: types.ZnnTokenStandard},
		GenesisTime: g,
	}
}

// runElect calls the real code; status is ok / panic / hang.
func runElect(nodeCount, randCount uint8, height uint64, in []*types.PillarDelegation, mayHang bool) (res []*types.PillarDelegation, status string) {
	call := func() (r []*types.PillarDelegation, st string) {
		defer func() {
			if e := recover(); e != nil {
				r, st = nil, "panic"
			}
		}()
		algo := consensus.NewElectionAlgorithm(electCtx(nodeCount, randCount))
		return algo.SelectProducers(consensus.NewAlgorithmContext(in, &types.HashHeight{Height: height})), "ok"
	}
	if !mayHang {
		return call()
	}
	type rs struct {
		r  []*types.PillarDelegation
		st string
	}
	ch := make(chan rs, 1)
	go func() { r, st := call(); ch <- rs{r, st} }()
	select {
	case x := <-ch:
		return x.r, x.st
	case <-time.After(300 * time.Millisecond):
		return nil, "hang" // the goroutine keeps spinning until the process exits (only used as the last op)
	}
}

func fmtElected(res []*types.PillarDelegation) string {
	if len(res) == 0 {
		return "-"
	}
	ss := make([]string, len(res))
	for i, r := range res {
		ss[i] = hexOrDash([]byte(r.Name)) + ":" + hex.EncodeToString(r.Producing.Bytes())
	}
	return strings.Join(ss, ",")
}

func permTok(seed int64, n int) string {
	p := rand.New(rand.NewSource(seed)).Perm(n)
	ss := make([]string, len(p))
	for i, v := range p {
		ss[i] = fmt.Sprint(v)
	}
	csv := strings.Join(ss, ",")
	if n == 0 {
		csv = "-"
	}
	return fmt.Sprintf("P %d %d %s", seed, n, csv)
}

var caseNames = []string{"Pillar", "pillar", "PILLAR", "Pillar1", "Pillar10", "Pillar2", "pillar-1", "pillar_1", "pillar.1",
	"Pillar 1", "P", "p", "Pi", "PI", "pI", "pi", "a", "aa", "aaa", "aaaa", "A", "AA", "Aa", "aA", "b", "B", "0", "00", "1", "10", "2",
	"Z", "z", "Zz", "zZ", "zz", "ZZ", "anvil", "Anvil", "ANVIL", "anvil2", "zenon", "Zenon", "ZENON", "znn", "ZNN", "Znn",
	"node", "Node", "node0", "node00", "node1", "node01", "node10", "é", "É", "e", "E", "ée", "\x80", "\xff", "\x7f", "~", "~~", "-", "_", "."}

func genNames(c *Ctx, k int) []string {
	seen := map[string]bool{}
	out := []string{}
	mode := c.R.Intn(5)
	for len(out) < k {
		var s string
		switch mode {
		case 0:
			s = fmt.Sprintf("p%d", c.R.Intn(4*k+4))
		case 1:
			s = caseNames[c.R.Intn(len(caseNames))]
			if seen[s] {
				s += string(rune('a' + c.R.Intn(3)))
			}
		case 2: // prefixes of one another
			s = strings.Repeat(string(rune('a'+c.R.Intn(2))), 1+c.R.Intn(k+2))
		case 3: // random bytes, all byte values
			b := make([]byte, 1+c.R.Intn(4))
			for i := range b {
				b[i] = byte(c.R.Intn(256))
			}
			s = string(b)
		default: // realistic names
			s = fmt.Sprintf("Pillar-%c%d", "AaBb"[c.R.Intn(4)], c.R.Intn(k+3))
		}
		if !seen[s] {
			seen[s] = true
			out = append(out, s)
		}
	}
	c.Hit(fmt.Sprintf("names-mode-%d", mode))
	return out
}

func genWeights(c *Ctx, k int) []*big.Int {
	out := make([]*big.Int, k)
	mode := c.R.Intn(7)
	base := new(big.Int).SetUint64(c.R.Uint64() % 1000000000000)
	for i := range out {
		switch mode {
		case 0: // all equal
			out[i] = new(big.Int).Set(base)
		case 1: // all zero
			out[i] = big.NewInt(0)
		case 2: // many ties
			out[i] = big.NewInt(int64(c.R.Intn(3)))
		case 3: // realistic: ZNN amounts with 8 decimals
			out[i] = new(big.Int).Mul(big.NewInt(int64(c.R.Intn(2000000))), big.NewInt(100000000))
		case 4: // beyond 64 bits
			out[i] = new(big.Int).Lsh(big.NewInt(int64(1+c.R.Intn(1000))), uint(60+c.R.Intn(40)))
		case 5: // ties among a few, one heavy
			out[i] = big.NewInt(int64(c.R.Intn(2)) * 5)
			if i == 0 {
				out[i] = big.NewInt(1 << 40)
			}
		default: // distinct, includes (unreachable but representable) negative values
			out[i] = big.NewInt(int64(c.R.Intn(2000)) - 20)
		}
	}
	c.Hit(fmt.Sprintf("weights-mode-%d", mode))
	return out
}

func genHeight(c *Ctx) uint64 {
	switch c.R.Intn(8) {
	case 0:
		return []uint64{0, 1, 2, 1<<63 - 2, 1<<63 - 1, 1 << 63, 1<<63 + 1, 1<<64 - 2, 1<<64 - 1, 1<<31 - 1, 1 << 31, 1 << 32}[c.R.Intn(12)]
	case 1:
		return c.R.Uint64()
	default:
		return uint64(c.R.Intn(20000000))
	}
}

func genConfig(c *Ctx) (uint8, uint8) {
	switch c.R.Intn(10) {
	case 0, 1, 2: // small groups: the repeat branch and the exact-fit branch are hit often
		n := uint8(1 + c.R.Intn(8))
		return n, uint8(c.R.Intn(int(n) + 1))
	case 3:
		n := uint8(c.R.Intn(40))
		return n, uint8(c.R.Intn(int(n) + 1))
	default:
		return constants.ConsensusConfig.NodeCount, constants.ConsensusConfig.RandCount
	}
}

func genCount(c *Ctx, n int) int {
	switch c.R.Intn(6) {
	case 0:
		b := []int{1, 2, n - 1, n, n + 1, n + 2, 2 * n, 60}
		k := b[c.R.Intn(len(b))]
		if k < 1 {
			k = 1
		}
		if k > 60 {
			k = 60
		}
		return k
	case 1:
		return 1 + c.R.Intn(n+1)
	default:
		return 1 + c.R.Intn(60)
	}
}

func shuffled(c *Ctx, in []pdIn) []pdIn {
	out := append([]pdIn(nil), in...)
	c.R.Shuffle(len(out), func(i, j int) { out[i], out[j] = out[j], out[i] })
	return out
}

func sameElected(a, b []*types.PillarDelegation) bool {
	if len(a) != len(b) {
		return false
	}
	for i := range a {
		if a[i].Name != b[i].Name || a[i].Producing != b[i].Producing || a[i].Weight.Cmp(b[i].Weight) != 0 {
			return false
		}
	}
	return true
}

func describe(in []pdIn) string {
	ss := make([]string, len(in))
	for i, d := range in {
		ss[i] = fmt.Sprintf("%q@%s", d.name, d.weight)
	}
	return "[" + strings.Join(ss, " ") + "]"
}

func electCase(c *Ctx, nodeCount, randCount uint8, height uint64, in []pdIn, mayHang bool) {
	N, R, L := int(nodeCount), int(randCount), len(in)
	delegs := mkDelegs(in)
	res, st := runElect(nodeCount, randCount, height, delegs, mayHang)
	seed := int64(height)
	perms := []string{}
	if L < N {
		perms = append(perms, permTok(seed, L), permTok(seed, N))
	} else if R <= N {
		perms = append(perms, permTok(seed, N), permTok(seed+1, L-N+R))
	} else {
		perms = append(perms, permTok(seed, N))
	}
	toks := make([]string, len(in))
	for i, d := range in {
		toks[i] = hexOrDash([]byte(d.name)) + ":" + hex.EncodeToString(d.prod.Bytes()) + ":" + d.weight.String()
	}
	obs := st
	if st == "ok" {
		obs = "ok " + fmtElected(res)
	}
	c.Emit("elect %d %d %d %d %s %s | %s", N, R, height, L, strings.Join(toks, " "), strings.Join(perms, " "), obs)
	c.Hit("elect-" + st)
	switch {
	case L == 0:
		c.Hit("branch-empty")
	case L < N:
		c.Hit("branch-repeat")
	case L == N:
		c.Hit("branch-exact")
	default:
		c.Hit("branch-split")
	}
	if N == int(constants.ConsensusConfig.NodeCount) && R == int(constants.ConsensusConfig.RandCount) {
		c.Hit("config-live")
	} else {
		c.Hit("config-other")
	}
	if st != "ok" {
		// the statement promises a schedule for every configuration with at least one active pillar
		if L >= 1 && R <= N {
			c.Fail("election: SelectProducers %s for nodeCount=%d randCount=%d height=%d delegations=%s", st, N, R, height, describe(in))
		}
		return
	}
	// ---- model-free monitors: the property's sentences evaluated on the real result ------------------------
	where := fmt.Sprintf("nodeCount=%d randCount=%d height=%d delegations=%s", N, R, height, describe(in))
	// exactly one pillar per slot: the list has exactly nodeCount entries, none nil
	if len(res) != N {
		c.Fail("election: schedule has %d entries, want exactly one per slot = %d; %s", len(res), N, where)
	}
	// every elected entry is one of the registered, active pillars handed in (pointer identity)
	isIn := map[*types.PillarDelegation]bool{}
	for _, d := range delegs {
		isIn[d] = true
	}
	for i, r := range res {
		if r == nil || !isIn[r] {
			c.Fail("election: slot %d holds an entry that is not among the input delegations; %s", i, where)
			break
		}
	}
	// enough pillars -> nobody holds two slots
	if L >= N {
		seen := map[*types.PillarDelegation]bool{}
		for i, r := range res {
			if seen[r] {
				c.Fail("election: pillar %q holds more than one slot (slot %d) although %d >= %d pillars are active; %s", r.Name, i, L, N, where)
				break
			}
			seen[r] = true
		}
	}
	// the schedule does not depend on the order in which the delegations are handed in, nor on a second run
	in2 := shuffled(c, in)
	res2, st2 := runElect(nodeCount, randCount, height, mkDelegs(in2), false)
	if st2 != "ok" || !sameElected(res, res2) {
		c.Fail("election: schedule depends on input order: %s vs %s for permuted input; %s", fmtElected(res), fmtElected(res2), where)
	}
	res3, st3 := runElect(nodeCount, randCount, height, mkDelegs(in), false)
	if st3 != "ok" || !sameElected(res, res3) {
		c.Fail("election: two runs on the same input differ: %s vs %s; %s", fmtElected(res), fmtElected(res3), where)
	}
	// the shuffle seed is the proof height only: a different proof hash must not matter
	algo := consensus.NewElectionAlgorithm(electCtx(nodeCount, randCount))
	res4 := algo.SelectProducers(consensus.NewAlgorithmContext(mkDelegs(in), &types.HashHeight{Height: height, Hash: types.NewHash([]byte{byte(c.R.Intn(256))})}))
	if !sameElected(res, res4) {
		c.Fail("election: schedule depends on the proof hash, not only on (delegations, height); %s", where)
	}
	if elx != nil {
		// repeated at the end of the stream under process-wide math/rand noise; persisted and read back now
		elx.recs = append(elx.recs, electRec{nodeCount, randCount, height, in, obs})
		producers := make([]types.Address, 0, len(res))
		for _, r := range res {
			producers = append(producers, r.Producing)
		}
		elx.checkElection(where, producers, delegs)
	}
}

func init() {
	register("election", func(c *Ctx) {
		elx = newElectExtra(c)
		defer func() {
			elx.cleanup()
			elx = nil
		}()
		mkIn := func(k int) []pdIn {
			names := genNames(c, k)
			ws := genWeights(c, k)
			in := make([]pdIn, k)
			for i := range in {
				var a types.Address
				a[0] = 0
				a[1] = byte(i)
				a[2] = byte(c.R.Intn(256))
				a[19] = byte(c.R.Intn(256))
				in[i] = pdIn{name: names[i], prod: a, weight: ws[i]}
			}
			return shuffled(c, in)
		}
		// fixed boundary cases with the live configuration
		NC, RC := constants.ConsensusConfig.NodeCount, constants.ConsensusConfig.RandCount
		for _, k := range []int{1, 2, int(NC) - 1, int(NC), int(NC) + 1, int(NC) + int(RC), 60} {
			for _, h := range []uint64{0, 1, 1<<63 - 1, 1 << 63, 1<<64 - 1} {
				electCase(c, NC, RC, h, mkIn(k), false)
			}
		}
		for i := 0; i < c.N; i++ {
			n, r := genConfig(c)
			if c.R.Intn(200) == 0 && n < 255 {
				r = n + 1 + uint8(c.R.Intn(3)) // misconfiguration: the real code panics (index out of range)
				c.Hit("config-rand>node")
			}
			k := genCount(c, int(n))
			electCase(c, n, r, genHeight(c), mkIn(k), false)
			if i%2 == 0 {
				elx.checkPoint()
			}
		}
		// an election without producers / without delegations persists as such
		elx.checkElection("an empty election", nil, nil)
		elx.checkElection("an election without delegations", []types.Address{{0, 1}, {0, 2}}, nil)
		// duplicate names (excluded by the pillar contract): monitors for length / membership only; the order may
		// legitimately depend on the sort algorithm, so no line is emitted for the model
		for i := 0; i < c.N/20+1; i++ {
			in := mkIn(2 + c.R.Intn(50))
			j, l := c.R.Intn(len(in)), c.R.Intn(len(in))
			in[j].name, in[j].weight = in[l].name, in[l].weight
			res, st := runElect(NC, RC, genHeight(c), mkDelegs(in), false)
			c.Hit("dup-name-" + st)
			if st == "ok" && len(res) != int(NC) {
				c.Fail("election: schedule has %d entries, want %d; duplicate names %s", len(res), NC, describe(in))
			}
		}
		// nodeCount = 0 with no pillar terminates; no pillar with nodeCount > 0 spins forever (last op: the goroutine is abandoned)
		electCase(c, 0, 0, 5, nil, false)
		// restart: the consensus database closed and re-opened; then every election again under process-wide math/rand noise
		elx.reopenAndVerify()
		elx.noisyRerun()
		electCase(c, NC, RC, 7, nil, true)
	})
}
