package main

import (
	"fmt"
	"math/big"

	g "github.com/zenon-network/go-zenon/chain/genesis/mock"
	"github.com/zenon-network/go-zenon/chain/nom"
	"github.com/zenon-network/go-zenon/common/types"
)

// ---------------------------------------------------------------------------------------------------
// sync-deep stream, "window" scenario (C16: "the delivered chain must link to one of the node's own momentums at most thirty
// heights below its frontier"): VALID, strictly longer side chains whose common ancestor lies D heights below the follower's
// frontier, for D on both sides of the window and far beyond it — around every power of two of a narrow integer
// (255, 256, 257, 256+4, 256+30, 256+31): a distance computed in fewer bits than the heights have lets exactly those through.
//
// The producer builds the trunk (traffic, then quiet momentums), and then — going deeper and deeper, so that every fork point
// is still on its own chain — rolls back to trunk height H-D, submits a transfer (so that the branch differs from the trunk it
// re-creates) and produces D+2 momentums. Every branch is delivered as ONE batch to a follower that holds the trunk:
//   D > 30:  InsertChain must refuse and the follower must be exactly where it was (frontier, state digest);
//   D <= 30: the branch is valid and longer: it must be adopted (delivered last, to a follower of its own).
// ---------------------------------------------------------------------------------------------------

func syncDeepWindow(c *Ctx, id int) {
	a := NewNode()
	defer a.Stop()
	produceTraffic(c, a, 4+c.R.Intn(4))
	depths := [][]int{{30, 31, 256, 260}, {29, 32, 255, 257, 287}, {1, 33, 64, 128, 286}, {30, 31, 200, 256 + 30, 256 + 31}}[id%4]
	deepest := depths[len(depths)-1]
	for a.Height() < uint64(deepest+6) {
		if _, err := a.Momentum(); err != nil {
			c.Fail("sync-deep window run=%d: producer: %v", id, err)
			return
		}
	}
	H := a.Height()
	trunk := serveChain(a, 2, H)
	if trunk == nil {
		c.Fail("sync-deep window run=%d: producer cannot serve its chain", id)
		return
	}
	trunkTip := trunk[len(trunk)-1].Momentum
	type branch struct {
		d  int
		ms []*nom.DetailedMomentum
	}
	var branches []branch
	for _, d := range depths {
		fork := H - uint64(d)
		target, _ := a.Chain().GetFrontierMomentumStore().GetMomentumByHeight(fork)
		if target == nil || target.Hash != trunk[fork-2].Momentum.Hash {
			c.Fail("sync-deep window run=%d: the producer no longer holds trunk momentum %d", id, fork)
			return
		}
		ins := a.Chain().AcquireInsert("zvh sync-deep window")
		err := a.Chain().RollbackTo(ins, target.Identifier())
		ins.Unlock()
		if err != nil {
			c.Fail("sync-deep window run=%d: producer rollback to %d: %v", id, fork, err)
			return
		}
		sent := false
		for _, kp := range g.AllKeyPairs {
			if _, err := a.Submit(&nom.AccountBlock{BlockType: nom.BlockTypeUserSend, Address: kp.Address, ToAddress: g.User2.Address,
				TokenStandard: types.ZnnTokenStandard, Amount: big.NewInt(int64(1 + d + c.R.Intn(1000)))}); err == nil {
				sent = true
				break
			}
		}
		if !sent {
			c.Hit("window-branch-without-transfer")
		}
		for a.Height() < H+2 {
			if _, err := a.Momentum(); err != nil {
				c.Fail("sync-deep window run=%d: producer branch at depth %d: %v", id, d, err)
				return
			}
		}
		ms := serveChain(a, fork+1, H+2)
		if ms == nil || ms[0].Momentum.PreviousHash != target.Hash || ms[0].Momentum.Hash == trunk[fork-1].Momentum.Hash {
			c.Fail("sync-deep window run=%d: producer did not build a branch at depth %d", id, d)
			return
		}
		branches = append(branches, branch{d, ms})
	}

	newTrunkFollower := func() *zFollower {
		f, err := newZFollower("")
		if err != nil {
			c.Fail("sync-deep window run=%d: follower: %v", id, err)
			return nil
		}
		for pos := 0; pos < len(trunk); {
			k := 1 + c.R.Intn(80)
			if pos+k > len(trunk) {
				k = len(trunk) - pos
			}
			if idx, err := f.InsertChain(trunk[pos : pos+k]); err != nil {
				c.Fail("sync-deep window run=%d: trunk refused at index %d of a batch starting at height %d: %v", id, idx, trunk[pos].Momentum.Height, err)
				f.Destroy()
				return nil
			}
			pos += k
		}
		return f
	}
	f := newTrunkFollower()
	if f == nil {
		return
	}
	defer func() { f.Destroy() }()
	digest := f.StateDigest()
	// beyond the window first (deepest first): each must leave the follower untouched
	for i := len(branches) - 1; i >= 0; i-- {
		b := branches[i]
		if b.d <= 30 {
			continue
		}
		c.Hit(fmt.Sprintf("window-depth-%d", b.d))
		idx, err := f.InsertChain(b.ms)
		fr, _ := f.ch.GetFrontierMomentumStore().GetFrontierMomentum()
		what := fmt.Sprintf("a valid side chain of %d momentums (heights %d..%d) linking to the node's own momentum %d, %d heights below its frontier %d",
			len(b.ms), b.ms[0].Momentum.Height, b.ms[len(b.ms)-1].Momentum.Height, b.ms[0].Momentum.Height-1, b.d, H)
		if err == nil {
			c.Fail("C16 class=adopted-beyond-window sync-deep window run=%d: %s was ADOPTED (InsertChain index=%d err=nil, frontier now %d %v): the window is thirty heights", id, what, idx, fr.Height, fr.Hash)
			// the follower is no longer on the trunk: take a new one for the rest
			f.Destroy()
			if f = newTrunkFollower(); f == nil {
				return
			}
			continue
		}
		c.Hit("window-refused")
		if fr == nil || fr.Hash != trunkTip.Hash || f.StateDigest() != digest {
			c.Fail("C16 class=refused-but-moved sync-deep window run=%d: %s was refused (%v) but the node is no longer where it was (frontier %d, state %s, before %d %s)", id, what, err, f.Height(), f.StateDigest(), H, digest)
			f.Destroy()
			if f = newTrunkFollower(); f == nil {
				return
			}
		}
	}
	// inside the window: valid and strictly longer, must be adopted (the deepest of them; the follower leaves the trunk)
	for i := len(branches) - 1; i >= 0; i-- {
		b := branches[i]
		if b.d > 30 {
			continue
		}
		c.Hit(fmt.Sprintf("window-depth-%d", b.d))
		idx, err := f.InsertChain(b.ms)
		tip := b.ms[len(b.ms)-1].Momentum
		fr, _ := f.ch.GetFrontierMomentumStore().GetFrontierMomentum()
		if err != nil || fr == nil || fr.Hash != tip.Hash {
			c.Fail("C16 class=valid-longer-chain-not-adopted sync-deep window run=%d: a valid side chain of %d momentums linking %d heights below the frontier %d (inside the window) and ending two heights above it was not adopted: index=%d err=%v frontier=%d", id, len(b.ms), b.d, H, idx, err, f.Height())
		} else {
			c.Hit("window-adopted")
		}
		break
	}
}
