package main

import (
	"encoding/hex"
	"encoding/json"
	"fmt"
	"os"
	"path/filepath"
	"strings"
	"time"

	"github.com/zenon-network/go-zenon/chain/genesis"
	"github.com/zenon-network/go-zenon/node"
)

// ---------------------------------------------------------------------------------------------------
// genesis stream, the NODE-LEVEL path (C20): the other scenarios hand a configuration to chain / genesis functions; a deployed
// node gets its genesis from `node.Config{DataPath, GenesisFile}` through node.NewNode (makeZenonConfig / makeGenesisConfig →
// zenon.NewZenon → chain.NewChain) - and a process may create its node more than once (libznn stops and re-creates its node
// in-process; so does every embedding program).
//
// One scenario is a sequence of node creations in THIS process over two genesis-file PATHS, three CONTENTS (configuration A,
// a permutation of A, configuration B - all accepted by the validators) and data directories that were created under A, under
// B, or are fresh. Each step writes the contents to the path (replacing what the path held), creates the node with the exported
// constructor, reads the genesis the node was given (Zenon().Config().GenesisConfig), initialises its zenon (Zenon().Init(): chain.Init with the
// compatibility check; no p2p server, no RPC listener) and stops its chain (see nodeStart). The first steps are directed - same path with other contents, another path with
// the same contents, start on the database of the other configuration -, the rest is drawn.
//
// Statements (model-free): the genesis of the node is the genesis of the CONTENTS its configured file holds at that moment -
// whatever the path held before, whatever another path holds, whatever this process loaded earlier ("a pure function of the
// genesis configuration, independent of the process"); the node starts on a fresh directory and on a database created under the
// same genesis momentum, and refuses ("genesis state is incorrect") a database whose first momentum differs from the genesis of
// the file it is configured with. Every start is also a `gen-startup` line for the model (Genesis.checkGenesisCompatibility).
// ---------------------------------------------------------------------------------------------------

// nodeStart: one life of a node created by node.NewNode. hash = the genesis momentum the node was given ("" if none).
//
// How the node ends: Node.Stop presumes a STARTED node (on a node whose zenon was only initialised it panics with "close of nil
// channel"), and a started node cannot be stopped inside a process that goes on (the fetcher loop of the protocol manager outlives
// Stop and reads the closed chain: nil dereference, the process ends - a daemon has exited by then). So the node's zenon is
// initialised only (Zenon().Init(): chain.Init with the compatibility check; no p2p server, no RPC listener), then its ledger
// database and its wallet manager are stopped; the directory lock and the consensus database of that node stay open, therefore
// every node gets a data directory of its own, and "the database created under X" is a COPY of the ledger database (DataPath/nom)
// a previous node of this process created - taken after that node's chain was stopped.
func nodeStart(dataDir, genesisFile, nomFrom string) (hash string, res string) {
	var n *node.Node
	defer func() {
		if r := recover(); r != nil {
			res = "panic: " + firstLine(fmt.Sprint(r))
		}
		if n != nil {
			done := make(chan struct{})
			go func() {
				defer close(done)
				safely(func() { n.Zenon().Chain().Stop() })
				safely(func() { n.WalletManager().Stop() })
			}()
			select {
			case <-done:
			case <-time.After(20 * time.Second):
				res += " (the chain of the node does not stop)"
			}
		}
	}()
	if nomFrom != "" {
		if err := copyDir(nomFrom, filepath.Join(dataDir, "nom")); err != nil {
			return "", "error: harness cannot copy the ledger database: " + err.Error()
		}
	}
	cfg := &node.Config{
		DataPath:    dataDir,
		WalletPath:  filepath.Join(dataDir, node.DefaultWalletDir),
		GenesisFile: genesisFile,
		Name:        "zvh",
		LogLevel:    "crit",
		Net:         node.NetConfig{ListenHost: "127.0.0.1", ListenPort: 0, MinPeers: 1, MinConnectedPeers: 1, MaxPeers: 2, MaxPendingPeers: 2},
	}
	var err error
	n, err = node.NewNode(cfg)
	if err != nil {
		n = nil
		return "", "error: NewNode: " + firstLine(err.Error())
	}
	z := n.Zenon()
	if g := z.Config().GenesisConfig; g != nil {
		hash = hex.EncodeToString(g.GetGenesisMomentum().Hash.Bytes())
	}
	if err := z.Init(); err != nil {
		if strings.Contains(err.Error(), "genesis state is incorrect") {
			return hash, "refused"
		}
		return hash, "error: Init: " + firstLine(err.Error())
	}
	return hash, "started"
}

type nodeGenesisContents struct {
	name string
	raw  []byte
	hash string
}

// nodeGenesisPath: the scenario. a, b: two accepted configurations.
func nodeGenesisPath(c *Ctx, tmp, id string, a, b *genesis.GenesisConfig, nRandom int) {
	ha, ka := genesisHash(a)
	hb, kb := genesisHash(b)
	if ka != "ok" || kb != "ok" || ha == hb {
		c.Hit("node-path-skip")
		return
	}
	mk := func(name string, cfg *genesis.GenesisConfig, h string) nodeGenesisContents {
		raw, _ := json.Marshal(cfg)
		return nodeGenesisContents{name, raw, h}
	}
	A, Ap, B := mk("A", a, ha), mk("A-permuted", permuteCfg(c, a), ha), mk("B", b, hb)
	base := filepath.Join(tmp, id+"-node")
	os.MkdirAll(base, 0o700)
	defer os.RemoveAll(base)
	paths := map[string]string{"F1": filepath.Join(base, "genesis.json"), "F2": filepath.Join(base, "other", "genesis.json")}
	os.MkdirAll(filepath.Dir(paths["F2"]), 0o700)
	holds := map[string]string{}  // path name -> contents name, for the report
	dbHash := map[string]string{} // data directory name -> genesis momentum it was created under
	nomOf := map[string]string{}  // data directory name -> the ledger database a node of this process created for it (copied for every later node)
	ndirs, nphys := 0, 0
	var story []string
	step := func(pathName string, cont nodeGenesisContents, dirName string) bool {
		if dirName == "fresh" {
			ndirs++
			dirName = fmt.Sprintf("D%d", ndirs)
		}
		was := holds[pathName]
		if err := os.WriteFile(paths[pathName], cont.raw, 0o600); err != nil {
			c.Fail("C20 node-path %s: harness cannot write the genesis file: %v", id, err)
			return false
		}
		holds[pathName] = cont.name
		under, existed := dbHash[dirName]
		story = append(story, fmt.Sprintf("%s:=%s; NewNode{GenesisFile:%s, DataPath:%s}", pathName, cont.name, pathName, dirName))
		nphys++
		phys := filepath.Join(base, fmt.Sprintf("data%d", nphys))
		got, res := nodeStart(phys, paths[pathName], nomOf[dirName])
		story[len(story)-1] += " -> genesis " + shortHash(got) + " " + res
		tell := func() string {
			return fmt.Sprintf("steps of this process so far: [%s]; A = genesis %s, B = genesis %s; A: %s  B: %s", strings.Join(story, " | "), shortHash(ha), shortHash(hb), startupCfgSummary(a), startupCfgSummary(b))
		}
		c.Hit("node-path-steps")
		if was != "" && was != cont.name {
			c.Hit("node-path-file-replaced")
		}
		// 1. the genesis of the node is the genesis of the contents of its configured file
		if got != cont.hash {
			c.Fail("C20 node-path %s: the node is configured with genesis file %s, which holds configuration %s (genesis momentum %s) - it was given genesis %s: the genesis of a node must be a function of its configured genesis file's contents and of nothing the process did before; %s",
				id, pathName, cont.name, cont.hash, got, tell())
			return false
		}
		// 2. start / refuse
		want := "started"
		dbTok := "empty"
		if existed {
			dbTok = under
			if under != cont.hash {
				want = "refused"
			}
		}
		c.Emit("gen-startup %s %s | %s", dbTok, cont.hash, strings.Fields(res)[0])
		c.Hit("node-path:" + map[bool]string{true: "existing-db", false: "fresh-db"}[existed] + ":" + strings.Fields(res)[0])
		if res != want {
			if want == "refused" {
				c.Fail("C20 node-path %s: node started on a foreign database: data directory %s was created under genesis %s, the node is configured with genesis file %s holding %s (genesis %s): %s (must be refused); %s",
					id, dirName, under, pathName, cont.name, cont.hash, res, tell())
			} else {
				c.Fail("C20 node-path %s: node does not start (%s) on %s with genesis file %s holding %s (genesis %s); %s", id, res,
					map[bool]string{true: "its own database " + dirName, false: "the fresh directory " + dirName}[existed], pathName, cont.name, cont.hash, tell())
			}
			return false
		}
		if !existed {
			dbHash[dirName] = cont.hash
			nomOf[dirName] = filepath.Join(phys, "nom")
		}
		return true
	}
	// directed: same path / other contents; other path / same contents; the start on the foreign database; back again
	directed := []struct {
		path string
		cont nodeGenesisContents
		dir  string
	}{
		{"F1", A, "fresh"}, // D1, created under A
		{"F1", B, "fresh"}, // D2: the path now holds B
		{"F1", B, "D1"},    // configured with B on the database of A: refused
		{"F2", B, "D2"},    // another path, same contents: its own database
		{"F2", Ap, "D1"},   // that path now holds a permutation of A: the database of A
		{"F1", B, "D2"},    // F1 still holds B (F2 was replaced, not F1)
		{"F1", A, "D2"},    // A on the database of B: refused
	}
	for _, d := range directed {
		if !step(d.path, d.cont, d.dir) {
			return
		}
	}
	conts := []nodeGenesisContents{A, Ap, B}
	for i := 0; i < nRandom; i++ {
		dir := "fresh"
		if c.R.Intn(4) != 0 {
			dir = fmt.Sprintf("D%d", 1+c.R.Intn(ndirs))
		}
		if !step([]string{"F1", "F2"}[c.R.Intn(2)], conts[c.R.Intn(len(conts))], dir) {
			return
		}
	}
	c.Hit("node-path-scenario")
}

func shortHash(h string) string {
	if len(h) > 12 {
		return h[:12] + "…"
	}
	if h == "" {
		return "none"
	}
	return h
}
