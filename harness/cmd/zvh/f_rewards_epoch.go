package main

import (
	"fmt"
	"go/ast"
	"go/parser"
	"go/token"
	"os"
	"path/filepath"
	"sort"
	"strconv"
	"strings"
)

// Facts for "the credited amounts are a function of the chain alone" (Gen/RewardsEpoch.lean), from the AST of the reward
// computations in vm/embedded/implementation: everything they call through a package name or through their `context`
// parameter (so: what they can read — storage, momentum store / consensus statistics, constants; no clock, no
// randomness, no environment), and every `range` statement in them (a range over a Go map is the only source of
// iteration-order dependence; Props/C11Epoch proves the credits order-independent for exactly these).

var reFuncs = []string{"addReward", "computeDetailedPillarReward", "computeLiquidityRewardsForEpoch", "computeLiquidityStakeRewardsForEpoch",
	"computePillarRewardForEpoch", "computePillarsRewardForEpoch", "computeSentinelRewardsForEpoch", "computeStakeRewardsForEpoch",
	"getWeightedLiquidityStake", "getWeightedSentinel", "getWeightedStake"}

func init() {
	factGens = append(factGens, func(repo string) (*factFile, error) {
		f := newFactFile("RewardsEpoch")
		dir := filepath.Join(repo, "vm", "embedded", "implementation")
		ents, err := os.ReadDir(dir)
		if err != nil {
			return nil, err
		}
		want := map[string]bool{}
		for _, n := range reFuncs {
			want[n] = true
		}
		calls := map[string]bool{}
		var ranges, found []string
		for _, e := range ents {
			nm := e.Name()
			if e.IsDir() || !strings.HasSuffix(nm, ".go") || strings.HasSuffix(nm, "_test.go") || strings.HasSuffix(nm, "_verif.go") {
				continue
			}
			fs := token.NewFileSet()
			af, err := parser.ParseFile(fs, filepath.Join(dir, nm), nil, 0)
			if err != nil {
				return nil, err
			}
			pkgs := map[string]bool{"context": true}
			for _, im := range af.Imports {
				p, _ := strconv.Unquote(im.Path.Value)
				name := p[strings.LastIndex(p, "/")+1:]
				if im.Name != nil {
					name = im.Name.Name
				}
				pkgs[name] = true
			}
			for _, d := range af.Decls {
				fd, ok := d.(*ast.FuncDecl)
				if !ok || fd.Body == nil || fd.Recv != nil || !want[fd.Name.Name] {
					continue
				}
				found = append(found, fd.Name.Name)
				ast.Inspect(fd.Body, func(n ast.Node) bool {
					switch x := n.(type) {
					case *ast.SelectorExpr:
						if id, ok := x.X.(*ast.Ident); ok && pkgs[id.Name] && id.Name != "big" && id.Name != "common" && id.Name != "types" &&
							id.Name != "nom" && id.Name != "errors" && id.Name != "sort" {
							calls[id.Name+"."+x.Sel.Name] = true
						}
					case *ast.RangeStmt:
						ranges = append(ranges, fmt.Sprintf("%s: %s", fd.Name.Name, exprString(x.X)))
					}
					return true
				})
			}
		}
		var cl []string
		for c := range calls {
			cl = append(cl, c)
		}
		sort.Strings(cl)
		sort.Strings(ranges)
		sort.Strings(found)
		f.raw("-- vm/embedded/implementation: the reward computations found (top-level functions)\n")
		f.strList("RewardFuncs", found)
		f.raw("-- everything these functions reach through a package name or their `context` parameter (big, common, types, nom, errors, sort omitted)\n")
		f.strList("RewardReads", cl)
		f.raw("-- every `range` statement in them: \"function: ranged expression\"\n")
		f.strList("RewardRanges", ranges)
		return f, nil
	})
}
