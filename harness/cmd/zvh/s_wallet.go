package main

import (
	"bytes"
	"crypto/aes"
	"crypto/cipher"
	"crypto/ed25519"
	"crypto/hmac"
	crand "crypto/rand"
	"crypto/sha512"
	"encoding/binary"
	"encoding/hex"
	"encoding/json"
	"fmt"
	"os"
	"path/filepath"
	"strings"

	"github.com/tyler-smith/go-bip39"
	"golang.org/x/crypto/argon2"
	"golang.org/x/crypto/sha3"

	"github.com/zenon-network/go-zenon/common/types"
	"github.com/zenon-network/go-zenon/wallet"
)


// ---- independent reference of SLIP-0010 ed25519 (hardened only), written from the statement ---------

type hq struct{ key, msg, out []byte }

func refHmac(key, msg []byte) []byte {
	h := hmac.New(sha512.New, key)
	h.Write(msg)
	return h.Sum(nil)
}

// refParsePath: "m" followed by one or more "/<decimal>'" ; returns the decimal values (as big as they come,
// capped at 2^40 to stay in uint64) or ok=false.
func refParsePath(p string) (vals []uint64, ok bool) {
	if len(p) == 0 || p[0] != 'm' {
		return nil, false
	}
	i := 1
	for i < len(p) {
		if p[i] != '/' {
			return nil, false
		}
		i++
		j := i
		var v uint64
		for j < len(p) && p[j] >= '0' && p[j] <= '9' {
			if v < 1<<40 {
				v = v*10 + uint64(p[j]-'0')
			}
			j++
		}
		if j == i || j >= len(p) || p[j] != '\'' {
			return nil, false
		}
		vals = append(vals, v)
		i = j + 1
	}
	return vals, len(vals) > 0
}

// refDerive: the HMAC queries of SLIP-0010 for this path, the final key (nil if the derivation must be refused)
// and the refusal kind the statement implies: a path outside the grammar or with a segment >= 2^32 is invalid,
// a segment in [2^31, 2^32) would need a non-hardened index after the uint32 wrap and is refused.
func refDerive(path string, seed []byte) (qs []hq, key []byte, kind string) {
	vals, ok := refParsePath(path)
	if !ok {
		return nil, nil, "invalid-path"
	}
	for _, v := range vals {
		if v >= 1<<32 {
			return nil, nil, "invalid-path"
		}
	}
	out := refHmac([]byte("ed25519 seed"), seed)
	qs = append(qs, hq{[]byte("ed25519 seed"), seed, out})
	k, cc := out[:32], out[32:]
	for _, v := range vals {
		if v >= 1<<31 {
			return qs, nil, "no-public-derivation"
		}
		var ib [4]byte
		binary.BigEndian.PutUint32(ib[:], uint32(v)+0x80000000)
		msg := append(append([]byte{0}, k...), ib[:]...)
		out = refHmac(cc, msg)
		qs = append(qs, hq{cc, msg, out})
		k, cc = out[:32], out[32:]
	}
	return qs, k, ""
}

func fmtQueries(qs []hq) string {
	var sb strings.Builder
	fmt.Fprintf(&sb, "%d", len(qs))
	for _, q := range qs {
		fmt.Fprintf(&sb, " %s %s %s", hx(q.key), hx(q.msg), hx(q.out))
	}
	return sb.String()
}

func walletErrKind(err error) string {
	switch {
	case err == nil:
		return "ok"
	case err == wallet.ErrInvalidPath:
		return "invalid-path"
	case err == wallet.ErrNoPublicDerivation:
		return "no-public-derivation"
	case err == wallet.ErrWrongPassword:
		return "wrong-password"
	case err == wallet.ErrKeyFileInvalidVersion:
		return "version"
	case err == wallet.ErrKeyFileInvalidCipher:
		return "cipher"
	case err == wallet.ErrKeyFileInvalidKDF:
		return "kdf"
	default:
		return "other"
	}
}

// oracle values for the final key: public key and sha3(pub), computed with the standard library
func pubOracle(key []byte) (pub, h []byte) {
	if len(key) != 32 {
		return nil, nil
	}
	pub = ed25519.NewKeyFromSeed(key).Public().(ed25519.PublicKey)
	s := sha3.Sum256(pub)
	return pub, s[:]
}

var segBoundary = []string{"0", "1", "44", "73404", "2147483647", "2147483648", "2147483649", "4294967295", "4294967296",
	"4294967297", "00", "007", "0000000000000000000001", "99999999999999999999", "18446744073709551616", "2147483646", "127", "128"}

func randSeg(c *Ctx) string {
	switch c.R.Intn(5) {
	case 0, 1:
		return segBoundary[c.R.Intn(len(segBoundary))]
	case 2:
		return fmt.Sprint(c.R.Intn(200))
	case 3:
		return fmt.Sprint(c.R.Uint32())
	default:
		return fmt.Sprint(uint64(1)<<uint(c.R.Intn(36)) + uint64(c.R.Intn(3)) - 1)
	}
}

func randValidPath(c *Ctx) string {
	n := 1 + c.R.Intn(5)
	p := "m"
	for i := 0; i < n; i++ {
		p += "/" + randSeg(c) + "'"
	}
	return p
}

var malformed = []string{"", "m", "m/", "m/'", "m/0", "m/0''", "m//0'", "M/0'", "m/0'/", "m/0'/1", "/0'", "m/0'\n", "\nm/0'", " m/0'", "m/0' ",
	"m/+1'", "m/-1'", "m/1_0'", "m/0x10'", "m/1'2'", "m/1'/2'/", "m/٣'", "m/１'", "mm/0'", "m/0'm/0'", "m/44'/73404'/0", "m/44'/73404'/0h",
	"m/44’/0’", "m/1e3'", "m/ 1'", "m/1 '", "m\x00/0'", "m/0'\x00", "\xffm/0'", "m/0'\xff", "m/'0", "m/0'/'", "m/0'//1'", "n/0'"}

func mutatePath(c *Ctx, p string) string {
	b := []byte(p)
	switch c.R.Intn(5) {
	case 0:
		if len(b) > 0 {
			i := c.R.Intn(len(b))
			b = append(b[:i], b[i+1:]...)
		}
	case 1:
		i := c.R.Intn(len(b) + 1)
		ins := []byte("m/'0 9:.+-_\n")[c.R.Intn(12)]
		b = append(b[:i], append([]byte{ins}, b[i:]...)...)
	case 2:
		if len(b) > 0 {
			b[c.R.Intn(len(b))] ^= byte(1 << uint(c.R.Intn(8)))
		}
	case 3:
		if len(b) > 1 {
			i := c.R.Intn(len(b) - 1)
			b[i], b[i+1] = b[i+1], b[i]
		}
	default:
		b = append(b, b...)
	}
	return string(b)
}

func randSeed(c *Ctx) []byte {
	ls := []int{0, 1, 16, 32, 64, 64, 64, 64, 65, 128}
	b := make([]byte, ls[c.R.Intn(len(ls))])
	c.R.Read(b)
	return b
}

func deriveCase(c *Ctx, path string, seed []byte) {
	defer func() {
		if r := recover(); r != nil {
			c.Emit("wl-derive %s %s 0 - - | panic", hx(seed), hx([]byte(path)))
			c.Fail("DeriveForPath(%q) panicked: %v", path, r)
		}
	}()
	qs, key, kind := refDerive(path, seed)
	pub, h := pubOracle(key)
	kp, err := wallet.DeriveForPath(path, seed)
	obs := "err " + walletErrKind(err)
	if err == nil {
		obs = fmt.Sprintf("ok %s %s %s", hx(kp.Private[:32]), hx(kp.Public), hx(kp.Address.Bytes()))
	}
	c.Emit("wl-derive %s %s %s %s %s | %s", hx(seed), hx([]byte(path)), fmtQueries(qs), hx(pub), hx(h), obs)
	c.Hit("derive:" + walletErrKind(err))
	// model-free monitors (the statement): deterministic, hardened only, refusal kinds, key pair consistency
	want := kind
	if want == "" {
		want = "ok"
	}
	if walletErrKind(err) != want {
		c.Fail("DeriveForPath(%q): real outcome %s, SLIP-0010 hardened-only reference says %s", path, walletErrKind(err), want)
	}
	if err == nil {
		if !bytes.Equal(kp.Private[:32], key) {
			c.Fail("DeriveForPath(%q, %x): key %x, SLIP-0010 reference %x", path, seed, kp.Private[:32], key)
		}
		if !bytes.Equal(kp.Public, pub) || !bytes.Equal(kp.Private[32:], pub) {
			c.Fail("DeriveForPath(%q): public key is not the ed25519 public key of the derived seed", path)
		}
		want := append([]byte{0}, h[:19]...)
		if !bytes.Equal(kp.Address.Bytes(), want) {
			c.Fail("DeriveForPath(%q): address %x is not 0x00||sha3(pub)[:19] = %x", path, kp.Address.Bytes(), want)
		}
		kp2, err2 := wallet.DeriveForPath(path, append([]byte{}, seed...))
		if err2 != nil || !bytes.Equal(kp2.Private, kp.Private) || kp2.Address != kp.Address {
			c.Fail("DeriveForPath(%q) is not deterministic", path)
		}
	}
}

func indexCase(c *Ctx, i uint32, seed []byte) {
	defer func() {
		if r := recover(); r != nil {
			c.Emit("wl-derive-index %s %d 0 - - | panic", hx(seed), i)
			c.Fail("DeriveWithIndex(%d) panicked: %v", i, r)
		}
	}()
	path := fmt.Sprintf("m/44'/73404'/%d'", i)
	qs, key, kind := refDerive(path, seed)
	pub, h := pubOracle(key)
	kp, err := wallet.DeriveWithIndex(i, seed)
	obs := "err " + walletErrKind(err)
	if err == nil {
		obs = fmt.Sprintf("ok %s %s %s", hx(kp.Private[:32]), hx(kp.Public), hx(kp.Address.Bytes()))
	}
	c.Emit("wl-derive-index %s %d %s %s %s | %s", hx(seed), i, fmtQueries(qs), hx(pub), hx(h), obs)
	c.Hit("index:" + walletErrKind(err))
	// statement: indices are hardened only — exactly the indices below 2^31 derive
	if (err == nil) != (i < 1<<31) {
		c.Fail("DeriveWithIndex(%d): err=%v, expected success iff index < 2^31", i, err)
	}
	if err == nil && !bytes.Equal(kp.Private[:32], key) {
		c.Fail("DeriveWithIndex(%d, %x): key %x, SLIP-0010 reference %x (%s)", i, seed, kp.Private[:32], key, kind)
	}
	if err == nil {
		// signature made with the derived key verifies under its public key, not under a changed message
		msg := make([]byte, c.R.Intn(70))
		c.R.Read(msg)
		sig := kp.Sign(msg)
		ok, verr := wallet.VerifySignature(kp.Public, msg, sig)
		indep := ed25519.Verify(ed25519.PublicKey(pub), msg, sig)
		c.Emit("wl-sign %s %s %s %s %v | %v", hx(key), hx(msg), hx(pub), hx(sig), indep, ok && verr == nil)
		if !ok || verr != nil || !indep {
			c.Fail("signature by DeriveWithIndex(%d) key does not verify under its public key", i)
		}
		msg2 := append(append([]byte{}, msg...), 1)
		if ok2, _ := wallet.VerifySignature(kp.Public, msg2, sig); ok2 {
			c.Fail("signature verifies for a different message (index %d)", i)
		}
		c.Hit("sign-verify")
	}
}

// ---- key files ------------------------------------------------------------------------------------------

type kfJSON struct {
	BaseAddress string `json:"baseAddress"`
	Crypto      struct {
		CipherName   string `json:"cipherName"`
		KDF          string `json:"kdf"`
		CipherData   string `json:"cipherData"`
		Nonce        string `json:"nonce"`
		Argon2Params struct {
			Salt string `json:"salt"`
		} `json:"argon2Params"`
	} `json:"crypto"`
	Version   int   `json:"version"`
	Timestamp int64 `json:"timestamp"`
}

func un0x(s string) ([]byte, bool) {
	if !strings.HasPrefix(s, "0x") {
		return nil, false
	}
	b, err := hex.DecodeString(s[2:])
	return b, err == nil
}

var kdfCache = map[string][]byte{}

func refKdf(pw string, salt []byte) []byte {
	k := pw + "\x00|" + string(salt)
	if v, ok := kdfCache[k]; ok {
		return v
	}
	v := argon2.IDKey([]byte(pw), salt, 1, 64*1024, 4, 32)
	kdfCache[k] = v
	return v
}

func refSeal(key, nonce, msg []byte) []byte {
	blk, err := aes.NewCipher(key)
	if err != nil {
		return nil
	}
	g, err := cipher.NewGCM(blk)
	if err != nil || len(nonce) != g.NonceSize() {
		return nil
	}
	return g.Seal(nil, nonce, msg, []byte("zenon"))
}

func refOpen(key, nonce, ct []byte) ([]byte, bool) {
	blk, err := aes.NewCipher(key)
	if err != nil {
		return nil, false
	}
	g, err := cipher.NewGCM(blk)
	if err != nil || len(nonce) != g.NonceSize() {
		return nil, false
	}
	out, err := g.Open(nil, nonce, ct, []byte("zenon"))
	return out, err == nil
}

var passwords = []string{"", "a", "password", "Pässwörd-ünïcode-密码-🔑", strings.Repeat("long-password-", 300), "pass word\twith\nwhitespace", "\x00\x01\xff"}

func emitKeystore(c *Ctx, entropy []byte) (*wallet.KeyStore, bool) {
	mn, merr := bip39.NewMnemonic(entropy)
	mtok, stok := "none", "-"
	var seed []byte
	var qs []hq
	var key []byte
	if merr == nil {
		mtok = hx([]byte(mn))
		seed = bip39.NewSeed(mn, "")
		stok = hx(seed)
		qs, key, _ = refDerive("m/44'/73404'/0'", seed)
	}
	pub, h := pubOracle(key)
	ks, err := wallet.KeyStoreFromEntropyVerif(entropy)
	obs := "err entropy"
	if err == nil {
		obs = fmt.Sprintf("ok %s %s %s", hx(ks.BaseAddress.Bytes()), hx(ks.Seed), hx([]byte(ks.Mnemonic)))
	} else if merr == nil {
		obs = "err " + walletErrKind(err)
	}
	c.Emit("wl-keystore %s %s %s %s %s %s | %s", hx(entropy), mtok, stok, fmtQueries(qs), hx(pub), hx(h), obs)
	c.Hit(fmt.Sprintf("keystore:len%d:%v", len(entropy), err == nil))
	okLen := len(entropy) >= 16 && len(entropy) <= 32 && len(entropy)%4 == 0
	if (err == nil) != okLen {
		c.Fail("keyStoreFromEntropy(len %d): err=%v, allowed sizes are 16/20/24/28/32", len(entropy), err)
	}
	if err == nil {
		kp0, err0 := wallet.DeriveWithIndex(0, ks.Seed)
		if err0 != nil || kp0.Address != ks.BaseAddress {
			c.Fail("KeyStore.BaseAddress %v is not the index-0 address (entropy %x)", ks.BaseAddress, entropy)
		}
		_, kp1, _ := ks.DeriveForIndexPath(0)
		if kp1 == nil || kp1.Address != ks.BaseAddress {
			c.Fail("KeyStore.DeriveForIndexPath(0) differs from BaseAddress (entropy %x)", entropy)
		}
	}
	return ks, err == nil
}

func keyfileCase(c *Ctx, dir string, entropy []byte, pw string, flips int) {
	defer func() {
		if r := recover(); r != nil {
			c.Emit("wl-keyfile-panic %s | panic", hx(entropy))
			c.Fail("key file case panicked (entropy %x): %v", entropy, r)
		}
	}()
	ks, ok := emitKeystore(c, entropy)
	if !ok {
		return
	}
	kf, err := ks.Encrypt(pw)
	if err != nil {
		c.Fail("Encrypt failed: %v", err)
		return
	}
	kf.Path = filepath.Join(dir, fmt.Sprintf("kf-%d", c.lines))
	if err := kf.Write(); err != nil {
		c.Fail("KeyFile.Write failed: %v", err)
		return
	}
	raw, _ := os.ReadFile(kf.Path)
	var j kfJSON
	if err := json.Unmarshal(raw, &j); err != nil {
		c.Fail("key file is not JSON: %v", err)
		return
	}
	ct, ok1 := un0x(j.Crypto.CipherData)
	nonce, ok2 := un0x(j.Crypto.Nonce)
	salt, ok3 := un0x(j.Crypto.Argon2Params.Salt)
	addr, aerr := types.ParseAddress(j.BaseAddress)
	if !ok1 || !ok2 || !ok3 || aerr != nil {
		c.Fail("key file fields are not 0x-hex / bech32: %s", raw)
		return
	}
	dk := refKdf(pw, salt)
	sealed := refSeal(dk, nonce, entropy)
	c.Emit("wl-encrypt %s %s %s %s %s %s %s | baseAddress=%s cipherName=%s kdf=%s cipherData=%s nonce=%s salt=%s version=%d",
		hx(entropy), hx(ks.BaseAddress.Bytes()), hx([]byte(pw)), hx(salt), hx(nonce), hx(dk), hx(sealed),
		hx(addr.Bytes()), j.Crypto.CipherName, j.Crypto.KDF, j.Crypto.CipherData, j.Crypto.Nonce, j.Crypto.Argon2Params.Salt, j.Version)
	c.Hit("encrypt")
	// monitors on the file: recorded address = index-0 address; nonce / salt sizes; independent AEAD agrees
	kp0, _ := wallet.DeriveWithIndex(0, ks.Seed)
	if kp0 == nil || addr != kp0.Address {
		c.Fail("key file baseAddress %v is not the index-0 address of its entropy %x", addr, entropy)
	}
	if !bytes.Equal(ct, sealed) {
		c.Fail("key file cipherData is not AES-256-GCM(argon2id(pw,salt), nonce, entropy, ad=zenon)")
	}
	// read -> decrypt with the right password: exactly the entropy
	dec := func(tag string, path string, pw string, expectOK bool, fields [3][]byte) {
		kf2, err := wallet.ReadKeyFile(path)
		if err != nil {
			c.Emit("wl-read %s | err %s", tag, walletErrKind(err))
			if expectOK {
				c.Fail("ReadKeyFile failed on a freshly written file: %v", err)
			}
			return
		}
		dk := refKdf(pw, fields[2])
		pt, okOpen := refOpen(dk, fields[1], fields[0])
		otok := "none"
		if okOpen {
			otok = "some:" + hx(pt)
		}
		var ks2 *wallet.KeyStore
		panicked := false
		func() {
			defer func() {
				if r := recover(); r != nil {
					panicked = true
				}
			}()
			ks2, err = kf2.Decrypt(pw)
		}()
		obs := "err " + walletErrKind(err)
		if panicked {
			obs = "err panic"
			err = fmt.Errorf("panic")
		} else if err == nil {
			obs = "ok " + hx(ks2.Entropy)
		}
		c.Emit("wl-decrypt %s %s %s %s %s %s | %s", hx(fields[0]), hx(fields[1]), hx(fields[2]), hx([]byte(pw)), hx(dk), otok, obs)
		if panicked {
			c.Hit("decrypt:" + tag + ":panic")
		} else {
			c.Hit("decrypt:" + tag + ":" + walletErrKind(err))
		}
		if expectOK {
			if err != nil || !bytes.Equal(ks2.Entropy, entropy) {
				c.Fail("key file of entropy %x does not decrypt to it with its password (err=%v)", entropy, err)
			} else if ks2.BaseAddress != addr || ks2.Mnemonic != ks.Mnemonic || !bytes.Equal(ks2.Seed, ks.Seed) {
				c.Fail("decrypted key store differs from the original (entropy %x)", entropy)
			}
		} else if err == nil {
			c.Fail("key file decrypted although %s (entropy %x, pw %q)", tag, entropy, pw)
		}
	}
	dec("right-password", kf.Path, pw, true, [3][]byte{ct, nonce, salt})
	// wrong passwords
	for k := 0; k < 2; k++ {
		wp := passwords[c.R.Intn(len(passwords))]
		if k == 1 {
			wp = pw + "x"
			if c.R.Intn(2) == 0 && len(pw) > 0 {
				wp = pw[:len(pw)-1]
			}
		}
		if wp == pw {
			continue
		}
		dec("wrong-password", kf.Path, wp, false, [3][]byte{ct, nonce, salt})
	}
	// single-bit flips over ciphertext / nonce / salt, written back through the same JSON shape
	type pos struct{ field, bit int }
	var all []pos
	for fi, f := range [][]byte{ct, nonce, salt} {
		for b := 0; b < len(f)*8; b++ {
			all = append(all, pos{fi, b})
		}
	}
	c.R.Shuffle(len(all), func(a, b int) { all[a], all[b] = all[b], all[a] })
	if flips > len(all) || flips < 0 {
		flips = len(all)
	}
	var generic map[string]interface{}
	json.Unmarshal(raw, &generic)
	for _, p := range all[:flips] {
		fs := [3][]byte{append([]byte{}, ct...), append([]byte{}, nonce...), append([]byte{}, salt...)}
		fs[p.field][p.bit/8] ^= 1 << uint(p.bit%8)
		cr := generic["crypto"].(map[string]interface{})
		cr["cipherData"] = "0x" + hex.EncodeToString(fs[0])
		cr["nonce"] = "0x" + hex.EncodeToString(fs[1])
		cr["argon2Params"].(map[string]interface{})["salt"] = "0x" + hex.EncodeToString(fs[2])
		out, _ := json.Marshal(generic)
		tp := kf.Path + ".tampered"
		os.WriteFile(tp, out, 0o600)
		dec([]string{"flip-cipher", "flip-nonce", "flip-salt"}[p.field], tp, pw, false, fs)
	}
	// structural changes: fields shortened / extended / emptied. Must never decrypt. (A nonce of the wrong length makes
	// the AEAD panic inside Decrypt — observed and modelled as outcome "panic"; counted, not a property violation:
	// the statement asks for failure, which a panic is.)
	writeFields := func(fs [3][]byte) string {
		var g map[string]interface{}
		json.Unmarshal(raw, &g)
		cr := g["crypto"].(map[string]interface{})
		cr["cipherData"] = "0x" + hex.EncodeToString(fs[0])
		cr["nonce"] = "0x" + hex.EncodeToString(fs[1])
		cr["argon2Params"].(map[string]interface{})["salt"] = "0x" + hex.EncodeToString(fs[2])
		out, _ := json.Marshal(g)
		tp := kf.Path + ".struct"
		os.WriteFile(tp, out, 0o600)
		return tp
	}
	for _, st := range []struct {
		tag string
		f   func(fs *[3][]byte)
	}{
		{"nonce-short", func(fs *[3][]byte) { fs[1] = fs[1][:len(fs[1])-1] }},
		{"nonce-long", func(fs *[3][]byte) { fs[1] = append(fs[1], 0) }},
		{"nonce-empty", func(fs *[3][]byte) { fs[1] = nil }},
		{"cipher-short", func(fs *[3][]byte) { fs[0] = fs[0][:len(fs[0])-1] }},
		{"cipher-long", func(fs *[3][]byte) { fs[0] = append(fs[0], 0) }},
		{"cipher-empty", func(fs *[3][]byte) { fs[0] = nil }},
		{"salt-short", func(fs *[3][]byte) { fs[2] = fs[2][:len(fs[2])-1] }},
		{"salt-empty", func(fs *[3][]byte) { fs[2] = nil }},
	} {
		if flips >= 0 && c.R.Intn(3) != 0 {
			continue // every structural case on the sweep file, a third of them on the others
		}
		fs := [3][]byte{append([]byte{}, ct...), append([]byte{}, nonce...), append([]byte{}, salt...)}
		st.f(&fs)
		dec(st.tag, writeFields(fs), pw, false, fs)
	}
	// text level: the byte fields as JSON strings, well-formed and malformed (no 0x, odd length, non-hex, upper case)
	for _, tc := range []struct{ tag, val string }{
		{"plain", j.Crypto.Nonce}, {"no-prefix", strings.TrimPrefix(j.Crypto.Nonce, "0x")}, {"odd", j.Crypto.Nonce + "0"},
		{"non-hex", "0xzz" + j.Crypto.Nonce[4:]}, {"upper", "0x" + strings.ToUpper(j.Crypto.Nonce[2:])}, {"upper-prefix", "0X" + j.Crypto.Nonce[2:]},
	} {
		if flips >= 0 && c.R.Intn(3) != 0 {
			continue
		}
		var g map[string]interface{}
		json.Unmarshal(raw, &g)
		g["crypto"].(map[string]interface{})["nonce"] = tc.val
		out, _ := json.Marshal(g)
		tp := kf.Path + ".text"
		os.WriteFile(tp, out, 0o600)
		kf3, err := wallet.ReadKeyFile(tp)
		obs := "err json"
		if err == nil {
			obs = fmt.Sprintf("ok %s %s %s", hx(kf3.Crypto.CipherData), hx(kf3.Crypto.AesNonce), hx(kf3.Crypto.Argon2Params.Salt))
		}
		c.Emit("wl-text %s %s %s | %s", j.Crypto.CipherData, tc.val, j.Crypto.Argon2Params.Salt, obs)
		c.Hit("text:" + tc.tag + ":" + strings.Fields(obs)[0])
	}
	// header checks of ReadKeyFile
	for _, m := range []struct {
		tag string
		f   func(g map[string]interface{})
	}{
		{"version", func(g map[string]interface{}) { g["version"] = 2 }},
		{"cipher", func(g map[string]interface{}) { g["crypto"].(map[string]interface{})["cipherName"] = "aes-128-gcm" }},
		{"kdf", func(g map[string]interface{}) { g["crypto"].(map[string]interface{})["kdf"] = "scrypt" }},
	} {
		var g map[string]interface{}
		json.Unmarshal(raw, &g)
		m.f(g)
		out, _ := json.Marshal(g)
		tp := kf.Path + ".hdr"
		os.WriteFile(tp, out, 0o600)
		_, err := wallet.ReadKeyFile(tp)
		var j2 kfJSON
		json.Unmarshal(out, &j2)
		c.Emit("wl-readchecks %s %s %d | %s", hx([]byte(j2.Crypto.CipherName)), hx([]byte(j2.Crypto.KDF)), j2.Version, walletErrKind(err))
		if walletErrKind(err) != m.tag {
			c.Fail("ReadKeyFile accepted/misreported a file with wrong %s: %v", m.tag, err)
		}
	}
	os.Remove(kf.Path)
}

func init() {
	register("wallet", func(c *Ctx) {
		// the real Encrypt draws salt and nonce from crypto/rand.Reader: feed it from the seeded PRNG so that a trace is a
		// function of --seed (replays reproduce the same key files)
		oldReader := crand.Reader
		crand.Reader = c.R
		defer func() { crand.Reader = oldReader }()
		// 1. path grammar
		pathCase := func(p string) {
			r := wallet.IsValidPathVerif(p)
			c.Emit("wl-path %s | %v", hx([]byte(p)), r)
			vals, ok := refParsePath(p)
			want := ok
			for _, v := range vals {
				if v >= 1<<32 {
					want = false
				}
			}
			if r != want {
				c.Fail("isValidPath(%q)=%v, grammar m(/<decimal below 2^32>')+ says %v", p, r, want)
			}
			c.Hit(fmt.Sprintf("path:%v", r))
		}
		for _, p := range malformed {
			pathCase(p)
		}
		for _, s := range segBoundary {
			pathCase("m/" + s + "'")
			pathCase("m/44'/" + s + "'/0'")
		}
		for i := 0; i < c.N; i++ {
			p := randValidPath(c)
			if c.R.Intn(3) == 0 {
				p = mutatePath(c, p)
			}
			pathCase(p)
		}
		// 2. derivation along paths, incl. the boundary segments and malformed paths
		fixedSeed, _ := hex.DecodeString("000102030405060708090a0b0c0d0e0f")
		for _, s := range segBoundary {
			deriveCase(c, "m/"+s+"'", fixedSeed)
			deriveCase(c, "m/44'/73404'/"+s+"'", fixedSeed)
			deriveCase(c, "m/"+s+"'/5'", fixedSeed)
		}
		for _, p := range malformed {
			deriveCase(c, p, fixedSeed)
		}
		for i := 0; i < c.N/3; i++ {
			p := randValidPath(c)
			if c.R.Intn(5) == 0 {
				p = mutatePath(c, p)
			}
			deriveCase(c, p, randSeed(c))
		}
		// 3. DeriveWithIndex over uint32 incl. boundaries, sign / verify with the derived key
		for _, i := range []uint32{0, 1, 2, 127, 128, 1<<31 - 2, 1<<31 - 1, 1 << 31, 1<<31 + 1, 1<<32 - 2, 1<<32 - 1} {
			indexCase(c, i, fixedSeed)
		}
		for i := 0; i < c.N/3; i++ {
			indexCase(c, randU32(c), randSeed(c))
		}
		// 3b. the single step key.derive(i) and newMasterKey directly (tag-guarded exports), i over the whole uint32 range
		for i := 0; i < c.N/3; i++ {
			k := make([]byte, 32)
			cc := make([]byte, 32)
			c.R.Read(k)
			c.R.Read(cc)
			idx := randU32(c)
			if c.R.Intn(4) == 0 {
				idx = []uint32{0, 1<<31 - 1, 1 << 31, 1<<31 + 1, 1<<32 - 1}[c.R.Intn(5)]
			}
			var ib [4]byte
			binary.BigEndian.PutUint32(ib[:], idx)
			msg := append(append([]byte{0}, k...), ib[:]...)
			out := refHmac(cc, msg)
			nk, ncc, err := wallet.DeriveStepVerif(k, cc, idx)
			obs := "err " + walletErrKind(err)
			if err == nil {
				obs = fmt.Sprintf("ok %s %s", hx(nk), hx(ncc))
			}
			c.Emit("wl-step %s %s %d %s %s | %s", hx(k), hx(cc), idx, hx(msg), hx(out), obs)
			c.Hit("step:" + walletErrKind(err))
			if (err == nil) != (idx >= 1<<31) {
				c.Fail("key.derive(%d): err=%v, hardened-only derivation must refuse exactly the indices below 2^31", idx, err)
			}
			if err == nil && (!bytes.Equal(nk, out[:32]) || !bytes.Equal(ncc, out[32:])) {
				c.Fail("key.derive(%d) is not HMAC-SHA512(chain, 0x00||key||be32(i)) split 32/32", idx)
			}
			seed := randSeed(c)
			mo := refHmac([]byte("ed25519 seed"), seed)
			mk, mcc, merr := wallet.MasterKeyVerif(seed)
			c.Emit("wl-master %s %s | %s %s", hx(seed), hx(mo), hx(mk), hx(mcc))
			if merr != nil || !bytes.Equal(mk, mo[:32]) || !bytes.Equal(mcc, mo[32:]) {
				c.Fail("newMasterKey(%x) is not HMAC-SHA512(\"ed25519 seed\", seed) split 32/32", seed)
			}
		}
		// 4. PubKeyToAddress on arbitrary byte strings
		for i := 0; i < c.N/3; i++ {
			pk := make([]byte, []int{0, 1, 31, 32, 32, 32, 33, 64}[c.R.Intn(8)])
			c.R.Read(pk)
			h := sha3.Sum256(pk)
			a := types.PubKeyToAddress(pk)
			c.Emit("wl-addr %s %s | %s", hx(pk), hx(h[:]), hx(a.Bytes()))
			if a[0] != 0 || !bytes.Equal(a[1:], h[:19]) || len(a.Bytes()) != 20 {
				c.Fail("PubKeyToAddress(%x)=%x is not 0x00||sha3(pk)[:19]", pk, a.Bytes())
			}
			c.Hit("addr")
		}
		// 5. key stores / key files (Argon2id: ~0.1-0.3 s per KDF call)
		dir, err := os.MkdirTemp("", "zv-wallet-")
		if err != nil {
			c.Fail("tempdir: %v", err)
			return
		}
		defer os.RemoveAll(dir)
		for _, l := range []int{0, 1, 15, 16, 17, 20, 24, 28, 32, 33, 36, 64} {
			e := make([]byte, l)
			c.R.Read(e)
			emitKeystore(c, e)
		}
		nk := c.N / 60
		if v, ok := c.Args["keyfiles"]; ok {
			fmt.Sscan(v, &nk)
		}
		flips := 6
		if v, ok := c.Args["flips"]; ok {
			fmt.Sscan(v, &flips)
		}
		sizes := []int{16, 20, 24, 28, 32}
		for i := 0; i < nk; i++ {
			e := make([]byte, sizes[i%len(sizes)])
			c.R.Read(e)
			if i == 0 {
				e = make([]byte, 16) // all-zero entropy
			}
			fl := flips
			if i == 1 {
				fl = -1 // one complete sweep of every bit of ciphertext, nonce and salt
			}
			keyfileCase(c, dir, e, passwords[i%len(passwords)], fl)
		}
		// 6. password alphabets: own password opens, every near miss (white space, case, normalisation, …) is refused
		walletPasswordFamily(c, dir)
		// 7. operation sequences on one key file object / one Manager: decrypting is read-only
		walletSequences(c, dir)
		// 8. persisted round trips over a path that already holds another key file (every other size, same size) or garbage
		if c.Args["overwrite"] != "0" {
			walletOverwrite(c, dir)
		}
		// 9. key files whose non-authenticated members (baseAddress, version, timestamp, Path, unknown members, spelling) were
		//    changed: whatever is accepted yields the entropy and ITS index-0 address, also through a Manager and a re-encryption
		if c.Args["unauth"] != "0" {
			walletUnauthFields(c, dir)
		}
		// 10. operation sequences on ONE KeyStore object: derivation is a function of (entropy, index), not of the history
		if c.Args["ksobj"] != "0" {
			walletKeyStoreSequences(c)
		}
		// 11. a key file depends on nothing but entropy, password, salt and nonce: scheduler widths, objects held while the
		//     random source is drained, private random slices
		if c.Args["env"] != "0" {
			walletEnvIndependence(c, dir)
		}
	})
}
