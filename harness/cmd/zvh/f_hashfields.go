package main

// Facts for C13 (L9 Codec): what exactly enters the hash of an account block / momentum, in which order and
// through which encoder — read from the AST of /repo's working tree — plus the complete field lists of the
// two structs and the protobuf schema (field numbers and wire kinds) taken from the live generated types.
//
//	Gen.abHashFields / Gen.momentumHashFields : ordered (field, encoder expression with the field replaced by _)
//	Gen.abStructFields / Gen.momentumStructFields : every field of nom.AccountBlock / nom.Momentum, in order
//	Gen.hashHeightBytesFields / Gen.accountHeaderBytesFields : the same extraction for the two nested Bytes()
//	Gen.src_* : normalised source of the small helper functions the pre-image relies on (trip wires)
//	Gen.abProtoSchema … : (Go field, number, wire kind, cardinality) from the protobuf struct tags
//	Gen.abProtoAssign / Gen.abDeProtoAssign … : composite-literal assignments of Proto()/DeProto…()

import (
	"bytes"
	"fmt"
	"go/ast"
	"go/parser"
	"go/printer"
	"go/token"
	"path/filepath"
	"reflect"
	"strconv"
	"strings"

	"github.com/zenon-network/go-zenon/chain/nom"
	"github.com/zenon-network/go-zenon/common/types"
)

type astPkg struct {
	fset  *token.FileSet
	files []*ast.File
}

func parsePkgDir(dir string) (*astPkg, error) {
	fset := token.NewFileSet()
	pkgs, err := parser.ParseDir(fset, dir, nil, parser.ParseComments)
	if err != nil {
		return nil, err
	}
	p := &astPkg{fset: fset}
	names := []string{}
	for name := range pkgs {
		names = append(names, name)
	}
	// deterministic order
	for i := range names {
		for j := i + 1; j < len(names); j++ {
			if names[j] < names[i] {
				names[i], names[j] = names[j], names[i]
			}
		}
	}
	for _, name := range names {
		if strings.HasSuffix(name, "_test") {
			continue
		}
		fns := []string{}
		for fn := range pkgs[name].Files {
			fns = append(fns, fn)
		}
		for i := range fns {
			for j := i + 1; j < len(fns); j++ {
				if fns[j] < fns[i] {
					fns[i], fns[j] = fns[j], fns[i]
				}
			}
		}
		for _, fn := range fns {
			if strings.HasSuffix(fn, "_test.go") || strings.HasSuffix(fn, "_verif.go") {
				continue
			}
			p.files = append(p.files, pkgs[name].Files[fn])
		}
	}
	return p, nil
}

func (p *astPkg) exprString(e ast.Node) string {
	var b bytes.Buffer
	printer.Fprint(&b, p.fset, e)
	return strings.Join(strings.Fields(b.String()), " ")
}

// structFields returns (name, type) of every field of the named struct type, in declaration order.
func (p *astPkg) structFields(name string) ([][2]string, error) {
	for _, f := range p.files {
		for _, d := range f.Decls {
			gd, ok := d.(*ast.GenDecl)
			if !ok {
				continue
			}
			for _, s := range gd.Specs {
				ts, ok := s.(*ast.TypeSpec)
				if !ok || ts.Name.Name != name {
					continue
				}
				st, ok := ts.Type.(*ast.StructType)
				if !ok {
					return nil, fmt.Errorf("%s is not a struct", name)
				}
				out := [][2]string{}
				for _, fl := range st.Fields.List {
					t := p.exprString(fl.Type)
					if len(fl.Names) == 0 { // embedded
						n := t
						if i := strings.LastIndex(n, "."); i >= 0 {
							n = n[i+1:]
						}
						out = append(out, [2]string{strings.TrimPrefix(n, "*"), t})
					}
					for _, n := range fl.Names {
						out = append(out, [2]string{n.Name, t})
					}
				}
				return out, nil
			}
		}
	}
	return nil, fmt.Errorf("struct %s not found", name)
}

// method finds the FuncDecl of (recvType).name; recvType without '*'. recvType "" = plain function.
func (p *astPkg) method(recvType, name string) (*ast.FuncDecl, string, error) {
	for _, f := range p.files {
		for _, d := range f.Decls {
			fd, ok := d.(*ast.FuncDecl)
			if !ok || fd.Name.Name != name {
				continue
			}
			if recvType == "" {
				if fd.Recv == nil {
					return fd, "", nil
				}
				continue
			}
			if fd.Recv == nil || len(fd.Recv.List) != 1 {
				continue
			}
			t := strings.TrimPrefix(p.exprString(fd.Recv.List[0].Type), "*")
			if t != recvType {
				continue
			}
			rn := ""
			if len(fd.Recv.List[0].Names) == 1 {
				rn = fd.Recv.List[0].Names[0].Name
			}
			return fd, rn, nil
		}
	}
	return nil, "", fmt.Errorf("func (%s).%s not found", recvType, name)
}

// joinBytesFields extracts the ordered arguments of the single common.JoinBytes(...) call in the body of
// the function: for each argument the receiver member it reads and the encoder expression around it.
func (p *astPkg) joinBytesFields(recvType, name string) ([][2]string, error) {
	fd, recv, err := p.method(recvType, name)
	if err != nil {
		return nil, err
	}
	var calls []*ast.CallExpr
	ast.Inspect(fd.Body, func(n ast.Node) bool {
		if c, ok := n.(*ast.CallExpr); ok {
			if p.exprString(c.Fun) == "common.JoinBytes" {
				calls = append(calls, c)
			}
		}
		return true
	})
	if len(calls) != 1 {
		return nil, fmt.Errorf("(%s).%s: expected exactly one common.JoinBytes call, found %d", recvType, name, len(calls))
	}
	// the function must be exactly `return <wrap>(common.JoinBytes(...))`: one statement
	if len(fd.Body.List) != 1 {
		return nil, fmt.Errorf("(%s).%s: body has %d statements, expected a single return", recvType, name, len(fd.Body.List))
	}
	out := [][2]string{}
	for _, a := range calls[0].Args {
		members := []string{}
		ast.Inspect(a, func(n ast.Node) bool {
			if s, ok := n.(*ast.SelectorExpr); ok {
				if id, ok := s.X.(*ast.Ident); ok && id.Name == recv {
					members = append(members, s.Sel.Name)
				}
			}
			return true
		})
		if len(members) != 1 {
			return nil, fmt.Errorf("(%s).%s: argument %q reads %d receiver members", recvType, name, p.exprString(a), len(members))
		}
		enc := strings.Replace(p.exprString(a), recv+"."+members[0], "_", 1)
		out = append(out, [2]string{members[0], enc})
	}
	return out, nil
}

func (p *astPkg) funcSource(recvType, name string) (string, error) {
	fd, _, err := p.method(recvType, name)
	if err != nil {
		return "", err
	}
	fd2 := *fd
	fd2.Doc = nil
	return p.exprString(&fd2), nil
}

// compositeAssign: the key/value pairs of the first composite literal of type litType in the function.
func (p *astPkg) compositeAssign(recvType, name, litType string) ([][2]string, error) {
	fd, _, err := p.method(recvType, name)
	if err != nil {
		return nil, err
	}
	var lit *ast.CompositeLit
	ast.Inspect(fd.Body, func(n ast.Node) bool {
		if lit != nil {
			return false
		}
		if c, ok := n.(*ast.CompositeLit); ok && c.Type != nil && p.exprString(c.Type) == litType {
			lit = c
			return false
		}
		return true
	})
	if lit == nil {
		return nil, fmt.Errorf("(%s).%s: no composite literal %s", recvType, name, litType)
	}
	out := [][2]string{}
	for _, e := range lit.Elts {
		kv, ok := e.(*ast.KeyValueExpr)
		if !ok {
			return nil, fmt.Errorf("(%s).%s: positional composite literal", recvType, name)
		}
		out = append(out, [2]string{p.exprString(kv.Key), p.exprString(kv.Value)})
	}
	return out, nil
}

func pairList(f *factFile, name string, ps [][2]string) {
	ss := make([]string, len(ps))
	for i, p := range ps {
		ss[i] = fmt.Sprintf("(%q, %q)", p[0], p[1])
	}
	f.raw("def %s : List (String × String) := [\n  %s]\n", name, strings.Join(ss, ",\n  "))
}

func firsts(ps [][2]string) []string {
	r := make([]string, len(ps))
	for i := range ps {
		r[i] = ps[i][0]
	}
	return r
}

// protoSchema reads the protobuf struct tags of a generated message type.
func protoSchema(f *factFile, name string, v interface{}) {
	t := reflect.TypeOf(v)
	ss := []string{}
	for i := 0; i < t.NumField(); i++ {
		tag, ok := t.Field(i).Tag.Lookup("protobuf")
		if !ok {
			continue
		}
		parts := strings.Split(tag, ",")
		num, _ := strconv.Atoi(parts[1])
		kind := parts[0] // varint | bytes
		if kind == "bytes" && t.Field(i).Type.Kind() != reflect.Slice {
			kind = "message"
		} else if kind == "bytes" && t.Field(i).Type.Elem().Kind() != reflect.Uint8 {
			kind = "message"
		}
		ss = append(ss, fmt.Sprintf("(%q, %d, %q, %q)", t.Field(i).Name, num, kind, parts[2]))
	}
	f.raw("def %s : List (String × Nat × String × String) := [\n  %s]\n", name, strings.Join(ss, ",\n  "))
}

func init() {
	factGens = append(factGens, func(repo string) (*factFile, error) {
		f := newFactFile("HashFields")
		nomPkg, err := parsePkgDir(filepath.Join(repo, "chain", "nom"))
		if err != nil {
			return nil, err
		}
		typesPkg, err := parsePkgDir(filepath.Join(repo, "common", "types"))
		if err != nil {
			return nil, err
		}
		commonPkg, err := parsePkgDir(filepath.Join(repo, "common"))
		if err != nil {
			return nil, err
		}

		f.raw("-- widths (live packages)\n")
		f.nat("HashSize", types.HashSize)
		f.nat("AddressSize", types.AddressSize)
		f.nat("ZtsSize", types.ZenonTokenStandardSize)
		f.nat("NonceSize", len(nom.Nonce{}.Data))
		// pad width of common.BigIntToBytes: the literal second argument of both LeftPadBytes calls
		fd, _, err := commonPkg.method("", "BigIntToBytes")
		if err != nil {
			return nil, err
		}
		pads := map[string]bool{}
		ast.Inspect(fd.Body, func(n ast.Node) bool {
			if c, ok := n.(*ast.CallExpr); ok && strings.HasSuffix(commonPkg.exprString(c.Fun), "LeftPadBytes") && len(c.Args) == 2 {
				pads[commonPkg.exprString(c.Args[1])] = true
			}
			return true
		})
		if len(pads) != 1 {
			return nil, fmt.Errorf("BigIntToBytes: expected one pad width, found %v", pads)
		}
		for k := range pads {
			w, err := strconv.Atoi(k)
			if err != nil {
				return nil, fmt.Errorf("BigIntToBytes: pad width %q is not a literal", k)
			}
			f.nat("BigIntPadWidth", w)
		}

		// verifier/account_block.go amounts(): negative send amounts rejected, BitLen() bound
		verPkg, err := parsePkgDir(filepath.Join(repo, "verifier"))
		if err != nil {
			return nil, err
		}
		vfd, vrecv, err := verPkg.method("accountBlockVerifier", "amounts")
		if err != nil {
			return nil, err
		}
		negRejected, bitLen := false, -1
		ast.Inspect(vfd.Body, func(n ast.Node) bool {
			ifs, ok := n.(*ast.IfStmt)
			if !ok {
				return true
			}
			be, ok := ifs.Cond.(*ast.BinaryExpr)
			if !ok || len(ifs.Body.List) != 1 {
				return true
			}
			if _, isRet := ifs.Body.List[0].(*ast.ReturnStmt); !isRet {
				return true
			}
			lhs, rhs := verPkg.exprString(be.X), verPkg.exprString(be.Y)
			if lhs == vrecv+".block.Amount.Sign()" && be.Op == token.EQL && rhs == "-1" {
				negRejected = true
			}
			if lhs == vrecv+".block.Amount.BitLen()" && be.Op == token.GTR {
				if v, err := strconv.Atoi(rhs); err == nil {
					bitLen = v
				}
			}
			return true
		})
		if bitLen < 0 {
			return nil, fmt.Errorf("verifier amounts(): no `Amount.BitLen() > N` rejection found")
		}
		f.raw("-- verifier/account_block.go (abv *accountBlockVerifier) amounts(): `Amount.Sign() == -1` and `Amount.BitLen() > N` are rejected\n")
		f.raw("def abAmountNegativeRejected : Bool := %v\n", negRejected)
		f.nat("abAmountMaxBitLen", bitLen)

		f.raw("\n-- chain/nom/account_block.go: (ab *AccountBlock) ComputeHash — ordered JoinBytes arguments\n")
		abh, err := nomPkg.joinBytesFields("AccountBlock", "ComputeHash")
		if err != nil {
			return nil, err
		}
		pairList(f, "abHashFields", abh)
		f.raw("-- chain/nom/momentum.go: (m *Momentum) ComputeHash\n")
		mh, err := nomPkg.joinBytesFields("Momentum", "ComputeHash")
		if err != nil {
			return nil, err
		}
		pairList(f, "momentumHashFields", mh)
		f.raw("-- common/types: (b *HashHeight) Bytes, (abh *AccountHeader) Bytes\n")
		hh, err := typesPkg.joinBytesFields("HashHeight", "Bytes")
		if err != nil {
			return nil, err
		}
		pairList(f, "hashHeightBytesFields", hh)
		ah, err := typesPkg.joinBytesFields("AccountHeader", "Bytes")
		if err != nil {
			return nil, err
		}
		pairList(f, "accountHeaderBytesFields", ah)

		f.raw("\n-- every field of the structs (name, type), declaration order\n")
		abs, err := nomPkg.structFields("AccountBlock")
		if err != nil {
			return nil, err
		}
		pairList(f, "abStructFieldTypes", abs)
		f.strList("abStructFields", firsts(abs))
		ms, err := nomPkg.structFields("Momentum")
		if err != nil {
			return nil, err
		}
		pairList(f, "momentumStructFieldTypes", ms)
		f.strList("momentumStructFields", firsts(ms))
		for _, sn := range []struct {
			p    *astPkg
			name string
		}{{nomPkg, "Nonce"}, {typesPkg, "HashHeight"}, {typesPkg, "AccountHeader"}, {nomPkg, "DetailedMomentum"}} {
			fs, err := sn.p.structFields(sn.name)
			if err != nil {
				return nil, err
			}
			pairList(f, "struct_"+sn.name, fs)
		}

		f.raw("\n-- helper functions the pre-image goes through (normalised source; reviewed copies live in Model/Codec.lean)\n")
		for _, s := range []struct {
			p          *astPkg
			recv, name string
			lean       string
		}{
			{nomPkg, "AccountBlock", "DescendantBlocksHash", "src_DescendantBlocksHash"},
			{nomPkg, "MomentumContent", "Bytes", "src_MomentumContentBytes"},
			{nomPkg, "MomentumContent", "Hash", "src_MomentumContentHash"},
			{commonPkg, "", "BigIntToBytes", "src_BigIntToBytes"},
			{commonPkg, "", "BytesToBigInt", "src_BytesToBigInt"},
			{commonPkg, "", "Uint64ToBytes", "src_Uint64ToBytes"},
			{commonPkg, "", "JoinBytes", "src_JoinBytes"},
			{commonPkg, "", "StringToBigInt", "src_StringToBigInt"},
			{typesPkg, "", "NewHash", "src_NewHash"},
		} {
			src, err := s.p.funcSource(s.recv, s.name)
			if err != nil {
				return nil, err
			}
			f.raw("def %s : String := %q\n", s.lean, src)
		}

		f.raw("\n-- protobuf schema from the struct tags of the generated types: (Go field, number, kind, cardinality)\n")
		protoSchema(f, "abProtoSchema", nom.AccountBlockProto{})
		protoSchema(f, "momentumProtoSchema", nom.MomentumProto{})
		protoSchema(f, "hashProtoSchema", types.HashProto{})
		protoSchema(f, "addressProtoSchema", types.AddressProto{})
		protoSchema(f, "hashHeightProtoSchema", types.HashHeightProto{})
		protoSchema(f, "accountHeaderProtoSchema", types.AccountHeaderProto{})

		f.raw("\n-- Proto() / DeProto…() composite literals: (target field, source expression)\n")
		for _, s := range []struct {
			p                *astPkg
			recv, name, lit  string
			lean             string
		}{
			{nomPkg, "AccountBlock", "Proto", "AccountBlockProto", "abProtoAssign"},
			{nomPkg, "", "DeProtoAccountBlock", "AccountBlock", "abDeProtoAssign"},
			{nomPkg, "Momentum", "Proto", "MomentumProto", "momentumProtoAssign"},
			{nomPkg, "", "DeProtoMomentum", "Momentum", "momentumDeProtoAssign"},
			{nomPkg, "AccountBlock", "ToNomMarshalJson", "AccountBlockMarshal", "abJsonAssign"},
		} {
			ps, err := s.p.compositeAssign(s.recv, s.name, s.lit)
			if err != nil {
				return nil, err
			}
			pairList(f, s.lean, ps)
		}
		return f, nil
	})
}
