package main

import (
	"bytes"
	"fmt"
	"go/ast"
	"go/printer"
	"go/token"
	"strings"

	"github.com/zenon-network/go-zenon/chain/nom"
	"github.com/zenon-network/go-zenon/common/types"
)

func init() {
	factGens = append(factGens, func(repo string) (*factFile, error) {
		f := newFactFile("Genesis")
		toN := func(b []byte) []uint64 {
			r := make([]uint64, len(b))
			for i := range b {
				r[i] = uint64(b[i])
			}
			return r
		}
		f.raw("-- common/types: embedded contract addresses and the two native token standards\n")
		f.natList("PlasmaContract", toN(types.PlasmaContract.Bytes()))
		f.natList("PillarContract", toN(types.PillarContract.Bytes()))
		f.natList("SwapContract", toN(types.SwapContract.Bytes()))
		f.natList("TokenContract", toN(types.TokenContract.Bytes()))
		f.natList("ZnnTokenStandard", toN(types.ZnnTokenStandard[:]))
		f.natList("QsrTokenStandard", toN(types.QsrTokenStandard[:]))
		f.nat("GnHashSize", uint64(types.HashSize))
		f.nat("AccountBlockHeaderRawLen", uint64(nom.AccountBlockHeaderRawLen))
		// chain/genesis/shared_tests.go: the validators CheckGenesis calls, in order (read from the AST)
		src, err := parseSrc(repo, "chain/genesis/shared_tests.go")
		if err != nil {
			return nil, err
		}
		fd := src.funcDecl("", "CheckGenesis")
		if fd == nil {
			return nil, fmt.Errorf("CheckGenesis not found")
		}
		var order []string
		ast.Inspect(fd.Body, func(n ast.Node) bool {
			if ce, ok := n.(*ast.CallExpr); ok {
				if id, ok := ce.Fun.(*ast.Ident); ok && strings.HasPrefix(id.Name, "Check") {
					order = append(order, id.Name)
				}
			}
			return true
		})
		f.raw("-- chain/genesis/shared_tests.go\n")
		f.strList("checkGenesisOrder", order)
		// the refusals of checkAccountBalance and of the four validators with loops, in source order: for every `return errors.Errorf(...)`
		// the chain of loops and conditions it sits under (source text). The model's checkAccountBalance / checkTokenTotalSupply
		// were written for exactly this list; a check that is added, dropped, moved or re-worded shows as drift at build time.
		for _, fn := range []string{"checkAccountBalance", "CheckTokenTotalSupply", "CheckPlasmaInfo", "CheckSwapAccount", "CheckPillarBalance"} {
			d := src.funcDecl("", fn)
			if d == nil {
				return nil, fmt.Errorf("%s not found", fn)
			}
			f.strList("gn"+strings.ToUpper(fn[:1])+fn[1:]+"Refusals", errorGuards(src.fset, d.Body.List, nil))
		}
		// chain/nom/momentum_content.go: the comparison operator of AccountBlockHeaderComparer and whether NewMomentumContent sorts
		mc, err := parseSrc(repo, "chain/nom/momentum_content.go")
		if err != nil {
			return nil, err
		}
		cmp := ""
		ast.Inspect(mc.funcDecl("", "AccountBlockHeaderComparer").Body, func(n ast.Node) bool {
			if be, ok := n.(*ast.BinaryExpr); ok {
				if ce, ok := be.X.(*ast.CallExpr); ok {
					if se, ok := ce.Fun.(*ast.SelectorExpr); ok && se.Sel.Name == "Compare" {
						if bl, ok := be.Y.(*ast.BasicLit); ok {
							cmp = be.Op.String() + " " + bl.Value
						}
					}
				}
			}
			return true
		})
		f.raw("-- chain/nom/momentum_content.go\n")
		f.raw("def headerComparer : String := %q\n", "bytes.Compare "+cmp)
		f.nat("newMomentumContentSortCalls", uint64(len(callsIn(mc.funcDecl("", "NewMomentumContent"), "Slice"))))
		// common/types/account_header.go: field order of AccountHeader.Bytes
		ah, err := parseSrc(repo, "common/types/account_header.go")
		if err != nil {
			return nil, err
		}
		var fields []string
		for _, ce := range callsIn(ah.funcDecl("AccountHeader", "Bytes"), "JoinBytes") {
			for _, a := range ce.Args {
				ast.Inspect(a, func(n ast.Node) bool {
					if se, ok := n.(*ast.SelectorExpr); ok {
						if id, ok := se.X.(*ast.Ident); ok && id.Name == "abh" {
							fields = append(fields, se.Sel.Name)
						}
					}
					return true
				})
			}
		}
		f.strList("gnAccountHeaderBytesFields", fields)
		return f, nil
	})
}

// errorGuards lists, in source order, the guard chain ("range <expr>" for a loop, the condition for an if, "!(<cond>)" for
// its else branch) of every `return errors.Errorf(...)` below stmts.
func errorGuards(fset *token.FileSet, stmts []ast.Stmt, guards []string) []string {
	txt := func(n ast.Node) string {
		var b bytes.Buffer
		printer.Fprint(&b, fset, n)
		return strings.Join(strings.Fields(b.String()), " ")
	}
	with := func(g string) []string { return append(append([]string{}, guards...), g) }
	var out []string
	for _, st := range stmts {
		switch s := st.(type) {
		case *ast.ReturnStmt:
			for _, r := range s.Results {
				if ce, ok := r.(*ast.CallExpr); ok {
					if se, ok := ce.Fun.(*ast.SelectorExpr); ok && se.Sel.Name == "Errorf" {
						out = append(out, strings.Join(guards, " / "))
					}
				}
			}
		case *ast.BlockStmt:
			out = append(out, errorGuards(fset, s.List, guards)...)
		case *ast.RangeStmt:
			out = append(out, errorGuards(fset, s.Body.List, with("range "+txt(s.X)))...)
		case *ast.ForStmt:
			out = append(out, errorGuards(fset, s.Body.List, with("for"))...)
		case *ast.IfStmt:
			c := txt(s.Cond)
			out = append(out, errorGuards(fset, s.Body.List, with(c))...)
			if s.Else != nil {
				out = append(out, errorGuards(fset, []ast.Stmt{s.Else}, with("!("+c+")"))...)
			}
		}
	}
	return out
}
