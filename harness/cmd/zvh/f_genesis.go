package main

import (
	"fmt"
	"go/ast"
	"strings"

	"github.com/zenon-network/go-zenon/chain/nom"
	"github.com/zenon-network/go-zenon/common/types"
)

func init() {
	factGens = append(factGens, func(repo string) (*factFile, error) {
		f := newFactFile("Genesis")
		toN := func(b []byte) []uint64 {
			r := make([]uint64, len(b))
			for i := range b {
				r[i] = uint64(b[i])
			}
			return r
		}
		f.raw("-- common/types: embedded contract addresses and the two native token standards\n")
		f.natList("PlasmaContract", toN(types.PlasmaContract.Bytes()))
		f.natList("PillarContract", toN(types.PillarContract.Bytes()))
		f.natList("SwapContract", toN(types.SwapContract.Bytes()))
		f.natList("TokenContract", toN(types.TokenContract.Bytes()))
		f.natList("ZnnTokenStandard", toN(types.ZnnTokenStandard[:]))
		f.natList("QsrTokenStandard", toN(types.QsrTokenStandard[:]))
		f.nat("GnHashSize", uint64(types.HashSize))
		f.nat("AccountBlockHeaderRawLen", uint64(nom.AccountBlockHeaderRawLen))
		// chain/genesis/shared_tests.go: the validators CheckGenesis calls, in order (read from the AST)
		src, err := parseSrc(repo, "chain/genesis/shared_tests.go")
		if err != nil {
			return nil, err
		}
		fd := src.funcDecl("", "CheckGenesis")
		if fd == nil {
			return nil, fmt.Errorf("CheckGenesis not found")
		}
		var order []string
		ast.Inspect(fd.Body, func(n ast.Node) bool {
			if ce, ok := n.(*ast.CallExpr); ok {
				if id, ok := ce.Fun.(*ast.Ident); ok && strings.HasPrefix(id.Name, "Check") {
					order = append(order, id.Name)
				}
			}
			return true
		})
		f.raw("-- chain/genesis/shared_tests.go\n")
		f.strList("checkGenesisOrder", order)
		// chain/nom/momentum_content.go: the comparison operator of AccountBlockHeaderComparer and whether NewMomentumContent sorts
		mc, err := parseSrc(repo, "chain/nom/momentum_content.go")
		if err != nil {
			return nil, err
		}
		cmp := ""
		ast.Inspect(mc.funcDecl("", "AccountBlockHeaderComparer").Body, func(n ast.Node) bool {
			if be, ok := n.(*ast.BinaryExpr); ok {
				if ce, ok := be.X.(*ast.CallExpr); ok {
					if se, ok := ce.Fun.(*ast.SelectorExpr); ok && se.Sel.Name == "Compare" {
						if bl, ok := be.Y.(*ast.BasicLit); ok {
							cmp = be.Op.String() + " " + bl.Value
						}
					}
				}
			}
			return true
		})
		f.raw("-- chain/nom/momentum_content.go\n")
		f.raw("def headerComparer : String := %q\n", "bytes.Compare "+cmp)
		f.nat("newMomentumContentSortCalls", uint64(len(callsIn(mc.funcDecl("", "NewMomentumContent"), "Slice"))))
		// common/types/account_header.go: field order of AccountHeader.Bytes
		ah, err := parseSrc(repo, "common/types/account_header.go")
		if err != nil {
			return nil, err
		}
		var fields []string
		for _, ce := range callsIn(ah.funcDecl("AccountHeader", "Bytes"), "JoinBytes") {
			for _, a := range ce.Args {
				ast.Inspect(a, func(n ast.Node) bool {
					if se, ok := n.(*ast.SelectorExpr); ok {
						if id, ok := se.X.(*ast.Ident); ok && id.Name == "abh" {
							fields = append(fields, se.Sel.Name)
						}
					}
					return true
				})
			}
		}
		f.strList("gnAccountHeaderBytesFields", fields)
		return f, nil
	})
}
