package main

// sync-batches (C16), two directed families:
//
// (1) deliveries that WAIT for the chain's insert lock while the node's chain grows. C16 judges a delivered chain against the
//     chain the node has when the batch is inserted: "strictly longer", "links at most thirty heights below its frontier", the
//     removal of the momentums it already holds — all relative to the frontier AT INSERTION TIME. On a running node InsertChain
//     competes for the insert lock with the pillar's momentum production and with the fetcher's / downloader's other imports, so
//     the frontier can move between the call and the insertion. The harness takes the lock (chain.AcquireInsert), starts the
//     delivery on a goroutine, extends the node's chain under the held lock exactly as InsertChain does (ApplyBlock /
//     ForceAddAccountBlockTransaction / ApplyMomentum / AddMomentumTransaction with the held locker), releases the lock and waits
//     (with a deadline) for the delivery. The growth is a line of its own, the delivery is an ordinary sync-insert line: the Lean
//     model replays both in the order in which the node's chain changed, and the model-free monitors of deliver() are evaluated
//     against the chain the node had after the growth. Side chains that are longer / equal / shorter than the frontier BEFORE
//     and AFTER the growth, inside / outside the window before and after, extensions that are completely / partly known after
//     the growth, a batch that extends the old frontier and forks off the grown part.
//
// (2) momentums delivered with ONE MORE account block than they list (corruption kinds extrablock-*, see corrupt()): for every
//     momentum of the history that has a sibling on another branch, a block of the sibling — valid on its own on the very state the
//     momentum is verified on — in front of / between / behind the listed blocks, with and without known momentums in front of the
//     batch; and a copy of a block another momentum of the same batch lists. The delivery must be refused at that element; the
//     genuine batch is delivered afterwards.

import (
	"fmt"
	"sync"
	"time"

	"github.com/zenon-network/go-zenon/chain/nom"
	"github.com/zenon-network/go-zenon/common/types"
)

// insertUnderLock does what the body of InsertChain's loop does for an extension of the frontier, with a locker the caller holds.
func (f *follower) insertUnderLock(ins sync.Locker, dms []*nom.DetailedMomentum) (idx int, err error, panicked interface{}) {
	defer func() {
		if r := recover(); r != nil {
			panicked = r
		}
	}()
	for i, d := range dms {
		for _, b := range d.AccountBlocks {
			if b.BlockType == nom.BlockTypeContractSend {
				continue
			}
			if f.ch.GetPatch(b.Address, b.Identifier()) != nil {
				continue
			}
			tx, err := f.sup.ApplyBlock(b)
			if err != nil {
				return i, err, nil
			}
			if err := f.ch.ForceAddAccountBlockTransaction(ins, tx); err != nil {
				return i, err, nil
			}
		}
		tx, err := f.sup.ApplyMomentum(d)
		if err != nil {
			return i, err, nil
		}
		if err := f.ch.AddMomentumTransaction(ins, tx); err != nil {
			return i, err, nil
		}
	}
	return 0, nil, nil
}

// deliverWhileGrowing: the delivery of `batch` waits for the insert lock while the lock's holder extends the node's chain by
// `growth`. Returns false when the follower is no longer usable.
func (r *syncRun) deliverWhileGrowing(f *syncFollower, kind string, batch []elem, growth []elem) bool {
	c := r.c
	grown := true
	ok := r.deliverVia(f, kind, batch, func(dms []*nom.DetailedMomentum) (before []types.Hash, idx int, err error, pn interface{}) {
		ins := f.ch.AcquireInsert("zvh: another import holds the insert lock")
		type res struct {
			idx int
			err error
			pn  interface{}
		}
		done := make(chan res, 1)
		go func() {
			i, e, p := f.insertChain(dms)
			done <- res{i, e, p}
		}()
		// the delivery reaches the lock (everything InsertChain does before it is a handful of reads)
		time.Sleep(120 * time.Millisecond)
		if len(growth) > 0 {
			grown = r.deliverVia(f, "extend-under-lock", growth, func(gd []*nom.DetailedMomentum) ([]types.Hash, int, error, interface{}) {
				b := f.hashes()
				i, e, p := f.insertUnderLock(ins, gd)
				return b, i, e, p
			})
		}
		before = f.hashes()
		ins.Unlock()
		select {
		case x := <-done:
			return before, x.idx, x.err, x.pn
		case <-time.After(30 * time.Second):
			c.Fail("C16 class=delivery-hangs a delivery that waited for the insert lock did not return within 30s after the lock was released; kind=%s", kind)
			return before, 0, nil, "hang"
		}
	})
	return ok && grown
}

func (r *syncRun) directedConcurrent() {
	c := r.c
	hist := r.hist
	L := len(hist.paths[0])
	br := 1
	fork := int(hist.forkAt[br])
	trunk, side := hist.paths[0], hist.paths[br]
	type ccase struct {
		name string
		d0   int // the node's height above the fork point when the delivery is made
		g    int // momentums added under the lock
		// batch: a segment of the side branch (side=true) or of the trunk, heights relative to the node's height H0 at the call
		side     bool
		from, to int // side: from is ignored (the branch is delivered from the fork point); trunk: H0+from … H0+to
	}
	cases := []ccase{
		{"side-longer-before-shorter-after", 5, 3, true, 0, 1},
		{"side-longer-before-equal-after", 5, 3, true, 0, 3},
		{"side-longer-before-longer-after", 5, 3, true, 0, 4},
		{"side-inside-window-before-outside-after", 29, 3, true, 0, 6},
		{"side-inside-window-before-at-edge-after", 27, 3, true, 0, 4},
		{"side-shorter-before", 5, 2, true, 0, -1},
		{"side-equal-before", 5, 2, true, 0, 0},
		{"side-no-growth", 5, 0, true, 0, 2},
		{"extension-known-after", 10, 3, false, 1, 2},
		{"extension-exactly-grown", 10, 3, false, 1, 3},
		{"extension-beyond-growth", 10, 3, false, 1, 5},
		{"extension-overlap-beyond-growth", 10, 2, false, -2, 4},
		{"extension-before-fork-of-grown-part-longer", 0, 3, true, 0, 4},
		{"extension-before-fork-of-grown-part-shorter", 0, 3, true, 0, 2},
		{"extension-before-fork-of-grown-part-equal", 0, 2, true, 0, 2},
	}
	for _, cc := range cases {
		H0 := fork + cc.d0
		if H0+cc.g > L || H0 < 2 || (cc.side && (H0+cc.to > len(side) || H0+cc.to <= fork)) || (!cc.side && H0+cc.to > L) {
			c.Hit("concurrent-case-skipped")
			continue
		}
		f := r.newFollower()
		if r.syncTo(f, 0, H0) {
			var batch []elem
			if cc.side {
				batch = r.seg(side, fork+1, H0+cc.to)
			} else {
				batch = r.seg(trunk, H0+cc.from, H0+cc.to)
			}
			growth := r.seg(trunk, H0+1, H0+cc.g)
			c.Hit("concurrent-" + cc.name)
			c.Hit("concurrent-cases")
			if r.deliverWhileGrowing(f, "locked-"+cc.name, batch, growth) && c.R.Intn(3) == 0 {
				r.reverify(f)
			}
		}
		f.stop()
	}
}

// directedExtraBlock: see (2) above.
func (r *syncRun) directedExtraBlock() {
	c := r.c
	hist := r.hist
	type cand struct{ p, h int }
	var cands []cand
	seen := map[types.Hash]bool{}
	for p, path := range hist.paths {
		for h := 2; h <= len(path); h++ {
			if seen[path[h-1]] {
				continue
			}
			seen[path[h-1]] = true
			if len(hist.extraDonors(hist.dm(path[h-1]))) > 0 {
				cands = append(cands, cand{p, h})
			}
		}
	}
	c.HitN("extrablock-candidate-momentums", len(cands))
	c.R.Shuffle(len(cands), func(i, j int) { cands[i], cands[j] = cands[j], cands[i] })
	limit := 4
	if c.Tier == "thorough" {
		limit = 16
	}
	if len(cands) > limit {
		cands = cands[:limit]
	}
	kinds := []string{"extrablock-front", "extrablock-middle", "extrablock-end", "extrablock-of-batch"}
	for i, cd := range cands {
		path := hist.paths[cd.p]
		for ki, kind := range kinds {
			lead := (i + ki) % 3                 // genuine unknown elements in front of the altered one
			tail := []int{1, 0, 3}[(i+ki)%3]     // … and behind it
			known := []int{0, 2, 0, 1}[(i+ki)%4] // momentums the node already holds, in front of the batch
			from := cd.h - lead
			if from < 2 {
				from = 2
			}
			f := r.newFollower()
			if r.syncTo(f, cd.p, from-1) {
				first := imax(from-known, 1)
				b := r.seg(path, first, imin(cd.h+tail, len(path)))
				ids := idsOf(b)
				at := cd.h - first
				if kind == "extrablock-of-batch" {
					// a copy of a block that ANOTHER momentum of the batch lists (the next one that has a block, else an earlier one)
					var donor *nom.AccountBlock
					for _, j := range []int{at + 1, at + 2, at + 3, at - 1, at - 2} {
						if j >= 0 && j < len(b) && j != at && len(b[j].dm.AccountBlocks) > 0 && donor == nil {
							donor = b[j].dm.AccountBlocks[0].Copy()
						}
					}
					if donor == nil {
						c.Hit("extrablock-of-batch-no-donor")
						f.stop()
						continue
					}
					e := &b[at]
					e.dm.AccountBlocks = append(e.dm.AccountBlocks, donor)
					e.valid, e.note = false, kind
					e.detail = fmt.Sprintf("unlisted block %s#%d:%s, which another momentum of the batch lists, behind the %d listed blocks", addrName(donor.Address),
						donor.Height, h8e(donor.Hash), len(e.dm.AccountBlocks)-1)
					c.Hit("corrupt-" + kind)
				} else {
					corrupt(c, hist, &b[at], kind)
				}
				c.Hit("directed-extrablock")
				k := "invalid-ext-"
				if known > 0 {
					k = "invalid-ext-overlap-"
				}
				good := r.deliver(f, k+b[at].note, b)
				if good && !f.lastOK {
					c.Hit("genuine-after-refusal")
					good = r.deliver(f, "genuine-after-"+k+b[at].note, r.genuineOf(ids))
				}
				if good && c.R.Intn(4) == 0 {
					r.reverify(f)
				}
			}
			f.stop()
		}
	}
}
