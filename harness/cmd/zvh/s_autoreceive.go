package main

import (
	"bytes"
	"fmt"
	"math/big"
	"os"
	"sort"
	"strings"
	"time"

	g "github.com/zenon-network/go-zenon/chain/genesis/mock"
	"github.com/zenon-network/go-zenon/chain/nom"
	"github.com/zenon-network/go-zenon/common"
	"github.com/zenon-network/go-zenon/common/types"
	"github.com/zenon-network/go-zenon/consensus"
	"github.com/zenon-network/go-zenon/verifier"
	"github.com/zenon-network/go-zenon/vm"
	"github.com/zenon-network/go-zenon/vm/abi"
	"github.com/zenon-network/go-zenon/vm/constants"
	"github.com/zenon-network/go-zenon/vm/embedded/definition"
	"github.com/zenon-network/go-zenon/vm/embedded/implementation"
	"github.com/zenon-network/go-zenon/vm/vm_context"
	"github.com/zenon-network/go-zenon/zenon/mock"
)

// ---------------------------------------------------------------------------------------------------
// autoreceive stream (C09): the receive path of every embedded method on a real node.
//
// One history = one node under one spork regime (0..3 sporks activated in the order accelerator, bridge&liquidity,
// htlc) - or, in the spork-switch scenarios (runSporkSwitch), a node on which the three sporks are enforced during the
// history in one of the six orders with calls in flight across every enforcement height. For every contract x method the history generates call data from four generators (canonical valid,
// boundary integers, hostile ABI, valid-but-semantically-wrong), delivers each call through the template path
// (Supervisor.GenerateFromTemplate, which re-packs the data) or as an externally built and signed block through
// the gossip path (Supervisor.ApplyBlock), and for every ACCEPTED send drives the producer path itself:
//
//   arMomentum        = pillar/worker_momentum.go generateMomentum + CreateMomentum
//   arReceiveAll      = pillar/worker.go work(): for { for contract in EmbeddedContracts { generateNext } }
//                       where generateNext = SequencerFront + Supervisor.GenerateAutoReceive + CreateAccountBlock
//   arUpdateContracts = pillar/worker_updater.go updateContracts
//
// The real worker runs these in a goroutine guarded by common.RecoverStack, which re-panics: a panic there ends the
// process. The harness therefore makes the same calls in the same order on its own goroutine under safely(), so a panic
// on the path without recover is an observation (monitor failure with the call that caused it), not a crash of the run.
//
// Monitors (model-free, the sentence of C09 on the real result), per accepted send to a contract:
//   - producing the momentum and the receive block neither panics nor returns an error (an error from
//     GenerateAutoReceive means the worker returns and retries the same head of the inbox for ever: a wedged inbox)
//   - exactly one receive block answers it, FIFO
//   - status 1, or status 2 with descendants = exactly [amount, token -> sender] (nothing for amount 0) and the
//     contract's storage byte-identical to the storage before the receive
//   - after the loop every inbox is empty: the next queued call was processed too
// Lines: `abi ...` (the call data through the real decoder, compared with the Lean decoder model),
//        `ar-recv ...` (the observed receive, judged again by the Lean definition of "applied or exactly refunded").
// ---------------------------------------------------------------------------------------------------

type arSend struct {
	hash     types.Hash
	label    string // contract.method
	gen      string // generator
	via      string // tpl | ext | contract
	block    *nom.AccountBlock
	answered int
	status   uint64 // of the receive block that answered it
	retErr   string // the method's error behind a status 2
}

type arRun struct {
	c       *Ctx
	n       *Node
	id      int
	regime  int
	w       *arWorld
	failed  bool
	sends   map[types.Hash]*arSend
	order   []types.Hash // accepted sends to contracts in submission order
	wedged  map[types.Address]bool
	nRecv   int
	histTag string
	stateNote func() string
	fast    bool  // compressed calendar
	cons    *consMonitor // C01 conservation, read from the real stores after every momentum and every produced receive (mon_conservation.go)
	jumpSec int64 // added once to the timestamp of the next momentum (time-dependent methods: lock periods, epochs)
	peer    *pdRun // peerdesc stream (s_peerdesc.go): a follower that gets the generated contract receives from a lying peer
}

// arAttach, when set, is called with every new history before it starts (the peerdesc stream attaches its follower)
var arAttach func(r *arRun)

func (r *arRun) fail(format string, a ...interface{}) {
	r.failed = true
	msg := fmt.Sprintf(format, a...)
	if r.stateNote != nil { // the scenario's description of the contract state the call met
		note := ""
		if p := safely(func() { note = r.stateNote() }); p == "" && note != "" {
			msg += " ; state: " + note
		}
	}
	tag := ""
	if r.histTag != "" {
		tag = " scenario=" + r.histTag
	}
	r.c.Fail("autoreceive run=%d regime=%d%s h=%d: %s", r.id, r.regime, tag, r.n.Height(), msg)
}

func arContractName(a types.Address) string {
	if s, ok := embeddedNames[a]; ok {
		return s[2:]
	}
	return addrName(a)
}

func arAbiOf(a types.Address) (abi.ABIContract, bool) {
	for _, ca := range allContractABIs {
		if ca.addr == a {
			return ca.abi, true
		}
	}
	return abi.ABIContract{}, false
}

// arLabel names the (contract, method) a send block calls, from its selector.
func arLabel(to types.Address, data []byte) string {
	ca, ok := arAbiOf(to)
	if !ok {
		return arContractName(to) + ".?"
	}
	if len(data) < 4 {
		return arContractName(to) + ".<short>"
	}
	sel := data[:4]
	for _, name := range sortedMethodNames(ca) {
		if bytes.Equal(ca.Methods[name].Id(), sel) {
			return arContractName(to) + "." + name
		}
	}
	return arContractName(to) + ".<unknown>"
}

// arDumpStorage: the contract's storage at the pool frontier as a sorted key=value list.
func arDumpStorage(n *Node, a types.Address) []string {
	var out []string
	it := n.Chain().GetFrontierAccountStore(a).Storage().NewIterator([]byte{})
	defer it.Release()
	for it.Next() {
		out = append(out, hx(it.Key())+"="+hx(it.Value()))
	}
	sort.Strings(out)
	return out
}

func arStorageDiff(before, after []string) string {
	bm := map[string]bool{}
	for _, s := range before {
		bm[s] = true
	}
	am := map[string]bool{}
	for _, s := range after {
		am[s] = true
	}
	var d []string
	for _, s := range before {
		if !am[s] {
			d = append(d, "-"+s)
		}
	}
	for _, s := range after {
		if !bm[s] {
			d = append(d, "+"+s)
		}
	}
	if len(d) > 4 {
		d = append(d[:4], fmt.Sprintf("...(%d more)", len(d)-4))
	}
	return strings.Join(d, " ")
}

// arMomentum = worker.generateMomentum + broadcaster.CreateMomentum, with the elected producer's key.
func (r *arRun) arMomentum() (dm *nom.DetailedMomentum, ok bool) {
	n := r.n
	ch := n.Chain()
	var err error
	var tx *nom.MomentumTransaction
	p := safely(func() {
		store := ch.GetFrontierMomentumStore()
		var prev *nom.Momentum
		prev, err = store.GetFrontierMomentum()
		if err != nil {
			return
		}
		t := prev.Timestamp.Add(10*time.Second + time.Duration(r.jumpSec)*time.Second)
		r.jumpSec = 0
		var key = keyOf(types.ZeroAddress)
		for slot := 0; slot < 64 && key == nil; slot++ {
			var producer *types.Address
			producer, err = n.Z.Consensus().GetMomentumProducer(t)
			if err != nil {
				return
			}
			if key = keyOf(*producer); key == nil {
				t = t.Add(10 * time.Second) // a producer registered by the history whose key the harness does not hold: slot skipped
				r.c.Hit("slot-skipped")
			}
		}
		if key == nil {
			err = fmt.Errorf("no producer with a known key in 64 slots")
			return
		}
		ins := ch.AcquireInsert("zvh-ar momentum")
		defer ins.Unlock()
		blocks := ch.GetNewMomentumContent()
		m := &nom.Momentum{
			ChainIdentifier: ch.ChainIdentifier(),
			PreviousHash:    prev.Hash,
			Height:          prev.Height + 1,
			TimestampUnix:   uint64(t.Unix()),
			Content:         nom.NewMomentumContent(blocks),
			Version:         1,
		}
		m.EnsureCache()
		tx, err = n.Sup.GenerateMomentum(&nom.DetailedMomentum{Momentum: m, AccountBlocks: blocks}, key.Signer)
		if err != nil {
			return
		}
		err = ch.AddMomentumTransaction(ins, tx)
	})
	if p != "" {
		r.fail("C09: momentum production panicked: %s", p)
		return nil, false
	}
	if err != nil {
		r.fail("C09: momentum production failed: %v", err)
		return nil, false
	}
	store := ch.GetFrontierMomentumStore()
	dm, err = store.PrefetchMomentum(tx.Momentum)
	if err != nil {
		r.fail("prefetch momentum: %v", err)
		return nil, false
	}
	r.c.Hit("momentum")
	return dm, true
}

// arReceiveAll = the auto-receive loop of worker.work(). Returns false when the run cannot continue.
func (r *arRun) arReceiveAll() bool {
	n := r.n
	ch := n.Chain()
	momentumStore := ch.GetFrontierMomentumStore()
	for round := 0; ; round++ {
		one := false
		for _, ca := range types.EmbeddedContracts {
			if r.wedged[ca] {
				continue
			}
			var sendBlock *nom.AccountBlock
			var res *vm.ContractExecution
			var err error
			var before []string
			nothing := false
			p := safely(func() {
				ins := ch.AcquireInsert("zvh-ar contract-generator")
				defer ins.Unlock()
				store := ch.GetFrontierAccountStore(ca)
				toReceive := store.SequencerFront(momentumStore.GetAccountMailbox(ca))
				if toReceive == nil {
					nothing = true
					return
				}
				sendBlock, err = momentumStore.GetAccountBlock(*toReceive)
				if err != nil || sendBlock == nil {
					err = fmt.Errorf("can't get block but it exists in sequencer: %v", err)
					return
				}
				before = arDumpStorage(n, ca)
				res, err = n.Sup.GenerateAutoReceive(sendBlock)
			})
			if nothing {
				continue
			}
			desc := "?"
			if sendBlock != nil {
				desc = r.describeSend(sendBlock)
			}
			if p != "" {
				r.c.Hit("recv-panic")
				r.wedged[ca] = true
				r.fail("C09: GenerateAutoReceive panicked on the producer path (no recover there) for %s: %s", desc, firstLine300(p))
				continue
			}
			if err != nil {
				r.c.Hit("recv-error")
				r.wedged[ca] = true
				r.consPool("the head of the inbox of " + arContractName(ca) + " could not be answered (" + firstLine300(err.Error()) + "): " + desc)
				r.fail("C09: inbox of %s is wedged: GenerateAutoReceive returned an error for the head of the queue %s: %v", arContractName(ca), desc, err)
				continue
			}
			if res == nil || res.Transaction == nil {
				r.wedged[ca] = true
				r.fail("C09: no block has been returned by the VM for %s", desc)
				continue
			}
			// broadcaster.CreateAccountBlock
			var ierr error
			if p := safely(func() {
				ins := ch.AcquireInsert("zvh-ar create-account-block")
				defer ins.Unlock()
				ierr = ch.AddAccountBlockTransaction(ins, res.Transaction)
			}); p != "" {
				ierr = fmt.Errorf("panic: %s", firstLine300(p))
			}
			if ierr != nil {
				r.wedged[ca] = true
				r.fail("C09: own receive block for %s is refused by the chain: %v", desc, ierr)
				continue
			}
			after := arDumpStorage(n, ca)
			// C01 at the pool state the receive block leaves: applied, refunded or failed, the call left the sum unchanged. Judged
			// after every call made BY a contract, every 8th failed call of a user and every 16th other receive (the walk over the
			// pool is the expensive part); every receive is judged again with the momentum that confirms it and at the end
			if blk := res.Transaction.Block; types.IsEmbeddedAddress(sendBlock.Address) || ((len(blk.Data) != 8 || common.BytesToUint64(blk.Data) != 1) && r.nRecv%8 == 0) || r.nRecv%16 == 0 {
				r.consPool(fmt.Sprintf("after receive block %s/%d (status data %s, %d descendants) answering %s", arContractName(ca), res.Transaction.Block.Height,
					strings.TrimLeft(hx(res.Transaction.Block.Data), "0"), len(res.Transaction.Block.DescendantBlocks), desc))
			}
			r.checkReceive(sendBlock, res, before, after)
			if r.failed {
				return false // the history ends at the first violation
			}
			one = true
		}
		if !one {
			break
		}
		if round > 500 {
			r.fail("C09: the producer's auto-receive loop did not terminate after 500 rounds")
			return false
		}
	}
	return true
}

// arUpdateContracts = worker.updateContracts with the producer of the frontier momentum as coinbase.
func (r *arRun) arUpdateContracts() {
	n := r.n
	ch := n.Chain()
	momentumStore := ch.GetFrontierMomentumStore()
	fm, err := momentumStore.GetFrontierMomentum()
	if err != nil {
		return
	}
	coinbase := keyOf(fm.Producer())
	if coinbase == nil {
		return
	}
	for _, address := range types.EmbeddedWUpdate {
		var cerr error
		if p := safely(func() {
			cerr = implementation.CanPerformUpdate(vm_context.NewAccountContext(momentumStore, ch.GetFrontierAccountStore(address), nil))
		}); p != "" {
			r.fail("C09: canPerformEmbeddedUpdate(%s) panicked: %s", arContractName(address), firstLine300(p))
			continue
		}
		if cerr == nil {
			b, err := n.Submit(&nom.AccountBlock{BlockType: nom.BlockTypeUserSend, Address: coinbase.Address, ToAddress: address,
				Data: definition.ABICommon.PackMethodPanic(definition.UpdateMethodName)})
			if err != nil {
				r.c.Hit("producer-update-rejected")
				continue
			}
			r.noteAccepted(b, "producer-update", "tpl")
			r.c.Hit("producer-update-sent")
		}
	}
}


func (r *arRun) describeSend(b *nom.AccountBlock) string {
	gen, via := "?", "contract"
	if rec := r.sends[b.Hash]; rec != nil {
		gen, via = rec.gen, rec.via
	}
	d := hx(b.Data)
	if len(d) > 1200 {
		d = d[:1200] + "..."
	}
	return fmt.Sprintf("%s gen=%s via=%s from=%s amount=%s token=%s data=%s", arLabel(b.ToAddress, b.Data), gen, via, addrName(b.Address), amt(b.Amount), tokName(b.TokenStandard), d)
}

func (r *arRun) noteAccepted(b *nom.AccountBlock, gen, via string) {
	if !types.IsEmbeddedAddress(b.ToAddress) {
		return
	}
	r.sends[b.Hash] = &arSend{hash: b.Hash, label: arLabel(b.ToAddress, b.Data), gen: gen, via: via, block: b}
	r.order = append(r.order, b.Hash)
}

// checkReceive: the C09 sentence on one produced receive block.
func (r *arRun) checkReceive(send *nom.AccountBlock, res *vm.ContractExecution, before, after []string) {
	c := r.c
	b := res.Transaction.Block
	r.nRecv++
	rec := r.sends[send.Hash]
	if rec == nil {
		// a send emitted by a contract (descendant of an earlier receive) or by the producer
		rec = &arSend{hash: send.Hash, label: arLabel(send.ToAddress, send.Data), gen: "descendant", via: "contract", block: send}
		r.sends[send.Hash] = rec
	}
	rec.answered++
	label := rec.label
	if b.FromBlockHash != send.Hash || b.Address != send.ToAddress {
		r.fail("C09: receive block %s/%d does not answer the head of the inbox %s", addrName(b.Address), b.Height, r.describeSend(send))
	}
	if rec.answered > 1 {
		r.fail("C09: call answered %d times: %s", rec.answered, r.describeSend(send))
	}
	status := uint64(0)
	if len(b.Data) == 8 {
		status = common.BytesToUint64(b.Data)
	}
	rec.status = status
	if res.ReturnedError != nil {
		rec.retErr = firstLine300(res.ReturnedError.Error())
	}
	storageSame := strings.Join(before, ",") == strings.Join(after, ",")
	var sb strings.Builder
	for _, d := range b.DescendantBlocks {
		fmt.Fprintf(&sb, " %s %s %s", addrName(d.ToAddress), tokName(d.TokenStandard), amt(d.Amount))
	}
	verdict := "ok"
	switch status {
	case 1:
		c.Hit(label + " applied")
		c.Hit("outcome-applied")
		if (res.ReturnedError != nil) {
			r.fail("C09: status 1 with method error %v: %s", res.ReturnedError, r.describeSend(send))
		}
		// "applies the call": a call that carried an amount and is answered with status 1 keeps the amount. If the receive wrote
		// NOTHING into the contract's storage and sent nothing on, the call was neither applied nor refunded: the sender lost the
		// amount for no effect (a receive that swallows its own refusal reason and returns nil, nil). Judged for every method but
		// the pure donations (arKeepsAmountWithoutEffect), whose whole documented effect is the credit of the amount.
		if send.Amount.Sign() > 0 && storageSame && len(b.DescendantBlocks) == 0 {
			if arKeepsAmountWithoutEffect(label) {
				c.Hit("applied-amount-without-storage-write (donation)")
			} else {
				verdict = "violation" // (the Lean judge of the ar-recv line says the same: Driver/Abi.lean pureArRecv)
				r.fail("C09: accepted call with amount %s %s was answered with status 1 (applied) but the receive wrote nothing into the storage of the %s contract and sent nothing: neither applied nor refunded, the sender lost the amount: %s",
					amt(send.Amount), tokName(send.TokenStandard), arContractName(send.ToAddress), r.describeSend(send))
			}
		} else if send.Amount.Sign() > 0 {
			c.Hit("applied-amount-with-effect")
		}
	case 2:
		c.Hit(label + " refunded")
		c.Hit("outcome-refunded")
		if c.Args["debug"] != "" {
			c.Hit(fmt.Sprintf("dbg %s gen=%s refunded: %v", label, rec.gen, res.ReturnedError))
		}
		if send.Amount.Sign() > 0 {
			c.Hit("outcome-refunded-with-amount")
			if len(b.DescendantBlocks) != 1 || b.DescendantBlocks[0].ToAddress != send.Address ||
				b.DescendantBlocks[0].TokenStandard != send.TokenStandard || b.DescendantBlocks[0].Amount.Cmp(send.Amount) != 0 ||
				len(b.DescendantBlocks[0].Data) != 0 {
				verdict = "violation"
				r.fail("C09: failed call was not refunded exactly (descendants:%s): %s (method error: %v)", sb.String(), r.describeSend(send), res.ReturnedError)
			}
		} else if len(b.DescendantBlocks) != 0 {
			verdict = "violation"
			r.fail("C09: failed zero-amount call produced descendants (%s): %s", sb.String(), r.describeSend(send))
		}
		if !storageSame {
			verdict = "violation"
			r.fail("C09: contract storage changed by a failed call (status 2): %s ; diff: %s", r.describeSend(send), arStorageDiff(before, after))
		}
		// the periodic Update call has no arguments and no preconditions but "not too recent": any other error comes out of the
		// reward bookkeeping itself - an internal error, after which no producer can ever advance the contract's epochs
		if strings.HasSuffix(label, "."+definition.UpdateMethodName) && len(send.Data) == 4 && send.Amount.Sign() == 0 {
			switch res.ReturnedError {
			case constants.ErrUpdateTooRecent, constants.ErrInvalidTokenOrAmount, constants.ErrUnpackError, constants.ErrAcceleratorEnded:
			default:
				r.fail("C09: the periodic Update call of the %s contract fails with an internal error (not a refusal reason of the method): %v ; %s", arContractName(send.ToAddress), res.ReturnedError, r.describeSend(send))
			}
		}
	default:
		verdict = "violation"
		r.fail("C09: contract receive has status %d (data %s): %s", status, hx(b.Data), r.describeSend(send))
	}
	if types.IsEmbeddedAddress(send.Address) {
		c.Hit(fmt.Sprintf("contract-to-contract %s->%s status%d", arContractName(send.Address), label, status))
		if status == 2 && send.Amount.Sign() > 0 {
			c.Hit("contract-to-contract-refund-with-amount")
		}
	}
	same := "same"
	if !storageSame {
		same = "changed"
	}
	c.Emit("ar-recv %s %s %s %s %d %s %d%s | %s", label, addrName(send.Address), tokName(send.TokenStandard), amt(send.Amount), status, same, len(b.DescendantBlocks), sb.String(), verdict)
}

// arKeepsAmountWithoutEffect: the method KINDS whose successful receive legitimately leaves the contract's storage untouched
// although the call carried an amount. One kind only: Donate of the common ABI (accelerator, liquidity) - DonateMethod's
// ValidateSendBlock demands a non-zero amount and its ReceiveBlock is documented by its own log line "received donation":
// the credit of the amount to the contract's balance (not part of Storage()) IS the effect. Every other method that may
// carry an amount records something when it succeeds (an entry, a deposit, a supply, a request, a project / phase).
func arKeepsAmountWithoutEffect(label string) bool {
	return strings.HasSuffix(label, "."+definition.DonateMethodName)
}

// afterMomentum: every accepted send confirmed so far must have been answered by exactly one receive.
func (r *arRun) checkAllAnswered(when string) {
	store := r.n.Chain().GetFrontierMomentumStore()
	for _, h := range r.order {
		rec := r.sends[h]
		if rec.answered == 1 || r.wedged[rec.block.ToAddress] {
			continue
		}
		conf, err := store.GetBlockConfirmationHeight(h)
		if err != nil || conf == 0 {
			continue // still in the pool
		}
		if rec.answered == 0 {
			r.wedged[rec.block.ToAddress] = true
			r.fail("C09: accepted call confirmed at height %d has no receive block %s: %s", conf, when, r.describeSend(rec.block))
		}
	}
	// nothing may be left in any inbox
	for _, ca := range types.EmbeddedContracts {
		if r.wedged[ca] {
			continue
		}
		fr := r.n.Chain().GetFrontierAccountStore(ca).SequencerFront(store.GetAccountMailbox(ca))
		if fr != nil {
			r.wedged[ca] = true
			r.fail("C09: inbox of %s not empty %s (head %s/%d)", arContractName(ca), when, addrName(fr.Address), fr.Height)
		}
	}
}

// consPool: the conservation monitor at the pool state; a failure ends the history like every other violation
func (r *arRun) consPool(why string) {
	if r.cons != nil && !r.cons.checkPool(why) {
		r.failed = true
	}
}

// consFinal: the equality once more with every account re-read, also when the history ended early on another violation (e.g.
// the wedged inbox of known finding F18b: the unanswerable send stays in flight, the sum is unchanged)
func (r *arRun) consFinal() {
	if r.cons != nil && !r.cons.failed {
		r.cons.checkConfirmedFull("at the end of the history")
		r.cons.checkPool("at the end of the history")
	}
}

// step: one producer event = momentum, auto-receive loop, contract updates; then the "answered" monitor.
func (r *arRun) step() bool {
	if r.peer != nil {
		r.peer.beforeMomentum()
	}
	if _, ok := r.arMomentum(); !ok {
		return false
	}
	if r.peer != nil {
		r.peer.afterMomentum()
		defer r.peer.afterReceives()
	}
	if r.cons != nil && !r.cons.checkConfirmed("momentum produced by the harness's producer path") {
		r.failed = true
		return false
	}
	if !r.arReceiveAll() {
		return false
	}
	r.arUpdateContracts()
	r.checkAllAnswered("after the producer's auto-receive loop")
	return !r.failed
}

// ---------------------------------------------------------------------------------------------------
// delivery
// ---------------------------------------------------------------------------------------------------

type arCall struct {
	to     types.Address
	method string
	from   types.Address
	tok    types.ZenonTokenStandard
	amount *big.Int
	data   []byte
	gen    string
}

// buildExternal builds, hashes and signs a send block with exactly the given data, the way a peer would.
func (r *arRun) buildExternal(call *arCall) (*nom.AccountBlock, error) {
	n := r.n
	ch := n.Chain()
	kp := keyOf(call.from)
	if kp == nil {
		return nil, fmt.Errorf("no key for %v", call.from)
	}
	var b *nom.AccountBlock
	var err error
	if p := safely(func() {
		fm, e := ch.GetFrontierMomentumStore().GetFrontierMomentum()
		if e != nil {
			err = e
			return
		}
		fa := ch.GetFrontierAccountStore(call.from).Identifier()
		b = &nom.AccountBlock{
			Version: 1, ChainIdentifier: ch.ChainIdentifier(), BlockType: nom.BlockTypeUserSend,
			PreviousHash: fa.Hash, Height: fa.Height + 1, MomentumAcknowledged: fm.Identifier(),
			Address: call.from, ToAddress: call.to, Amount: new(big.Int).Set(call.amount), TokenStandard: call.tok,
			Data: append([]byte{}, call.data...),
		}
		ctx := vm_context.NewAccountContext(ch.GetMomentumStore(b.MomentumAcknowledged), ch.GetAccountStore(b.Address, b.Previous()),
			n.Z.Consensus().FixedPillarReader(b.MomentumAcknowledged))
		base, e := vm.GetBasePlasmaForAccountBlock(ctx, b)
		if e != nil {
			base = constants.AlphanetPlasmaTable.EmbeddedWDoubleWithdraw // method unknown: any plausible value; the node decides
		}
		b.FusedPlasma = base
		b.Hash = b.ComputeHash()
		sig, _, pub, e := kp.Signer(b.Hash.Bytes())
		if e != nil {
			err = e
			return
		}
		b.Signature, b.PublicKey = sig, pub
	}); p != "" {
		return nil, fmt.Errorf("panic: %s", firstLine300(p))
	}
	return b, err
}

func arErrClass(err error) string {
	if err == nil {
		return "ok"
	}
	s := err.Error()
	switch {
	case strings.HasPrefix(s, "panic"):
		return "panic"
	case err == constants.ErrVmRunPanic || strings.Contains(s, constants.ErrVmRunPanic.Error()):
		return "vm-panic-recovered"
	case err == verifier.ErrABHashInvalid:
		return "hash-invalid"
	case err == constants.ErrUnpackError:
		return "unpack"
	case err == constants.ErrContractMethodNotFound:
		return "method-not-found"
	case err == constants.ErrContractDoesntExist:
		return "contract-doesnt-exist"
	case err == constants.ErrInsufficientBalance:
		return "balance"
	}
	return "other"
}

// deliver submits the call through the template path or the gossip path. Returns the accepted block or nil.
func (r *arRun) deliver(call *arCall, via string) *nom.AccountBlock {
	c := r.c
	label := arContractName(call.to) + "." + call.method
	r.emitAbiLine(call)
	var blk *nom.AccountBlock
	var err error
	switch via {
	case "tpl":
		blk, err = r.n.Submit(&nom.AccountBlock{BlockType: nom.BlockTypeUserSend, Address: call.from, ToAddress: call.to,
			TokenStandard: call.tok, Amount: new(big.Int).Set(call.amount), Data: append([]byte{}, call.data...)})
	default:
		var b *nom.AccountBlock
		b, err = r.buildExternal(call)
		if err == nil {
			err = r.n.SubmitExternal(b)
			if err == nil {
				blk = b
			}
		}
	}
	cls := arErrClass(err)
	c.Hit("deliver-" + via + "-" + call.gen + "-" + cls)
	if cls == "panic" {
		// the apply path has a recover in Supervisor.applyBlock; a panic that escapes it is a crash of the node
		r.fail("C09: delivering a send block panicked outside the supervisor's recover (%s via %s gen=%s data=%s): %v", label, via, call.gen, hx(call.data), err)
		return nil
	}
	if err != nil {
		c.Hit(label + " rejected-at-send")
		if c.Args["debug"] != "" && (call.gen == "canonical" || call.gen == "setup") {
			c.Hit(fmt.Sprintf("dbg %s gen=%s via=%s rejected: %v", label, call.gen, via, firstLine300(err.Error())))
		}
		return nil
	}
	c.Hit(label + " accepted")
	c.Hit("accepted-" + call.gen + "-" + via)
	if via == "ext" && !bytes.Equal(blk.Data, call.data) {
		r.fail("gossip path accepted a block whose stored data differs from the signed data (%s)", label)
	}
	r.noteAccepted(blk, call.gen, via)
	return blk
}

// emitAbiLine prints the call data through the real decoder for the Lean decoder model (same op as the abi stream).
func (r *arRun) emitAbiLine(call *arCall) {
	ca, ok := arAbiOf(call.to)
	if !ok {
		return
	}
	if _, ok := ca.Methods[call.method]; !ok {
		return
	}
	abiEmitCase(r.c, arContractName(call.to), ca, call.method, call.data, false)
}

// newArNode = NewNode on a chain whose consensus epoch lasts `epoch`
func newArNode(epoch time.Duration) *Node {
	n0 := NewNode() // saves / restores the spork ids like every other stream
	n0.Stop()
	t := &hT{}
	z := mock.NewMockZenonWithCustomEpochDuration(t, epoch)
	silenceLoggers()
	return &Node{Z: z, T: t, Sup: vm.NewSupervisor(z.Chain(), z.Consensus()), names: map[types.Address]string{}}
}

func init() {
	register("autoreceive", func(c *Ctx) {
		if sc := c.Args["scenario"]; sc != "" { // only the named scenario (replay / debugging)
			id := 2
			if v, ok := c.Args["id"]; ok {
				fmt.Sscan(v, &id)
			}
			autoreceiveHistory(c, id, sc)
			return
		}
		if c.Args["mode"] == "conservation" {
			// C01's use of the stream: the conservation monitor (mon_conservation.go) runs in every history of the stream; here
			// only the histories that matter most for it: every scenario in which a call made BY a contract carries an amount
			// and fails, and c.N generated histories under the later spork regimes (3, 2, 1, 0, 3, ...)
			for i, sc := range arScenarios {
				autoreceiveHistory(c, 2+i%2, sc)
			}
			for i := 0; i < c.N; i++ {
				autoreceiveHistory(c, 3-i%4, "")
			}
			return
		}
		for i := 0; i < c.N; i++ {
			if v, ok := c.Args["only"]; ok && v != fmt.Sprint(i) {
				continue
			}
			autoreceiveHistory(c, i, "")
		}
		// contract-to-contract sends whose receive fails: the refund goes to an embedded address with empty call data
		for i, sc := range arScenarios {
			if c.Tier == "quick" && i >= 2 && c.N < 8 {
				break
			}
			autoreceiveHistory(c, 2+i%2, sc)
		}
		// the spork regime changes during the history, calls in flight across every enforcement height (runSporkSwitch): two of
		// the six orders per run in the quick tier (chosen by the seed), all six in the thorough tier
		for i, o := range arSporkSwitchOrders {
			if c.Tier == "thorough" || c.Args["switch"] == "all" || i%3 == int(c.Seed%3) {
				autoreceiveHistory(c, 4*i, "spork-switch:"+o)
			}
		}
		// the boundary-integer sweep (s_autoreceive_sweep.go): every method x every integer argument and the amount x the
		// boundary family, under all sporks; in the thorough tier also under the other spork regimes
		autoreceiveHistory(c, 3, "int-sweep:0/1")
		// calls that carry a cryptographic proof, the key / entry behind the proof absent, present, consumed (s_autoreceive_proofs.go);
		// all sporks, and the regime of the seed (swap and legacy pillars exist under every regime)
		autoreceiveHistory(c, 3, "proof-states")
		autoreceiveHistory(c, int(c.Seed%3), "proof-states")
		// reward epochs with degenerate participants (s_autoreceive_degenerate.go), compressed calendar; regimes 3 and 0..2 in turn
		autoreceiveHistory(c, 3, "degenerate-epochs")
		autoreceiveHistory(c, int(c.Seed%3), "degenerate-epochs")
		// s_autoreceive_admin.go: every combination of lengths 0..3 of the slice arguments of every method that has any; the
		// security state machine of liquidity and bridge (guardian sets growing / shrinking, emergency, votes, administrator
		// changes); calls that become invalid through chain time at receive time (accelerator life time, voting period, HTLC
		// expiry, halts) - the last one under all sporks and with the periodic Update calls running (odd id)
		autoreceiveHistory(c, 2, "slice-lengths")
		autoreceiveHistory(c, 2, "admin-machine")
		autoreceiveHistory(c, 3, "time-regimes")
		if c.Tier == "thorough" {
			autoreceiveHistory(c, 3, "slice-lengths")
			autoreceiveHistory(c, 3, "admin-machine")
			autoreceiveHistory(c, 1, "time-regimes")
			autoreceiveHistory(c, 6, "time-regimes") // regime 2, Update calls too recent
		}
		if c.Tier == "thorough" {
			for id := 0; id < 3; id++ {
				autoreceiveHistory(c, id, "int-sweep:0/1")
			}
		}
	})
}

func autoreceiveHistory(c *Ctx, id int, scenario string) {
	// watchdog: the real code is driven on this goroutine; if it does not come back (a loop that no longer terminates) the
	// run ends with a failure instead of waiting for the stream's time limit
	done := make(chan struct{})
	defer close(done)
	go func() {
		limit := 10 * time.Minute
		select {
		case <-done:
		case <-time.After(limit):
			msg := fmt.Sprintf("autoreceive run=%d scenario=%q: C09: the history did not finish within %v: receive production does not terminate", id, scenario, limit)
			fmt.Fprintln(os.Stderr, msg)
			fmt.Println(msg)
			os.Exit(3)
		}
	}()
	origGate := verifier.ReceiverMismatchEnforcementHeight
	origAdmin := constants.InitialBridgeAdministrator
	origAdminDelay, origSoftDelay, origUnhalt, origGuardians := constants.MinAdministratorDelay, constants.MinSoftDelay, constants.MinUnhaltDurationInMomentums, constants.MinGuardians
	origUpdate, origFuseExp := constants.UpdateMinNumMomentums, constants.FuseExpiration
	origAccDuration, origVotingPeriod := constants.AcceleratorDuration, constants.AcceleratorProjectVotingPeriod // shortened by the scenario time-regimes
	defer func() {
		constants.AcceleratorDuration, constants.AcceleratorProjectVotingPeriod = origAccDuration, origVotingPeriod
		constants.FuseExpiration = origFuseExp
		verifier.ReceiverMismatchEnforcementHeight = origGate
		constants.InitialBridgeAdministrator = origAdmin
		constants.MinAdministratorDelay, constants.MinSoftDelay, constants.MinUnhaltDurationInMomentums, constants.MinGuardians = origAdminDelay, origSoftDelay, origUnhalt, origGuardians
		constants.UpdateMinNumMomentums = origUpdate
	}()
	verifier.ReceiverMismatchEnforcementHeight = 0
	// the bridge/liquidity administrator of the mock world is User5 (as in vm/embedded/tests); short time challenges
	constants.InitialBridgeAdministrator = g.User5.Address
	constants.MinAdministratorDelay, constants.MinSoftDelay, constants.MinUnhaltDurationInMomentums, constants.MinGuardians = 4, 2, 3, 2
	constants.FuseExpiration = 12 // momentums (the live value is ten hours of momentums)
	if id%2 == 1 || scenario == "degenerate-epochs" {
		constants.UpdateMinNumMomentums = 7 // the contracts' Update methods run (reward bookkeeping) instead of ErrUpdateTooRecent
	}

	regime := id % 4
	if v, ok := c.Args["regime"]; ok {
		fmt.Sscan(v, &regime)
	}
	// Odd histories run on a compressed calendar (as vm/embedded/tests do with NewMockZenonWithCustomEpochDuration): an epoch
	// is one hour and every lock period counts hours instead of days, so that lock periods end and reward epochs pass
	// within the history (a momentum whose timestamp lies 84 real days ahead costs the consensus layer ~40 s of point
	// generation; 84 hours cost 1.5 s).
	fast := (id%2 == 1 && scenario == "") || scenario == "degenerate-epochs"
	origEpoch := consensus.EpochDuration
	origLocks := []int64{constants.PillarEpochLockTime, constants.PillarEpochRevokeTime, constants.SentinelLockTimeWindow, constants.SentinelRevokeTimeWindow,
		constants.StakeTimeUnitSec, constants.StakeTimeMinSec, constants.StakeTimeMaxSec}
	defer func() {
		consensus.EpochDuration = origEpoch
		constants.PillarEpochLockTime, constants.PillarEpochRevokeTime, constants.SentinelLockTimeWindow, constants.SentinelRevokeTimeWindow = origLocks[0], origLocks[1], origLocks[2], origLocks[3]
		constants.StakeTimeUnitSec, constants.StakeTimeMinSec, constants.StakeTimeMaxSec = origLocks[4], origLocks[5], origLocks[6]
	}()
	var n *Node
	if fast {
		const hour = 3600
		constants.PillarEpochLockTime, constants.PillarEpochRevokeTime, constants.SentinelLockTimeWindow, constants.SentinelRevokeTimeWindow = 83*hour, 7*hour, 27*hour, 3*hour
		constants.StakeTimeUnitSec, constants.StakeTimeMinSec, constants.StakeTimeMaxSec = 30*hour, 30*hour, 12*30*hour
		n = newArNode(time.Hour)
		c.Hit("history-compressed-calendar")
	} else {
		n = NewNode()
	}
	defer n.Stop()
	r := &arRun{c: c, n: n, id: id, regime: regime, fast: fast, histTag: scenario, sends: map[types.Hash]*arSend{}, wedged: map[types.Address]bool{}}
	r.w = newArWorld(r)
	r.cons = newConsMonitor(c, n, fmt.Sprintf("autoreceive run=%d regime=%d scenario=%q", id, regime, scenario))
	n.OnMomentum = func(dm *nom.DetailedMomentum) { // momentums of the spork activation phase (the mock node's own worker answers)
		if !r.cons.checkConfirmed("momentum produced by the node's own worker") {
			r.failed = true
		}
	}
	defer func() {
		for _, id := range r.w.declared {
			delete(types.ImplementedSporksMap, id)
		}
	}()
	if arAttach != nil {
		arAttach(r)
		if r.peer != nil {
			defer r.peer.finish()
		}
	}
	c.Hit(fmt.Sprintf("history-regime-%d", regime))

	for i, sp := range []*types.ImplementedSpork{types.AcceleratorSpork, types.BridgeAndLiquiditySpork, types.HtlcSpork} {
		if i >= regime {
			break
		}
		if err := n.ActivateSpork(sp, fmt.Sprintf("spork-%d", i)); err != nil {
			r.fail("spork activation: %v", err)
			return
		}
		c.Hit("spork-activated")
	}
	// the real worker has answered everything so far; from here on the harness drives the producer path itself
	if scenario != "" {
		c.Hit("scenario-" + scenario)
		if r.w.setup() {
			r.w.runScenario(scenario)
		}
	} else {
		r.runPlan()
	}
	if r.failed {
		r.consFinal()
		return
	}
	for i := 0; i < 6 && !r.failed; i++ {
		if !r.step() {
			break
		}
	}
	if !r.failed {
		r.checkAllAnswered("at the end of the history")
	}
	r.consFinal()
	c.Hit("history-complete")
}

func firstLine300(s string) string {
	if i := strings.IndexByte(s, '\n'); i >= 0 {
		s = s[:i]
	}
	if len(s) > 300 {
		s = s[:300]
	}
	return s
}
