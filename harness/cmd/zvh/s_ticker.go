package main

import (
	"encoding/hex"
	"fmt"
	"strings"
	"time"

	"github.com/zenon-network/go-zenon/common"
	"github.com/zenon-network/go-zenon/common/types"
	"github.com/zenon-network/go-zenon/consensus"
	"github.com/zenon-network/go-zenon/vm/constants"
)

// Stream `ticker` (C05): common.ticker ToTick / ToTime, consensus.generateProducers, genProofTime.
//
//	to-tick <startSec> <intervalSec> <tSec>            | <tick> | panic
//	to-time <startSec> <intervalSec> <tick>            | <sSec> <sNsec> <eSec> <eNsec>
//	sched <genesisSec> <blockTime> <nodeCount> <tick> <addr,...|-> | <n> <sSec>.<sNsec>:<eSec>.<eNsec>:<addr> ...
//	proof-time <genesisSec> <blockTime> <nodeCount> <tick> | <sec> <nsec>

func tkCtx(genesis int64, blockTime int64, nodeCount uint8) *consensus.Context {
	g := time.Unix(genesis, 0)
	if blockTime == constants.ConsensusConfig.BlockTime && nodeCount == constants.ConsensusConfig.NodeCount {
		return consensus.NewConsensusContext(g) // the real constructor for the live configuration
	}
	return &consensus.Context{
		Ticker:      common.NewTicker(g, time.Second*time.Duration(uint64(blockTime)*uint64(nodeCount))),
		Consensus:   constants.Consensus{BlockTime: blockTime, NodeCount: nodeCount, RandCount: nodeCount / 2, CountingZTS: types.ZnnTokenStandard},
		GenesisTime: g,
	}
}

func tstr(t time.Time) string { return fmt.Sprintf("%d.%d", t.Unix(), t.Nanosecond()) }

func toTickCase(c *Ctx, start, iv, t int64) {
	tk := common.NewTicker(time.Unix(start, 0), time.Duration(iv)*time.Second)
	var tick uint64
	st := "ok"
	func() {
		defer func() {
			if e := recover(); e != nil {
				st = "panic"
			}
		}()
		tick = tk.ToTick(time.Unix(t, 0))
	}()
	if st != "ok" {
		c.Emit("to-tick %d %d %d | panic", start, iv, t)
		c.Hit("to-tick-panic")
		return
	}
	c.Emit("to-tick %d %d %d | %d", start, iv, t, tick)
	switch {
	case t < start:
		c.Hit("to-tick-before-start")
	case (t-start)%iv == 0:
		c.Hit("to-tick-on-boundary")
	default:
		c.Hit("to-tick-inside")
	}
	// model-free monitor: ToTime(ToTick t) <= t < ToTime(ToTick t + 1) for every instant at or after the start
	// (within the range in which neither Sub nor the int64 nanosecond product saturates/wraps: 292 years)
	if t >= start && t-start < 1<<33 && iv > 0 && iv < 1<<20 {
		tt := time.Unix(t, 0)
		s, e := tk.ToTime(tick)
		if tt.Before(s) || !tt.Before(e) {
			c.Fail("ticker: t=%d not inside ToTime(ToTick(t))=[%d,%d) start=%d interval=%ds tick=%d", t, s.Unix(), e.Unix(), start, iv, tick)
		}
		if n := tk.ToTick(time.Unix(t+1, 0)); n < tick {
			c.Fail("ticker: ToTick not monotone: ToTick(%d)=%d > ToTick(%d)=%d start=%d interval=%ds", t, tick, t+1, n, start, iv)
		}
		if n := tk.ToTick(time.Unix(t+iv, 0)); n != tick+1 {
			c.Fail("ticker: ToTick(t+interval)=%d, want ToTick(t)+1=%d; t=%d start=%d interval=%ds", n, tick+1, t, start, iv)
		}
		// sub-second instants are outside the model (float rounding in Duration.Seconds()): count, do not judge
		if (t-start)%iv == 0 && t > start {
			if n := tk.ToTick(time.Unix(t, 0).Add(-time.Nanosecond)); n != tick-1 {
				c.Hit("note-last-nanosecond-of-tick-rounds-up")
			} else {
				c.Hit("note-last-nanosecond-of-tick-exact")
			}
		}
	}
}

func toTimeCase(c *Ctx, start, iv int64, tick uint64) {
	tk := common.NewTicker(time.Unix(start, 0), time.Duration(iv)*time.Second)
	s, e := tk.ToTime(tick)
	c.Emit("to-time %d %d %d | %d %d %d %d", start, iv, tick, s.Unix(), s.Nanosecond(), e.Unix(), e.Nanosecond())
	c.Hit("to-time")
	// range of the theorems: interval*(tick+2) fits the int64 nanosecond Duration (292 years after the start);
	// beyond it `interval * time.Duration(tick)` wraps around (negative witness `ticker_wraps_after_292_years`)
	if iv > 0 && iv < 1<<20 && tick < uint64(1<<63-1)/uint64(iv*1000000000)-2 {
		c.Hit("to-time-in-range")
		// consecutive ticks tile the time line; each lasts exactly the interval; round trip
		s2, _ := tk.ToTime(tick + 1)
		if !e.Equal(s2) || e.Sub(s) != time.Duration(iv)*time.Second {
			c.Fail("ticker: tick %d = [%d,%d) does not abut tick %d starting %d (interval %ds)", tick, s.Unix(), e.Unix(), tick+1, s2.Unix(), iv)
		}
		if n := tk.ToTick(s); n != tick {
			c.Fail("ticker: ToTick(ToTime(%d).start)=%d start=%d interval=%ds", tick, n, start, iv)
		}
		if n := tk.ToTick(e.Add(-time.Second)); n != tick {
			c.Fail("ticker: ToTick(ToTime(%d).end-1s)=%d start=%d interval=%ds", tick, n, start, iv)
		}
	}
}

func schedCase(c *Ctx, genesis, blockTime int64, nodeCount uint8, tick uint64, k int) {
	ctx := tkCtx(genesis, blockTime, nodeCount)
	addrs := make([]types.Address, k)
	toks := make([]string, k)
	for i := range addrs {
		addrs[i][1] = byte(i)
		addrs[i][19] = byte(c.R.Intn(256))
		toks[i] = hex.EncodeToString(addrs[i].Bytes())
	}
	at := strings.Join(toks, ",")
	if k == 0 {
		at = "-"
	}
	ev := consensus.GenerateProducersVerif(ctx, tick, addrs)
	out := make([]string, len(ev))
	for i, e := range ev {
		out[i] = tstr(e.StartTime) + ":" + tstr(e.EndTime) + ":" + hex.EncodeToString(e.Producer.Bytes())
	}
	c.Emit("sched %d %d %d %d %s | %d %s", genesis, blockTime, nodeCount, tick, at, len(ev), strings.Join(out, " "))
	pt := consensus.GenProofTimeVerif(ctx, tick)
	c.Emit("proof-time %d %d %d %d | %d %d", genesis, blockTime, nodeCount, tick, pt.Unix(), pt.Nanosecond())
	if k != int(nodeCount) {
		c.Hit("sched-wrong-count")
		if len(ev) != 0 {
			c.Fail("schedule: %d events for %d producers with nodeCount=%d", len(ev), k, nodeCount)
		}
		return
	}
	c.Hit("sched-ok")
	if blockTime <= 0 || blockTime > 1<<16 || nodeCount == 0 || tick >= uint64(1<<63-1)/uint64(blockTime*int64(nodeCount)*1000000000)-2 {
		return
	}
	c.Hit("sched-in-range")
	// model-free monitors: exactly one producer per slot; slots tile the tick without gap or overlap; every slot
	// start maps back to this tick; the proof time precedes the tick by at least one full tick (tick >= 2)
	where := fmt.Sprintf("genesis=%d blockTime=%d nodeCount=%d tick=%d", genesis, blockTime, nodeCount, tick)
	s, e := ctx.ToTime(tick)
	if len(ev) != int(nodeCount) {
		c.Fail("schedule: %d slots, want %d; %s", len(ev), nodeCount, where)
		return
	}
	cur := s
	for i, p := range ev {
		if !p.StartTime.Equal(cur) {
			c.Fail("schedule: slot %d starts at %s, previous slot ended at %s (gap or overlap); %s", i, tstr(p.StartTime), tstr(cur), where)
		}
		if p.EndTime.Sub(p.StartTime) != time.Duration(blockTime)*time.Second {
			c.Fail("schedule: slot %d lasts %v, want %ds; %s", i, p.EndTime.Sub(p.StartTime), blockTime, where)
		}
		if p.Producer != addrs[i] {
			c.Fail("schedule: slot %d is given to %v, the election result has %v there; %s", i, p.Producer, addrs[i], where)
		}
		if nodeCount > 0 {
			if n := ctx.ToTick(p.StartTime); n != tick {
				c.Fail("schedule: slot %d start %s belongs to tick %d, not %d; %s", i, tstr(p.StartTime), n, tick, where)
			}
		}
		cur = p.EndTime
	}
	if nodeCount > 0 && !cur.Equal(e) {
		c.Fail("schedule: last slot ends at %s, the tick ends at %s; %s", tstr(cur), tstr(e), where)
	}
	if tick >= 2 && nodeCount > 0 {
		ps, _ := ctx.ToTime(tick - 1)
		if !pt.Equal(ps) {
			c.Fail("schedule: proof time %s of tick %d is not the start of tick %d (%s); %s", tstr(pt), tick, tick-1, tstr(ps), where)
		}
	} else if !pt.Equal(time.Unix(genesis+1, 0)) {
		c.Fail("schedule: proof time %s of tick %d is not genesis+1s; %s", tstr(pt), tick, where)
	}
}

func init() {
	register("ticker", func(c *Ctx) {
		liveIv := constants.ConsensusConfig.BlockTime * int64(constants.ConsensusConfig.NodeCount)
		genIv := func() int64 {
			switch c.R.Intn(6) {
			case 0:
				return []int64{1, 2, 10, 60, 3600, 86400}[c.R.Intn(6)]
			case 1:
				return int64(1 + c.R.Intn(100000))
			default:
				return liveIv
			}
		}
		genStart := func() int64 {
			switch c.R.Intn(4) {
			case 0:
				return []int64{0, 1, 1637755200, 1000000000, 4102444800}[c.R.Intn(5)]
			default:
				return 1500000000 + int64(c.R.Intn(300000000))
			}
		}
		// boundary sweep for the live interval
		for _, start := range []int64{1637755200, 0} {
			for k := int64(0); k < 6; k++ {
				for _, d := range []int64{-1, 0, 1, 9, 10, 11} {
					toTickCase(c, start, liveIv, start+k*liveIv+d)
				}
			}
			for _, tick := range []uint64{0, 1, 2, 3, 1000, 30744573, 30744574, 30744575, 61489146, 61489147, 1<<62 - 1, 1 << 62, 1<<63 - 1, 1 << 63, 1<<64 - 2, 1<<64 - 1} {
				toTimeCase(c, start, liveIv, tick)
			}
		}
		toTickCase(c, 1000, 0, 2000) // interval 0: integer divide by zero
		for i := 0; i < c.N; i++ {
			start, iv := genStart(), genIv()
			var t int64
			switch c.R.Intn(8) {
			case 0: // before the start (ElectionByTime guards this)
				t = start - int64(1+c.R.Intn(1000000))
			case 1, 2: // around a tick boundary
				t = start + int64(c.R.Intn(5000000))*iv + int64(c.R.Intn(3)) - 1
			case 3: // far future, up to and beyond the 292-year saturation of time.Sub
				t = start + int64(1)<<uint(20+c.R.Intn(20)) + int64(c.R.Intn(1000))
			default:
				t = start + int64(c.R.Intn(1<<31))
			}
			toTickCase(c, start, iv, t)
		}
		for i := 0; i < c.N/2; i++ {
			start, iv := genStart(), genIv()
			var tick uint64
			switch c.R.Intn(6) {
			case 0:
				tick = randU64(c)
			case 1: // around the int64 nanosecond wrap of interval*tick
				tick = (uint64(1)<<63)/uint64(iv*1000000000) + uint64(c.R.Intn(5)) - 2
			default:
				tick = uint64(c.R.Intn(1 << 24))
			}
			toTimeCase(c, start, iv, tick)
		}
		for i := 0; i < c.N/4+1; i++ {
			genesis := genStart()
			bt, nc := constants.ConsensusConfig.BlockTime, constants.ConsensusConfig.NodeCount
			if c.R.Intn(3) == 0 {
				bt, nc = int64(1+c.R.Intn(60)), uint8(c.R.Intn(40))
			}
			k := int(nc)
			if c.R.Intn(10) == 0 {
				k = c.R.Intn(40)
			}
			var tick uint64
			switch c.R.Intn(6) {
			case 0:
				tick = uint64(c.R.Intn(4))
			case 1:
				tick = randU64(c)
			default:
				tick = uint64(c.R.Intn(1 << 22))
			}
			schedCase(c, genesis, bt, nc, tick, k)
		}
	})
}
