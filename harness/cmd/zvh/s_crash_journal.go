package main

import (
	"bytes"
	"encoding/hex"
	"fmt"
	"io"
	"math/rand"
	"os"
	"sort"
	"strings"

	"github.com/syndtr/goleveldb/leveldb/journal"
	"github.com/syndtr/goleveldb/leveldb/util"
)

// ---------------------------------------------------------------------------------------------------
// crash stream (C08), correspondence of the JOURNAL LAYER.
//
// Everything the crash stream concludes rests on two things it does not prove: that the harness reads
// goleveldb's journal correctly (journalRecords: where a write call's record ends), and that goleveldb, on
// reopening, delivers exactly the records that are complete in a truncated journal. The Lean side has a model
// of the log format and of goleveldb's reader (Model/Journal.lean) with theorems for every byte cut
// (Props/C08Journal.lean). This file ties the three together on real bytes:
//
//   jr-load <blocksize> <hex of a whole journal file>
//   jr-parse | <number of records> <len:hash,…> enc=ok
//        observed = what goleveldb's own journal.Reader (options of NewLevelDBManager: non-strict, checksums on,
//        driven the way DB.recoverJournal drives it) delivers from these bytes. The harness parser must deliver
//        the same (otherwise the observation says so and the line is a DIFF); the model runs `recover` on the
//        bytes (with the real masked CRC-32C) and additionally re-encodes the recovered records with
//        `encodeJournal` - the result must be the journal byte for byte (`enc=ok`): chunking, padding, checksums.
//   jr-cut <n> <tail> | <k> <strict> p=<p>
//        the journal cut after n bytes, followed by <tail> (`-`, `z<count>` zeros, `g<hex>` arbitrary bytes):
//        k = number of records goleveldb's reader delivers (they must be the FIRST k records of the whole
//        journal, else `notprefix`), strict = `ok:<k>` / `err` = the same with opt.StrictJournal,
//        p = number of records that end at or before n according to the harness parser (what the stream uses
//        to know the state a crash image must show). The model prints k and strict from `recover` /
//        `recoverStrict` and p from the layout (`wholeRecs`; theorem recover_truncate_exact: k = p without tail).
//
// Journals: (1) the live journal of the database under test after an operation whose record spans 2+ blocks,
// when the whole file is at most 128 KiB (3 per quick run), and small whole journals of a few records;
// (2) journals written by goleveldb's journal.Writer from records sized to hit the corners of the format:
// 0..8 bytes left in a block when a record starts (padding, empty FIRST chunk; all nine cases in every run), records
// that end exactly at a block boundary, empty records, records of one block give or take a byte.
// ---------------------------------------------------------------------------------------------------

const jrMaxJournal = 4 * jBlock

var jrBigLeft, jrSmallLeft int

func jrResetBudget(c *Ctx) {
	jrBigLeft = 3 + c.N/100
	jrSmallLeft = 3 + c.N/50
}

func jrHash(p []byte) uint32 {
	h := uint32(7)
	for _, b := range p {
		h = h*31 + uint32(b)
	}
	return h
}

// goleveldbReplay runs goleveldb's journal.Reader over data the way DB.recoverJournal does.
func goleveldbReplay(data []byte, strict bool) (recs [][]byte, err error) {
	jr := journal.NewReader(bytes.NewReader(data), nil, strict, true)
	buf := &util.Buffer{}
	for {
		r, err := jr.Next()
		if err != nil {
			if err == io.EOF {
				return recs, nil
			}
			return recs, err
		}
		buf.Reset()
		if _, err := buf.ReadFrom(r); err != nil {
			if err == io.ErrUnexpectedEOF {
				continue // "This is error returned due to corruption, with strict == false."
			}
			return recs, err
		}
		recs = append(recs, append([]byte{}, buf.Bytes()...))
	}
}

func jrSummary(recs [][]byte) string {
	if len(recs) == 0 {
		return "0 -"
	}
	parts := make([]string, len(recs))
	for i, r := range recs {
		parts[i] = fmt.Sprintf("%d:%08x", len(r), jrHash(r))
	}
	return fmt.Sprintf("%d %s", len(recs), strings.Join(parts, ","))
}

// jrEmit prints one journal and a family of cuts. opStart = offset where the most recent operation's bytes begin
// (or -1).
func jrEmit(c *Ctx, r *rand.Rand, data []byte, opStart int64, ncuts int) {
	ends, payloads, perr := journalRecordsBytes(data)
	full, err := goleveldbReplay(data, false)
	c.Emit("jr-load %d %s", jBlock, hex.EncodeToString(data))
	obs := jrSummary(full) + " enc=ok"
	if err != nil {
		obs = "reader-error " + firstLine(err.Error())
	} else if perr != nil || jrSummary(payloads) != jrSummary(full) {
		obs = fmt.Sprintf("harness-parser-disagrees parser=[%s] goleveldb=[%s]", jrSummary(payloads), jrSummary(full))
	}
	c.Emit("jr-parse | %s", obs)
	c.Hit("jr-journal")
	if len(data) > jBlock {
		c.Hit("jr-journal-multi-block")
	}
	n := int64(len(data))
	// cut points
	seen := map[int64]bool{}
	var cuts []int64
	add := func(x int64) {
		if x < 0 || x > n || seen[x] {
			return
		}
		seen[x] = true
		cuts = append(cuts, x)
	}
	var cand []int64
	for _, e := range ends {
		cand = append(cand, e, e-1, e+1, e+7, e+8, e+1+int64(r.Intn(6)))
	}
	for b := int64(jBlock); b < n+jBlock; b += jBlock {
		cand = append(cand, b, b-1, b-7, b-1-int64(r.Intn(6)), b+1+int64(r.Intn(6)), b+7, b+8+int64(r.Intn(64)))
	}
	if opStart >= 0 {
		cand = append(cand, opStart, opStart+1+int64(r.Intn(6)), opStart+7, opStart+8+int64(r.Intn(64)))
	}
	cand = append(cand, 0, n, n-1)
	r.Shuffle(len(cand), func(i, j int) { cand[i], cand[j] = cand[j], cand[i] })
	for _, x := range cand {
		if len(cuts) >= ncuts*2/3 {
			break
		}
		add(x)
	}
	for len(cuts) < ncuts && int64(len(seen)) <= n {
		add(r.Int63n(n + 1))
	}
	sort.Slice(cuts, func(i, j int) bool { return cuts[i] < cuts[j] })
	for _, at := range cuts {
		tailTok, tail := "-", []byte(nil)
		if r.Intn(3) == 0 {
			room := int(jBlock - at%jBlock)
			if r.Intn(2) == 0 {
				var z int
				switch r.Intn(4) {
				case 0:
					z = room
				case 1:
					z = 1 + r.Intn(room)
				case 2:
					z = 1 + r.Intn(16)
				default:
					z = room + r.Intn(2*jBlock)
				}
				tail = make([]byte, z)
				tailTok = fmt.Sprintf("z%d", z)
				c.Hit("jr-cut-tail-zeros")
			} else {
				g := 1 + r.Intn(300)
				if r.Intn(3) == 0 && room < 300 {
					g = room + r.Intn(300) // into the next block
				}
				tail = make([]byte, g)
				r.Read(tail)
				if r.Intn(4) == 0 && g >= 7 {
					tail[6] = byte(1 + r.Intn(4)) // a plausible chunk type where a header would be read
				}
				tailTok = "g" + hex.EncodeToString(tail)
				c.Hit("jr-cut-tail-garbage")
			}
		}
		img := append(append([]byte{}, data[:at]...), tail...)
		recs, err := goleveldbReplay(img, false)
		k := fmt.Sprint(len(recs))
		if err != nil {
			k = "reader-error"
		} else if len(recs) > len(full) {
			k = "notprefix"
		} else {
			for i := range recs {
				if !bytes.Equal(recs[i], full[i]) {
					k = "notprefix"
					break
				}
			}
		}
		srecs, serr := goleveldbReplay(img, true)
		strict := fmt.Sprintf("ok:%d", len(srecs))
		if serr != nil {
			strict = "err"
			c.Hit("jr-cut-strict-refuses")
		}
		p := 0
		for _, e := range ends {
			if e <= at {
				p++
			}
		}
		c.Emit("jr-cut %d %s | %s %s p=%d", at, tailTok, k, strict, p)
		c.Hit("jr-cut")
		if k != fmt.Sprint(p) {
			c.Hit("jr-cut-tail-completes-or-adds-record")
		}
	}
}

// crashJournalLines is called after every operation of the crash stream with the live journal and the byte range
// (start, end] the operation appended.
func crashJournalLines(c *Ctx, seq, step int, journalPath string, start, end int64) {
	if jrBigLeft <= 0 && jrSmallLeft <= 0 {
		return
	}
	fi, err := os.Stat(journalPath)
	if err != nil || fi.Size() > jrMaxJournal || fi.Size() == 0 {
		return
	}
	blocks := (end-1)/jBlock - start/jBlock + 1
	big := blocks >= 2
	switch {
	case big && jrBigLeft > 0:
		jrBigLeft--
	case !big && jrSmallLeft > 0 && step >= 2 && fi.Size() <= 16384 && seq%4 == 1:
		jrSmallLeft--
	default:
		return
	}
	data, err := os.ReadFile(journalPath)
	if err != nil {
		return
	}
	r := rand.New(rand.NewSource(c.Seed*1000003 + int64(seq)*7919 + int64(step)))
	if big {
		c.Hit("jr-live-journal-op-spans-blocks")
		jrEmit(c, r, data, start, 18)
	} else {
		c.Hit("jr-live-journal-small")
		jrEmit(c, r, data, start, 24)
	}
}

// crashJournalSynthetic: journals written by goleveldb's journal.Writer from records that hit the corners of the format.
func crashJournalSynthetic(c *Ctx, idx int) {
	r := rand.New(rand.NewSource(c.Seed*7777 + int64(idx)))
	var buf bytes.Buffer
	w := journal.NewWriter(&buf)
	put := func(n int) {
		p := make([]byte, n)
		r.Read(p)
		if r.Intn(3) == 0 { // payloads with runs of zeros (a zero-filled tail can then complete a torn chunk)
			for i := r.Intn(n + 1); i < n; i++ {
				p[i] = 0
			}
		}
		jw, err := w.Next()
		if err == nil {
			// goleveldb writes a batch with several Write calls (header, then the batch data)
			h := n
			if h > 12 {
				h = 12
			}
			_, err = jw.Write(p[:h])
			if err == nil {
				_, err = jw.Write(p[h:])
			}
		}
		if err == nil {
			err = w.Flush()
		}
		if err != nil {
			panic(err)
		}
	}
	// leave exactly `rem` bytes in the current block
	leave := func(rem int) {
		avail := jBlock - buf.Len()%jBlock
		if avail < 7 {
			avail = jBlock // the writer pads and starts the record in the next block
		}
		n := avail - 7 - rem
		if n < 0 {
			n = (avail - 7) + (jBlock - 7 - rem) // fill this block, end in the next one
		}
		put(n)
	}
	put(r.Intn(40))
	var rems []int
	for j := 0; j < 3; j++ {
		rem := (int(c.Seed) + 3*idx + j) % 9 // 0..8 bytes left in the block when the next record starts
		leave(rem)
		rems = append(rems, rem)
		k := r.Intn(4)
		if j < 2 {
			k = r.Intn(2)
		}
		switch k {
		case 0:
			put(0)
		case 1:
			put(1 + r.Intn(20))
		case 2:
			put(jBlock - 7 + r.Intn(3) - 1) // a block's worth of payload, give or take a byte
		default:
			leave(0) // ends exactly at a block boundary; the next record opens a block
			put(r.Intn(3))
		}
	}
	put(r.Intn(200))
	if buf.Len() > jrMaxJournal+jBlock {
		return
	}
	c.Hit("jr-synthetic-journal")
	for _, rem := range rems {
		c.Hit(fmt.Sprintf("jr-synthetic-%d-bytes-left-in-block", rem))
	}
	jrEmit(c, r, buf.Bytes(), -1, 36)
}
