package main

// Facts for C02 (node-level mechanism, lean/ZenonVerif/Props/C02Node.lean): where the execution context of an account
// block comes from (vm/supervisor.go newBlockContext / applyBlock), what the two loops of the chain bridge do with a
// block (protocol/chain_bridge.go AddAccountBlocks / InsertChain: pooled-patch test, execution, plain or forced
// insertion), how the pool distinguishes the two insertions (chain/account_pool.go) and where a momentum's patches and
// its changes-hash comparison come from (vm/vm.go applyMomentum, verifier/momentum.go changesHash). AST of the working
// tree; a construct that is not found yields an empty value (the pinning theorem fails), not an extractor error.

import (
	"go/ast"
	"go/parser"
	"go/token"
	"path/filepath"
	"sort"
	"strings"
)

// method or function declaration by name (first match; receiver type name optional)
func findDecl(f *ast.File, recv, name string) *ast.FuncDecl {
	for _, d := range f.Decls {
		fd, ok := d.(*ast.FuncDecl)
		if !ok || fd.Name.Name != name || fd.Body == nil {
			continue
		}
		if recv == "" {
			return fd
		}
		if fd.Recv == nil || len(fd.Recv.List) != 1 {
			continue
		}
		t := fd.Recv.List[0].Type
		if st, ok := t.(*ast.StarExpr); ok {
			t = st.X
		}
		if id, ok := t.(*ast.Ident); ok && id.Name == recv {
			return fd
		}
	}
	return nil
}

// top-level assignment statements of a function body, in order
func topAssigns(fset *token.FileSet, fd *ast.FuncDecl) []string {
	out := []string{}
	if fd == nil {
		return out
	}
	for _, st := range fd.Body.List {
		if as, ok := st.(*ast.AssignStmt); ok {
			out = append(out, exprStr(fset, as))
		}
	}
	return out
}

func lastReturn(fset *token.FileSet, fd *ast.FuncDecl) string {
	if fd == nil || len(fd.Body.List) == 0 {
		return ""
	}
	if r, ok := fd.Body.List[len(fd.Body.List)-1].(*ast.ReturnStmt); ok {
		rs := make([]string, len(r.Results))
		for i, e := range r.Results {
			if ce, ok := e.(*ast.CallExpr); ok { // a call spread over several lines: one argument list
				as := make([]string, len(ce.Args))
				for j, a := range ce.Args {
					as[j] = exprStr(fset, a)
				}
				rs[i] = exprStr(fset, ce.Fun) + "(" + strings.Join(as, ", ") + ")"
				continue
			}
			rs[i] = exprStr(fset, e)
		}
		return strings.Join(rs, ", ")
	}
	return ""
}

// the steps of the loop `for … := range <over>` of fd: guards that `continue`, and calls (of an assignment or of an
// if-initialiser), in source order
func loopSteps(fset *token.FileSet, fd *ast.FuncDecl, over string) []string {
	out := []string{}
	if fd == nil {
		return out
	}
	var loop *ast.RangeStmt
	ast.Inspect(fd.Body, func(n ast.Node) bool {
		if rs, ok := n.(*ast.RangeStmt); ok && loop == nil && exprStr(fset, rs.X) == over {
			loop = rs
			return false
		}
		return loop == nil
	})
	if loop == nil {
		return out
	}
	callOf := func(st ast.Stmt) string {
		as, ok := st.(*ast.AssignStmt)
		if !ok || len(as.Rhs) != 1 {
			return ""
		}
		if ce, ok := as.Rhs[0].(*ast.CallExpr); ok {
			return exprStr(fset, ce)
		}
		return ""
	}
	for _, st := range loop.Body.List {
		switch x := st.(type) {
		case *ast.IfStmt:
			head := exprStr(fset, x.Cond)
			if x.Init != nil {
				head = exprStr(fset, x.Init) + "; " + head
			}
			if len(x.Body.List) == 1 {
				if br, ok := x.Body.List[0].(*ast.BranchStmt); ok && br.Tok == token.CONTINUE && x.Else == nil {
					out = append(out, "if "+head+" => continue")
					continue
				}
			}
			if x.Init != nil {
				if c := callOf(x.Init); c != "" {
					out = append(out, "call "+c)
					continue
				}
			}
			out = append(out, "if "+head)
		case *ast.AssignStmt:
			if c := callOf(x); c != "" {
				out = append(out, "call "+c)
			} else {
				out = append(out, exprStr(fset, x))
			}
		case *ast.ExprStmt:
			out = append(out, "call "+exprStr(fset, x.X))
		default:
			out = append(out, "stmt")
		}
	}
	return out
}

// names of the account-pool insertion methods (…AddAccountBlockTransaction) called on c.chain from the method `from` of
// chainBridge or from any chainBridge method it reaches through calls on its receiver; sorted, without duplicates
func bridgePoolInserts(f *ast.File, from string) []string {
	seen := map[string]bool{}
	found := map[string]bool{}
	var visit func(name string)
	visit = func(name string) {
		if seen[name] {
			return
		}
		seen[name] = true
		fd := findDecl(f, "chainBridge", name)
		if fd == nil || fd.Recv == nil || len(fd.Recv.List[0].Names) != 1 {
			return
		}
		recv := fd.Recv.List[0].Names[0].Name
		ast.Inspect(fd.Body, func(n ast.Node) bool {
			ce, ok := n.(*ast.CallExpr)
			if !ok {
				return true
			}
			se, ok := ce.Fun.(*ast.SelectorExpr)
			if !ok {
				return true
			}
			if id, ok := se.X.(*ast.Ident); ok && id.Name == recv {
				visit(se.Sel.Name)
			}
			if strings.HasSuffix(se.Sel.Name, "AddAccountBlockTransaction") {
				found[se.Sel.Name] = true
			}
			return true
		})
	}
	visit(from)
	out := []string{}
	for k := range found {
		out = append(out, k)
	}
	sort.Strings(out)
	return out
}

func init() {
	factGens = append(factGens, func(repo string) (*factFile, error) {
		f := newFactFile("NodeSync")
		fset := token.NewFileSet()

		// ---- vm/supervisor.go ---------------------------------------------------------------------------
		sv, err := parser.ParseFile(fset, filepath.Join(repo, "vm", "supervisor.go"), nil, 0)
		if err != nil {
			return nil, err
		}
		nbc := findDecl(sv, "Supervisor", "newBlockContext")
		f.raw("-- vm/supervisor.go newBlockContext: top-level assignments and the returned context\n")
		f.strList("newBlockContextAssigns", topAssigns(fset, nbc))
		f.raw("def newBlockContextReturn : String := %q\n", lastReturn(fset, nbc))
		f.raw("-- vm/supervisor.go applyBlock: top-level assignments (verifier, context, VM, pack)\n")
		f.strList("applyBlockAssigns", topAssigns(fset, findDecl(sv, "Supervisor", "applyBlock")))

		// ---- protocol/chain_bridge.go -------------------------------------------------------------------
		cb, err := parser.ParseFile(fset, filepath.Join(repo, "protocol", "chain_bridge.go"), nil, 0)
		if err != nil {
			return nil, err
		}
		f.raw("-- protocol/chain_bridge.go: steps of the per-block loops, in source order\n")
		f.strList("insertChainBlockLoop", loopSteps(fset, findDecl(cb, "chainBridge", "InsertChain"), "detailed.AccountBlocks"))
		f.strList("addAccountBlocksLoop", loopSteps(fset, findDecl(cb, "chainBridge", "AddAccountBlocks"), "blocks"))
		f.raw("-- pool insertion methods reachable from the two entry points (through chainBridge's own methods)\n")
		f.strList("insertChainPoolInserts", bridgePoolInserts(cb, "InsertChain"))
		f.strList("addAccountBlocksPoolInserts", bridgePoolInserts(cb, "AddAccountBlocks"))

		// ---- chain/account_pool.go ----------------------------------------------------------------------
		ap, err := parser.ParseFile(fset, filepath.Join(repo, "chain", "account_pool.go"), nil, 0)
		if err != nil {
			return nil, err
		}
		f.raw("-- chain/account_pool.go: what the two insertion methods return, and every if-condition mentioning forceAdd\n")
		f.raw("def poolAddReturn : String := %q\n", lastReturn(fset, findDecl(ap, "accountPool", "AddAccountBlockTransaction")))
		f.raw("def poolForceAddReturn : String := %q\n", lastReturn(fset, findDecl(ap, "accountPool", "ForceAddAccountBlockTransaction")))
		forceConds := []string{}
		if fd := findDecl(ap, "accountPool", "addAccountBlockTransaction"); fd != nil {
			ast.Inspect(fd.Body, func(n ast.Node) bool {
				if is, ok := n.(*ast.IfStmt); ok {
					c := exprStr(fset, is.Cond)
					if strings.Contains(c, "forceAdd") {
						if is.Init != nil {
							c = exprStr(fset, is.Init) + "; " + c
						}
						forceConds = append(forceConds, c)
					}
				}
				return true
			})
		}
		f.strList("poolForceConds", forceConds)

		// ---- vm/vm.go applyMomentum, verifier/momentum.go changesHash -----------------------------------
		vmf, err := parser.ParseFile(fset, filepath.Join(repo, "vm", "vm.go"), nil, 0)
		if err != nil {
			return nil, err
		}
		f.raw("-- vm/vm.go applyMomentum: steps of the loop over the momentum's content\n")
		f.strList("applyMomentumLoop", loopSteps(fset, findDecl(vmf, "MomentumVM", "applyMomentum"), "momentum.Content"))
		mvf, err := parser.ParseFile(fset, filepath.Join(repo, "verifier", "momentum.go"), nil, 0)
		if err != nil {
			return nil, err
		}
		ch := findDecl(mvf, "momentumTransactionVerifier", "changesHash")
		chs := []string{}
		if ch != nil {
			for _, st := range ch.Body.List {
				switch x := st.(type) {
				case *ast.AssignStmt:
					chs = append(chs, exprStr(fset, x))
				case *ast.IfStmt:
					chs = append(chs, "if "+exprStr(fset, x.Cond))
				case *ast.ReturnStmt:
					chs = append(chs, "return "+lastReturn(fset, &ast.FuncDecl{Body: &ast.BlockStmt{List: []ast.Stmt{x}}}))
				}
			}
		}
		f.raw("-- verifier/momentum.go momentumTransactionVerifier.changesHash: top-level statements\n")
		f.strList("changesHashStmts", chs)
		return f, nil
	})
}
