package main

// Stream `p2p` (C15): a real protocol.ProtocolManager over the mock node's ChainBridge. Every operation is one
// peer session over p2p.MsgPipe: handshake, ONE test message, then a zero-size probe with a reserved unknown
// code. The node handles messages sequentially, so everything the node sent before it consumed the probe is
// its answer to the test message, and the error Run returns tells whether the test message or the probe
// ended the session.
//
//	p2p-msg <H> <code> <size> <body…> | hashes <n> <first> <last> <shape> | blocks <n> <h,…> | cont | err <class> | panic | hang
//	p2p-hs  <code> <size> <dec> <genesisOk> <networkOk> <versionOk> | ok | err <class>

import (
	"bytes"
	"fmt"
	"io"
	"math"
	"strings"
	"time"

	"github.com/ethereum/go-ethereum/rlp"

	"github.com/zenon-network/go-zenon/chain/nom"
	"github.com/zenon-network/go-zenon/common/types"
	"github.com/zenon-network/go-zenon/p2p"
	"github.com/zenon-network/go-zenon/p2p/discover"
	"github.com/zenon-network/go-zenon/protocol"
)

const probeCode = 127 // never used by a test message

// the limits C15 states: 10 MiB per message, 512 hashes and 128 momentums per reply
const (
	stmtMaxMsgSize = 10 * 1024 * 1024
	stmtMaxHashes  = 512
	stmtMaxBlocks  = 128
)

// same RLP shape as protocol.statusData / getBlockHashesData / getBlockHashesFromNumberData
type hsStatus struct {
	ProtocolVersion uint32
	NetworkId       uint32
	TD              uint64
	CurrentBlock    types.Hash
	GenesisBlock    types.Hash
}
type reqHashes struct {
	Hash   types.Hash
	Amount uint64
}
type reqHashesFromNumber struct {
	Number uint64
	Amount uint64
}

type p2pRun struct {
	c        *Ctx
	a        *producer
	pm       *protocol.ProtocolManager
	netId    uint64
	genesis  types.Hash
	nextPeer uint64
	hangs    int
	// sessTimeout: how long a session may stay silent before it counts as hanging (0 = 20 s)
	sessTimeout time.Duration
	byHash      map[types.Hash]uint64
	hashes      []types.Hash // index = height-1
	blocks      []*nom.AccountBlock
}

type inMsg struct {
	code    uint64
	size    uint32
	payload []byte
}

type sessionResult struct {
	msgs     []inMsg // what the node sent after the handshake
	runErr   error
	panicked interface{}
	hang     bool
	hsStatus *hsStatus // node's status message
}

// session runs one peer session. first: message sent instead of / as the status message (nil = valid status);
// test: the message after the handshake (nil = none).
func (r *p2pRun) session(first *p2p.Msg, test *p2p.Msg) *sessionResult {
	res := &sessionResult{}
	app, node := p2p.MsgPipe()
	var id discover.NodeID
	r.nextPeer++
	for i := 0; i < 8; i++ {
		id[i] = byte(r.nextPeer >> (8 * uint(i)))
	}
	id[63] = 0x5a
	peer := p2p.NewPeer(id, "zvh-peer", []p2p.Cap{{Name: "eth", Version: 61}})
	type runOut struct {
		err error
		pn  interface{}
	}
	done := make(chan runOut, 1)
	go func() {
		var out runOut
		defer func() {
			if p := recover(); p != nil {
				out.pn = p
			}
			done <- out
		}()
		out.err = r.pm.SubProtocols[0].Run(peer, node)
	}()
	// reader: consume everything the node sends
	inc := make(chan inMsg, 64)
	readerDone := make(chan struct{})
	go func() {
		defer close(readerDone)
		for {
			m, err := app.ReadMsg()
			if err != nil {
				return
			}
			b, _ := io.ReadAll(m.Payload)
			inc <- inMsg{code: m.Code, size: m.Size, payload: b}
		}
	}()
	// writer: status (or its replacement), test message, probe
	go func() {
		if first != nil {
			if app.WriteMsg(*first) != nil {
				return
			}
		} else {
			st := &hsStatus{ProtocolVersion: 61, NetworkId: uint32(r.netId), TD: 0, CurrentBlock: r.genesis, GenesisBlock: r.genesis}
			if p2p.Send(app, protocol.StatusMsg, st) != nil {
				return
			}
		}
		if test != nil {
			if app.WriteMsg(*test) != nil {
				return
			}
		}
		app.WriteMsg(p2p.Msg{Code: probeCode, Size: 0, Payload: bytes.NewReader(nil)})
	}()
	wait := r.sessTimeout
	if wait == 0 {
		wait = 20 * time.Second
	}
	select {
	case out := <-done:
		res.runErr, res.panicked = out.err, out.pn
	case <-time.After(wait):
		res.hang = true
	}
	app.Close()
	<-readerDone
	close(inc)
	for m := range inc {
		if m.code == protocol.StatusMsg && res.hsStatus == nil {
			var st hsStatus
			if rlp.DecodeBytes(m.payload, &st) == nil {
				res.hsStatus = &st
			}
			continue
		}
		// answers are BlockHashesMsg / BlocksMsg; everything else the node sends on its own (transaction and block
		// broadcasts, the downloader/fetcher asking this peer for hashes or blocks after a NewBlock announcement)
		if m.code != protocol.BlockHashesMsg && m.code != protocol.BlocksMsg {
			r.c.Hit("async-msg-ignored")
			continue
		}
		res.msgs = append(res.msgs, m)
	}
	return res
}

func classifyProtoErr(err error) string {
	if err == nil {
		return "none"
	}
	s := err.Error()
	switch {
	case strings.HasPrefix(s, "Message too long"):
		return "toolarge"
	case strings.HasPrefix(s, "Invalid message code"):
		return "badcode"
	case strings.HasPrefix(s, "Invalid message"):
		return "decode"
	case strings.HasPrefix(s, "Protocol version mismatch"):
		return "version"
	case strings.HasPrefix(s, "NetworkId mismatch"):
		return "network"
	case strings.HasPrefix(s, "Genesis block mismatch"):
		return "genesis"
	case strings.HasPrefix(s, "No status message"):
		return "nostatus"
	case strings.HasPrefix(s, "Extra status message"):
		return "extrastatus"
	default:
		return "other"
	}
}

func isProbeErr(err error) bool {
	return err != nil && err.Error() == fmt.Sprintf("Invalid message code - %v", probeCode)
}

func shapeOfHeights(hs []uint64) string {
	if len(hs) == 0 {
		return "none"
	}
	if len(hs) == 1 {
		return "one"
	}
	asc, desc := true, true
	for i := 1; i < len(hs); i++ {
		if hs[i] != hs[i-1]+1 {
			asc = false
		}
		if hs[i-1] != hs[i]+1 {
			desc = false
		}
	}
	switch {
	case asc:
		return "asc"
	case desc:
		return "desc"
	}
	return "mixed"
}

// observe renders what the peer saw for the test message.
func (r *p2pRun) observe(res *sessionResult) (obs string, replyItems int, replyKind string) {
	if res.hang {
		return "hang", 0, ""
	}
	if res.panicked != nil {
		return "panic", 0, ""
	}
	if len(res.msgs) > 1 {
		return fmt.Sprintf("multiple-replies %d", len(res.msgs)), 0, ""
	}
	if len(res.msgs) == 1 {
		m := res.msgs[0]
		switch m.code {
		case protocol.BlockHashesMsg:
			var hs []types.Hash
			if err := rlp.DecodeBytes(m.payload, &hs); err != nil {
				return "undecodable-reply", 0, ""
			}
			heights := make([]uint64, len(hs))
			for i, h := range hs {
				heights[i] = r.byHash[h] // 0 = not ours
			}
			first, last := "-", "-"
			if len(hs) > 0 {
				first, last = fmt.Sprint(heights[0]), fmt.Sprint(heights[len(hs)-1])
			}
			return fmt.Sprintf("hashes %d %s %s %s", len(hs), first, last, shapeOfHeights(heights)), len(hs), "hashes"
		case protocol.BlocksMsg:
			var bs []*nom.DetailedMomentum
			if err := rlp.DecodeBytes(m.payload, &bs); err != nil {
				return "undecodable-reply", 0, ""
			}
			ss := make([]string, len(bs))
			for i, b := range bs {
				ss[i] = fmt.Sprint(b.Momentum.Height)
			}
			l := "-"
			if len(ss) > 0 {
				l = strings.Join(ss, ",")
			}
			return fmt.Sprintf("blocks %d %s", len(bs), l), len(bs), "blocks"
		default:
			return fmt.Sprintf("unexpected-reply-code %d", m.code), 0, ""
		}
	}
	if isProbeErr(res.runErr) {
		return "cont", 0, ""
	}
	return "err " + classifyProtoErr(res.runErr), 0, ""
}

// describeBody classifies a payload the way the handler's decoder for that code will see it (go-ethereum rlp
// is trusted as specified): the request fields, or `undec`.
func (r *p2pRun) describeBody(code uint64, size uint32, payload []byte) string {
	stream := func() *rlp.Stream {
		// the pipe hands the handler at most `size` bytes of the payload
		p := payload
		if uint64(len(p)) > uint64(size) {
			p = p[:size]
		}
		return rlp.NewStream(bytes.NewReader(p), uint64(size))
	}
	known := func(h types.Hash) string {
		if ht, ok := r.byHash[h]; ok {
			return fmt.Sprintf("k%d", ht)
		}
		return "u"
	}
	switch code {
	case protocol.GetBlockHashesMsg:
		var q reqHashes
		if stream().Decode(&q) != nil {
			return "undec"
		}
		h := "-"
		if ht, ok := r.byHash[q.Hash]; ok {
			h = fmt.Sprint(ht)
		}
		return fmt.Sprintf("gh %s %d", h, q.Amount)
	case protocol.GetBlockHashesFromNumberMsg:
		var q reqHashesFromNumber
		if stream().Decode(&q) != nil {
			return "undec"
		}
		return fmt.Sprintf("ghn %d %d", q.Number, q.Amount)
	case protocol.GetBlocksMsg:
		s := stream()
		if _, err := s.List(); err != nil {
			return "undec"
		}
		var items []string
		bad := 0
		run, runTok := 0, ""
		flush := func() {
			if run == 1 {
				items = append(items, runTok)
			} else if run > 1 {
				items = append(items, fmt.Sprintf("%s*%d", runTok, run))
			}
			run = 0
		}
		for {
			var h types.Hash
			err := s.Decode(&h)
			if err == rlp.EOL {
				break
			} else if err != nil {
				bad = 1
				break
			}
			t := known(h)
			if t == runTok && run > 0 {
				run++
			} else {
				flush()
				runTok, run = t, 1
			}
		}
		flush()
		l := "-"
		if len(items) > 0 {
			l = strings.Join(items, ",")
		}
		return fmt.Sprintf("gb %s %d", l, bad)
	case protocol.BlockHashesMsg, protocol.NewBlockHashesMsg:
		var hs []types.Hash
		if stream().Decode(&hs) != nil {
			return "undec"
		}
		return fmt.Sprintf("items %d 0", len(hs))
	case protocol.BlocksMsg:
		var bs []*nom.DetailedMomentum
		if stream().Decode(&bs) != nil {
			return "undec"
		}
		return fmt.Sprintf("items %d 0", len(bs))
	case protocol.NewBlockMsg:
		var d *nom.DetailedMomentum
		if stream().Decode(&d) != nil {
			return "undec"
		}
		return "items 1 0"
	case protocol.TxMsg:
		var txs []*nom.AccountBlock
		if stream().Decode(&txs) != nil {
			return "undec"
		}
		nilItem := 0
		for _, t := range txs {
			if t == nil {
				nilItem = 1
			}
		}
		return fmt.Sprintf("items %d %d", len(txs), nilItem)
	default:
		return "undec"
	}
}

func mustRlp(v interface{}) []byte {
	b, err := rlp.EncodeToBytes(v)
	if err != nil {
		panic(err)
	}
	return b
}

func (r *p2pRun) refreshChain() {
	st := r.a.z.Chain().GetFrontierMomentumStore()
	fr, err := st.GetFrontierMomentum()
	if err != nil {
		panic(err)
	}
	for h := uint64(len(r.hashes)) + 1; h <= fr.Height; h++ {
		m, err := st.GetMomentumByHeight(h)
		if err != nil || m == nil {
			panic("p2p: cannot read own chain")
		}
		r.hashes = append(r.hashes, m.Hash)
		r.byHash[m.Hash] = h
	}
}

func (r *p2pRun) randHash(unknownPct int) types.Hash {
	c := r.c
	if c.R.Intn(100) < unknownPct {
		var h types.Hash
		switch c.R.Intn(4) {
		case 0: // zero hash
		case 1:
			h = r.hashes[c.R.Intn(len(r.hashes))]
			h[c.R.Intn(32)] ^= 1 << uint(c.R.Intn(8))
		default:
			c.R.Read(h[:])
		}
		return h
	}
	switch c.R.Intn(5) {
	case 0:
		return r.hashes[len(r.hashes)-1]
	case 1:
		return r.hashes[0]
	case 2:
		return r.hashes[c.R.Intn(imin(len(r.hashes), 3))]
	default:
		return r.hashes[c.R.Intn(len(r.hashes))]
	}
}

func (r *p2pRun) randAmount() uint64 {
	c := r.c
	bs := []uint64{0, 1, 2, 3, 127, 128, 129, 511, 512, 513, 1000, 1 << 32, 1 << 63, math.MaxUint64, math.MaxUint64 - 1}
	if c.R.Intn(3) == 0 {
		return uint64(c.R.Intn(600))
	}
	return bs[c.R.Intn(len(bs))]
}

func (r *p2pRun) randNumber() uint64 {
	c := r.c
	H := uint64(len(r.hashes))
	bs := []uint64{0, 1, 2, H - 1, H, H + 1, H + 2, H - 511, H - 512, H - 513, 1 << 63, math.MaxUint64, math.MaxUint64 - 1, math.MaxUint64 - 510,
		math.MaxUint64 - 511, math.MaxUint64 - 512}
	if c.R.Intn(3) == 0 {
		return uint64(c.R.Intn(int(H) + 5))
	}
	return bs[c.R.Intn(len(bs))]
}

// genPayload builds one test message: (code, declared size, payload, generator label).
func (r *p2pRun) genMessage() (uint64, uint32, []byte, string) {
	c := r.c
	codes := []uint64{protocol.StatusMsg, protocol.NewBlockHashesMsg, protocol.TxMsg, protocol.GetBlockHashesMsg, protocol.BlockHashesMsg,
		protocol.GetBlocksMsg, protocol.BlocksMsg, protocol.NewBlockMsg, protocol.GetBlockHashesFromNumberMsg}
	wellFormed := func(code uint64) []byte {
		switch code {
		case protocol.StatusMsg:
			return mustRlp(&hsStatus{61, uint32(r.netId), 0, r.genesis, r.genesis})
		case protocol.GetBlockHashesMsg:
			return mustRlp(&reqHashes{r.randHash(25), r.randAmount()})
		case protocol.GetBlockHashesFromNumberMsg:
			return mustRlp(&reqHashesFromNumber{r.randNumber(), r.randAmount()})
		case protocol.GetBlocksMsg:
			sizes := []int{0, 1, 2, 5, 127, 128, 129, 130, 300, 1000}
			n := sizes[c.R.Intn(len(sizes))]
			unk := []int{0, 10, 50, 100}[c.R.Intn(4)]
			hs := make([]types.Hash, n)
			for i := range hs {
				hs[i] = r.randHash(unk)
			}
			if c.R.Intn(6) == 0 && n > 0 { // one hash many times
				for i := range hs {
					hs[i] = hs[0]
				}
			}
			return mustRlp(hs)
		case protocol.BlockHashesMsg, protocol.NewBlockHashesMsg:
			n := []int{0, 1, 3, 64, 600}[c.R.Intn(5)]
			hs := make([]types.Hash, n)
			for i := range hs {
				hs[i] = r.randHash(60)
			}
			return mustRlp(hs)
		case protocol.BlocksMsg:
			n := c.R.Intn(4)
			bs := make([]*nom.DetailedMomentum, n)
			for i := range bs {
				bs[i] = r.a.bridge.GetBlock(r.hashes[1+c.R.Intn(len(r.hashes)-1)])
				if c.R.Intn(3) == 0 {
					bs[i].Momentum.Height += uint64(len(r.hashes))
					bs[i].Momentum.Hash[0] ^= 0xff
				}
			}
			return mustRlp(bs)
		case protocol.NewBlockMsg:
			d := r.a.bridge.GetBlock(r.hashes[1+c.R.Intn(len(r.hashes)-1)])
			switch c.R.Intn(4) {
			case 0:
				d.Momentum.Height = uint64(len(r.hashes)) + 1
				d.Momentum.Hash[0] ^= 0xff
			case 1:
				d.Momentum.PublicKey = d.Momentum.PublicKey[:c.R.Intn(len(d.Momentum.PublicKey))]
			case 2:
				d.Momentum.Height = math.MaxUint64
			}
			return mustRlp(d)
		case protocol.TxMsg:
			n := c.R.Intn(3)
			txs := make([]*nom.AccountBlock, 0, n)
			for i := 0; i < n && len(r.blocks) > 0; i++ {
				b := r.blocks[c.R.Intn(len(r.blocks))].Copy()
				if c.R.Intn(2) == 0 {
					b.Height += 1000
					b.Hash[0] ^= 0xff
				}
				txs = append(txs, b)
			}
			return mustRlp(txs)
		}
		return nil
	}
	code := codes[c.R.Intn(len(codes))]
	switch k := c.R.Intn(100); {
	case k < 50: // structured, well-formed
		if k < 36 { // the three request handlers get most of the budget
			code = []uint64{protocol.GetBlockHashesMsg, protocol.GetBlockHashesFromNumberMsg, protocol.GetBlocksMsg}[c.R.Intn(3)]
		}
		p := wellFormed(code)
		return code, uint32(len(p)), p, "wellformed"
	case k < 60: // valid RLP of the wrong shape
		var p []byte
		switch c.R.Intn(8) {
		case 0:
			p = wellFormed(codes[c.R.Intn(len(codes))]) // some other code's payload
		case 1:
			p = []byte{0xc0}
		case 2:
			p = []byte{0x80}
		case 3:
			p = mustRlp([]interface{}{[]interface{}{[]interface{}{}}, uint64(7)})
		case 4:
			p = mustRlp([]interface{}{r.randHash(50), r.randAmount(), uint64(1)}) // one element too many
		case 5:
			p = mustRlp([]interface{}{r.randHash(50)}) // one element too few
		case 6:
			p = mustRlp([]interface{}{make([]byte, 31), r.randAmount()}) // hash of the wrong size
		default:
			p = mustRlp([]interface{}{r.randHash(20), make([]byte, 9)}) // amount wider than uint64
		}
		return code, uint32(len(p)), p, "wrongshape"
	case k < 64: // GetBlocks with a malformed element after some good ones
		n := []int{0, 1, 5, 127, 128, 200}[c.R.Intn(6)]
		items := make([]interface{}, 0, n+2)
		for i := 0; i < n; i++ {
			items = append(items, r.randHash([]int{0, 50}[c.R.Intn(2)]))
		}
		items = append(items, make([]byte, 1+c.R.Intn(40)))
		items = append(items, r.randHash(0))
		p := mustRlp(items)
		return protocol.GetBlocksMsg, uint32(len(p)), p, "gb-badtail"
	case k < 74: // truncated
		p := wellFormed(code)
		if len(p) > 0 {
			p = p[:c.R.Intn(len(p))]
		}
		return code, uint32(len(p)), p, "truncated"
	case k < 84: // garbage
		var p []byte
		switch c.R.Intn(4) {
		case 0:
			p = make([]byte, c.R.Intn(200))
			c.R.Read(p)
		case 1: // huge declared lengths
			p = [][]byte{{0xbf, 0xff, 0xff, 0xff, 0xff, 0xff, 0xff, 0xff, 0xff}, {0xff, 0xff, 0xff, 0xff, 0xff, 0xff, 0xff, 0xff, 0xff},
				{0xfb, 0x7f, 0xff, 0xff, 0xff, 0x01}, {0xbb, 0x7f, 0xff, 0xff, 0xff}, {0xf8, 0x00}, {0xb8, 0x01, 0x00}}[c.R.Intn(6)]
		case 2:
			p = nil
		default: // a valid payload with one byte flipped
			p = append([]byte{}, wellFormed(code)...)
			if len(p) > 0 {
				p[c.R.Intn(len(p))] ^= 1 << uint(c.R.Intn(8))
			}
		}
		return code, uint32(len(p)), p, "garbage"
	case k < 91: // size gate: declared size around the limit
		p := wellFormed(code)
		sz := []uint32{protocol.ProtocolMaxMsgSize, protocol.ProtocolMaxMsgSize + 1, protocol.ProtocolMaxMsgSize - 1, math.MaxUint32,
			protocol.ProtocolMaxMsgSize + 1, 1 << 24}[c.R.Intn(6)]
		if c.R.Intn(3) == 0 {
			code = uint64(9 + c.R.Intn(50)) // the gate comes before the code is looked at
		}
		return code, sz, p, "sizegate"
	default: // unknown codes
		ucs := []uint64{9, 10, 15, 16, 17, 126, 128, 255, 256, 1 << 32, math.MaxUint64}
		code = ucs[c.R.Intn(len(ucs))]
		p := wellFormed(codes[c.R.Intn(len(codes))])
		return code, uint32(len(p)), p, "unknowncode"
	}
}

func init() {
	register("p2p", func(c *Ctx) {
		// ---- liveness part, on a short-lived node of its own (the mock node installs process-wide state — its clock —, so this
		//      node is created and stopped before the main one exists): after every refused input the node still works, see
		//      s_p2p_live.go
		if c.Args["live"] != "off" {
			p2pLiveness(c, 3)
		}
		a := newProducer()
		defer a.stop()
		H := 530 // above MaxHashFetch, so that an uncapped reply is visible
		if v, ok := c.Args["height"]; ok {
			fmt.Sscan(v, &H)
		}
		r := &p2pRun{c: c, a: a, netId: 3, byHash: map[types.Hash]uint64{}}
		r.genesis = a.z.Chain().GetGenesisMomentum().Hash
		var pending []*nom.AccountBlock
		for int(a.frontier().Height) < H {
			if a.frontier().Height < 40 {
				traffic(c, a, &pending, 50, 40)
			}
			dm := a.momentum()
			r.blocks = append(r.blocks, dm.AccountBlocks...)
		}
		r.refreshChain()
		c.HitN("chain-height", len(r.hashes))
		// from here on every log record of the node is formatted (logfmt, debug level) and thrown away: production-like logging, so
		// that the code in the arguments of log calls runs on what the remote peer sent (a panic there is a panic of the handler)
		formatLogs()
		r.pm = protocol.NewProtocolManager(1, r.netId, a.bridge)
		r.pm.Start()

		// ---- handshake cases -------------------------------------------------------------------------------
		goodStatus := func() *hsStatus { return &hsStatus{61, uint32(r.netId), 0, r.genesis, r.genesis} }
		type hsCase struct {
			name string
			code uint64
			size int64 // -1 = real
			pay  []byte
		}
		var other types.Hash
		other[5] = 9
		badGen, badNet, badVer := goodStatus(), goodStatus(), goodStatus()
		badGen.GenesisBlock = other
		badNet.NetworkId = 4
		badVer.ProtocolVersion = 62
		all3 := &hsStatus{62, 4, 0, other, other}
		hsCases := []hsCase{
			{"good", protocol.StatusMsg, -1, mustRlp(goodStatus())},
			{"genesis", protocol.StatusMsg, -1, mustRlp(badGen)},
			{"network", protocol.StatusMsg, -1, mustRlp(badNet)},
			{"version", protocol.StatusMsg, -1, mustRlp(badVer)},
			{"all-three", protocol.StatusMsg, -1, mustRlp(all3)},
			{"oversize", protocol.StatusMsg, protocol.ProtocolMaxMsgSize + 1, mustRlp(goodStatus())},
			{"empty", protocol.StatusMsg, -1, nil},
			{"garbage", protocol.StatusMsg, -1, []byte{0xc3, 0x01, 0x02, 0x03}},
			{"truncated", protocol.StatusMsg, -1, mustRlp(goodStatus())[:40]},
			{"request-first", protocol.GetBlockHashesFromNumberMsg, -1, mustRlp(&reqHashesFromNumber{1, 1})},
			{"unknown-first", 99, -1, nil},
			{"request-first-oversize", protocol.GetBlocksMsg, protocol.ProtocolMaxMsgSize + 1, []byte{0xc0}},
		}
		for _, hc := range hsCases {
			size := uint32(len(hc.pay))
			if hc.size >= 0 {
				size = uint32(hc.size)
			}
			res := r.session(&p2p.Msg{Code: hc.code, Size: size, Payload: bytes.NewReader(hc.pay)}, nil)
			// what the decoder will see
			dec, gOk, nOk, vOk := 0, 0, 0, 0
			var st hsStatus
			p := hc.pay
			if uint64(len(p)) > uint64(size) {
				p = p[:size]
			}
			if rlp.NewStream(bytes.NewReader(p), uint64(size)).Decode(&st) == nil {
				dec = 1
				if st.GenesisBlock == r.genesis {
					gOk = 1
				}
				if uint64(st.NetworkId) == r.netId {
					nOk = 1
				}
				if st.ProtocolVersion == 61 {
					vOk = 1
				}
			}
			obs := ""
			switch {
			case res.hang:
				obs = "hang"
			case res.panicked != nil:
				obs = "panic"
			case isProbeErr(res.runErr):
				obs = "ok"
			default:
				obs = "err " + classifyProtoErr(res.runErr)
			}
			c.Emit("p2p-hs %d %d %d %d %d %d | %s", hc.code, size, dec, gOk, nOk, vOk, obs)
			c.Hit("hs-" + hc.name)
			if res.panicked != nil || res.hang {
				c.Fail("C15 handshake %s: %s (%v)", hc.name, obs, firstLine(fmt.Sprint(res.panicked)))
			}
			if size > stmtMaxMsgSize && obs == "ok" {
				c.Fail("C15 handshake accepted a status message of declared size %d > %d", size, stmtMaxMsgSize)
			}
		}

		// ---- one test message per session --------------------------------------------------------------------
		directed := r.directedMessages()
		for i := 0; i < c.N; i++ {
			var code uint64
			var size uint32
			var pay []byte
			var label string
			if i < len(directed) {
				d := directed[i]
				code, size, pay, label = d.code, uint32(len(d.pay)), d.pay, d.label
			} else {
				code, size, pay, label = r.genMessage()
			}
			r.oneMessage(code, size, pay, label)
			// whatever the message was, the chain's insert lock is free again (a delivery handed to the fetcher is imported on its
			// own goroutine and holds the lock for the duration of the import only)
			if !r.lockProbe(liveLockDeadline) {
				c.Fail("C15 class=stalled-insert-lock after code=%d size=%d [%s] payload=%s the chain's insert lock cannot be taken within %v: every "+
					"later insertion of the node blocks", code, size, label, hexHead(pay, 48), liveLockDeadline)
				return
			}
			if r.hangs >= 3 {
				c.Fail("C15 class=hang stream stopped after %d sessions that neither answered nor disconnected", r.hangs)
				return
			}
			if i%40 == 39 {
				r.goodPeerCheck()
			}
		}
		// two real payloads around the limit (everything else uses the declared size only)
		for _, extra := range []int{0, 1} {
			n := (protocol.ProtocolMaxMsgSize+extra-4)/33 + 1
			body := make([]byte, 0, n*33+8)
			for len(body) < protocol.ProtocolMaxMsgSize+extra-4 {
				body = append(body, 0xa0)
				var h types.Hash
				c.R.Read(h[:8])
				body = append(body, h[:]...)
			}
			body = body[:protocol.ProtocolMaxMsgSize+extra-4]
			pay := append([]byte{0xf9 + 1, byte(len(body) >> 16), byte(len(body) >> 8), byte(len(body))}, body...)
			r.oneMessage(protocol.GetBlocksMsg, uint32(len(pay)), pay, "real-10MiB")
		}
		r.goodPeerCheck()
	})
}

type directedMsg struct {
	code  uint64
	pay   []byte
	label string
}

// directedMessages: the boundary grid of the three request handlers.
func (r *p2pRun) directedMessages() []directedMsg {
	H := uint64(len(r.hashes))
	var out []directedMsg
	amounts := []uint64{0, 1, 2, 511, 512, 513, 1 << 63, math.MaxUint64}
	numbers := []uint64{0, 1, 2, H - 512, H - 511, H - 1, H, H + 1, H + 2, 1 << 63, math.MaxUint64 - 511, math.MaxUint64 - 1, math.MaxUint64}
	for _, n := range numbers {
		for _, a := range amounts {
			out = append(out, directedMsg{protocol.GetBlockHashesFromNumberMsg, mustRlp(&reqHashesFromNumber{n, a}), "grid-ghn"})
		}
	}
	var unknown types.Hash
	unknown[0], unknown[31] = 0xde, 0xad
	for _, h := range []types.Hash{r.hashes[0], r.hashes[1], r.hashes[H/2], r.hashes[H-2], r.hashes[H-1], unknown, types.ZeroHash} {
		for _, a := range amounts {
			out = append(out, directedMsg{protocol.GetBlockHashesMsg, mustRlp(&reqHashes{h, a}), "grid-gh"})
		}
	}
	for _, n := range []int{0, 1, 127, 128, 129, 256, 2000} {
		for _, mode := range []int{0, 1, 2} { // all known / all unknown / alternating
			hs := make([]types.Hash, n)
			for i := range hs {
				switch {
				case mode == 0 || (mode == 2 && i%2 == 0):
					hs[i] = r.hashes[(i*7)%int(H)]
				default:
					hs[i][0], hs[i][1], hs[i][2] = 0xee, byte(i), byte(i>>8)
				}
			}
			out = append(out, directedMsg{protocol.GetBlocksMsg, mustRlp(hs), "grid-gb"})
		}
	}
	// every code with an empty list, an empty string and no payload at all
	for code := uint64(0); code < 12; code++ {
		out = append(out, directedMsg{code, []byte{0xc0}, "grid-emptylist"}, directedMsg{code, []byte{0x80}, "grid-emptystring"},
			directedMsg{code, nil, "grid-nopayload"})
	}
	// shuffle deterministically so that a short run still sees every family
	r.c.R.Shuffle(len(out), func(i, j int) { out[i], out[j] = out[j], out[i] })
	// first of all, on every run however short: the requests that used to break the node. F7a (repaired in d85e958): a
	// GetBlockHashesMsg naming a hash the node does not hold made the handler panic. F7b (repaired in 99f2642):
	// GetBlockHashesFromNumberMsg (0,0), (0,1), (1,0) was answered with the hash of every momentum of the chain. The monitors in
	// oneMessage (class=panic, class=reply-over-cap) report either as a violation should it come back.
	var first []directedMsg
	var flipped types.Hash = r.hashes[H-1]
	flipped[31] ^= 1
	for _, h := range []types.Hash{unknown, types.ZeroHash, flipped} {
		for _, a := range []uint64{0, 1, 512, math.MaxUint64} {
			first = append(first, directedMsg{protocol.GetBlockHashesMsg, mustRlp(&reqHashes{h, a}), "regress-unknown-hash"})
		}
	}
	for _, q := range [][2]uint64{{0, 0}, {0, 1}, {1, 0}} {
		first = append(first, directedMsg{protocol.GetBlockHashesFromNumberMsg, mustRlp(&reqHashesFromNumber{q[0], q[1]}),
			fmt.Sprintf("regress-ghn-%d-%d", q[0], q[1])})
	}
	return append(first, out...)
}

func (r *p2pRun) oneMessage(code uint64, size uint32, pay []byte, label string) {
	c := r.c
	H := len(r.hashes)
	body := r.describeBody(code, size, pay)
	res := r.session(nil, &p2p.Msg{Code: code, Size: size, Payload: bytes.NewReader(pay)})
	obs, items, kind := r.observe(res)
	c.Emit("p2p-msg %d %d %d %s | %s", H, code, size, body, obs)
	c.Hit("gen-" + label)
	c.Hit(fmt.Sprintf("code-%d", imin(int(code&0xff), 9)))
	c.Hit("obs-" + strings.SplitN(obs, " ", 3)[0] + func() string {
		if strings.HasPrefix(obs, "err ") {
			return "-" + obs[4:]
		}
		return ""
	}())
	c.Hit("body-" + strings.SplitN(body, " ", 2)[0])
	desc := fmt.Sprintf("code=%d size=%d body=[%s] payload=%s chain-height=%d", code, size, body, hexHead(pay, 48), H)
	// ---- model-free monitor: the sentence of C15 on what the peer observed --------------------------------
	if res.panicked != nil {
		c.Fail("C15 class=panic handler panicked (%s) on %s", firstLine(fmt.Sprint(res.panicked)), desc)
	}
	if res.hang {
		c.Fail("C15 class=hang no answer and no disconnect within 20s on %s", desc)
		r.hangs++
	}
	// the limits are the statement's numbers, not the tree's constants
	if kind == "hashes" && items > stmtMaxHashes {
		c.Fail("C15 class=reply-over-cap reply carries %d hashes > %d on %s", items, stmtMaxHashes, desc)
	}
	if kind == "blocks" && items > stmtMaxBlocks {
		c.Fail("C15 class=reply-over-cap reply carries %d momentums > %d on %s", items, stmtMaxBlocks, desc)
	}
	if size > stmtMaxMsgSize && obs != "err toolarge" {
		c.Fail("C15 class=size-gate message of declared size %d > %d was not refused as too large: %s on %s", size, stmtMaxMsgSize, obs, desc)
	}
	if code >= 9 && code != probeCode && size <= stmtMaxMsgSize && obs != "err badcode" {
		c.Fail("C15 class=unknown-code unknown code was not refused: %s on %s", obs, desc)
	}
	if strings.HasPrefix(obs, "multiple") || strings.HasPrefix(obs, "unexpected") || strings.HasPrefix(obs, "undecodable") {
		c.Fail("C15 class=bad-reply %s on %s", obs, desc)
	}
	if n := int(r.a.frontier().Height); n != H {
		c.Fail("C15 class=state-change the chain moved from %d to %d while serving %s", H, n, desc)
		r.refreshChain()
	}
}

func hexHead(b []byte, n int) string {
	if len(b) == 0 {
		return "-"
	}
	if len(b) > n {
		return fmt.Sprintf("%x…(%d bytes)", b[:n], len(b))
	}
	return fmt.Sprintf("%x", b)
}

// goodPeerCheck: a well-behaved peer is still served correctly after whatever the others sent.
func (r *p2pRun) goodPeerCheck() {
	H := uint64(len(r.hashes))
	pay := mustRlp(&reqHashesFromNumber{H - 2, 3})
	res := r.session(nil, &p2p.Msg{Code: protocol.GetBlockHashesFromNumberMsg, Size: uint32(len(pay)), Payload: bytes.NewReader(pay)})
	obs, _, _ := r.observe(res)
	want := fmt.Sprintf("hashes 3 %d %d desc", H, H-2)
	r.c.Emit("p2p-msg %d %d %d ghn %d 3 | %s", H, protocol.GetBlockHashesFromNumberMsg, len(pay), H-2, obs)
	r.c.Hit("good-peer-check")
	if obs != want {
		r.c.Fail("C15 class=good-peer a well-behaved peer asking for the last 3 hashes got %q, want %q", obs, want)
	}
}
