package main

import (
	"fmt"
	"math/big"
	"path/filepath"
	"strings"

	"github.com/zenon-network/go-zenon/chain/genesis"
	"github.com/zenon-network/go-zenon/common/types"
	"github.com/zenon-network/go-zenon/vm/embedded/definition"
)

// ---------------------------------------------------------------------------------------------------
// genesis stream, scenario "start on a foreign database" over EVERY field of the configuration.
//
// A database is created under configuration A (chain.Init on an empty directory). Then, on the same directory,
// chain.Init is called under B = A with ONE field edited — every field of GenesisConfig has its edits, also the ones
// that never reach the genesis state patch (ExtraData, GenesisTimestampSec: header fields of the genesis momentum) and
// the ones that reach neither (SporkAddress; order-only changes of the unordered lists) — and finally under A again.
//
// Statement (third sentence of C20), model-free: B is refused iff the genesis momentum NewGenesis(B) builds differs
// from the one stored at height 1 (= NewGenesis(A)'s: same hash <=> same momentum); the restart with A works, and
// none of the refused attempts changed the database. Every attempt is also emitted as a `gen-startup` line for the
// model (Genesis.checkGenesisCompatibility, theorems startup_compare / startup_store / startup_pair).
// ---------------------------------------------------------------------------------------------------

type startupEdit struct {
	name string
	// header = the field is not part of the genesis state (momentum header / node configuration / list order)
	header bool
	f      func(c *Ctx, cfg *genesis.GenesisConfig) bool
}

func bumpAddr(a types.Address) types.Address {
	a[types.AddressSize-1] ^= 1
	return a
}
func bumpHash(h types.Hash) types.Hash {
	h[len(h)-1] ^= 1
	return h
}
func bumpAmount(c *Ctx, v *big.Int) *big.Int {
	if v == nil {
		return big.NewInt(1)
	}
	if v.Sign() > 0 && c.R.Intn(2) == 0 {
		return new(big.Int).Sub(v, big.NewInt(1))
	}
	return new(big.Int).Add(v, big.NewInt(1))
}
func bumpString(c *Ctx, s string) string {
	switch c.R.Intn(5) {
	case 0:
		return s + "x"
	case 1:
		return s + " "
	case 2:
		if len(s) > 0 {
			return s[:len(s)-1]
		}
		return "x"
	case 3:
		if len(s) > 0 {
			b := []byte(s)
			i := c.R.Intn(len(b))
			b[i] ^= 1
			return string(b)
		}
		return "y"
	default:
		if s != strings.ToUpper(s) {
			return strings.ToUpper(s)
		}
		return s + "\x00"
	}
}

func userBlocks(cfg *genesis.GenesisConfig) []*genesis.GenesisBlockConfig {
	var out []*genesis.GenesisBlockConfig
	for _, b := range cfg.GenesisBlocks.Blocks {
		if !types.IsEmbeddedAddress(b.Address) {
			out = append(out, b)
		}
	}
	return out
}

var startupEdits = []startupEdit{
	// ---- the four top-level fields -------------------------------------------------------------------------------
	{"ExtraData", true, func(c *Ctx, cfg *genesis.GenesisConfig) bool {
		cfg.ExtraData = bumpString(c, cfg.ExtraData)
		return true
	}},
	{"ExtraData-empty", true, func(c *Ctx, cfg *genesis.GenesisConfig) bool {
		if cfg.ExtraData == "" {
			return false
		}
		cfg.ExtraData = ""
		return true
	}},
	{"GenesisTimestampSec+1", true, func(c *Ctx, cfg *genesis.GenesisConfig) bool {
		cfg.GenesisTimestampSec++
		return true
	}},
	{"GenesisTimestampSec-1", true, func(c *Ctx, cfg *genesis.GenesisConfig) bool {
		cfg.GenesisTimestampSec--
		return true
	}},
	{"GenesisTimestampSec-far", true, func(c *Ctx, cfg *genesis.GenesisConfig) bool {
		cfg.GenesisTimestampSec += int64(1+c.R.Intn(1000)) * 86400
		return true
	}},
	{"ExtraData+GenesisTimestampSec", true, func(c *Ctx, cfg *genesis.GenesisConfig) bool {
		cfg.ExtraData = bumpString(c, cfg.ExtraData)
		cfg.GenesisTimestampSec += int64(1 + c.R.Intn(100))
		return true
	}},
	{"ChainIdentifier", false, func(c *Ctx, cfg *genesis.GenesisConfig) bool {
		if c.R.Intn(2) == 0 || cfg.ChainIdentifier <= 1 {
			cfg.ChainIdentifier++
		} else {
			cfg.ChainIdentifier--
		}
		return true
	}},
	{"SporkAddress", true, func(c *Ctx, cfg *genesis.GenesisConfig) bool {
		a := randAddr(c, 0)
		if cfg.SporkAddress != nil && c.R.Intn(2) == 0 {
			a = bumpAddr(*cfg.SporkAddress)
		}
		cfg.SporkAddress = &a
		return true
	}},
	{"order-only", true, func(c *Ctx, cfg *genesis.GenesisConfig) bool {
		*cfg = *permuteCfg(c, cfg)
		return true
	}},
	// ---- pillars -------------------------------------------------------------------------------------------------
	{"Pillar.Name", false, func(c *Ctx, cfg *genesis.GenesisConfig) bool {
		p := cfg.PillarConfig.Pillars[c.R.Intn(len(cfg.PillarConfig.Pillars))]
		old := p.Name
		p.Name = old + "x"
		for _, d := range cfg.PillarConfig.Delegations {
			if d.Name == old && c.R.Intn(2) == 0 {
				d.Name = p.Name
			}
		}
		return true
	}},
	{"Pillar.BlockProducingAddress", false, func(c *Ctx, cfg *genesis.GenesisConfig) bool {
		p := cfg.PillarConfig.Pillars[c.R.Intn(len(cfg.PillarConfig.Pillars))]
		p.BlockProducingAddress = bumpAddr(p.BlockProducingAddress)
		return true
	}},
	{"Pillar.RewardWithdrawAddress", false, func(c *Ctx, cfg *genesis.GenesisConfig) bool {
		p := cfg.PillarConfig.Pillars[c.R.Intn(len(cfg.PillarConfig.Pillars))]
		p.RewardWithdrawAddress = bumpAddr(p.RewardWithdrawAddress)
		return true
	}},
	{"Pillar.StakeAddress", false, func(c *Ctx, cfg *genesis.GenesisConfig) bool {
		p := cfg.PillarConfig.Pillars[c.R.Intn(len(cfg.PillarConfig.Pillars))]
		p.StakeAddress = bumpAddr(p.StakeAddress)
		return true
	}},
	{"Pillar.Amount", false, func(c *Ctx, cfg *genesis.GenesisConfig) bool {
		p := cfg.PillarConfig.Pillars[c.R.Intn(len(cfg.PillarConfig.Pillars))]
		p.Amount = bumpAmount(c, p.Amount)
		return true
	}},
	{"Pillar.RegistrationTime", false, func(c *Ctx, cfg *genesis.GenesisConfig) bool {
		p := cfg.PillarConfig.Pillars[c.R.Intn(len(cfg.PillarConfig.Pillars))]
		p.RegistrationTime++
		return true
	}},
	{"Pillar.RevokeTime", false, func(c *Ctx, cfg *genesis.GenesisConfig) bool {
		p := cfg.PillarConfig.Pillars[c.R.Intn(len(cfg.PillarConfig.Pillars))]
		p.RevokeTime++
		return true
	}},
	{"Pillar.GiveBlockRewardPercentage", false, func(c *Ctx, cfg *genesis.GenesisConfig) bool {
		p := cfg.PillarConfig.Pillars[c.R.Intn(len(cfg.PillarConfig.Pillars))]
		p.GiveBlockRewardPercentage ^= 1
		return true
	}},
	{"Pillar.GiveDelegateRewardPercentage", false, func(c *Ctx, cfg *genesis.GenesisConfig) bool {
		p := cfg.PillarConfig.Pillars[c.R.Intn(len(cfg.PillarConfig.Pillars))]
		p.GiveDelegateRewardPercentage ^= 1
		return true
	}},
	{"Pillar.PillarType", false, func(c *Ctx, cfg *genesis.GenesisConfig) bool {
		p := cfg.PillarConfig.Pillars[c.R.Intn(len(cfg.PillarConfig.Pillars))]
		p.PillarType ^= 1
		return true
	}},
	{"Pillar.drop", false, func(c *Ctx, cfg *genesis.GenesisConfig) bool {
		ps := cfg.PillarConfig.Pillars
		if len(ps) < 2 {
			return false
		}
		i := c.R.Intn(len(ps))
		cfg.PillarConfig.Pillars = append(append([]*definition.PillarInfo{}, ps[:i]...), ps[i+1:]...)
		return true
	}},
	{"Delegation.Backer", false, func(c *Ctx, cfg *genesis.GenesisConfig) bool {
		ds := cfg.PillarConfig.Delegations
		if len(ds) == 0 {
			return false
		}
		d := ds[c.R.Intn(len(ds))]
		d.Backer = bumpAddr(d.Backer)
		return true
	}},
	{"Delegation.Name", false, func(c *Ctx, cfg *genesis.GenesisConfig) bool {
		ds := cfg.PillarConfig.Delegations
		if len(ds) == 0 {
			return false
		}
		d := ds[c.R.Intn(len(ds))]
		d.Name = d.Name + "y"
		return true
	}},
	{"Delegation.add", false, func(c *Ctx, cfg *genesis.GenesisConfig) bool {
		p := cfg.PillarConfig.Pillars[c.R.Intn(len(cfg.PillarConfig.Pillars))]
		cfg.PillarConfig.Delegations = append(cfg.PillarConfig.Delegations, &definition.DelegationInfo{Backer: randAddr(c, 0), Name: p.Name})
		return true
	}},
	{"Delegation.drop", false, func(c *Ctx, cfg *genesis.GenesisConfig) bool {
		ds := cfg.PillarConfig.Delegations
		if len(ds) == 0 {
			return false
		}
		i := c.R.Intn(len(ds))
		cfg.PillarConfig.Delegations = append(append([]*definition.DelegationInfo{}, ds[:i]...), ds[i+1:]...)
		return true
	}},
	{"LegacyEntry.PillarCount", false, func(c *Ctx, cfg *genesis.GenesisConfig) bool {
		ls := cfg.PillarConfig.LegacyEntries
		if len(ls) == 0 {
			return false
		}
		ls[c.R.Intn(len(ls))].PillarCount++
		return true
	}},
	{"LegacyEntry.KeyIdHash", false, func(c *Ctx, cfg *genesis.GenesisConfig) bool {
		ls := cfg.PillarConfig.LegacyEntries
		if len(ls) == 0 {
			return false
		}
		l := ls[c.R.Intn(len(ls))]
		l.KeyIdHash = bumpHash(l.KeyIdHash)
		return true
	}},
	{"LegacyEntry.add", false, func(c *Ctx, cfg *genesis.GenesisConfig) bool {
		cfg.PillarConfig.LegacyEntries = append(cfg.PillarConfig.LegacyEntries, &definition.LegacyPillarEntry{KeyIdHash: gnRandHash(c), PillarCount: uint8(1 + c.R.Intn(3))})
		return true
	}},
	// ---- tokens --------------------------------------------------------------------------------------------------
	{"Token.Owner", false, func(c *Ctx, cfg *genesis.GenesisConfig) bool {
		t := cfg.TokenConfig.Tokens[c.R.Intn(len(cfg.TokenConfig.Tokens))]
		t.Owner = bumpAddr(t.Owner)
		return true
	}},
	{"Token.TokenName", false, func(c *Ctx, cfg *genesis.GenesisConfig) bool {
		t := cfg.TokenConfig.Tokens[c.R.Intn(len(cfg.TokenConfig.Tokens))]
		t.TokenName += "x"
		return true
	}},
	{"Token.TokenSymbol", false, func(c *Ctx, cfg *genesis.GenesisConfig) bool {
		t := cfg.TokenConfig.Tokens[c.R.Intn(len(cfg.TokenConfig.Tokens))]
		t.TokenSymbol += "X"
		return true
	}},
	{"Token.TokenDomain", false, func(c *Ctx, cfg *genesis.GenesisConfig) bool {
		t := cfg.TokenConfig.Tokens[c.R.Intn(len(cfg.TokenConfig.Tokens))]
		t.TokenDomain = "a." + t.TokenDomain
		return true
	}},
	{"Token.TotalSupply", false, func(c *Ctx, cfg *genesis.GenesisConfig) bool {
		t := cfg.TokenConfig.Tokens[c.R.Intn(len(cfg.TokenConfig.Tokens))]
		t.TotalSupply = bumpAmount(c, t.TotalSupply)
		return true
	}},
	{"Token.MaxSupply", false, func(c *Ctx, cfg *genesis.GenesisConfig) bool {
		t := cfg.TokenConfig.Tokens[c.R.Intn(len(cfg.TokenConfig.Tokens))]
		t.MaxSupply = new(big.Int).Add(t.MaxSupply, big.NewInt(1))
		return true
	}},
	{"Token.Decimals", false, func(c *Ctx, cfg *genesis.GenesisConfig) bool {
		t := cfg.TokenConfig.Tokens[c.R.Intn(len(cfg.TokenConfig.Tokens))]
		t.Decimals ^= 1
		return true
	}},
	{"Token.IsMintable", false, func(c *Ctx, cfg *genesis.GenesisConfig) bool {
		t := cfg.TokenConfig.Tokens[c.R.Intn(len(cfg.TokenConfig.Tokens))]
		t.IsMintable = !t.IsMintable
		return true
	}},
	{"Token.IsBurnable", false, func(c *Ctx, cfg *genesis.GenesisConfig) bool {
		t := cfg.TokenConfig.Tokens[c.R.Intn(len(cfg.TokenConfig.Tokens))]
		t.IsBurnable = !t.IsBurnable
		return true
	}},
	{"Token.IsUtility", false, func(c *Ctx, cfg *genesis.GenesisConfig) bool {
		t := cfg.TokenConfig.Tokens[c.R.Intn(len(cfg.TokenConfig.Tokens))]
		t.IsUtility = !t.IsUtility
		return true
	}},
	// ---- fusions, swap entries, sporks -----------------------------------------------------------------------------
	{"Fusion.Amount", false, func(c *Ctx, cfg *genesis.GenesisConfig) bool {
		fs := cfg.PlasmaConfig.Fusions
		if len(fs) == 0 {
			return false
		}
		f := fs[c.R.Intn(len(fs))]
		f.Amount = bumpAmount(c, f.Amount)
		return true
	}},
	{"Fusion.ExpirationHeight", false, func(c *Ctx, cfg *genesis.GenesisConfig) bool {
		fs := cfg.PlasmaConfig.Fusions
		if len(fs) == 0 {
			return false
		}
		fs[c.R.Intn(len(fs))].ExpirationHeight++
		return true
	}},
	{"Fusion.Beneficiary", false, func(c *Ctx, cfg *genesis.GenesisConfig) bool {
		fs := cfg.PlasmaConfig.Fusions
		if len(fs) == 0 {
			return false
		}
		f := fs[c.R.Intn(len(fs))]
		f.Beneficiary = bumpAddr(f.Beneficiary)
		return true
	}},
	{"Fusion.Owner", false, func(c *Ctx, cfg *genesis.GenesisConfig) bool {
		fs := cfg.PlasmaConfig.Fusions
		if len(fs) == 0 {
			return false
		}
		f := fs[c.R.Intn(len(fs))]
		f.Owner = bumpAddr(f.Owner)
		return true
	}},
	{"Fusion.Id", false, func(c *Ctx, cfg *genesis.GenesisConfig) bool {
		fs := cfg.PlasmaConfig.Fusions
		if len(fs) == 0 {
			return false
		}
		f := fs[c.R.Intn(len(fs))]
		f.Id = bumpHash(f.Id)
		return true
	}},
	{"Fusion.add", false, func(c *Ctx, cfg *genesis.GenesisConfig) bool {
		us := userBlocks(cfg)
		if len(us) == 0 {
			return false
		}
		u := us[c.R.Intn(len(us))].Address
		cfg.PlasmaConfig.Fusions = append(cfg.PlasmaConfig.Fusions, &definition.FusionInfo{Owner: u, Id: gnRandHash(c), Amount: big.NewInt(int64(c.R.Intn(3))), ExpirationHeight: 1, Beneficiary: u})
		return true
	}},
	{"Swap.Znn", false, func(c *Ctx, cfg *genesis.GenesisConfig) bool {
		es := cfg.SwapConfig.Entries
		if len(es) == 0 {
			return false
		}
		e := es[c.R.Intn(len(es))]
		e.Znn = bumpAmount(c, e.Znn)
		return true
	}},
	{"Swap.Qsr", false, func(c *Ctx, cfg *genesis.GenesisConfig) bool {
		es := cfg.SwapConfig.Entries
		if len(es) == 0 {
			return false
		}
		e := es[c.R.Intn(len(es))]
		e.Qsr = bumpAmount(c, e.Qsr)
		return true
	}},
	{"Swap.KeyIdHash", false, func(c *Ctx, cfg *genesis.GenesisConfig) bool {
		es := cfg.SwapConfig.Entries
		if len(es) == 0 {
			return false
		}
		e := es[c.R.Intn(len(es))]
		e.KeyIdHash = bumpHash(e.KeyIdHash)
		return true
	}},
	{"Swap.add", false, func(c *Ctx, cfg *genesis.GenesisConfig) bool {
		cfg.SwapConfig.Entries = append(cfg.SwapConfig.Entries, &definition.SwapAssets{KeyIdHash: gnRandHash(c), Znn: big.NewInt(int64(c.R.Intn(2))), Qsr: big.NewInt(int64(c.R.Intn(2)))})
		return true
	}},
	{"Spork.add-inactive", false, func(c *Ctx, cfg *genesis.GenesisConfig) bool {
		// only not-yet-active sporks: chain.Init terminates the process on an active spork it does not implement
		if cfg.SporkConfig == nil {
			cfg.SporkConfig = &genesis.SporkConfig{}
		}
		cfg.SporkConfig.Sporks = append(cfg.SporkConfig.Sporks, &definition.Spork{Id: gnRandHash(c), Name: "zv-extra", Description: "zv", Activated: false})
		return true
	}},
	{"Spork.Name", false, func(c *Ctx, cfg *genesis.GenesisConfig) bool {
		if cfg.SporkConfig == nil || len(cfg.SporkConfig.Sporks) == 0 {
			return false
		}
		s := cfg.SporkConfig.Sporks[c.R.Intn(len(cfg.SporkConfig.Sporks))]
		s.Name += "x"
		return true
	}},
	{"Spork.Description", false, func(c *Ctx, cfg *genesis.GenesisConfig) bool {
		if cfg.SporkConfig == nil || len(cfg.SporkConfig.Sporks) == 0 {
			return false
		}
		s := cfg.SporkConfig.Sporks[c.R.Intn(len(cfg.SporkConfig.Sporks))]
		s.Description += "x"
		return true
	}},
	{"Spork.EnforcementHeight", false, func(c *Ctx, cfg *genesis.GenesisConfig) bool {
		if cfg.SporkConfig == nil || len(cfg.SporkConfig.Sporks) == 0 {
			return false
		}
		s := cfg.SporkConfig.Sporks[c.R.Intn(len(cfg.SporkConfig.Sporks))]
		s.EnforcementHeight++
		return true
	}},
	{"Spork.drop", false, func(c *Ctx, cfg *genesis.GenesisConfig) bool {
		if cfg.SporkConfig == nil || len(cfg.SporkConfig.Sporks) == 0 {
			return false
		}
		sp := cfg.SporkConfig.Sporks
		i := c.R.Intn(len(sp))
		cfg.SporkConfig.Sporks = append(append([]*definition.Spork{}, sp[:i]...), sp[i+1:]...)
		return true
	}},
	{"SporkConfig.nil<->empty", true, func(c *Ctx, cfg *genesis.GenesisConfig) bool {
		if cfg.SporkConfig == nil {
			cfg.SporkConfig = &genesis.SporkConfig{}
			return true
		}
		if len(cfg.SporkConfig.Sporks) == 0 {
			cfg.SporkConfig = nil
			return true
		}
		return false
	}},
	// ---- balances ------------------------------------------------------------------------------------------------
	{"Balance+-1", false, func(c *Ctx, cfg *genesis.GenesisConfig) bool {
		b, z, ok := someBlockWithBalance(c, cfg)
		if !ok {
			return false
		}
		b.BalanceList[z] = bumpAmount(c, b.BalanceList[z])
		return true
	}},
	{"Balance.moved", false, func(c *Ctx, cfg *genesis.GenesisConfig) bool {
		// one unit moved between two users: every sum of the configuration stays what it was
		us := userBlocks(cfg)
		for _, i := range c.R.Perm(len(us)) {
			for _, j := range c.R.Perm(len(us)) {
				if i == j {
					continue
				}
				for z, v := range us[i].BalanceList {
					if w, ok := us[j].BalanceList[z]; ok && v.Sign() > 0 {
						us[i].BalanceList[z] = new(big.Int).Sub(v, big.NewInt(1))
						us[j].BalanceList[z] = new(big.Int).Add(w, big.NewInt(1))
						return true
					}
				}
			}
		}
		return false
	}},
	{"Block.Address", false, func(c *Ctx, cfg *genesis.GenesisConfig) bool {
		us := userBlocks(cfg)
		if len(us) == 0 {
			return false
		}
		u := us[c.R.Intn(len(us))]
		u.Address = bumpAddr(u.Address)
		return true
	}},
	{"Block.add-empty", false, func(c *Ctx, cfg *genesis.GenesisConfig) bool {
		cfg.GenesisBlocks.Blocks = append(cfg.GenesisBlocks.Blocks, &genesis.GenesisBlockConfig{Address: randAddr(c, 0), BalanceList: map[types.ZenonTokenStandard]*big.Int{}})
		return true
	}},
	{"Block.drop", false, func(c *Ctx, cfg *genesis.GenesisConfig) bool {
		us := userBlocks(cfg)
		if len(us) < 2 {
			return false
		}
		drop := us[c.R.Intn(len(us))]
		var out []*genesis.GenesisBlockConfig
		for _, b := range cfg.GenesisBlocks.Blocks {
			if b != drop {
				out = append(out, b)
			}
		}
		cfg.GenesisBlocks.Blocks = out
		return true
	}},
}

// startupForeignFields: database under A, then every edit of `startupEdits` whose turn it is (the header / order /
// node-configuration edits on every call, `nState` of the state edits in rotation), then A again.
func startupForeignFields(c *Ctx, tmp, id string, a *genesis.GenesisConfig, round, nState int) {
	ha, ka := genesisHash(a)
	if ka != "ok" {
		return
	}
	dir := filepath.Join(tmp, id+"-fdb")
	r0 := startChain(dir, a)
	c.Emit("gen-startup empty %s | %s", ha, r0)
	if r0 != "started" {
		c.Fail("node does not start on an empty database with an accepted configuration: %s (%s)", r0, encodeCfg(a))
		return
	}
	var turn []startupEdit
	var state []startupEdit
	for _, e := range startupEdits {
		if e.header {
			turn = append(turn, e)
		} else {
			state = append(state, e)
		}
	}
	for i := 0; i < nState && i < len(state); i++ {
		turn = append(turn, state[(round*nState+i)%len(state)])
	}
	for _, e := range turn {
		b := cloneCfg(a)
		if !e.f(c, b) {
			c.Hit("startup-field-skip:" + e.name)
			continue
		}
		hb, kb := genesisHash(b)
		if kb != "ok" {
			c.Hit("startup-field-newgenesis-panics:" + e.name)
			continue
		}
		r := startChain(dir, b)
		c.Emit("gen-startup %s %s | %s", ha, hb, r)
		differs := hb != ha
		c.Hit(fmt.Sprintf("startup-field:%s:genesis-differs=%v:%s", e.name, differs, r))
		switch {
		case differs && r != "refused":
			c.Fail("node started on a foreign database: database created with genesis %s, chain.Init with a configuration that differs only in %s and whose genesis momentum is %s: %s (must be refused). A: %s  B: %s",
				ha, e.name, hb, r, startupCfgSummary(a), startupCfgSummary(b))
		case !differs && r != "started":
			c.Fail("node does not start on its own database: configuration differs only in %s, the genesis momentum is the same (%s): %s", e.name, ha, r)
		}
	}
	// the refused attempts left the database alone: A restarts
	if r := startChain(dir, a); r != "started" {
		c.Emit("gen-startup %s %s | %s", ha, ha, r)
		c.Fail("node does not restart with its own configuration after refused starts with other ones: %s", r)
	} else {
		c.Emit("gen-startup %s %s | %s", ha, ha, r)
	}
	c.Hit("startup-foreign-fields-scenario")
}

func startupCfgSummary(cfg *genesis.GenesisConfig) string {
	sa := "nil"
	if cfg.SporkAddress != nil {
		sa = cfg.SporkAddress.String()
	}
	return fmt.Sprintf("{ChainIdentifier:%d ExtraData:%q GenesisTimestampSec:%d SporkAddress:%s …}", cfg.ChainIdentifier, cfg.ExtraData, cfg.GenesisTimestampSec, sa)
}
