package main

import (
	"fmt"
	"strings"
	"sync"

	"github.com/zenon-network/go-zenon/chain"
	"github.com/zenon-network/go-zenon/chain/nom"
	"github.com/zenon-network/go-zenon/common/db"
	"github.com/zenon-network/go-zenon/common/types"
)

// C14 stream `pool-batch`, third scenario (monitors only): the momentum content a real chain.NewAccountPool offers for
// production (GetNewMomentumContent) when the pool holds about as many blocks as a momentum may carry.
//
//	content <limit> <user accounts> <contract accounts> <pooled> <calls> | ok
//
// The pool holds user accounts with 1-4 blocks each and contract accounts whose chain is a sequence of batches (k
// descendant sends + the receive that carries them), generated so that a multi-block batch is followed by smaller ones;
// the per-momentum limit is the real package variable (100, or lowered to 3-12 so that the limit bites with few blocks).
// The pool enumerates its accounts in Go map order, so the content is asked for many times. Sentences checked on every
// answer: at most <limit> blocks; per account the offered blocks are a gap-free prefix of the account's pooled chain;
// a contract's batch is offered whole or not at all; when everything fits everything is offered.

func poolContentScenario(c *Ctx, lock *sync.Mutex) {
	orig := chain.MaxAccountBlocksInMomentum
	defer func() { chain.MaxAccountBlocksInMomentum = orig }()
	limit := orig
	if c.R.Intn(4) != 0 {
		limit = 3 + c.R.Intn(10)
	}
	chain.MaxAccountBlocksInMomentum = limit

	st := &poolStable{dbs: map[types.Address]db.DB{}}
	p := chain.NewAccountPool(st)
	type acct struct {
		addr    types.Address
		chain   []*nom.AccountBlock
		batches []int // cumulative lengths at which a batch ends
	}
	var accts []*acct
	total := 0
	target := limit - 3 + c.R.Intn(10) // around the limit
	if target < 2 {
		target = 2
	}
	addOne := func(a *acct, recv *nom.AccountBlock) bool {
		res := guard(func() string {
			return poolErr(p.AddAccountBlockTransaction(lock, &nom.AccountBlockTransaction{Block: recv, Changes: db.NewPatch()}))
		})
		if res != "ok" {
			c.Fail("pool content: setup add failed: %s", res)
			return false
		}
		a.chain = append(append(a.chain, recv.DescendantBlocks...), recv)
		a.batches = append(a.batches, len(a.chain))
		total += 1 + len(recv.DescendantBlocks)
		return true
	}
	nC := 1 + c.R.Intn(3)
	nU := 0
	for i := 0; i < nC; i++ {
		a := &acct{addr: idxAddress(10, i)}
		accts = append(accts, a)
		height, prev := uint64(1), types.ZeroHash
		if c.R.Intn(2) == 0 { // some confirmed history first
			g := &nom.AccountBlock{Address: a.addr, Height: 1, Hash: h4(c), BlockType: nom.BlockTypeContractReceive}
			setConfirmed(st, a.addr, g)
			height, prev = 2, g.Hash
		}
		nb := 2 + c.R.Intn(3)
		for j := 0; j < nb; j++ {
			k := c.R.Intn(3)
			if j == 0 {
				k = 1 + c.R.Intn(imin(limit-1, 5)) // a multi-block batch first, smaller ones behind it
			} else if c.R.Intn(3) != 0 {
				k = 0
			}
			desc := make([]*nom.AccountBlock, k)
			for d := range desc {
				desc[d] = &nom.AccountBlock{Address: a.addr, Height: height, PreviousHash: prev, Hash: h4(c), BlockType: nom.BlockTypeContractSend}
				height, prev = height+1, desc[d].Hash
			}
			recv := &nom.AccountBlock{Address: a.addr, Height: height, PreviousHash: prev, Hash: h4(c), BlockType: nom.BlockTypeContractReceive, DescendantBlocks: desc}
			height, prev = height+1, recv.Hash
			if !addOne(a, recv) {
				return
			}
		}
	}
	for total < target || nU < 2 {
		a := &acct{addr: idxAddress(11, nU)}
		nU++
		accts = append(accts, a)
		prev := types.ZeroHash
		n := 1 + c.R.Intn(4)
		if limit == orig {
			n = 3 + c.R.Intn(12)
		}
		for j := 0; j < n; j++ {
			b := &nom.AccountBlock{Address: a.addr, Height: uint64(j + 1), PreviousHash: prev, Hash: h4(c), BlockType: uint64(nom.BlockTypeUserSend + c.R.Intn(2)),
				TotalPlasma: 21000, BasePlasma: 21000}
			prev = b.Hash
			if !addOne(a, b) {
				return
			}
		}
	}
	// what the pool says it holds, per account
	byAddr := map[types.Address]*acct{}
	for _, a := range accts {
		byAddr[a.addr] = a
		unc := p.GetUncommittedAccountBlocksByAddress(a.addr)
		if len(unc) != len(a.chain) {
			c.Fail("pool content: %d blocks added for an account, the pool lists %d", len(a.chain), len(unc))
			return
		}
	}
	calls := 40
	lo, hi := -1, -1
	shape := func(a *acct) string {
		var sb strings.Builder
		for _, b := range a.chain {
			sb.WriteByte(byte('0' + b.BlockType%10))
		}
		return sb.String()
	}
	for call := 0; call < calls; call++ {
		var content []*nom.AccountBlock
		if res := guard(func() string { content = p.GetNewMomentumContent(); return "ok" }); res != "ok" {
			c.Fail("pool content: GetNewMomentumContent panics (limit %d, %d blocks pooled)", limit, total)
			return
		}
		if lo < 0 || len(content) < lo {
			lo = len(content)
		}
		if len(content) > hi {
			hi = len(content)
		}
		if len(content) > limit {
			c.Fail("pool content: %d blocks offered for one momentum, the limit is %d (%d pooled over %d accounts)", len(content), limit, total, len(accts))
			return
		}
		if total <= limit && len(content) != total {
			c.Fail("pool content: %d blocks pooled, limit %d, but only %d offered", total, limit, len(content))
			return
		}
		offered := map[types.Address]int{}
		for _, b := range content {
			a := byAddr[b.Address]
			if a == nil {
				c.Fail("pool content: a block of an unknown account is offered")
				return
			}
			i := offered[b.Address]
			if i >= len(a.chain) || a.chain[i].Hash != b.Hash {
				pos := -1
				for j, x := range a.chain {
					if x.Hash == b.Hash {
						pos = j
					}
				}
				c.Fail("pool content: the blocks offered for an account are not a gap-free prefix of its pooled chain: pooled chain (block types) %s with batches ending at %v, offered block %d of the account is the pooled block %d (height %d) - limit %d, %d blocks pooled over %d accounts, %d offered in this call (call %d of the same pool state)",
					shape(a), a.batches, i+1, pos+1, b.Height, limit, total, len(accts), len(content), call+1)
				return
			}
			offered[b.Address] = i + 1
		}
		for addr, n := range offered {
			a := byAddr[addr]
			whole := false
			for _, e := range a.batches {
				if e == n {
					whole = true
				}
			}
			if !whole {
				c.Fail("pool content: a contract's batch is split: pooled chain (block types) %s with batches ending at %v, %d blocks of it offered (limit %d, %d offered in all)", shape(a), a.batches, n, limit, len(content))
				return
			}
		}
		if len(content) < total {
			c.Hit("content-limit-bites")
		}
	}
	_, _ = lo, hi // depend on the map order of the run: counted, not printed
	if hi > lo {
		c.Hit("content-size-varies-with-map-order")
	}
	c.Emit("content %d %d %d %d %d | ok", limit, nU, nC, total, calls)
	c.Hit(fmt.Sprintf("content-limit-%s", map[bool]string{true: "real", false: "lowered"}[limit == orig]))
}

// poolBatchDisplaced (pool-batch, counted observation): a pooled contract receive with k >= 1 descendant blocks loses its
// place to a competing receive for the same height (another pillar's view of the contract's inbox, force-inserted by sync).
// Judged: the pool's chain afterwards is the competitor on the confirmed block, and the displaced RECEIVE no longer answers
// GetPatch. Counted only (stats key batch-displaced-descendant-still-answers): on the current tree memdbManager.Pop forgets
// the head of a multi-block transaction but keeps the version and the (empty) patch of its descendant blocks, so
// GetPatch / GetAccountStore still answer for the displaced ContractSend blocks; no caller is known to act on it (sync and
// gossip skip ContractSend blocks before asking), hence an observation in the evidence, not a failure.
func poolBatchDisplaced(c *Ctx, lock *sync.Mutex) {
	st := &poolStable{dbs: map[types.Address]db.DB{}}
	p := chain.NewAccountPool(st)
	addr := idxAddress(12, 1)
	g0 := &nom.AccountBlock{Address: addr, Height: 1, Hash: h4(c), BlockType: nom.BlockTypeContractReceive}
	setConfirmed(st, addr, g0)
	k := 1 + c.R.Intn(3)
	prev := g0.Hash
	desc := make([]*nom.AccountBlock, k)
	for i := range desc {
		desc[i] = &nom.AccountBlock{Address: addr, Height: 2 + uint64(i), PreviousHash: prev, Hash: h4(c), BlockType: nom.BlockTypeContractSend}
		prev = desc[i].Hash
	}
	recv := &nom.AccountBlock{Address: addr, Height: 2 + uint64(k), PreviousHash: prev, Hash: h4(c), BlockType: nom.BlockTypeContractReceive, DescendantBlocks: desc}
	rival := &nom.AccountBlock{Address: addr, Height: 2, PreviousHash: g0.Hash, Hash: h4(c), BlockType: nom.BlockTypeContractReceive}
	r1 := guard(func() string {
		return poolErr(p.AddAccountBlockTransaction(lock, &nom.AccountBlockTransaction{Block: recv, Changes: db.NewPatch()}))
	})
	r2 := guard(func() string {
		return poolErr(p.ForceAddAccountBlockTransaction(lock, &nom.AccountBlockTransaction{Block: rival, Changes: db.NewPatch()}))
	})
	unc := p.GetUncommittedAccountBlocksByAddress(addr)
	c.Emit("batch-displaced %d | %s %s %d", k, r1, r2, len(unc))
	if r1 != "ok" || r2 != "ok" || len(unc) != 1 || unc[0].Hash != rival.Hash {
		c.Fail("pool batch: a pooled receive with %d descendants displaced by a force-inserted competitor for height 2: results %s / %s, the pool lists %d uncommitted blocks, expected the competitor alone", k, r1, r2, len(unc))
		return
	}
	if p.GetPatch(addr, recv.Identifier()) != nil {
		c.Fail("pool batch: GetPatch still answers for a contract receive (with %d descendants) that was displaced by a force-inserted competitor", k)
		return
	}
	for _, d := range desc {
		if p.GetPatch(addr, d.Identifier()) != nil || p.GetAccountStore(addr, d.Identifier()) != nil {
			c.Hit("batch-displaced-descendant-still-answers")
			return
		}
	}
	c.Hit("batch-displaced-clean")
}
