package main

// Part `disc` of stream p2p-hs (C15): SOLICITED discovery replies with hostile bodies. See s_p2p_hs.go.
//
// The disc / disc-model streams send single datagrams: a pong or a neighbors packet that nobody asked for ends at "unsolicited
// reply" and never reaches the pending-reply callbacks (udp.ping / udp.findnode), which run inside udp.loop — the goroutine
// every request of the node depends on, without a recover. Here the node HAS a request outstanding to the peer that answers:
//
//	bonding  a stranger pings the node; the node pongs and pings back (Table.bond); the stranger answers THAT ping with a pong
//	         that is correctly hashed, signed by the pinged key and (mostly) unexpired, with a hostile body;
//	findnode a bonded hostile peer X sits in the node's table next to a bonded honest peer H; the node runs Table.Lookup (what
//	         the dialer's discoverTask and the table's refresh run); X answers the node's findnode with hostile neighbors packets;
//	         the node then bonds with whatever it was handed (pings go to a sink socket that answers under its own key).

import (
	"bytes"
	"crypto/ecdsa"
	crand "crypto/rand"
	"fmt"
	"net"
	"strings"
	"sync"
	"time"

	"github.com/ethereum/go-ethereum/crypto"
	"github.com/ethereum/go-ethereum/rlp"

	"github.com/zenon-network/go-zenon/p2p/discover"
)

var loopback4 = net.IPv4(127, 0, 0, 1).To4()

// dPeer: a remote discovery peer — a key and a socket of its own.
type dPeer struct {
	key  *ecdsa.PrivateKey
	id   discover.NodeID
	sock *net.UDPConn
	port uint16
}

func newDPeer() (*dPeer, error) {
	k, err := crypto.GenerateKey()
	if err != nil {
		return nil, err
	}
	s, err := net.ListenUDP("udp", &net.UDPAddr{IP: loopback4})
	if err != nil {
		return nil, err
	}
	return &dPeer{key: k, id: discover.PubkeyID(&k.PublicKey), sock: s, port: uint16(s.LocalAddr().(*net.UDPAddr).Port)}, nil
}

func (p *dPeer) close()        { p.sock.Close() }
func (p *dPeer) ep() dEndpoint { return dEndpoint{IP: loopback4, UDP: p.port, TCP: p.port} }
func (p *dPeer) send(to *net.UDPAddr, payload []byte) {
	p.sock.WriteToUDP(sealPacket(p.key, payload), to)
}

// recv: the next datagram within d — packet type, RLP body, the packet's hash.
func (p *dPeer) recv(d time.Duration) (kind byte, body, hash []byte, ok bool) {
	buf := make([]byte, 2048)
	p.sock.SetReadDeadline(time.Now().Add(d))
	for {
		k, _, err := p.sock.ReadFromUDP(buf)
		if err != nil {
			return 0, nil, nil, false
		}
		if k <= discover.HeadSizeVerif {
			continue
		}
		return buf[discover.HeadSizeVerif], append([]byte{}, buf[discover.HeadSizeVerif+1:k]...), append([]byte{}, buf[:32]...), true
	}
}

// dNodeUT: a discovery node under test (the real ListenUDP table on loopback).
type dNodeUT struct {
	tab  *discover.Table
	addr *net.UDPAddr
	id   discover.NodeID
}

func newDNodeUT() (*dNodeUT, error) {
	k, err := crypto.GenerateKey()
	if err != nil {
		return nil, err
	}
	tab, err := discover.ListenUDP(k, "127.0.0.1:0", nil, "")
	if err != nil {
		return nil, err
	}
	return &dNodeUT{tab: tab, addr: &net.UDPAddr{IP: loopback4, Port: int(tab.Self().UDP)}, id: tab.Self().ID}, nil
}

func (u *dNodeUT) ep() dEndpoint { return dEndpoint{IP: loopback4, UDP: uint16(u.addr.Port), TCP: uint16(u.addr.Port)} }
func (u *dNodeUT) close()        { safely(u.tab.Close) }

func pingPayload(from, to dEndpoint) []byte {
	return append([]byte{1}, mustRlp([]interface{}{uint(discover.Version), from, to, discFuture()})...)
}
func pongPayload(to dEndpoint, tok []byte, exp uint64) []byte {
	return append([]byte{2}, mustRlp([]interface{}{to, tok, exp})...)
}
func findnodePayload(target discover.NodeID) []byte {
	return append([]byte{3}, mustRlp([]interface{}{target, discFuture()})...)
}
func neighborsPayload(nodes []dNode, exp uint64) []byte {
	return append([]byte{4}, mustRlp([]interface{}{nodes, exp})...)
}

// exchange: the bonding exchange up to the node's own ping. p pings the node; the node's pong is awaited, and the node's ping —
// whose hash is handed to answer (nil = do not answer). Returns whether the node pinged back.
func (p *dPeer) exchange(u *dNodeUT, answer func(pingHash []byte) [][]byte, signer *dPeer) (pinged, ponged bool) {
	for attempt := 0; attempt < 3 && !pinged; attempt++ {
		mine := sealPacket(p.key, pingPayload(p.ep(), u.ep()))
		p.sock.WriteToUDP(mine, u.addr)
		deadline := time.Now().Add(1200 * time.Millisecond)
		for time.Now().Before(deadline) && !(pinged && ponged) {
			kind, body, hash, ok := p.recv(time.Until(deadline))
			if !ok {
				break
			}
			switch kind {
			case 2:
				var pg dPong
				if rlp.DecodeBytes(body, &pg) == nil && bytes.Equal(pg.ReplyTok, mine[:32]) {
					ponged = true
				}
			case 1:
				pinged = true
				if answer != nil {
					for _, pl := range answer(hash) {
						signer.sendFrom(p, u.addr, pl)
					}
				}
			}
		}
	}
	return
}

// sendFrom: a payload signed by s, sent from the socket of p (s == p: the ordinary case).
func (s *dPeer) sendFrom(p *dPeer, to *net.UDPAddr, payload []byte) {
	p.sock.WriteToUDP(sealPacket(s.key, payload), to)
}

// bondHonestly: the complete, honest bonding exchange.
func (p *dPeer) bondHonestly(u *dNodeUT) bool {
	for attempt := 0; attempt < 3; attempt++ {
		p.exchange(u, func(h []byte) [][]byte { return [][]byte{pongPayload(u.ep(), h, discFuture())} }, p)
		if p.bonded(u) {
			return true
		}
	}
	return false
}

// bonded: does the node serve this peer's findnode (it does so for bonded peers only; a bonded peer is in the table, so the
// answer is never empty)? The node's own pings are answered honestly when `polite`.
func (p *dPeer) bonded(u *dNodeUT) bool {
	deadline := time.Now().Add(350 * time.Millisecond)
	for i := 0; time.Now().Before(deadline); i++ {
		p.send(u.addr, findnodePayload(p.id))
		step := time.Now().Add(120 * time.Millisecond)
		for time.Now().Before(step) {
			kind, _, _, ok := p.recv(time.Until(step))
			if !ok {
				break
			}
			if kind == 4 {
				return true
			}
		}
	}
	return false
}

// served: the honest bonded peer's ping is answered with a pong echoing its hash and its findnode with neighbors (3 attempts of
// 2 s each: loopback datagrams can be dropped under load).
func (p *dPeer) served(u *dNodeUT) string {
	okPong, okNeigh := false, false
	for attempt := 0; attempt < 3 && !(okPong && okNeigh); attempt++ {
		mine := sealPacket(p.key, pingPayload(p.ep(), u.ep()))
		if !okPong {
			p.sock.WriteToUDP(mine, u.addr)
		}
		if !okNeigh {
			p.send(u.addr, findnodePayload(p.id))
		}
		deadline := time.Now().Add(2 * time.Second)
		for time.Now().Before(deadline) && !(okPong && okNeigh) {
			kind, body, hash, ok := p.recv(time.Until(deadline))
			if !ok {
				break
			}
			switch kind {
			case 1:
				p.send(u.addr, pongPayload(u.ep(), hash, discFuture()))
			case 2:
				var pg dPong
				if rlp.DecodeBytes(body, &pg) == nil && bytes.Equal(pg.ReplyTok, mine[:32]) {
					okPong = true
				}
			case 4:
				okNeigh = true
			}
		}
	}
	switch {
	case !okPong && !okNeigh:
		return "the node answers neither the ping nor the findnode of an honest, bonded peer (3 attempts of 2 s)"
	case !okPong:
		return "the node does not answer the ping of an honest, bonded peer (3 attempts of 2 s)"
	case !okNeigh:
		return "the node does not answer the findnode of an honest, bonded peer any more (3 attempts of 2 s): the peer lost its bond or the node stopped serving"
	}
	return ""
}

// ---- bonding: hostile pongs -----------------------------------------------------------------------------------------------------

type pongCase struct {
	label      string
	build      func(hash []byte, u *dNodeUT, p *dPeer) [][]byte
	mustRefuse bool // expired or not of a pong's shape: the bond must not complete
	foreignKey bool // signed by another key than the one the node pinged
	early      bool // sent before the exchange as well (nobody asked)
}

func pongCases() []pongCase {
	var out []pongCase
	one := func(f func(hash []byte, u *dNodeUT) []byte) func([]byte, *dNodeUT, *dPeer) [][]byte {
		return func(h []byte, u *dNodeUT, p *dPeer) [][]byte { return [][]byte{f(h, u)} }
	}
	tokOfLen := func(hash []byte, n int) []byte {
		t := make([]byte, n)
		copy(t, hash)
		return t
	}
	for _, ln := range append(seq(0, 40), 63, 64, 65, 255, 256, 1000) {
		ln := ln
		out = append(out, pongCase{label: fmt.Sprintf("reply-token-of-%d-bytes", ln), build: one(func(h []byte, u *dNodeUT) []byte {
			return pongPayload(u.ep(), tokOfLen(h, ln), discFuture())
		})})
	}
	out = append(out,
		pongCase{label: "reply-token-32-zeros", build: one(func(h []byte, u *dNodeUT) []byte { return pongPayload(u.ep(), make([]byte, 32), discFuture()) })},
		pongCase{label: "reply-token-one-bit-off", build: one(func(h []byte, u *dNodeUT) []byte {
			t := append([]byte{}, h...)
			t[31] ^= 1
			return pongPayload(u.ep(), t, discFuture())
		})},
		pongCase{label: "reply-token-nil-list-element", build: one(func(h []byte, u *dNodeUT) []byte {
			return append([]byte{2}, mustRlp([]interface{}{u.ep(), []byte(nil), discFuture()})...)
		})},
	)
	for _, ln := range []int{0, 1, 3, 5, 15, 16, 17, 64} {
		ln := ln
		out = append(out, pongCase{label: fmt.Sprintf("to-endpoint-ip-of-%d-bytes", ln), build: one(func(h []byte, u *dNodeUT) []byte {
			return pongPayload(dEndpoint{IP: bytes.Repeat([]byte{0xfe}, ln), UDP: 0, TCP: 65535}, h, discFuture())
		})})
	}
	now := func() uint64 { return uint64(time.Now().Unix()) }
	for _, e := range []struct {
		label  string
		exp    func() uint64
		refuse bool
	}{
		{"0", func() uint64 { return 0 }, true},
		{"1", func() uint64 { return 1 }, true},
		{"now-5s", func() uint64 { return now() - 5 }, true},
		{"now+2s", func() uint64 { return now() + 2 }, false},
		{"2^31", func() uint64 { return 1 << 31 }, false},
		{"2^32", func() uint64 { return 1 << 32 }, false},
		{"2^62", func() uint64 { return 1 << 62 }, false},
		{"2^63-1", func() uint64 { return 1<<63 - 1 }, false},
		{"2^63", func() uint64 { return 1 << 63 }, false},
		{"2^64-1", func() uint64 { return 1<<64 - 1 }, false},
	} {
		e := e
		out = append(out, pongCase{label: "expiration-" + e.label, mustRefuse: e.refuse, build: one(func(h []byte, u *dNodeUT) []byte {
			return pongPayload(u.ep(), h, e.exp())
		})})
	}
	out = append(out,
		pongCase{label: "shape-two-fields", mustRefuse: true, build: one(func(h []byte, u *dNodeUT) []byte {
			return append([]byte{2}, mustRlp([]interface{}{u.ep(), h})...)
		})},
		pongCase{label: "shape-four-fields", mustRefuse: true, build: one(func(h []byte, u *dNodeUT) []byte {
			return append([]byte{2}, mustRlp([]interface{}{u.ep(), h, discFuture(), uint(7)})...)
		})},
		pongCase{label: "shape-empty-list", mustRefuse: true, build: one(func(h []byte, u *dNodeUT) []byte { return []byte{2, 0xc0} })},
		pongCase{label: "shape-type-byte-only", mustRefuse: true, build: one(func(h []byte, u *dNodeUT) []byte { return []byte{2} })},
		pongCase{label: "shape-trailing-byte", mustRefuse: true, build: one(func(h []byte, u *dNodeUT) []byte {
			return append(pongPayload(u.ep(), h, discFuture()), 0)
		})},
		pongCase{label: "shape-token-is-a-list", mustRefuse: true, build: one(func(h []byte, u *dNodeUT) []byte {
			return append([]byte{2}, mustRlp([]interface{}{u.ep(), []interface{}{h}, discFuture()})...)
		})},
		pongCase{label: "shape-expiration-of-9-bytes", mustRefuse: true, build: one(func(h []byte, u *dNodeUT) []byte {
			return append([]byte{2}, mustRlp([]interface{}{u.ep(), h, bytes.Repeat([]byte{1}, 9)})...)
		})},
		pongCase{label: "shape-endpoint-is-a-string", mustRefuse: true, build: one(func(h []byte, u *dNodeUT) []byte {
			return append([]byte{2}, mustRlp([]interface{}{[]byte{1, 2, 3}, h, discFuture()})...)
		})},
		pongCase{label: "other-type-neighbors-as-answer", mustRefuse: true, build: one(func(h []byte, u *dNodeUT) []byte { return neighborsPayload(nil, discFuture()) })},
		pongCase{label: "other-type-findnode-as-answer", mustRefuse: true, build: one(func(h []byte, u *dNodeUT) []byte { return findnodePayload(u.id) })},
		pongCase{label: "pong-of-a-foreign-key", mustRefuse: true, foreignKey: true, build: one(func(h []byte, u *dNodeUT) []byte {
			return pongPayload(u.ep(), h, discFuture())
		})},
		pongCase{label: "pong-three-times", build: func(h []byte, u *dNodeUT, p *dPeer) [][]byte {
			pl := pongPayload(u.ep(), h, discFuture())
			return [][]byte{pl, pl, pl}
		}},
		pongCase{label: "pong-odd-token-then-honest-pong", build: func(h []byte, u *dNodeUT, p *dPeer) [][]byte {
			return [][]byte{pongPayload(u.ep(), h[:31], discFuture()), pongPayload(u.ep(), h, discFuture())}
		}},
		pongCase{label: "pong-before-anybody-asked", early: true, build: one(func(h []byte, u *dNodeUT) []byte {
			return pongPayload(u.ep(), tokOfLen(h, 33), discFuture())
		})},
	)
	return out
}

func seq(a, b int) []int {
	var out []int
	for i := a; i <= b; i++ {
		out = append(out, i)
	}
	return out
}

func payloadsDesc(pls [][]byte) string {
	var s []string
	for _, p := range pls {
		s = append(s, fmt.Sprintf("%x", p))
	}
	return fmt.Sprintf("%d datagram(s), each = keccak hash ‖ signature of the sender ‖ payload; payload(s) (type byte ‖ RLP): %s", len(pls), joinMax(s, " | ", 3000))
}

func joinMax(s []string, sep string, max int) string {
	out := ""
	for i, x := range s {
		if i > 0 {
			out += sep
		}
		if len(out)+len(x) > max {
			return out + fmt.Sprintf("… (%d more)", len(s)-i)
		}
		out += x
	}
	return out
}

func hsDisc(n *netCtx) {
	H, err := newDPeer()
	if err != nil {
		n.fail("C15 p2p-hs disc: harness cannot open a socket: %v", err)
		return
	}
	defer H.close()
	var u *dNodeUT
	defer func() {
		if u != nil {
			u.close()
		}
	}()
	pcs := pongCases()
	if n.scn != "" {
		var keep []pongCase
		for _, pc := range pcs {
			if strings.Contains(pc.label, n.scn) {
				keep = append(keep, pc)
			}
		}
		pcs = keep
	}
	for i, pc := range pcs {
		// a node serves 12 cases, then a fresh one takes over. (Table.pingpong hands back fewer bonding slots than it takes —
		// after 15 bonding attempts a table is left with ONE slot, held for 0.5 s by every unanswered ping — so on a long-lived
		// node a bond may complete later than the probe below looks at it; the monitors do not depend on that, the recorded
		// verdict would.)
		if i%12 == 0 {
			if u != nil {
				u.close()
			}
			if u, err = newDNodeUT(); err != nil {
				n.fail("C15 p2p-hs disc: harness cannot start a discovery node: %v", err)
				return
			}
			if !H.bondHonestly(u) {
				n.fail("C15 p2p-hs disc: before any hostile packet a fresh node does not bond with an honest peer")
				return
			}
			if why := H.served(u); why != "" {
				n.fail("C15 p2p-hs disc: before any hostile packet %s", why)
				return
			}
		}
		p, err := newDPeer()
		if err != nil {
			n.fail("C15 p2p-hs disc: harness cannot open a socket: %v", err)
			return
		}
		signer := p
		if pc.foreignKey {
			signer, _ = newDPeer()
		}
		var sent [][]byte
		if pc.early {
			pls := pc.build(make([]byte, 32), u, p)
			n.req("disc-bonding[%s] UNSOLICITED (the node has pinged nobody) from a stranger: %s", pc.label, payloadsDesc(pls))
			for _, pl := range pls {
				p.send(u.addr, pl)
			}
		}
		// (the request line is written BEFORE the datagram leaves: the reply may end the process)
		pinged, _ := p.exchange(u, func(h []byte) [][]byte {
			sent = pc.build(h, u, p)
			n.req("disc-bonding[%s] a stranger (new key) pinged the node, the node ponged and pinged back (ping hash %x); the stranger answers THAT ping with %s%s",
				pc.label, h, payloadsDesc(sent), map[bool]string{true: " — signed by ANOTHER key than the one the node pinged", false: ""}[pc.foreignKey])
			return sent
		}, signer)
		n.hit("disc-bonding-cases")
		n.hit("disc-bonding-" + hsFamily(pc.label))
		if !pinged {
			// no ping from the node: nothing hostile was sent; the next monitor tells whether the node still lives
			n.hit("disc-bonding-node-did-not-ping-back")
		} else {
			b := p.bonded(u)
			n.hit(map[bool]string{true: "disc-bond-completed", false: "disc-bond-refused"}[b])
			n.emit("hs-disc-bonding %s | %s", pc.label, map[bool]string{true: "bond-completed", false: "bond-refused"}[b])
			if b && pc.mustRefuse {
				n.fail("C15 p2p-hs class=disc-bad-reply-accepted the node completed the bond (it now serves the peer's findnode) on a reply that is expired, "+
					"of another packet type / shape, or of another key: disc-bonding[%s] %s", pc.label, payloadsDesc(sent))
				p.close()
				return
			}
		}
		p.close()
		if signer != p {
			signer.close()
		}
		if why := H.served(u); why != "" {
			n.fail("C15 p2p-hs class=disc-honest-peer-not-served after disc-bonding[%s] %s: %s", pc.label, payloadsDesc(sent), why)
			return
		}
	}
	hsDiscFindnode(n)
}

// ---- findnode: hostile neighbors ------------------------------------------------------------------------------------------------

type neighCtx struct {
	u       *dNodeUT
	H, X, S *dPeer
}

type neighCase struct {
	label      string
	build      func(c *neighCtx) [][]byte
	foreignKey bool // signed by a key the node never heard of
	early      bool // also sent before the node asked
}

func (c *neighCtx) at(p *dPeer, id discover.NodeID) dNode {
	return dNode{IP: loopback4, UDP: p.port, TCP: p.port, ID: id}
}

func randID() (id discover.NodeID) { crand.Read(id[:]); return }

func validID() discover.NodeID {
	k, _ := crypto.GenerateKey()
	return discover.PubkeyID(&k.PublicKey)
}

func neighCases() []neighCase {
	var out []neighCase
	one := func(f func(c *neighCtx) []dNode) func(c *neighCtx) [][]byte {
		return func(c *neighCtx) [][]byte { return [][]byte{neighborsPayload(f(c), discFuture())} }
	}
	many := func(c *neighCtx, k int) []dNode {
		ns := make([]dNode, k)
		for i := range ns {
			ns[i] = c.at(c.S, validID())
		}
		return ns
	}
	for _, k := range []int{0, 1, 12, 13, 15, 16, 17, 100} {
		k := k
		out = append(out, neighCase{label: fmt.Sprintf("%d-nodes-in-one-datagram", k), build: one(func(c *neighCtx) []dNode { return many(c, k) })})
	}
	out = append(out,
		neighCase{label: "16-nodes-in-two-datagrams", build: func(c *neighCtx) [][]byte {
			return [][]byte{neighborsPayload(many(c, 8), discFuture()), neighborsPayload(many(c, 8), discFuture())}
		}},
		neighCase{label: "36-nodes-in-three-datagrams", build: func(c *neighCtx) [][]byte {
			return [][]byte{neighborsPayload(many(c, 12), discFuture()), neighborsPayload(many(c, 12), discFuture()), neighborsPayload(many(c, 12), discFuture())}
		}},
		neighCase{label: "16-times-the-same-node", build: one(func(c *neighCtx) []dNode {
			nd := c.at(c.S, validID())
			ns := make([]dNode, 13)
			for i := range ns {
				ns[i] = nd
			}
			return ns
		})},
	)
	// node ids
	ids := []struct {
		label string
		id    func(c *neighCtx) discover.NodeID
	}{
		{"id-zeros", func(c *neighCtx) discover.NodeID { return discover.NodeID{} }},
		{"id-all-0xff", func(c *neighCtx) discover.NodeID {
			var id discover.NodeID
			copy(id[:], bytes.Repeat([]byte{0xff}, 64))
			return id
		}},
		{"id-random(off-curve)", func(c *neighCtx) discover.NodeID { return randID() }},
		{"id-valid-point-one-bit-off", func(c *neighCtx) discover.NodeID { id := validID(); id[63] ^= 1; return id }},
		{"id-of-the-node-itself", func(c *neighCtx) discover.NodeID { return c.u.id }},
		{"id-of-the-honest-peer-at-another-address", func(c *neighCtx) discover.NodeID { return c.H.id }},
		{"id-of-the-sender-at-another-address", func(c *neighCtx) discover.NodeID { return c.X.id }},
	}
	for _, x := range ids {
		x := x
		out = append(out, neighCase{label: x.label, build: one(func(c *neighCtx) []dNode {
			return []dNode{c.at(c.S, x.id(c)), c.at(c.S, validID()), c.at(c.S, x.id(c))}
		})})
	}
	// addresses
	for _, ln := range []int{0, 1, 3, 5, 15, 17, 64} {
		ln := ln
		out = append(out, neighCase{label: fmt.Sprintf("ip-of-%d-bytes", ln), build: one(func(c *neighCtx) []dNode {
			return []dNode{{IP: bytes.Repeat([]byte{0x7f}, ln), UDP: c.S.port, TCP: c.S.port, ID: validID()}, c.at(c.S, validID())}
		})})
	}
	addrs := []struct {
		label string
		ip    net.IP
		port  func(c *neighCtx) uint16
	}{
		{"ip-multicast", net.IPv4(224, 0, 0, 1).To4(), nil},
		{"ip-unspecified", net.IPv4(0, 0, 0, 0).To4(), nil},
		{"ip-broadcast", net.IPv4(255, 255, 255, 255).To4(), nil},
		{"ip-v6-loopback", net.IPv6loopback, nil},
		{"ip-v6-unspecified", net.IPv6unspecified, nil},
		{"ip-v4-mapped-loopback", net.IPv4(127, 0, 0, 1).To16(), nil},
		{"udp-port-0", loopback4, func(c *neighCtx) uint16 { return 0 }},
		{"udp-port-65535", loopback4, func(c *neighCtx) uint16 { return 65535 }},
		{"address-of-the-node-itself", loopback4, func(c *neighCtx) uint16 { return uint16(c.u.addr.Port) }},
	}
	for _, x := range addrs {
		x := x
		out = append(out, neighCase{label: x.label, build: one(func(c *neighCtx) []dNode {
			port := c.S.port
			if x.port != nil {
				port = x.port(c)
			}
			return []dNode{{IP: x.ip, UDP: port, TCP: port, ID: validID()}, c.at(c.S, validID())}
		})})
	}
	out = append(out, neighCase{label: "the-node-itself(id-and-address)", build: one(func(c *neighCtx) []dNode {
		return []dNode{{IP: loopback4, UDP: uint16(c.u.addr.Port), TCP: uint16(c.u.addr.Port), ID: c.u.id}}
	})})
	// expirations and shapes
	for _, e := range []struct {
		label string
		exp   uint64
	}{{"0", 0}, {"1", 1}, {"2^31", 1 << 31}, {"2^63-1", 1<<63 - 1}, {"2^63", 1 << 63}, {"2^64-1", 1<<64 - 1}} {
		e := e
		out = append(out, neighCase{label: "expiration-" + e.label, build: func(c *neighCtx) [][]byte {
			return [][]byte{neighborsPayload([]dNode{c.at(c.S, validID())}, e.exp)}
		}})
	}
	out = append(out,
		neighCase{label: "shape-one-field", build: func(c *neighCtx) [][]byte { return [][]byte{append([]byte{4}, mustRlp([]interface{}{[]dNode{}})...)} }},
		neighCase{label: "shape-three-fields", build: func(c *neighCtx) [][]byte {
			return [][]byte{append([]byte{4}, mustRlp([]interface{}{[]dNode{}, discFuture(), uint(1)})...)}
		}},
		neighCase{label: "shape-nodes-is-a-string", build: func(c *neighCtx) [][]byte {
			return [][]byte{append([]byte{4}, mustRlp([]interface{}{[]byte{1, 2, 3}, discFuture()})...)}
		}},
		neighCase{label: "shape-node-with-three-fields", build: func(c *neighCtx) [][]byte {
			return [][]byte{append([]byte{4}, mustRlp([]interface{}{[]interface{}{[]interface{}{loopback4, uint(1), uint(1)}}, discFuture()})...)}
		}},
		neighCase{label: "shape-node-id-of-63-bytes", build: func(c *neighCtx) [][]byte {
			return [][]byte{append([]byte{4}, mustRlp([]interface{}{[]interface{}{[]interface{}{loopback4, uint(1), uint(1), make([]byte, 63)}}, discFuture()})...)}
		}},
		neighCase{label: "shape-trailing-byte", build: func(c *neighCtx) [][]byte {
			return [][]byte{append(neighborsPayload([]dNode{c.at(c.S, validID())}, discFuture()), 0)}
		}},
		neighCase{label: "other-type-pong-as-answer", build: func(c *neighCtx) [][]byte { return [][]byte{pongPayload(c.u.ep(), make([]byte, 32), discFuture())} }},
		neighCase{label: "neighbors-of-a-foreign-key", foreignKey: true, build: one(func(c *neighCtx) []dNode { return many(c, 3) })},
		neighCase{label: "neighbors-before-anybody-asked", early: true, build: one(func(c *neighCtx) []dNode { return many(c, 3) })},
	)
	return out
}

func hsDiscFindnode(n *netCtx) {
	cases := neighCases()
	if n.scn != "" {
		var keep []neighCase
		for _, nc := range cases {
			if strings.Contains(nc.label, n.scn) {
				keep = append(keep, nc)
			}
		}
		cases = keep
	}
	// each case has a node of its own; three at a time (the waits are the node's reply time-outs)
	sem := make(chan struct{}, 3)
	var wg sync.WaitGroup
	var mu sync.Mutex
	failed := false
	for _, nc := range cases {
		mu.Lock()
		stop := failed
		mu.Unlock()
		if stop {
			break
		}
		nc := nc
		sem <- struct{}{}
		wg.Add(1)
		go func() {
			defer func() { <-sem; wg.Done() }()
			if !findnodeCase(n, nc) {
				mu.Lock()
				failed = true
				mu.Unlock()
			}
		}()
	}
	wg.Wait()
}

func findnodeCase(n *netCtx, nc neighCase) bool {
	u, err := newDNodeUT()
	if err != nil {
		n.fail("C15 p2p-hs disc: harness cannot start a discovery node: %v", err)
		return false
	}
	defer u.close()
	c := &neighCtx{u: u}
	for _, pp := range []**dPeer{&c.H, &c.X, &c.S} {
		if *pp, err = newDPeer(); err != nil {
			n.fail("C15 p2p-hs disc: harness cannot open a socket: %v", err)
			return false
		}
		defer (*pp).close()
	}
	if !c.H.bondHonestly(u) || !c.X.bondHonestly(u) {
		n.fail("C15 p2p-hs disc: a fresh node does not bond with two honest peers (before disc-findnode[%s])", nc.label)
		return false
	}
	signer := c.X
	if nc.foreignKey {
		signer, _ = newDPeer()
		defer signer.close()
	}
	if nc.early {
		pls := nc.build(c)
		n.req("disc-findnode[%s] UNSOLICITED (the node has asked nobody) from a bonded peer: %s", nc.label, payloadsDesc(pls))
		for _, pl := range pls {
			c.X.send(u.addr, pl)
		}
	}
	stop := make(chan struct{})
	var bg sync.WaitGroup
	// the honest peer answers findnode with 16 entries (itself and X, both bonded already) and pings with pongs; the sink answers
	// every ping under ITS key (never the key the node pinged)
	responder := func(p *dPeer, neighbors bool) {
		defer bg.Done()
		for {
			select {
			case <-stop:
				return
			default:
			}
			kind, _, hash, ok := p.recv(100 * time.Millisecond)
			if !ok {
				continue
			}
			switch {
			case kind == 1:
				p.send(u.addr, pongPayload(u.ep(), hash, discFuture()))
			case kind == 3 && neighbors:
				ns := make([]dNode, 8)
				for i := range ns {
					ns[i] = c.at(c.H, c.H.id)
					if i%2 == 1 {
						ns[i] = c.at(c.X, c.X.id)
					}
				}
				p.send(u.addr, neighborsPayload(ns, discFuture()))
				p.send(u.addr, neighborsPayload(ns, discFuture()))
			}
		}
	}
	bg.Add(2)
	go responder(c.H, true)
	go responder(c.S, false)
	defer func() { close(stop); bg.Wait() }()
	// the node looks up a random target: the production path of p2p/dial.go discoverTask.Do and of Table.refresh
	done := make(chan int, 1)
	go func() {
		var wg sync.WaitGroup
		done <- len(u.tab.Lookup(randID(), &wg, false))
	}()
	asked := false
	var sent [][]byte
	deadline := time.Now().Add(3 * time.Second)
	for time.Now().Before(deadline) && !asked {
		kind, _, hash, ok := c.X.recv(time.Until(deadline))
		if !ok {
			break
		}
		switch kind {
		case 1:
			c.X.send(u.addr, pongPayload(u.ep(), hash, discFuture()))
		case 3:
			asked = true
			sent = nc.build(c)
			n.req("disc-findnode[%s] the node (Table.Lookup) sent findnode to a bonded peer, which answers with %s%s", nc.label, payloadsDesc(sent),
				map[bool]string{true: " — signed by a key the node never heard of", false: ""}[nc.foreignKey])
			for _, pl := range sent {
				signer.sendFrom(c.X, u.addr, pl)
			}
		}
	}
	n.hit("disc-findnode-cases")
	n.hit("disc-findnode-" + hsFamily(nc.label))
	if !asked {
		n.hit("disc-findnode-node-did-not-ask")
	}
	// X keeps answering pings politely while the lookup goes on
	bg.Add(1)
	go responder(c.X, false)
	select {
	case k := <-done:
		n.hit("disc-lookup-returned")
		if k > 0 {
			n.hit("disc-lookup-returned-nodes")
		}
	case <-time.After(60 * time.Second):
		n.fail("C15 p2p-hs class=disc-lookup-stalled Table.Lookup does not return within 60 s (reply time-out 0.5 s per request) after disc-findnode[%s] %s",
			nc.label, payloadsDesc(sent))
		return false
	}
	// the honest peer is still served (its responder is stopped first: served reads the same socket)
	close(stop)
	bg.Wait()
	stop = make(chan struct{})
	if why := c.H.served(u); why != "" {
		n.fail("C15 p2p-hs class=disc-honest-peer-not-served after disc-findnode[%s] %s: %s", nc.label, payloadsDesc(sent), why)
		return false
	}
	return true
}
