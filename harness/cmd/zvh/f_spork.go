package main

import (
	"fmt"
	"sort"
	"strings"

	"github.com/zenon-network/go-zenon/common/types"
	"github.com/zenon-network/go-zenon/vm/constants"
	"github.com/zenon-network/go-zenon/vm/embedded"
	"github.com/zenon-network/go-zenon/vm/embedded/definition"
	"github.com/zenon-network/go-zenon/vm/vm_context"
)

// regimeCtx answers only the three spork questions GetEmbeddedMethod asks.
type regimeCtx struct {
	vm_context.AccountVmContext
	acc, bridge, htlc bool
}

func (r *regimeCtx) IsAcceleratorSporkEnforced() bool        { return r.acc }
func (r *regimeCtx) IsBridgeAndLiquiditySporkEnforced() bool { return r.bridge }
func (r *regimeCtx) IsHtlcSporkEnforced() bool               { return r.htlc }

// methodTableRows: for each of the 8 spork regimes, every (contract, method) the REAL GetEmbeddedMethod resolves,
// with the plasma the method asks for. Regime index = acc + 2*bridge + 4*htlc.
func methodTableRows() [][4]string {
	var rows [][4]string
	for regime := 0; regime < 8; regime++ {
		ctx := &regimeCtx{acc: regime&1 != 0, bridge: regime&2 != 0, htlc: regime&4 != 0}
		for _, ca := range allContractABIs {
			for _, name := range sortedMethodNames(ca.abi) {
				m := ca.abi.Methods[name]
				method, err := embedded.GetEmbeddedMethod(ctx, ca.addr, m.Id())
				if err != nil {
					continue
				}
				plasma, _ := method.GetPlasma(&constants.AlphanetPlasmaTable)
				rows = append(rows, [4]string{fmt.Sprint(regime), embeddedNames[ca.addr][2:], name, fmt.Sprint(plasma)})
			}
		}
	}
	sort.Slice(rows, func(i, j int) bool { return strings.Join(rows[i][:], "|") < strings.Join(rows[j][:], "|") })
	return rows
}

func init() {
	factGens = append(factGens, func(repo string) (*factFile, error) {
		f := newFactFile("Spork")
		f.nat("SporkMinHeightDelay", constants.SporkMinHeightDelay)
		f.nat("CommunitySporkAddressStartHeight", definition.CommunitySporkAddressStartHeight)
		f.nat("CommunitySporkAddressEndHeight", definition.CommunitySporkAddressEndHeight)
		f.nat("implementedSporkCount", len(types.ImplementedSporksMap))
		rows := methodTableRows()
		// every (contract, method) that is resolved in at least one regime gets an index
		keyIdx := map[string]int{}
		var keys []string
		for _, r := range rows {
			k := r[1] + "." + r[2]
			if _, ok := keyIdx[k]; !ok {
				keyIdx[k] = -1
				keys = append(keys, k)
			}
		}
		sort.Strings(keys)
		for i, k := range keys {
			keyIdx[k] = i
		}
		f.strList("methodNames", keys)
		f.raw("-- (regime, method index, plasma) resolved by the real embedded.GetEmbeddedMethod; regime = acc + 2*bridge + 4*htlc\n")
		f.raw("def methodTable : List (Nat × Nat × Nat) := [\n")
		for i, r := range rows {
			sep := ","
			if i == len(rows)-1 {
				sep = ""
			}
			f.raw("  (%s, %d, %s)%s\n", r[0], keyIdx[r[1]+"."+r[2]], r[3], sep)
		}
		f.raw("]\n")
		// the harness's own REVIEWED gate table (s_spork_gate.go: the reference of the stream's monitors), printed so that
		// Props/C17Table.lean can prove it equal to the reviewed table of the model
		var gk []string
		for k := range sporkGateTable {
			gk = append(gk, k)
		}
		sort.Strings(gk)
		f.raw("-- harness/cmd/zvh/s_spork_gate.go sporkGateTable / sporkReceiveGated (the monitors' reference; NOT derived from /repo)\n")
		f.raw("def harnessGateTable : List (String × Nat) := [")
		for i, k := range gk {
			if i > 0 {
				f.raw(", ")
			}
			f.raw("(%q, %d)", k, sporkGateTable[k])
		}
		f.raw("]\n")
		var rg []string
		for k := range sporkReceiveGated {
			rg = append(rg, k)
		}
		sort.Strings(rg)
		f.strList("harnessReceiveGated", rg)
		return f, nil
	})
}
