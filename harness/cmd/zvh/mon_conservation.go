package main

import (
	"fmt"
	"math/big"
	"sort"
	"strings"

	"github.com/zenon-network/go-zenon/chain"
	g "github.com/zenon-network/go-zenon/chain/genesis/mock"
	"github.com/zenon-network/go-zenon/chain/nom"
	"github.com/zenon-network/go-zenon/common/types"
	"github.com/zenon-network/go-zenon/vm/embedded/definition"
)

// ---------------------------------------------------------------------------------------------------
// consMonitor: property C01 on a running node, model-free, shared by the contract-heavy streams (autoreceive, contract).
//
// The sentence: for every token the token contract records, recorded TotalSupply = sum of the balances of ALL accounts
// (users and embedded contracts) + sum of the amounts of the sends that are confirmed and not yet received, and
// TotalSupply <= MaxSupply; nobody holds a token the contract does not record. "Every embedded-contract call, including
// failed calls that are refunded, leaves the sum unchanged."
//
// The monitor keeps NO model of what the calls do. It reads the chain itself: every momentum from the genesis momentum to
// the frontier is walked once (incrementally), every send block in it (user sends, contract sends = descendants) enters the
// in-flight set, every receive block takes the send it names out of it; the accounts are all addresses that ever appear
// as the account or the destination of a confirmed block, the mock genesis key pairs and the embedded contracts (an
// account gets a balance only through a block of its own). Balances and recorded supplies are read from the real stores
// at the frontier momentum (checkConfirmed) or at the pool frontier (checkPool: the frontier account stores, which
// include the unconfirmed blocks, with the pooled sends / receives applied to the in-flight set).
// A rollback (frontier no longer on top of the last momentum walked) makes the walk start again from the genesis momentum.
// ---------------------------------------------------------------------------------------------------

type consSend struct {
	hash   types.Hash
	from   types.Address
	to     types.Address
	tok    types.ZenonTokenStandard
	amount *big.Int
	height uint64 // confirming momentum
}

// consNode: the node whose chain is read - the producing mock node (*Node) or a follower fed by a peer (*zFollower)
type consNode interface {
	Chain() chain.Chain
	Height() uint64
}

type consMonitor struct {
	c        *Ctx
	n        consNode
	tag      string
	last     types.HashHeight
	inflight map[types.Hash]*consSend
	addrs    map[types.Address]bool
	failed   bool
	// balances of every account at the frontier momentum m.confAt, as read by the last walk over all accounts: the pool-state
	// check re-reads (from the frontier account stores) only the accounts that have unconfirmed blocks - for every other
	// account the pool state IS the confirmed state
	confBal map[types.Address]map[types.ZenonTokenStandard]*big.Int
	confTok []*definition.TokenInfo // the token contract's records at m.confAt (re-read at the pool state when the token contract has unconfirmed blocks)
	confAt  types.HashHeight
	dirty   map[types.Address]bool // accounts with blocks in the momentums walked since m.confAt
	nconf   int
	// preGate: below verifier.ReceiverMismatchEnforcementHeight (known finding F8) the failure lines carry the F8 tag
	preGate bool
}

func newConsMonitor(c *Ctx, n consNode, tag string) *consMonitor {
	m := &consMonitor{c: c, n: n, tag: tag}
	m.reset()
	return m
}

func (m *consMonitor) reset() {
	m.last = types.HashHeight{}
	m.inflight = map[types.Hash]*consSend{}
	m.addrs = map[types.Address]bool{}
	m.confBal, m.confAt = nil, types.HashHeight{}
	m.dirty = map[types.Address]bool{}
	for _, kp := range g.AllKeyPairs {
		m.addrs[kp.Address] = true
	}
	for a := range embeddedNames {
		m.addrs[a] = true
	}
}

// catchUp walks the momentums confirmed since the last call.
func (m *consMonitor) catchUp() error {
	store := m.n.Chain().GetFrontierMomentumStore()
	fr := store.Identifier()
	if m.last.Height != 0 {
		if m.last.Height > fr.Height {
			m.reset()
		} else if at, err := store.GetMomentumByHeight(m.last.Height); err != nil || at == nil || at.Hash != m.last.Hash {
			m.reset()
		}
	}
	for h := m.last.Height + 1; h <= fr.Height; h++ {
		mom, err := store.GetMomentumByHeight(h)
		if err != nil || mom == nil {
			return fmt.Errorf("momentum %d: %v", h, err)
		}
		dm, err := store.PrefetchMomentum(mom)
		if err != nil {
			return fmt.Errorf("blocks of momentum %d: %v", h, err)
		}
		seen := map[types.Hash]bool{}
		var all []*nom.AccountBlock
		var walk func(b *nom.AccountBlock)
		walk = func(b *nom.AccountBlock) {
			if b == nil || seen[b.Hash] {
				return
			}
			seen[b.Hash] = true
			all = append(all, b)
			for _, d := range b.DescendantBlocks {
				walk(d)
			}
		}
		for _, b := range dm.AccountBlocks {
			walk(b)
		}
		for _, b := range all {
			m.addrs[b.Address] = true
			m.dirty[b.Address] = true
			if b.IsSendBlock() {
				m.addrs[b.ToAddress] = true
				m.inflight[b.Hash] = &consSend{hash: b.Hash, from: b.Address, to: b.ToAddress, tok: b.TokenStandard, amount: new(big.Int).Set(b.Amount), height: h}
			}
		}
		for _, b := range all {
			if b.IsReceiveBlock() {
				delete(m.inflight, b.FromBlockHash)
			}
		}
		m.last = mom.Identifier()
	}
	return nil
}

type consSums struct {
	bal, fly map[types.ZenonTokenStandard]*big.Int
}

func (s *consSums) add(into map[types.ZenonTokenStandard]*big.Int, t types.ZenonTokenStandard, v *big.Int) {
	if v == nil {
		return
	}
	if into[t] == nil {
		into[t] = new(big.Int)
	}
	into[t].Add(into[t], v)
}

func (m *consMonitor) fail(format string, a ...interface{}) {
	m.failed = true
	tag := "C01"
	if m.preGate {
		tag = "C01 pre-enforcement-height"
	}
	m.c.Fail("%s conservation (%s) h=%d: %s", tag, m.tag, m.n.Height(), fmt.Sprintf(format, a...))
}

// judge compares the sums with the recorded supplies.
func (m *consMonitor) judge(state, why string, s *consSums, recorded []*definition.TokenInfo, naccounts int, flying []*consSend) bool {
	ok := true
	known := map[types.ZenonTokenStandard]bool{}
	recorded = append([]*definition.TokenInfo{}, recorded...)
	sort.Slice(recorded, func(i, j int) bool {
		return string(recorded[i].TokenStandard[:]) < string(recorded[j].TokenStandard[:])
	})
	z := new(big.Int)
	get := func(mm map[types.ZenonTokenStandard]*big.Int, t types.ZenonTokenStandard) *big.Int {
		if v := mm[t]; v != nil {
			return v
		}
		return z
	}
	for _, t := range recorded {
		known[t.TokenStandard] = true
		b, f := get(s.bal, t.TokenStandard), get(s.fly, t.TokenStandard)
		sum := new(big.Int).Add(b, f)
		if sum.Cmp(t.TotalSupply) != 0 {
			ok = false
			var fl []string
			for _, x := range flying {
				if x.tok == t.TokenStandard && x.amount.Sign() != 0 {
					fl = append(fl, fmt.Sprintf("%s->%s:%s", addrName(x.from), addrName(x.to), amt(x.amount)))
				}
			}
			sort.Strings(fl)
			if len(fl) > 6 {
				fl = append(fl[:6], fmt.Sprintf("...(%d more)", len(fl)-6))
			}
			m.fail("%s, %s: token %s: recorded supply %s, but balances of all %d accounts (%s) + confirmed-unreceived sends (%s) = %s: difference %s [max supply %s; in flight: %s]",
				why, state, tokName(t.TokenStandard), amt(t.TotalSupply), naccounts, amt(b), amt(f), amt(sum),
				amt(new(big.Int).Sub(sum, t.TotalSupply)), amt(t.MaxSupply), strings.Join(fl, " "))
		}
		if t.MaxSupply == nil || t.TotalSupply.Cmp(t.MaxSupply) > 0 {
			ok = false
			m.fail("%s: token %s recorded supply %s exceeds its max supply %s ; %s", state, tokName(t.TokenStandard), amt(t.TotalSupply), amt(t.MaxSupply), why)
		}
	}
	for _, mm := range []map[types.ZenonTokenStandard]*big.Int{s.bal, s.fly} {
		var ts []types.ZenonTokenStandard
		for t := range mm {
			ts = append(ts, t)
		}
		sort.Slice(ts, func(i, j int) bool { return string(ts[i][:]) < string(ts[j][:]) })
		for _, t := range ts {
			if !known[t] && mm[t].Sign() != 0 {
				ok = false
				known[t] = true
				m.fail("%s: accounts / unreceived sends hold %s of token %s for which the token contract records no supply ; %s", state, amt(new(big.Int).Add(get(s.bal, t), get(s.fly, t))), tokName(t), why)
			}
		}
	}
	return ok
}

func (m *consMonitor) sortedAddrs() []types.Address {
	addrs := make([]types.Address, 0, len(m.addrs))
	for a := range m.addrs {
		addrs = append(addrs, a)
	}
	sort.Slice(addrs, func(i, j int) bool { return string(addrs[i][:]) < string(addrs[j][:]) })
	return addrs
}

// readConfirmed reads the balances at the frontier momentum m.last: of ALL accounts on every 8th call (and on the first one,
// after a rollback and when asked to), in between only of the accounts that have blocks in the momentums walked since the
// last read (and the token records only when the token contract is one of them).
func (m *consMonitor) readConfirmed(full bool) error {
	store := m.n.Chain().GetFrontierMomentumStore()
	if id := store.Identifier(); id != m.last {
		return fmt.Errorf("the frontier moved while the ledger was being read (%d -> %d)", m.last.Height, id.Height)
	}
	m.nconf++
	if m.confBal == nil || m.nconf%8 == 0 {
		full = true
	}
	if full {
		m.confBal = map[types.Address]map[types.ZenonTokenStandard]*big.Int{}
		m.c.Hit("c01-conservation-full-read")
	}
	for a := range m.addrs {
		if _, have := m.confBal[a]; have && !m.dirty[a] {
			continue
		}
		bm, err := store.GetAccountStore(a).GetBalanceMap()
		if err != nil {
			return fmt.Errorf("balances of %s: %v", addrName(a), err)
		}
		m.confBal[a] = bm
	}
	if full || m.confTok == nil || m.dirty[types.TokenContract] {
		recorded, err := definition.GetTokenInfoList(store.GetAccountStore(types.TokenContract).Storage())
		if err != nil {
			return fmt.Errorf("token list: %v", err)
		}
		m.confTok = recorded
	}
	m.dirty = map[types.Address]bool{}
	m.confAt = m.last
	return nil
}

// checkConfirmed: the equality at the frontier momentum (confirmed ledger). `why` says what the history just did.
func (m *consMonitor) checkConfirmed(why string) bool { return m.checkConfirmedX(why, false) }

// checkConfirmedFull: the same with every account re-read (end of a history)
func (m *consMonitor) checkConfirmedFull(why string) bool { return m.checkConfirmedX(why, true) }

func (m *consMonitor) checkConfirmedX(why string, full bool) bool {
	ok := true
	if p := safely(func() {
		if err := m.catchUp(); err != nil {
			m.fail("cannot walk the chain: %v ; %s", err, why)
			ok = false
			return
		}
		s := &consSums{bal: map[types.ZenonTokenStandard]*big.Int{}, fly: map[types.ZenonTokenStandard]*big.Int{}}
		addrs := m.sortedAddrs()
		if err := m.readConfirmed(full); err != nil {
			m.fail("%v ; %s", err, why)
			ok = false
			return
		}
		for _, a := range addrs {
			for t, v := range m.confBal[a] {
				if v.Sign() < 0 {
					m.fail("at momentum %d account %s holds the negative balance %s of %s ; %s", m.last.Height, addrName(a), amt(v), tokName(t), why)
					ok = false
				}
				s.add(s.bal, t, v)
			}
		}
		var flying []*consSend
		for _, x := range m.inflight {
			s.add(s.fly, x.tok, x.amount)
			flying = append(flying, x)
		}
		recorded := m.confTok
		if !m.judge(fmt.Sprintf("at momentum %d", m.last.Height), why, s, recorded, len(addrs), flying) {
			ok = false
		}
		m.c.Hit("c01-conservation-momentum-checked")
		m.c.HitN("c01-conservation-tokens-checked", len(recorded))
	}); p != "" {
		m.fail("reading the ledger panicked: %s ; %s", firstLine300(p), why)
		return false
	}
	return ok
}

// checkPool: the equality at the pool state: frontier account stores (confirmed + unconfirmed blocks), the confirmed
// in-flight set with the pooled receives taken out and the pooled sends that no pooled receive answers put in, the
// supplies as recorded by the token contract's own frontier storage.
func (m *consMonitor) checkPool(why string) bool {
	ok := true
	if p := safely(func() {
		if err := m.catchUp(); err != nil {
			m.fail("cannot walk the chain: %v ; %s", err, why)
			ok = false
			return
		}
		ch := m.n.Chain()
		seen := map[types.Hash]bool{}
		var pooled []*nom.AccountBlock
		var walk func(b *nom.AccountBlock)
		walk = func(b *nom.AccountBlock) {
			if b == nil || seen[b.Hash] {
				return
			}
			seen[b.Hash] = true
			pooled = append(pooled, b)
			for _, d := range b.DescendantBlocks {
				walk(d)
			}
		}
		for _, b := range ch.GetAllUncommittedAccountBlocks() {
			walk(b)
		}
		if m.confBal == nil || m.confAt != m.last {
			if err := m.readConfirmed(false); err != nil {
				m.fail("%v ; %s", err, why)
				ok = false
				return
			}
		}
		recvd := map[types.Hash]bool{}
		addrSet := map[types.Address]bool{}
		for a := range m.addrs {
			addrSet[a] = true
		}
		unconfirmed := map[types.Address]bool{} // accounts with blocks in the pool
		for _, b := range pooled {
			addrSet[b.Address] = true
			unconfirmed[b.Address] = true
			if b.IsSendBlock() {
				addrSet[b.ToAddress] = true
			} else if b.IsReceiveBlock() {
				recvd[b.FromBlockHash] = true
			}
		}
		s := &consSums{bal: map[types.ZenonTokenStandard]*big.Int{}, fly: map[types.ZenonTokenStandard]*big.Int{}}
		for a := range addrSet {
			bm, cached := m.confBal[a]
			if unconfirmed[a] || !cached {
				var err error
				bm, err = ch.GetFrontierAccountStore(a).GetBalanceMap()
				if err != nil {
					m.fail("pool-state balances of %s: %v ; %s", addrName(a), err, why)
					ok = false
					return
				}
			}
			for t, v := range bm {
				if v.Sign() < 0 {
					m.fail("pool state: account %s holds the negative balance %s of %s ; %s", addrName(a), amt(v), tokName(t), why)
					ok = false
				}
				s.add(s.bal, t, v)
			}
		}
		var flying []*consSend
		for _, x := range m.inflight {
			if !recvd[x.hash] {
				s.add(s.fly, x.tok, x.amount)
				flying = append(flying, x)
			}
		}
		for _, b := range pooled {
			if b.IsSendBlock() && !recvd[b.Hash] && m.inflight[b.Hash] == nil {
				s.add(s.fly, b.TokenStandard, b.Amount)
				flying = append(flying, &consSend{hash: b.Hash, from: b.Address, to: b.ToAddress, tok: b.TokenStandard, amount: b.Amount})
			}
		}
		recorded := m.confTok
		if unconfirmed[types.TokenContract] {
			var err error
			recorded, err = definition.GetTokenInfoList(ch.GetFrontierAccountStore(types.TokenContract).Storage())
			if err != nil {
				m.fail("pool-state token list: %v ; %s", err, why)
				ok = false
				return
			}
		}
		if !m.judge(fmt.Sprintf("pool state on top of momentum %d (%d unconfirmed blocks)", m.last.Height, len(pooled)), why, s, recorded, len(addrSet), flying) {
			ok = false
		}
		m.c.Hit("c01-conservation-pool-checked")
	}); p != "" {
		m.fail("reading the pool state panicked: %s ; %s", firstLine300(p), why)
		return false
	}
	return ok
}
