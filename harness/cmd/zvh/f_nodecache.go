package main

// Facts for C06 (node caches across a reorganisation, Model/NodeCache.lean), read from the AST of the working tree:
//
//   - consensus/points.go: every return statement, every assignment of endBlock / dbPoint / point and every call of the point
//     store made by the two GetPoint readers, each with the chain of if-conditions that guards it (an else branch is written
//     !(cond)) — so "a stored point is returned only under dbPoint != nil && !(dbPoint.EndHash != endBlock.Hash), where endBlock is
//     the tick's end block on the current chain" is a statement about generated values;
//   - consensus/election.go generateProducers: the same for the election cache (looked up and stored under the proof hash);
//   - the loops of points.InsertMomentum and the bodies of the two DeleteMomentum of the consensus layer;
//   - chain/momentum_pool.go RollbackTo: the statements of the loop body in source order (Pop before the delete broadcast);
//   - chain/account_pool.go DeleteMomentum and getAccountManager bodies; chain/momentum_events.go broadcastDeleteMomentum;
//     chain/chain.go registers the account pool as a listener.
//
// Log statements are left out (they may change without changing behaviour).

import (
	"fmt"
	"go/ast"
	"go/token"
	"strings"
)

type guarded struct {
	node   ast.Node
	guards []string
}

// walkGuarded visits every statement of a body (function literals excluded) with the conditions that guard it.
func walkGuarded(fset *token.FileSet, stmts []ast.Stmt, guards []string, visit func(s ast.Stmt, guards []string)) {
	for _, s := range stmts {
		visit(s, guards)
		switch x := s.(type) {
		case *ast.IfStmt:
			var walkIf func(i *ast.IfStmt, g []string)
			walkIf = func(i *ast.IfStmt, g []string) {
				c := exprStr(fset, i.Cond)
				pos := c // a disjunction is parenthesised, the guards of a statement are joined by &&
				if be, ok := i.Cond.(*ast.BinaryExpr); ok && be.Op == token.LOR {
					pos = "(" + c + ")"
				}
				walkGuarded(fset, i.Body.List, append(append([]string{}, g...), pos), visit)
				switch e := i.Else.(type) {
				case *ast.BlockStmt:
					walkGuarded(fset, e.List, append(append([]string{}, g...), "!("+c+")"), visit)
				case *ast.IfStmt:
					ng := append(append([]string{}, g...), "!("+c+")")
					visit(e, ng)
					walkIf(e, ng)
				}
			}
			walkIf(x, guards)
		case *ast.ForStmt:
			h := "for"
			if x.Cond != nil {
				h = "for " + exprStr(fset, x.Cond)
			}
			walkGuarded(fset, x.Body.List, append(append([]string{}, guards...), h), visit)
		case *ast.RangeStmt:
			walkGuarded(fset, x.Body.List, append(append([]string{}, guards...), "range "+exprStr(fset, x.X)), visit)
		case *ast.BlockStmt:
			walkGuarded(fset, x.List, guards, visit)
		case *ast.LabeledStmt:
			walkGuarded(fset, []ast.Stmt{x.Stmt}, guards, visit)
		case *ast.SwitchStmt:
			for _, cc := range x.Body.List {
				if c, ok := cc.(*ast.CaseClause); ok {
					walkGuarded(fset, c.Body, append(append([]string{}, guards...), "case "+exprStr(fset, x.Tag)), visit)
				}
			}
		}
	}
}

func isLogCall(fset *token.FileSet, s ast.Stmt) bool {
	es, ok := s.(*ast.ExprStmt)
	if !ok {
		return false
	}
	ce, ok := es.X.(*ast.CallExpr)
	if !ok {
		return false
	}
	f := exprStr(fset, ce.Fun)
	return strings.Contains(f, ".log.") || strings.HasPrefix(f, "log.")
}

// stmtHead prints a statement without the bodies of its blocks.
func stmtHead(fset *token.FileSet, s ast.Stmt) string {
	switch x := s.(type) {
	case *ast.IfStmt:
		h := "if "
		if x.Init != nil {
			h += exprStr(fset, x.Init) + "; "
		}
		return h + exprStr(fset, x.Cond)
	case *ast.ForStmt:
		h := "for "
		if x.Init != nil {
			h += exprStr(fset, x.Init)
		}
		h += "; "
		if x.Cond != nil {
			h += exprStr(fset, x.Cond)
		}
		h += "; "
		if x.Post != nil {
			h += exprStr(fset, x.Post)
		}
		return h
	case *ast.RangeStmt:
		return "range " + exprStr(fset, x.X)
	}
	return exprStr(fset, s)
}

func leanTriples(name string, rows [][3]string) string {
	var b strings.Builder
	fmt.Fprintf(&b, "def %s : List (String × String × String) := [", name)
	for i, r := range rows {
		if i > 0 {
			b.WriteString(",")
		}
		fmt.Fprintf(&b, "\n  (%q, %q, %q)", r[0], r[1], r[2])
	}
	b.WriteString("\n]\n")
	return b.String()
}

// cacheShape extracts returns / watched assignments / watched calls of one function, each with its guards.
func cacheShape(fset *token.FileSet, fd *ast.FuncDecl, tag string, watchAssign map[string]bool, watchCall func(string) bool) (rets, assigns, calls [][3]string) {
	walkGuarded(fset, fd.Body.List, nil, func(s ast.Stmt, guards []string) {
		g := strings.Join(guards, " && ")
		switch x := s.(type) {
		case *ast.ReturnStmt:
			rs := make([]string, len(x.Results))
			for i, r := range x.Results {
				rs[i] = exprStr(fset, r)
			}
			rets = append(rets, [3]string{tag, strings.Join(rs, ", "), g})
		case *ast.AssignStmt:
			if len(x.Lhs) >= 1 && len(x.Rhs) == 1 {
				if id, ok := x.Lhs[0].(*ast.Ident); ok && watchAssign[id.Name] {
					assigns = append(assigns, [3]string{tag, id.Name + " " + x.Tok.String() + " " + exprStr(fset, x.Rhs[0]), g})
				}
			}
		}
		// calls made directly by this statement (not by statements nested in its blocks, which are visited on their own)
		var exprs []ast.Node
		switch x := s.(type) {
		case *ast.ExprStmt:
			exprs = append(exprs, x.X)
		case *ast.AssignStmt:
			for _, r := range x.Rhs {
				exprs = append(exprs, r)
			}
		case *ast.IfStmt:
			if x.Init != nil {
				exprs = append(exprs, x.Init)
			}
			exprs = append(exprs, x.Cond)
		case *ast.ReturnStmt:
			for _, r := range x.Results {
				exprs = append(exprs, r)
			}
		case *ast.DeferStmt:
			exprs = append(exprs, x.Call)
		case *ast.GoStmt:
			exprs = append(exprs, x.Call)
		}
		for _, e := range exprs {
			ast.Inspect(e, func(n ast.Node) bool {
				if _, ok := n.(*ast.FuncLit); ok {
					return false
				}
				if ce, ok := n.(*ast.CallExpr); ok && watchCall(exprStr(fset, ce.Fun)) {
					calls = append(calls, [3]string{tag, exprStr(fset, ce), g})
				}
				return true
			})
		}
	})
	return
}

func bodyStmts(fset *token.FileSet, list []ast.Stmt) []string {
	var out []string
	for _, s := range list {
		if isLogCall(fset, s) {
			continue
		}
		out = append(out, exprStr(fset, s))
	}
	return out
}

func init() {
	factGens = append(factGens, func(repo string) (*factFile, error) {
		f := newFactFile("NodeCache")

		// ---- consensus/points.go ---------------------------------------------------------------------------------
		fset, pf, err := parseFile(repo, "consensus/points.go")
		if err != nil {
			return nil, err
		}
		var rets, assigns, calls [][3]string
		for _, recv := range []string{"compoundPoints", "periodPoints"} {
			fd := findFunc(pf, recv, "GetPoint")
			if fd == nil || fd.Body == nil {
				return nil, fmt.Errorf("consensus/points.go: func (*%s) GetPoint not found", recv)
			}
			r, a, c := cacheShape(fset, fd, recv, map[string]bool{"endBlock": true, "dbPoint": true, "point": true},
				func(fn string) bool {
					return strings.HasSuffix(fn, ".db.DeletePointByHeight") || strings.HasSuffix(fn, ".db.StorePointByHeight") ||
						strings.HasSuffix(fn, ".db.GetPointByHeight")
				})
			rets, assigns, calls = append(rets, r...), append(assigns, a...), append(calls, c...)
		}
		f.raw("-- consensus/points.go, the two GetPoint readers (AST of the working tree): (receiver, what, guarding conditions)\n")
		f.raw("%s", leanTriples("GetPointReturns", rets))
		f.raw("%s", leanTriples("GetPointAssigns", assigns))
		f.raw("%s", leanTriples("GetPointDbCalls", calls))

		im := findFunc(pf, "points", "InsertMomentum")
		if im == nil || im.Body == nil {
			return nil, fmt.Errorf("consensus/points.go: points.InsertMomentum not found")
		}
		var loops [][3]string
		for _, s := range im.Body.List {
			fs, ok := s.(*ast.ForStmt)
			if !ok {
				continue
			}
			var gp []string
			ast.Inspect(fs.Body, func(n ast.Node) bool {
				if ce, ok := n.(*ast.CallExpr); ok && strings.HasSuffix(exprStr(fset, ce.Fun), ".GetPoint") {
					gp = append(gp, exprStr(fset, ce))
				}
				return true
			})
			loops = append(loops, [3]string{"points.InsertMomentum", stmtHead(fset, fs), strings.Join(gp, "; ")})
		}
		f.raw("-- points.InsertMomentum: (function, loop header, GetPoint calls in the loop body)\n")
		f.raw("%s", leanTriples("PointsInsertLoops", loops))
		var imAssigns []string
		walkGuarded(fset, im.Body.List, nil, func(s ast.Stmt, guards []string) {
			if as, ok := s.(*ast.AssignStmt); ok && len(as.Lhs) == 1 {
				l := exprStr(fset, as.Lhs[0])
				if l == "p.lastCompletedPeriod" || l == "p.lastCompletedEpoch" || l == "tick" || l == "epochTick" {
					imAssigns = append(imAssigns, strings.Join(guards, " && ")+" => "+exprStr(fset, as))
				}
			}
		})
		f.strList("PointsInsertAssigns", imAssigns)
		pd := findFunc(pf, "points", "DeleteMomentum")
		if pd == nil || pd.Body == nil {
			return nil, fmt.Errorf("consensus/points.go: points.DeleteMomentum not found")
		}
		f.strList("PointsDeleteMomentumStmts", bodyStmts(fset, pd.Body.List))

		// ---- consensus/election.go -------------------------------------------------------------------------------
		fset2, ef, err := parseFile(repo, "consensus/election.go")
		if err != nil {
			return nil, err
		}
		gp := findFunc(ef, "electionManager", "generateProducers")
		if gp == nil || gp.Body == nil {
			return nil, fmt.Errorf("consensus/election.go: electionManager.generateProducers not found")
		}
		er, ea, ec := cacheShape(fset2, gp, "generateProducers", map[string]bool{"hashH": true, "cached": true, "electionData": true},
			func(fn string) bool {
				return strings.HasSuffix(fn, ".db.GetElectionResultByHash") || strings.HasSuffix(fn, ".db.StoreElectionResultByHash")
			})
		f.raw("-- consensus/election.go generateProducers (AST of the working tree)\n")
		f.raw("%s", leanTriples("ElectionReturns", er))
		f.raw("%s", leanTriples("ElectionAssigns", ea))
		f.raw("%s", leanTriples("ElectionDbCalls", ec))
		ed := findFunc(ef, "electionManager", "DeleteMomentum")
		if ed == nil || ed.Body == nil {
			return nil, fmt.Errorf("consensus/election.go: electionManager.DeleteMomentum not found")
		}
		f.strList("ElectionDeleteMomentumStmts", bodyStmts(fset2, ed.Body.List))

		// ---- chain/momentum_pool.go RollbackTo -------------------------------------------------------------------
		fset3, mf, err := parseFile(repo, "chain/momentum_pool.go")
		if err != nil {
			return nil, err
		}
		rb := findFunc(mf, "momentumPool", "RollbackTo")
		if rb == nil || rb.Body == nil {
			return nil, fmt.Errorf("chain/momentum_pool.go: momentumPool.RollbackTo not found")
		}
		var loop *ast.ForStmt
		nloops := 0
		for _, s := range rb.Body.List {
			if fs, ok := s.(*ast.ForStmt); ok {
				loop = fs
				nloops++
			}
		}
		if nloops != 1 {
			return nil, fmt.Errorf("RollbackTo: expected one top-level for loop, found %d", nloops)
		}
		var body []string
		popAt, notifyAt := 0, 0 // 1-based positions among the loop body's statements (log calls left out), 0 = not found
		for _, s := range loop.Body.List {
			if isLogCall(fset3, s) {
				continue
			}
			body = append(body, exprStr(fset3, s))
			txt := stmtHead(fset3, s)
			if strings.Contains(txt, "c.chainManager.Pop()") && popAt == 0 {
				popAt = len(body)
			}
			if strings.Contains(txt, "c.broadcastDeleteMomentum(") && notifyAt == 0 {
				notifyAt = len(body)
			}
		}
		// how often the two calls occur anywhere in RollbackTo (a second, differently ordered occurrence must not hide)
		npop, nnot := 0, 0
		ast.Inspect(rb.Body, func(n ast.Node) bool {
			if ce, ok := n.(*ast.CallExpr); ok {
				switch exprStr(fset3, ce.Fun) {
				case "c.chainManager.Pop":
					npop++
				case "c.broadcastDeleteMomentum":
					nnot++
				}
			}
			return true
		})
		f.raw("-- chain/momentum_pool.go RollbackTo: the statements of the loop body (log calls left out), the 1-based position of the\n")
		f.raw("-- statement that pops the ledger and of the one that tells the listeners (0 = not a statement of the loop body), and how\n")
		f.raw("-- often each call occurs in the whole function\n")
		f.strList("RollbackToLoopBody", body)
		f.nat("RollbackToPopAt", popAt)
		f.nat("RollbackToNotifyAt", notifyAt)
		f.nat("RollbackToPopCalls", npop)
		f.nat("RollbackToNotifyCalls", nnot)

		// ---- chain/account_pool.go -------------------------------------------------------------------------------
		fset4, af, err := parseFile(repo, "chain/account_pool.go")
		if err != nil {
			return nil, err
		}
		dm := findFunc(af, "accountPool", "DeleteMomentum")
		gm := findFunc(af, "accountPool", "getAccountManager")
		if dm == nil || dm.Body == nil || gm == nil || gm.Body == nil {
			return nil, fmt.Errorf("chain/account_pool.go: DeleteMomentum / getAccountManager not found")
		}
		f.raw("-- chain/account_pool.go: bodies of DeleteMomentum and getAccountManager\n")
		f.strList("PoolDeleteMomentumStmts", bodyStmts(fset4, dm.Body.List))
		f.strList("PoolGetAccountManagerStmts", bodyStmts(fset4, gm.Body.List))

		// ---- chain/momentum_events.go, chain/chain.go ------------------------------------------------------------
		fset5, evf, err := parseFile(repo, "chain/momentum_events.go")
		if err != nil {
			return nil, err
		}
		bd := findFunc(evf, "momentumEventManager", "broadcastDeleteMomentum")
		if bd == nil || bd.Body == nil {
			return nil, fmt.Errorf("chain/momentum_events.go: broadcastDeleteMomentum not found")
		}
		f.strList("BroadcastDeleteMomentumStmts", bodyStmts(fset5, bd.Body.List))
		// the listener table itself: the pool and the consensus layer are told about a deleted momentum only while they are in it
		for _, fn := range [][2]string{{"broadcastInsertMomentum", "BroadcastInsertMomentumStmts"}, {"Register", "ListenerRegisterStmts"}, {"UnRegister", "ListenerUnRegisterStmts"}} {
			fd := findFunc(evf, "momentumEventManager", fn[0])
			if fd == nil || fd.Body == nil {
				return nil, fmt.Errorf("chain/momentum_events.go: %s not found", fn[0])
			}
			f.strList(fn[1], bodyStmts(fset5, fd.Body.List))
		}
		fset6, cf, err := parseFile(repo, "chain/chain.go")
		if err != nil {
			return nil, err
		}
		reg := false
		ast.Inspect(cf, func(n ast.Node) bool {
			if ce, ok := n.(*ast.CallExpr); ok && exprStr(fset6, ce) == "c.Register(c.accountPool)" {
				reg = true
			}
			return true
		})
		f.raw("def ChainRegistersAccountPool : Bool := %v\n", reg)
		return f, nil
	})
}
