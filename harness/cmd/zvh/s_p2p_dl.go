package main

// Part B of `p2p-net`, the tie to the Lean model of the downloader (ZenonVerif/Model/Downloader.lean, driver lean/Driver/Downloader.lean).
//
// Every scenario of s_p2p_sync.go records, in the vocabulary of the model, what its scripted peers DID and SAW, in the order it happened
// (one lock, wall-clock time in ticks of 100 ms = the period of fetchBlocks' ticker):
//
//	dl-ev <scenario> <token> …                                                      (no observation: the model executes the events)
//	dl-end <scenario> <target> <judged peers> <exact|hashes-only> <saw> | dropped=<…> synced=<bool|na> stalled=<bool>
//
//	init:<K>            a node at height K
//	t:<n>               n ticks have passed since the scenario started (the driver lets the model's time follow: tick + update each)
//	reg:<P>             peer P completed the status exchange (RegisterPeer)
//	dc:<P> / dcx:<P>    the node disconnected P with reason 3 (useless peer = ProtocolManager.removePeer); dcx: P is not judged
//	lv:<P>              P LEFT by itself (disconnect message / connection closed or reset / protocol error): the node unregisters it
//	                    (ProtocolManager.removePeer → UnregisterPeer); what it was asked for stays in flight until it times out. P is not judged
//	sync:<P>:<H>        P received the head probe of findAncestor (GetBlockHashesFromNumber{max(H-512,0), 512}): Synchronise(P) started, local height H
//	hp:<P>:<q><c>:<ids> P sent a BlockHashes pack; q = what the node's chain says about it as an answer to the ancestor search
//	                    (k: probe - one of the hashes is held / search - held at the height asked for; u: not held; w: held at another height);
//	                    c = what it answers (p: head probe, s: search step, f: download request, x: nothing);
//	                    ids: the heights the hashes belong to (a hash of no momentum: 100000+n), `-` = empty
//	bq:<P>:<ids>        P received a GetBlocks request for these hashes
//	bp:<P>:<items>      P sent a Blocks pack; item = <id>:<h><w><v> — h: ComputeHash() == Hash, w: Height inside the window, v: the bytes are
//	                    the producer's; `-` = empty (handler.go does not hand an empty pack to the downloader)
//
// The observation of `dl-end` is what the scenario saw on the wire and on the node: which of the JUDGED peers the node disconnected,
// whether the node reached the height of the honest peer, whether the liveness monitor gave up (class=sync-stalled). The driver replays
// the events through `Dl.step Cfg.fixed` and answers the same three facts from the model state: the drops the model decided (time-out of
// a hash request, empty / stale / malformed hash packs, forged block, failed import, nobody left to ask), `head ≥ target`, `stuck`.
// Exact times are not compared.
//
// A peer-side observer cannot order everything the way the node saw it. (1) A block pack that is not THE answer to a request (a
// bystander's unsolicited pack, a second answer) may cross the node's next request to that peer; which request it meets — and with it
// whether the request is cancelled, the peer stays busy, the synchronisation runs out of peers — is decided by the node's `select`.
// Likewise a hash announced again after its block was sent: new or stale, as the hash fetcher or the block fetcher comes first.
// A scenario in which such a non-empty pack is sent once block requests are out is therefore replayed on the HASH LEVEL only (its bq /
// bp tokens are left out, mode `hashes-only`, synced=na) and the sender of such a pack is not judged; neither is the bystander.
// (2) Slack of the exact replay, each an event the node's own log would show at that place: a request that names hashes the model still
// has in flight at another peer is preceded by `requeue` of that peer (the node had the request back already: it expired a tick
// earlier), a request to a peer the model holds busy by an out-of-bound pack of that peer, a head probe while the model holds a
// run by up to 10 ticks and then `cancel` (the run ended: the record of its start was late, or no peers left / cancelled), a
// disconnect by an update; a hash time-out that is at most 10 ticks away when the trace ends is let fire.
// (3) WHEN the node registers a peer is not visible on the wire (`reg` is written when the status message has been sent): whether that
// peer counts when the node finds "nobody left to ask" / "no peers" in that moment is open until the node's first action towards it. The
// driver runs the model with the registrations as recorded, as late as possible and up to 10 ticks earlier, and accepts the observation
// when one of the three runs yields it (`<saw>` in front of the bar repeats the observation for that choice; otherwise the answer is the
// run as recorded).

import (
	"bytes"
	"fmt"
	"sort"
	"strings"
	"sync"
	"time"

	"github.com/zenon-network/go-zenon/chain/nom"
	"github.com/zenon-network/go-zenon/common/types"
)

type dlEvent struct {
	at  time.Duration
	seq int
	tok string
}

type dlRec struct {
	mu      sync.Mutex
	evs     []dlEvent
	junk    map[types.Hash]int
	lastReq map[*ethPeer][2]uint64 // the hash request a peer is answering right now (number, amount); amount 0 = none
	stalled bool
}

var dlRecs sync.Map // *syncScn -> *dlRec

func (s *syncScn) dl() *dlRec {
	if r, ok := dlRecs.Load(s); ok {
		return r.(*dlRec)
	}
	r, _ := dlRecs.LoadOrStore(s, &dlRec{junk: map[types.Hash]int{}, lastReq: map[*ethPeer][2]uint64{}})
	return r.(*dlRec)
}

func (r *dlRec) add(s *syncScn, format string, a ...interface{}) {
	r.evs = append(r.evs, dlEvent{time.Since(s.t0), len(r.evs), fmt.Sprintf(format, a...)})
}

// dlName: the role without what is in brackets is not unique (two scenarios use A(...) and B(...)): keep the role, make it one token.
func dlName(role string) string {
	return strings.NewReplacer(" ", "_", ":", "_", ",", "_", "|", "_").Replace(role)
}

func (s *syncScn) dlId(r *dlRec, h types.Hash) int {
	for i, d := range s.src {
		if d.Momentum.Hash == h {
			return i + 1
		}
	}
	if n, ok := r.junk[h]; ok {
		return n
	}
	n := 100000 + len(r.junk)
	r.junk[h] = n
	return n
}

// dlFixHeads: the local height a synchronisation started from decides the binary search of findAncestor (start, end := 0, head). The
// recorder reads the node's height when the head probe ARRIVES; while an import is running the height moves on between the node's
// reading and ours. The search requests the node sent tell which height it used: the height next to the recorded one (at most 16 below,
// 4 above) whose search — with the answers that were given — asks for exactly the recorded numbers and ends where the recorded one
// ended replaces it. The `hq` records are dropped.
func dlFixHeads(evs []dlEvent) []dlEvent {
	type step struct {
		num uint64
		q   string // answer: k / u / w, "" = not answered
	}
	consistent := func(head uint64, steps []step, from uint64, haveFrom bool) bool {
		lo, hi := uint64(0), head
		i := 0
		for lo+1 < hi {
			if i >= len(steps) {
				return !haveFrom // the trace ends inside the search
			}
			mid := (lo + hi) / 2
			if steps[i].num != mid {
				return false
			}
			switch steps[i].q {
			case "k":
				lo = mid
			case "u":
				hi = mid
			default:
				return i == len(steps)-1 && !haveFrom // wrong height / no answer: the search ends here
			}
			i++
		}
		return i == len(steps) && (!haveFrom || from == lo+1)
	}
	for i, e := range evs {
		f := strings.Split(e.tok, ":")
		if f[0] != "sync" {
			continue
		}
		var head uint64
		fmt.Sscan(f[2], &head)
		var steps []step
		var from uint64
		haveFrom, probeKnown, sawProbeAnswer := false, false, false
		for _, e2 := range evs[i+1:] {
			g := strings.Split(e2.tok, ":")
			if g[0] == "sync" {
				break
			}
			if len(g) < 3 || g[1] != f[1] {
				continue
			}
			if g[0] == "hq" {
				var num, amount uint64
				fmt.Sscan(g[2], &num)
				fmt.Sscan(g[3], &amount)
				if amount == 1 && !haveFrom {
					steps = append(steps, step{num: num})
				} else if !(num == 0 && amount == 512) && !haveFrom {
					from, haveFrom = num, true
				}
			}
			if g[0] == "hp" && len(g[2]) == 2 {
				switch g[2][1] {
				case 'p':
					if !sawProbeAnswer {
						sawProbeAnswer, probeKnown = true, g[2][0] == 'k' && g[3] != "-"
					}
				case 's':
					if n := len(steps); n > 0 && steps[n-1].q == "" && !haveFrom {
						steps[n-1].q = g[2][:1]
						if g[3] == "-" || strings.ContainsAny(g[3], ",-") {
							steps[n-1].q = "w" // not exactly one hash: the search ends with errBadPeer
						}
					}
				}
			}
		}
		if !probeKnown || consistent(head, steps, from, haveFrom) {
			continue
		}
		for d := uint64(1); d <= 16; d++ {
			if head > d && consistent(head-d, steps, from, haveFrom) {
				evs[i].tok = fmt.Sprintf("sync:%s:%d", f[1], head-d)
				break
			}
			if d <= 4 && consistent(head+d, steps, from, haveFrom) {
				evs[i].tok = fmt.Sprintf("sync:%s:%d", f[1], head+d)
				break
			}
		}
	}
	var out []dlEvent
	for _, e := range evs {
		if !strings.HasPrefix(e.tok, "hq:") {
			out = append(out, e)
		}
	}
	return out
}

// dlExpand: the ids of a dlIds string, as strings.
func dlExpand(s string) []string {
	if s == "-" || s == "" {
		return nil
	}
	var out []string
	for _, part := range strings.Split(s, ",") {
		var a, b int
		if n, _ := fmt.Sscanf(part, "%d-%d", &a, &b); n == 2 {
			step := 1
			if b < a {
				step = -1
			}
			for v := a; v != b+step; v += step {
				out = append(out, fmt.Sprint(v))
			}
		} else {
			out = append(out, part)
		}
	}
	return out
}

// dlIds: comma separated, runs of consecutive ids (either direction) folded into a-b.
func dlIds(ids []int) string {
	if len(ids) == 0 {
		return "-"
	}
	var out []string
	for i := 0; i < len(ids); {
		j := i
		step := 0
		if j+1 < len(ids) && (ids[j+1] == ids[j]+1 || ids[j+1] == ids[j]-1) {
			step = ids[j+1] - ids[j]
			for j+1 < len(ids) && ids[j+1] == ids[j]+step {
				j++
			}
		}
		if j > i {
			out = append(out, fmt.Sprintf("%d-%d", ids[i], ids[j]))
		} else {
			out = append(out, fmt.Sprint(ids[i]))
		}
		i = j + 1
	}
	return strings.Join(out, ",")
}

func (s *syncScn) dlRegister(p *ethPeer) {
	r := s.dl()
	r.mu.Lock()
	defer r.mu.Unlock()
	r.add(s, "reg:%s", dlName(p.role))
}

// dlHashReq: P received GetBlockHashesFromNumber{number, amount}. The head probe of findAncestor asks for MaxHashFetch hashes from
// max(head-512, 0) = 0 (the chains here are shorter than 512); the download proper starts at the ancestor + 1 ≥ 1.
func (s *syncScn) dlHashReq(p *ethPeer, number, amount uint64) {
	r := s.dl()
	r.mu.Lock()
	defer r.mu.Unlock()
	r.lastReq[p] = [2]uint64{number, amount}
	if number == 0 && amount == 512 {
		r.add(s, "sync:%s:%d", dlName(p.role), s.height())
	}
	r.add(s, "hq:%s:%d:%d", dlName(p.role), number, amount) // (not part of the trace: used by dlFixHeads)
}

func (s *syncScn) dlHashReqDone(p *ethPeer) {
	r := s.dl()
	r.mu.Lock()
	defer r.mu.Unlock()
	delete(r.lastReq, p)
}

func (s *syncScn) dlHashes(p *ethPeer, hs []types.Hash) {
	r := s.dl()
	r.mu.Lock()
	defer r.mu.Unlock()
	ids := make([]int, len(hs))
	for i, h := range hs {
		ids[i] = s.dlId(r, h)
	}
	// what the node's chain (the genuine momentums 1…height) says about the pack as an answer to the ancestor search
	q, kind := "u", "x" // kind: answer to the head probe / a search step / a download request, x = not an answer
	H := s.height()
	req, answering := r.lastReq[p]
	if answering && req[1] == 1 {
		kind = "s"
		if len(ids) == 1 && ids[0] <= H {
			q = "w"
			if uint64(ids[0]) == req[0] {
				q = "k"
			}
		}
	} else {
		if answering {
			kind = "f"
			if req[0] == 0 && req[1] == 512 {
				kind = "p"
			}
		}
		for _, id := range ids {
			if id <= H {
				q = "k"
			}
		}
	}
	r.add(s, "hp:%s:%s%s:%s", dlName(p.role), q, kind, dlIds(ids))
}

func (s *syncScn) dlBlockReq(p *ethPeer, hs []types.Hash) {
	r := s.dl()
	r.mu.Lock()
	defer r.mu.Unlock()
	ids := make([]int, len(hs))
	for i, h := range hs {
		ids[i] = s.dlId(r, h)
	}
	sort.Ints(ids)
	r.add(s, "bq:%s:%s", dlName(p.role), dlIds(ids))
}

func (s *syncScn) dlBlocks(p *ethPeer, bs []*nom.DetailedMomentum) {
	r := s.dl()
	r.mu.Lock()
	defer r.mu.Unlock()
	if len(bs) == 0 {
		r.add(s, "bp:%s:-", dlName(p.role))
		return
	}
	items := make([]string, len(bs))
	for i, b := range bs {
		id := s.dlId(r, b.Momentum.Hash)
		bit := func(v bool) string {
			if v {
				return "1"
			}
			return "0"
		}
		hashOk := b.Momentum.ComputeHash() == b.Momentum.Hash
		inWin := b.Momentum.Height >= 1 && b.Momentum.Height <= 4096
		valid := id <= len(s.src) && bytes.Equal(mustRlp(b), mustRlp(s.src[id-1]))
		items[i] = fmt.Sprintf("%d:%s%s%s", id, bit(hashOk), bit(inWin), bit(valid))
	}
	r.add(s, "bp:%s:%s", dlName(p.role), strings.Join(items, ","))
}

func (s *syncScn) dlFail(class string) {
	if class == "sync-stalled" {
		r := s.dl()
		r.mu.Lock()
		r.stalled = true
		r.mu.Unlock()
	}
}

// dlEmit writes the trace of the scenario and its outcome.
func (s *syncScn) dlEmit() {
	r := s.dl()
	s.mu.Lock()
	ps := append([]*ethPeer{}, s.peers...)
	s.mu.Unlock()
	r.mu.Lock()
	defer r.mu.Unlock()
	defer dlRecs.Delete(s)
	if len(r.evs) == 0 {
		return
	}
	end := time.Since(s.t0)
	sort.SliceStable(r.evs, func(i, j int) bool { return r.evs[i].seq < r.evs[j].seq })
	r.evs = dlFixHeads(r.evs)
	// Which request a block pack meets at the node is decided by the node's scheduler when the pack was not sent as THE answer to a
	// request (a bystander's unsolicited pack, a second answer): it may cross the next request on the wire. A scenario in which such a
	// pack is sent once block requests are out is replayed on the hash level only, and its sender is not judged.
	racy := false
	racySender := map[string]bool{}
	owed := map[string]int{}
	seenBq := false
	// (the same holds for a hash that is announced again after its block was delivered: whether queue.Insert takes it as new depends on
	// whether the block fetcher has filed the delivery when the hash fetcher reads the pack — two goroutines)
	announced := map[string]bool{}      // announced in a download pack of the running synchronisation
	deliveredSince := map[string]bool{} // …and a block under that hash was sent afterwards
	for _, e := range r.evs {
		f := strings.SplitN(e.tok, ":", 4)
		switch f[0] {
		case "sync":
			announced, deliveredSince = map[string]bool{}, map[string]bool{}
		case "hp":
			if strings.HasSuffix(f[2], "f") {
				for _, id := range dlExpand(f[3]) {
					if announced[id] && deliveredSince[id] {
						racy = true
						racySender[f[1]] = true
					}
					announced[id], deliveredSince[id] = true, false
				}
			}
		case "bq":
			seenBq = true
			owed[f[1]]++
		case "bp":
			rest := strings.Join(f[2:], ":")
			for _, it := range strings.Split(rest, ",") {
				if id := strings.SplitN(it, ":", 2)[0]; announced[id] {
					deliveredSince[id] = true
				}
			}
			if owed[f[1]] > 0 {
				owed[f[1]]--
			} else if seenBq && rest != "-" {
				racy = true
				racySender[f[1]] = true
			}
		}
	}
	if racy {
		var keep []dlEvent
		for _, e := range r.evs {
			if !strings.HasPrefix(e.tok, "bq:") && !strings.HasPrefix(e.tok, "bp:") {
				keep = append(keep, e)
			}
		}
		r.evs = keep
		s.n.hit("dl-traces-hash-level-only")
	} else {
		s.n.hit("dl-traces-exact")
	}
	var judged, dropped []string
	target := 0
	for _, p := range ps {
		name := dlName(p.role)
		p.rawPeer.mu.Lock()
		closed, why, at := p.rawPeer.closed, p.rawPeer.discWhy, p.rawPeer.closedAt
		p.rawPeer.mu.Unlock()
		p.mu.Lock()
		left := p.left
		p.mu.Unlock()
		// (a peer that left by itself is not judged, and its departure is in the trace already: `lv`)
		byNode := closed && why == "disc 3" && !left
		unjudged := strings.HasPrefix(p.role, "B(bystander)") || racySender[name] || left
		if byNode {
			// (dc: a judged peer — the model has to come to the same decision on its own; dcx: a peer that is not judged — the model is told)
			tok := "dc:"
			if unjudged {
				tok = "dcx:"
			}
			r.evs = append(r.evs, dlEvent{at.Sub(s.t0), len(r.evs) + 1000000, tok + name})
		}
		if strings.HasPrefix(p.role, "H(") && len(p.chain) > target {
			target = len(p.chain)
		}
		if unjudged {
			continue
		}
		judged = append(judged, name)
		if byNode {
			dropped = append(dropped, name)
		}
	}
	sort.SliceStable(r.evs, func(i, j int) bool {
		if r.evs[i].at != r.evs[j].at {
			return r.evs[i].at < r.evs[j].at
		}
		return r.evs[i].seq < r.evs[j].seq
	})
	toks := []string{fmt.Sprintf("init:%d", s.K)}
	flush := func() {
		if len(toks) > 0 {
			s.n.emit("dl-ev %s %s", s.name, strings.Join(toks, " "))
			toks = nil
		}
	}
	last := int64(0)
	for _, e := range r.evs {
		if tk := int64(e.at / (100 * time.Millisecond)); tk > last {
			toks = append(toks, fmt.Sprintf("t:%d", tk))
			last = tk
		}
		toks = append(toks, e.tok)
		if len(toks) >= 24 {
			flush()
		}
	}
	if tk := int64(end / (100 * time.Millisecond)); tk > last {
		toks = append(toks, fmt.Sprintf("t:%d", tk))
	}
	flush()
	sort.Strings(judged)
	sort.Strings(dropped)
	lst := func(l []string) string {
		if len(l) == 0 {
			return "-"
		}
		return strings.Join(l, ",")
	}
	mode, synced := "exact", fmt.Sprint(target > 0 && s.height() >= target)
	if racy {
		mode, synced = "hashes-only", "na"
	}
	// (the observation is repeated in front of the bar as <dropped>/<synced>/<stalled>: the driver runs the model for the three orders of
	// registration a peer-side observer cannot tell apart and answers with the one that yields it, if any)
	s.n.emit("dl-end %s %d %s %s %s/%s/%v | dropped=%s synced=%s stalled=%v", s.name, target, lst(judged), mode, lst(dropped), synced, r.stalled,
		lst(dropped), synced, r.stalled)
	s.n.hit("dl-traces")
}
