package main

// Part B of `p2p-net`, the tie to the Lean model of the downloader (ZenonVerif/Model/Downloader.lean, driver lean/Driver/Downloader.lean).
//
// Every scenario of s_p2p_sync.go records, in the vocabulary of the model, what its scripted peers DID and SAW, in the order it happened
// (one lock, wall-clock time in ticks of 100 ms = the period of fetchBlocks' ticker):
//
//	dl-ev <scenario> <token> …                                       (no observation: the model executes the events)
//	dl-end <scenario> <target> <judged peers> | dropped=<…> synced=<bool> stalled=<bool>
//
//	init:<K>            a node at height K
//	t:<n>               n ticks have passed since the scenario started (the driver lets the model's time follow: tick + update each)
//	reg:<P>             peer P completed the status exchange (RegisterPeer)
//	dc:<P>              the node disconnected P with reason 3 (useless peer = ProtocolManager.removePeer)
//	sync:<P>:<H>        P received the head probe of findAncestor (GetBlockHashesFromNumber{max(H-512,0), 512}): Synchronise(P) started, local height H
//	hp:<P>:<q>:<ids>    P sent a BlockHashes pack; q = what the node's chain says about it as an answer to the ancestor search
//	                    (k: probe - one of the hashes is held / search - held at the height asked for; u: not held; w: held at another height);
//	                    ids: the heights the hashes belong to (a hash of no momentum: 100000+n), `-` = empty
//	bq:<P>:<ids>        P received a GetBlocks request for these hashes
//	bp:<P>:<items>      P sent a Blocks pack; item = <id>:<h><w><v> — h: ComputeHash() == Hash, w: Height inside the window, v: the bytes are
//	                    the producer's; `-` = empty (handler.go does not hand an empty pack to the downloader)
//
// The observation of `dl-end` is what the scenario saw on the wire and on the node: which of the JUDGED peers (every scripted peer except a
// bystander that sends unsolicited packs, whose fate depends on which of its packs crosses which request) the node disconnected, whether
// the node reached the height of the honest peer, whether the liveness monitor gave up (class=sync-stalled). The driver replays the events
// through `Dl.step Cfg.fixed` and answers the same three facts from the model state: the drops the model decided (time-out of a hash
// request, empty / stale / malformed hash packs, forged block, failed import, nobody left to ask), `head ≥ target`, `stuck`.
// Exact times are not compared. Two kinds of slack, both events a peer-side observer cannot order exactly: a request that names hashes
// the model still has in flight at another peer is preceded by `requeue` of that peer (the node had the request back already: expiry or a
// pack that crossed it), and a request to a peer the model holds busy without a request is preceded by an empty out-of-bound pack of
// that peer (the node saw one of its packs before the request it was counted against).

import (
	"bytes"
	"fmt"
	"sort"
	"strings"
	"sync"
	"time"

	"github.com/zenon-network/go-zenon/chain/nom"
	"github.com/zenon-network/go-zenon/common/types"
)

type dlEvent struct {
	at  time.Duration
	seq int
	tok string
}

type dlRec struct {
	mu      sync.Mutex
	evs     []dlEvent
	junk    map[types.Hash]int
	lastReq map[*ethPeer][2]uint64 // the hash request a peer is answering right now (number, amount); amount 0 = none
	stalled bool
}

var dlRecs sync.Map // *syncScn -> *dlRec

func (s *syncScn) dl() *dlRec {
	if r, ok := dlRecs.Load(s); ok {
		return r.(*dlRec)
	}
	r, _ := dlRecs.LoadOrStore(s, &dlRec{junk: map[types.Hash]int{}, lastReq: map[*ethPeer][2]uint64{}})
	return r.(*dlRec)
}

func (r *dlRec) add(s *syncScn, format string, a ...interface{}) {
	r.evs = append(r.evs, dlEvent{time.Since(s.t0), len(r.evs), fmt.Sprintf(format, a...)})
}

// dlName: the role without what is in brackets is not unique (two scenarios use A(...) and B(...)): keep the role, make it one token.
func dlName(role string) string {
	return strings.NewReplacer(" ", "_", ":", "_", ",", "_", "|", "_").Replace(role)
}

func (s *syncScn) dlId(r *dlRec, h types.Hash) int {
	for i, d := range s.src {
		if d.Momentum.Hash == h {
			return i + 1
		}
	}
	if n, ok := r.junk[h]; ok {
		return n
	}
	n := 100000 + len(r.junk)
	r.junk[h] = n
	return n
}

// dlIds: comma separated, runs of consecutive ids (either direction) folded into a-b.
func dlIds(ids []int) string {
	if len(ids) == 0 {
		return "-"
	}
	var out []string
	for i := 0; i < len(ids); {
		j := i
		step := 0
		if j+1 < len(ids) && (ids[j+1] == ids[j]+1 || ids[j+1] == ids[j]-1) {
			step = ids[j+1] - ids[j]
			for j+1 < len(ids) && ids[j+1] == ids[j]+step {
				j++
			}
		}
		if j > i {
			out = append(out, fmt.Sprintf("%d-%d", ids[i], ids[j]))
		} else {
			out = append(out, fmt.Sprint(ids[i]))
		}
		i = j + 1
	}
	return strings.Join(out, ",")
}

func (s *syncScn) dlRegister(p *ethPeer) {
	r := s.dl()
	r.mu.Lock()
	defer r.mu.Unlock()
	r.add(s, "reg:%s", dlName(p.role))
}

// dlHashReq: P received GetBlockHashesFromNumber{number, amount}. The head probe of findAncestor asks for MaxHashFetch hashes from
// max(head-512, 0) = 0 (the chains here are shorter than 512); the download proper starts at the ancestor + 1 ≥ 1.
func (s *syncScn) dlHashReq(p *ethPeer, number, amount uint64) {
	r := s.dl()
	r.mu.Lock()
	defer r.mu.Unlock()
	r.lastReq[p] = [2]uint64{number, amount}
	if number == 0 && amount == 512 {
		r.add(s, "sync:%s:%d", dlName(p.role), s.height())
	}
}

func (s *syncScn) dlHashReqDone(p *ethPeer) {
	r := s.dl()
	r.mu.Lock()
	defer r.mu.Unlock()
	delete(r.lastReq, p)
}

func (s *syncScn) dlHashes(p *ethPeer, hs []types.Hash) {
	r := s.dl()
	r.mu.Lock()
	defer r.mu.Unlock()
	ids := make([]int, len(hs))
	for i, h := range hs {
		ids[i] = s.dlId(r, h)
	}
	// what the node's chain (the genuine momentums 1…height) says about the pack as an answer to the ancestor search
	q := "u"
	H := s.height()
	if req, ok := r.lastReq[p]; ok && req[1] == 1 {
		if len(ids) == 1 && ids[0] <= H {
			q = "w"
			if uint64(ids[0]) == req[0] {
				q = "k"
			}
		}
	} else {
		for _, id := range ids {
			if id <= H {
				q = "k"
			}
		}
	}
	r.add(s, "hp:%s:%s:%s", dlName(p.role), q, dlIds(ids))
}

func (s *syncScn) dlBlockReq(p *ethPeer, hs []types.Hash) {
	r := s.dl()
	r.mu.Lock()
	defer r.mu.Unlock()
	ids := make([]int, len(hs))
	for i, h := range hs {
		ids[i] = s.dlId(r, h)
	}
	sort.Ints(ids)
	r.add(s, "bq:%s:%s", dlName(p.role), dlIds(ids))
}

func (s *syncScn) dlBlocks(p *ethPeer, bs []*nom.DetailedMomentum) {
	r := s.dl()
	r.mu.Lock()
	defer r.mu.Unlock()
	if len(bs) == 0 {
		r.add(s, "bp:%s:-", dlName(p.role))
		return
	}
	items := make([]string, len(bs))
	for i, b := range bs {
		id := s.dlId(r, b.Momentum.Hash)
		bit := func(v bool) string {
			if v {
				return "1"
			}
			return "0"
		}
		hashOk := b.Momentum.ComputeHash() == b.Momentum.Hash
		inWin := b.Momentum.Height >= 1 && b.Momentum.Height <= 4096
		valid := id <= len(s.src) && bytes.Equal(mustRlp(b), mustRlp(s.src[id-1]))
		items[i] = fmt.Sprintf("%d:%s%s%s", id, bit(hashOk), bit(inWin), bit(valid))
	}
	r.add(s, "bp:%s:%s", dlName(p.role), strings.Join(items, ","))
}

func (s *syncScn) dlFail(class string) {
	if class == "sync-stalled" {
		r := s.dl()
		r.mu.Lock()
		r.stalled = true
		r.mu.Unlock()
	}
}

// dlEmit writes the trace of the scenario and its outcome.
func (s *syncScn) dlEmit() {
	r := s.dl()
	s.mu.Lock()
	ps := append([]*ethPeer{}, s.peers...)
	s.mu.Unlock()
	r.mu.Lock()
	defer r.mu.Unlock()
	defer dlRecs.Delete(s)
	if len(r.evs) == 0 {
		return
	}
	end := time.Since(s.t0)
	sort.SliceStable(r.evs, func(i, j int) bool { return r.evs[i].seq < r.evs[j].seq })
	// Which request a block pack meets at the node is decided by the node's scheduler when the pack was not sent as THE answer to a
	// request (a bystander's unsolicited pack, a second answer): it may cross the next request on the wire. A scenario in which such a
	// pack is sent once block requests are out is replayed on the hash level only, and its sender is not judged.
	racy := false
	racySender := map[string]bool{}
	owed := map[string]int{}
	seenBq := false
	for _, e := range r.evs {
		f := strings.SplitN(e.tok, ":", 3)
		switch f[0] {
		case "bq":
			seenBq = true
			owed[f[1]]++
		case "bp":
			if owed[f[1]] > 0 {
				owed[f[1]]--
			} else if seenBq && f[2] != "-" {
				racy = true
				racySender[f[1]] = true
			}
		}
	}
	if racy {
		var keep []dlEvent
		for _, e := range r.evs {
			if !strings.HasPrefix(e.tok, "bq:") && !strings.HasPrefix(e.tok, "bp:") {
				keep = append(keep, e)
			}
		}
		r.evs = keep
		s.n.hit("dl-traces-hash-level-only")
	} else {
		s.n.hit("dl-traces-exact")
	}
	var judged, dropped []string
	target := 0
	for _, p := range ps {
		name := dlName(p.role)
		p.rawPeer.mu.Lock()
		closed, why, at := p.rawPeer.closed, p.rawPeer.discWhy, p.rawPeer.closedAt
		p.rawPeer.mu.Unlock()
		byNode := closed && why == "disc 3"
		if byNode {
			r.evs = append(r.evs, dlEvent{at.Sub(s.t0), len(r.evs) + 1000000, "dc:" + name})
		}
		if strings.HasPrefix(p.role, "H(") && len(p.chain) > target {
			target = len(p.chain)
		}
		if strings.HasPrefix(p.role, "B(bystander)") || racySender[name] {
			continue
		}
		judged = append(judged, name)
		if byNode {
			dropped = append(dropped, name)
		}
	}
	sort.SliceStable(r.evs, func(i, j int) bool {
		if r.evs[i].at != r.evs[j].at {
			return r.evs[i].at < r.evs[j].at
		}
		return r.evs[i].seq < r.evs[j].seq
	})
	toks := []string{fmt.Sprintf("init:%d", s.K)}
	flush := func() {
		if len(toks) > 0 {
			s.n.emit("dl-ev %s %s", s.name, strings.Join(toks, " "))
			toks = nil
		}
	}
	last := int64(0)
	for _, e := range r.evs {
		if tk := int64(e.at / (100 * time.Millisecond)); tk > last {
			toks = append(toks, fmt.Sprintf("t:%d", tk))
			last = tk
		}
		toks = append(toks, e.tok)
		if len(toks) >= 24 {
			flush()
		}
	}
	if tk := int64(end / (100 * time.Millisecond)); tk > last {
		toks = append(toks, fmt.Sprintf("t:%d", tk))
	}
	flush()
	sort.Strings(judged)
	sort.Strings(dropped)
	lst := func(l []string) string {
		if len(l) == 0 {
			return "-"
		}
		return strings.Join(l, ",")
	}
	mode, synced := "exact", fmt.Sprint(target > 0 && s.height() >= target)
	if racy {
		mode, synced = "hashes-only", "na"
	}
	s.n.emit("dl-end %s %d %s %s | dropped=%s synced=%s stalled=%v", s.name, target, lst(judged), mode, lst(dropped), synced, r.stalled)
	s.n.hit("dl-traces")
}
