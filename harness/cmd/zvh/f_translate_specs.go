package main

// The curated list of Go functions / fragments that `zvh facts` translates into lean/ZenonVerif/Gen/Translated.lean
// (f_translate.go). Order matters only for calls between translated functions (callee first).
var trSpecs = []trSpec{
	// C18 — rpc paging
	{name: "GetRange", file: "rpc/api/utils.go", fn: "GetRange"},
	{name: "accountBlocksPage", file: "rpc/api/ledger.go", fn: "LedgerApi.GetAccountBlocksByPage",
		from: "startHeight := int64(frontier.Height)", n: 5, outs: []string{"startHeight", "count"},
		ins: []trIn{{"frontier.Height", "uint64", "frontier_Height"}, {"pageIndex", "uint32", "pageIndex"}, {"pageSize", "uint32", "pageSize"}}},
	{name: "momentumsPage", file: "rpc/api/ledger.go", fn: "LedgerApi.GetMomentumsByPage",
		from: "startHeight := int64(frontier.Height)", n: 5, outs: []string{"startHeight", "count"},
		ins: []trIn{{"frontier.Height", "uint64", "frontier_Height"}, {"pageIndex", "uint32", "pageIndex"}, {"pageSize", "uint32", "pageSize"}}},
	// C14 — pool priority
	{name: "higherPriority", file: "chain/account_pool.go", fn: "higherPriority"},
	// C12 — plasma and PoW target
	{name: "GetDifficultyForPlasma", file: "vm/plasma.go", fn: "GetDifficultyForPlasma"},
	{name: "DifficultyToPlasma", file: "vm/plasma.go", fn: "DifficultyToPlasma"},
	{name: "FussedAmountToPlasma", file: "vm/plasma.go", fn: "FussedAmountToPlasma"},
	{name: "getTargetByDifficulty", file: "pow/pow.go", fn: "getTargetByDifficulty"},
	{name: "GetThresholdByDifficulty", file: "pow/pow.go", fn: "GetThresholdByDifficulty"},
	// C05 — ticker, integer parts (Duration.Seconds() is float64: the two conversions are inputs)
	{name: "ToTick", file: "common/ticker.go", fn: "ticker.ToTick",
		ins: []trIn{{"int64(time.Sub(t.startTime).Seconds())", "int64", "subSeconds"}, {"uint64(t.interval.Seconds())", "uint64", "intervalSeconds"}}},
	{name: "ToTime_startOffset", file: "common/ticker.go", fn: "ticker.ToTime", from: "sTime :=", n: 1, expr: "t.interval * time.Duration(tick)",
		ins: []trIn{{"t.interval", "time.Duration", "interval"}, {"tick", "uint64", "tick"}}},
	{name: "ToTime_endOffset", file: "common/ticker.go", fn: "ticker.ToTime", from: "eTime :=", n: 1, expr: "t.interval * time.Duration(tick+1)",
		ins: []trIn{{"t.interval", "time.Duration", "interval"}, {"tick", "uint64", "tick"}}},
	{name: "TickMultiplier_tail", file: "common/ticker.go", fn: "ticker.TickMultiplier", from: "cDuration :=", tail: true,
		ins: []trIn{{"cEnd.UnixNano()", "int64", "cEnd"}, {"cStart.UnixNano()", "int64", "cStart"}, {"bEnd.UnixNano()", "int64", "bEnd"}, {"bStart.UnixNano()", "int64", "bStart"}}},
	// C15 — reply-cap arithmetic of the protocol handler
	{name: "getHashes_cap", file: "protocol/handler.go", fn: "ProtocolManager.handleMsg",
		from: "if request.Amount > uint64(downloader.MaxHashFetch)", occ: 0, n: 1, outs: []string{"request.Amount"},
		ins: []trIn{{"request.Amount", "uint64", "amount"}}},
	{name: "fromNumber_cap", file: "protocol/handler.go", fn: "ProtocolManager.handleMsg",
		from: "if request.Amount > uint64(downloader.MaxHashFetch)", occ: 1, n: 1, outs: []string{"request.Amount"},
		ins: []trIn{{"request.Amount", "uint64", "amount"}}},
	{name: "fromNumber_lastNumber", file: "protocol/handler.go", fn: "ProtocolManager.handleMsg",
		from: "last, err := pm.chainman.GetBlockByNumber(", n: 1, expr: "request.Number + request.Amount - 1",
		ins: []trIn{{"request.Number", "uint64", "number"}, {"request.Amount", "uint64", "amount"}}},
	{name: "fromNumber_available", file: "protocol/handler.go", fn: "ProtocolManager.handleMsg",
		from: "if available := last.Height - request.Number + 1", n: 1, outs: []string{"request.Amount"},
		ins: []trIn{{"last.Height", "uint64", "lastHeight"}, {"request.Number", "uint64", "number"}, {"request.Amount", "uint64", "amount"}}},
	{name: "fromNumber_beyond", file: "protocol/handler.go", fn: "ProtocolManager.handleMsg",
		from: "if last.Height < request.Number", n: 1, outs: []string{},
		ins: []trIn{{"last.Height", "uint64", "lastHeight"}, {"request.Number", "uint64", "number"}}},
	// C11 — reward weights
	{name: "MinInt64", file: "common/math.go", fn: "MinInt64"},
	{name: "MaxInt64", file: "common/math.go", fn: "MaxInt64"},
	{name: "getWeightedStakeAmount", file: "vm/embedded/implementation/stake.go", fn: "getWeightedStakeAmount"},
	{name: "getWeightedStake", file: "vm/embedded/implementation/stake.go", fn: "getWeightedStake"},
	{name: "getWeightedSentinel", file: "vm/embedded/implementation/sentinel.go", fn: "getWeightedSentinel"},
	{name: "rewardHistoryFirstEpoch", file: "rpc/api/embedded/shared.go", fn: "getFrontierRewardByPage", from: "epoch := lastEpoch.LastEpoch", n: 1, expr: "lastEpoch.LastEpoch - int64(pageIndex)*int64(pageSize)",
		ins: []trIn{{"lastEpoch.LastEpoch", "int64", "lastEpoch"}, {"pageIndex", "uint32", "pageIndex"}, {"pageSize", "uint32", "pageSize"}}},
	// ---- round 6: loops, tables, fragments of larger functions ----
	// C12 — PoW comparison (downward loop over 8 bytes)
	{name: "greaterDifficulty", file: "pow/pow.go", fn: "greaterDifficulty"},
	// C11 — emission tables
	{name: "NetworkZnnRewardPerEpoch", file: "vm/constants/embedded.go", fn: "NetworkZnnRewardPerEpoch"},
	{name: "NetworkQsrRewardPerEpoch", file: "vm/constants/embedded.go", fn: "NetworkQsrRewardPerEpoch"},
}
