package main

// The curated list of Go functions / fragments that `zvh facts` translates into lean/ZenonVerif/Gen/Translated.lean
// (f_translate.go). Order matters only for calls between translated functions (callee first).
var trSpecs = []trSpec{
	// C18 — rpc paging
	{name: "GetRange", file: "rpc/api/utils.go", fn: "GetRange"},
	{name: "accountBlocksPage", file: "rpc/api/ledger.go", fn: "LedgerApi.GetAccountBlocksByPage",
		from: "startHeight := int64(frontier.Height)", n: 5, outs: []string{"startHeight", "count"},
		ins: []trIn{{"frontier.Height", "uint64", "frontier_Height"}, {"pageIndex", "uint32", "pageIndex"}, {"pageSize", "uint32", "pageSize"}}},
	{name: "momentumsPage", file: "rpc/api/ledger.go", fn: "LedgerApi.GetMomentumsByPage",
		from: "startHeight := int64(frontier.Height)", n: 5, outs: []string{"startHeight", "count"},
		ins: []trIn{{"frontier.Height", "uint64", "frontier_Height"}, {"pageIndex", "uint32", "pageIndex"}, {"pageSize", "uint32", "pageSize"}}},
	// C14 — pool priority
	{name: "higherPriority", file: "chain/account_pool.go", fn: "higherPriority"},
	// C12 — plasma and PoW target
	{name: "GetDifficultyForPlasma", file: "vm/plasma.go", fn: "GetDifficultyForPlasma"},
	{name: "DifficultyToPlasma", file: "vm/plasma.go", fn: "DifficultyToPlasma"},
	{name: "FussedAmountToPlasma", file: "vm/plasma.go", fn: "FussedAmountToPlasma"},
	{name: "getTargetByDifficulty", file: "pow/pow.go", fn: "getTargetByDifficulty"},
	{name: "GetThresholdByDifficulty", file: "pow/pow.go", fn: "GetThresholdByDifficulty"},
	// C05 — ticker, integer parts (Duration.Seconds() is float64: the two conversions are inputs)
	{name: "ToTick", file: "common/ticker.go", fn: "ticker.ToTick",
		ins: []trIn{{"int64(time.Sub(t.startTime).Seconds())", "int64", "subSeconds"}, {"uint64(t.interval.Seconds())", "uint64", "intervalSeconds"}}},
	{name: "ToTime_startOffset", file: "common/ticker.go", fn: "ticker.ToTime", from: "sTime :=", n: 1, expr: "t.interval * time.Duration(tick)",
		ins: []trIn{{"t.interval", "time.Duration", "interval"}, {"tick", "uint64", "tick"}}},
	{name: "ToTime_endOffset", file: "common/ticker.go", fn: "ticker.ToTime", from: "eTime :=", n: 1, expr: "t.interval * time.Duration(tick+1)",
		ins: []trIn{{"t.interval", "time.Duration", "interval"}, {"tick", "uint64", "tick"}}},
	{name: "TickMultiplier_tail", file: "common/ticker.go", fn: "ticker.TickMultiplier", from: "cDuration :=", tail: true,
		ins: []trIn{{"cEnd.UnixNano()", "int64", "cEnd"}, {"cStart.UnixNano()", "int64", "cStart"}, {"bEnd.UnixNano()", "int64", "bEnd"}, {"bStart.UnixNano()", "int64", "bStart"}}},
	// C15 — reply-cap arithmetic of the protocol handler
	{name: "getHashes_cap", file: "protocol/handler.go", fn: "ProtocolManager.handleMsg",
		from: "if request.Amount > uint64(downloader.MaxHashFetch)", occ: 0, n: 1, outs: []string{"request.Amount"},
		ins: []trIn{{"request.Amount", "uint64", "amount"}}},
	{name: "fromNumber_cap", file: "protocol/handler.go", fn: "ProtocolManager.handleMsg",
		from: "if request.Amount > uint64(downloader.MaxHashFetch)", occ: 1, n: 1, outs: []string{"request.Amount"},
		ins: []trIn{{"request.Amount", "uint64", "amount"}}},
	{name: "fromNumber_lastNumber", file: "protocol/handler.go", fn: "ProtocolManager.handleMsg",
		from: "last, err := pm.chainman.GetBlockByNumber(", n: 1, expr: "request.Number + request.Amount - 1",
		ins: []trIn{{"request.Number", "uint64", "number"}, {"request.Amount", "uint64", "amount"}}},
	{name: "fromNumber_available", file: "protocol/handler.go", fn: "ProtocolManager.handleMsg",
		from: "if available := last.Height - request.Number + 1", n: 1, outs: []string{"request.Amount"},
		ins: []trIn{{"last.Height", "uint64", "lastHeight"}, {"request.Number", "uint64", "number"}, {"request.Amount", "uint64", "amount"}}},
	{name: "fromNumber_beyond", file: "protocol/handler.go", fn: "ProtocolManager.handleMsg",
		from: "if last.Height < request.Number", n: 1, outs: []string{},
		ins: []trIn{{"last.Height", "uint64", "lastHeight"}, {"request.Number", "uint64", "number"}}},
	// C11 — reward weights
	{name: "MinInt64", file: "common/math.go", fn: "MinInt64"},
	{name: "MaxInt64", file: "common/math.go", fn: "MaxInt64"},
	{name: "getWeightedStakeAmount", file: "vm/embedded/implementation/stake.go", fn: "getWeightedStakeAmount"},
	{name: "getWeightedStake", file: "vm/embedded/implementation/stake.go", fn: "getWeightedStake"},
	{name: "getWeightedSentinel", file: "vm/embedded/implementation/sentinel.go", fn: "getWeightedSentinel"},
	{name: "rewardHistoryFirstEpoch", file: "rpc/api/embedded/shared.go", fn: "getFrontierRewardByPage", from: "epoch := lastEpoch.LastEpoch", n: 1, expr: "lastEpoch.LastEpoch - int64(pageIndex)*int64(pageSize)",
		ins: []trIn{{"lastEpoch.LastEpoch", "int64", "lastEpoch"}, {"pageIndex", "uint32", "pageIndex"}, {"pageSize", "uint32", "pageSize"}}},
	// ---- round 6: loops, tables, fragments of larger functions ----
	// C12 — PoW comparison (downward loop over 8 bytes)
	{name: "greaterDifficulty", file: "pow/pow.go", fn: "greaterDifficulty"},
	// C11 — emission tables
	{name: "NetworkZnnRewardPerEpoch", file: "vm/constants/embedded.go", fn: "NetworkZnnRewardPerEpoch"},
	{name: "NetworkQsrRewardPerEpoch", file: "vm/constants/embedded.go", fn: "NetworkQsrRewardPerEpoch"},
	// C11 — the epoch cursor (CanPerformEpochUpdate / checkAndPerformUpdateEpoch)
	{name: "epochUpdate_nextEpoch", file: "vm/embedded/implementation/common.go", fn: "CanPerformEpochUpdate",
		from: "_, currentEpochEndTime := context.EpochTicker().ToTime(", n: 1, expr: "uint64(epoch.LastEpoch + 1)",
		ins: []trIn{{"epoch.LastEpoch", "int64", "lastEpoch"}}},
	{name: "epochUpdate_tooRecent", file: "vm/embedded/implementation/common.go", fn: "CanPerformEpochUpdate",
		from: "if frontierMomentum.Timestamp.Unix()", n: 1, outs: []string{},
		ins: []trIn{{"frontierMomentum.Timestamp.Unix()", "int64", "frontierTs"}, {"currentEpochEndTime.Unix()", "int64", "epochEnd"}}},
	{name: "epochUpdate_advance", file: "vm/embedded/implementation/common.go", fn: "checkAndPerformUpdateEpoch",
		from: "epoch.LastEpoch += 1", n: 1, outs: []string{"epoch.LastEpoch"},
		ins: []trIn{{"epoch.LastEpoch", "int64", "lastEpoch"}}},
	// C12 — base cost of a plain send and the three inequalities of enoughPlasma
	{name: "basePlasma_plainSend", file: "vm/plasma.go", fn: "GetBasePlasmaForAccountBlock",
		from: "if len(block.Data)", tail: true,
		ins: []trIn{{"len(block.Data)", "int", "dataLen"}}},
	{name: "enoughPlasma_fused", file: "vm/vm.go", fn: "enoughPlasma", from: "if available", n: 1, outs: []string{},
		ins: []trIn{{"available", "uint64", "available"}, {"block.FusedPlasma", "uint64", "fused"}}},
	{name: "enoughPlasma_total", file: "vm/vm.go", fn: "enoughPlasma", from: "powPlasma := DifficultyToPlasma(block.Difficulty)", n: 3,
		outs: []string{"block.TotalPlasma"},
		ins: []trIn{{"block.Difficulty", "uint64", "difficulty"}, {"block.FusedPlasma", "uint64", "fused"}, {"block.TotalPlasma", "uint64", "total"}}},
	{name: "enoughPlasma_base", file: "vm/vm.go", fn: "enoughPlasma", from: "if block.TotalPlasma", occ: 1, n: 1, outs: []string{},
		ins: []trIn{{"block.TotalPlasma", "uint64", "total"}, {"block.BasePlasma", "uint64", "base"}}},
	// C05 / C03 — pure comparisons of the verifiers
	{name: "momentum_timestampMissing", file: "verifier/momentum.go", fn: "rawMomentumVerifier.timestamp",
		from: "if rmv.momentum.Timestamp.Unix()", n: 1, outs: []string{},
		ins: []trIn{{"rmv.momentum.Timestamp.Unix()", "int64", "ts"}}},
	{name: "momentum_timestampNotIncreasing", file: "verifier/momentum.go", fn: "rawMomentumVerifier.timestamp",
		from: "if previous.TimestampUnix", n: 1, outs: []string{},
		ins: []trIn{{"previous.TimestampUnix", "uint64", "prevTs"}, {"rmv.momentum.TimestampUnix", "uint64", "ts"}}},
	{name: "accountBlock_amountBounds", file: "verifier/account_block.go", fn: "accountBlockVerifier.amounts",
		from: "if abv.block.Amount.Sign()", n: 2, outs: []string{},
		ins: []trIn{{"abv.block.Amount", "*big.Int", "amount"}}},
	{name: "accountBlock_heightChecks", file: "verifier/account_block.go", fn: "accountBlockVerifier.previous",
		from: "if abv.block.Height", n: 3, outs: []string{},
		ins: []trIn{{"abv.block.Height", "uint64", "height"}, {"abv.block.PreviousHash.IsZero()", "bool", "prevHashIsZero"}}},
	// C16 — InsertChain: rollback target, window and strictly-longer tests
	{name: "insertChain_targetHeight", file: "protocol/chain_bridge.go", fn: "chainBridge.InsertChain",
		from: "target, err := store.GetMomentumByHeight(head.Height - 1)", n: 1, expr: "head.Height - 1",
		ins: []trIn{{"head.Height", "uint64", "headHeight"}}},
	{name: "insertChain_window", file: "protocol/chain_bridge.go", fn: "chainBridge.InsertChain",
		from: "if ourFrontier.Height-target.Height", n: 2, outs: []string{},
		ins: []trIn{{"ourFrontier.Height", "uint64", "frontierHeight"}, {"target.Height", "uint64", "targetHeight"}, {"tail.Height", "uint64", "tailHeight"}}},
	// C05 — election: the seed
	{name: "findSeed", file: "consensus/election_algorithm.go", fn: "electionAlgorithm.findSeed",
		from: "return int64(context.hashH.Height)", n: 1, expr: "int64(context.hashH.Height)",
		ins: []trIn{{"context.hashH.Height", "uint64", "height"}}},
	// C14 — the batch-boundary loop (slices of block pointers projected to BlockType)
	{name: "filterBlocksToCommit", file: "chain/account_pool.go", fn: "accountPool.filterBlocksToCommit"},
}
