package main

// Facts for C15 / C16 (block fetcher): the limits and time-outs of protocol/fetcher/fetcher.go and the SHAPE of the places the model
// ZenonVerif/Model/Fetcher.lean follows line by line (AST of the working tree; log records are left out):
//
//	enqueue        the tests in order: per-peer count > blockLimit, distance outside [-maxUncleDist, maxQueueDist], already queued
//	loop           the notify case (count > hashLimit, already fetching, counter + append), the done case (forgetHash + forgetBlock),
//	               what the timer case does for a hash that is due (forgetHash, then f.fetching[hash] = announce: is the counter raised?
//	               FeTimerCountsFetching = an increment of f.announces[announce.origin] follows that assignment in the same block),
//	               the import pass at the head of the loop
//	insert         the goroutine: deferred `f.done <- hash`, parent lookup, validateBlock, default case dropPeer(peer), insertChain
//	forgetHash / forgetBlock   which counters they lower
//	peer.go        maxKnownTxs / maxKnownBlocks and that the known sets are LRU caches of exactly that size
//
// Pinned by theorems of ZenonVerif/Props/C15Fetcher.lean.

import (
	"fmt"
	"go/ast"
	"go/parser"
	"go/token"
	"path/filepath"
	"strings"
)

// shapeLines renders a statement list recursively, one line per statement, blocks bracketed by "{" / "}" lines; log records skipped.
func shapeLines(fset *token.FileSet, sts []ast.Stmt) []string {
	var out []string
	for _, st := range sts {
		switch x := st.(type) {
		case *ast.ExprStmt:
			s := exprStr(fset, x.X)
			if strings.HasPrefix(s, "log.") {
				continue
			}
			out = append(out, s)
		case *ast.IfStmt:
			c := exprStr(fset, x.Cond)
			if x.Init != nil {
				c = exprStr(fset, x.Init) + "; " + c
			}
			out = append(out, "if "+c+" {")
			out = append(out, shapeLines(fset, x.Body.List)...)
			if x.Else != nil {
				out = append(out, "} else {")
				if b, ok := x.Else.(*ast.BlockStmt); ok {
					out = append(out, shapeLines(fset, b.List)...)
				} else {
					out = append(out, shapeLines(fset, []ast.Stmt{x.Else})...)
				}
			}
			out = append(out, "}")
		case *ast.RangeStmt:
			out = append(out, "for range "+exprStr(fset, x.X)+" {")
			out = append(out, shapeLines(fset, x.Body.List)...)
			out = append(out, "}")
		case *ast.ForStmt:
			c := ""
			if x.Cond != nil {
				c = exprStr(fset, x.Cond)
			}
			out = append(out, "for "+c+" {")
			out = append(out, shapeLines(fset, x.Body.List)...)
			out = append(out, "}")
		case *ast.SwitchStmt:
			t := ""
			if x.Init != nil {
				t = exprStr(fset, x.Init) + "; "
			}
			if x.Tag != nil {
				t += exprStr(fset, x.Tag)
			}
			out = append(out, "switch "+t+" {")
			for _, c := range x.Body.List {
				cc := c.(*ast.CaseClause)
				if cc.List == nil {
					out = append(out, "default:")
				} else {
					var es []string
					for _, e := range cc.List {
						es = append(es, exprStr(fset, e))
					}
					out = append(out, "case "+strings.Join(es, ", ")+":")
				}
				out = append(out, shapeLines(fset, cc.Body)...)
			}
			out = append(out, "}")
		case *ast.GoStmt:
			if fl, ok := x.Call.Fun.(*ast.FuncLit); ok {
				out = append(out, "go func() {")
				out = append(out, shapeLines(fset, fl.Body.List)...)
				out = append(out, "}()")
			} else {
				out = append(out, exprStr(fset, x))
			}
		case *ast.DeferStmt:
			if fl, ok := x.Call.Fun.(*ast.FuncLit); ok {
				out = append(out, "defer func() {")
				out = append(out, shapeLines(fset, fl.Body.List)...)
				out = append(out, "}()")
			} else {
				out = append(out, exprStr(fset, x))
			}
		case *ast.BlockStmt:
			out = append(out, shapeLines(fset, x.List)...)
		default:
			out = append(out, exprStr(fset, st))
		}
	}
	return out
}

// feCountsFetching: does the timer case count the fetch it starts? True iff, in some block below `root`, the statement
// `f.fetching[hash] = announce` is FOLLOWED in the same block (same statement list, so under the same conditions) by a statement that
// raises exactly that announcer's counter by one: `f.announces[announce.origin]++`, `f.announces[announce.origin] += 1` or
// `f.announces[announce.origin] = f.announces[announce.origin] + 1` — and no statement of `root` lowers or overwrites an f.announces
// entry in any other way (the whole list is pinned by FeTimerDueShape as well).
func feCountsFetching(fset *token.FileSet, root ast.Node) bool {
	const ctr = "f.announces[announce.origin]"
	raises := func(st ast.Stmt) bool {
		switch y := st.(type) {
		case *ast.IncDecStmt:
			return y.Tok == token.INC && exprStr(fset, y.X) == ctr
		case *ast.AssignStmt:
			if len(y.Lhs) != 1 || len(y.Rhs) != 1 || exprStr(fset, y.Lhs[0]) != ctr {
				return false
			}
			r := strings.ReplaceAll(exprStr(fset, y.Rhs[0]), " ", "")
			return (y.Tok == token.ADD_ASSIGN && r == "1") || (y.Tok == token.ASSIGN && (r == ctr+"+1" || r == "1+"+ctr))
		}
		return false
	}
	touches := func(st ast.Stmt) bool { // any write to an entry of f.announces
		switch y := st.(type) {
		case *ast.IncDecStmt:
			return strings.HasPrefix(exprStr(fset, y.X), "f.announces[")
		case *ast.AssignStmt:
			for _, l := range y.Lhs {
				if strings.HasPrefix(exprStr(fset, l), "f.announces[") {
					return true
				}
			}
		case *ast.ExprStmt:
			return strings.HasPrefix(exprStr(fset, y.X), "delete(f.announces,")
		}
		return false
	}
	found, writes := false, 0
	ast.Inspect(root, func(k ast.Node) bool {
		if st, ok := k.(ast.Stmt); ok && touches(st) {
			writes++
		}
		b, ok := k.(*ast.BlockStmt)
		if !ok {
			return true
		}
		for i, st := range b.List {
			as, ok := st.(*ast.AssignStmt)
			if !ok || as.Tok != token.ASSIGN || len(as.Lhs) != 1 || len(as.Rhs) != 1 ||
				exprStr(fset, as.Lhs[0]) != "f.fetching[hash]" || exprStr(fset, as.Rhs[0]) != "announce" {
				continue
			}
			n := 0
			for _, later := range b.List[i+1:] {
				if raises(later) {
					n++
				}
			}
			if n == 1 {
				found = true
			}
		}
		return true
	})
	return found && writes == 1
}

func init() {
	factGens = append(factGens, func(repo string) (*factFile, error) {
		f := newFactFile("Fetcher")
		fset := token.NewFileSet()
		ff, err := parser.ParseFile(fset, filepath.Join(repo, "protocol", "fetcher", "fetcher.go"), nil, 0)
		if err != nil {
			return nil, err
		}
		pf, err := parser.ParseFile(fset, filepath.Join(repo, "protocol", "peer.go"), nil, 0)
		if err != nil {
			return nil, err
		}
		// ---- constants ---------------------------------------------------------------------------------------------------
		consts := map[string]int64{}
		for _, file := range []*ast.File{ff, pf} {
			for _, d := range file.Decls {
				gd, ok := d.(*ast.GenDecl)
				if !ok || gd.Tok != token.CONST {
					continue
				}
				for _, sp := range gd.Specs {
					vs := sp.(*ast.ValueSpec)
					for i, nm := range vs.Names {
						if i >= len(vs.Values) {
							continue
						}
						switch nm.Name {
						case "arriveTimeout", "gatherSlack", "fetchTimeout", "maxUncleDist", "maxQueueDist", "hashLimit", "blockLimit", "maxKnownTxs", "maxKnownBlocks":
							v, err := dlDurMs(vs.Values[i], consts)
							if err != nil {
								return nil, fmt.Errorf("fetcher: %s: %v", nm.Name, err)
							}
							consts[nm.Name] = v
						}
					}
				}
			}
		}
		f.raw("-- protocol/fetcher/fetcher.go: time-outs in milliseconds and limits; protocol/peer.go: sizes of the known sets\n")
		for _, k := range [][2]string{{"arriveTimeout", "FeArriveTimeoutMs"}, {"gatherSlack", "FeGatherSlackMs"}, {"fetchTimeout", "FeFetchTimeoutMs"},
			{"maxUncleDist", "FeMaxUncleDist"}, {"maxQueueDist", "FeMaxQueueDist"}, {"hashLimit", "FeHashLimit"}, {"blockLimit", "FeBlockLimit"},
			{"maxKnownTxs", "PeerMaxKnownTxs"}, {"maxKnownBlocks", "PeerMaxKnownBlocks"}} {
			v, ok := consts[k[0]]
			if !ok {
				return nil, fmt.Errorf("fetcher facts: constant %s not found", k[0])
			}
			f.nat(k[1], v)
		}
		body := func(name string) (*ast.FuncDecl, error) {
			fd := findMethod(ff, "Fetcher", name)
			if fd == nil {
				return nil, fmt.Errorf("fetcher.go: func %s not found", name)
			}
			return fd, nil
		}
		// ---- enqueue, forgetHash, forgetBlock, insert ---------------------------------------------------------------------
		f.raw("-- protocol/fetcher/fetcher.go (AST of the working tree, log records left out)\n")
		for _, nm := range []string{"enqueue", "forgetHash", "forgetBlock", "insert"} {
			fd, err := body(nm)
			if err != nil {
				return nil, err
			}
			f.strList("Fe"+strings.ToUpper(nm[:1])+nm[1:]+"Shape", shapeLines(fset, fd.Body.List))
		}
		// every dropPeer call of the package and its argument; every f.insert call and its arguments
		var dropArgs, insertArgs []string
		ast.Inspect(ff, func(n ast.Node) bool {
			if c, ok := n.(*ast.CallExpr); ok {
				switch exprStr(fset, c.Fun) {
				case "f.dropPeer":
					dropArgs = append(dropArgs, exprStr(fset, c.Args[0]))
				case "f.insert":
					var as []string
					for _, a := range c.Args {
						as = append(as, exprStr(fset, a))
					}
					insertArgs = append(insertArgs, strings.Join(as, ", "))
				}
			}
			return true
		})
		f.strList("FeDropPeerArgs", dropArgs)
		f.strList("FeInsertCallArgs", insertArgs)
		// ---- loop: head (expiry + import pass) and the cases --------------------------------------------------------------
		lp, err := body("loop")
		if err != nil {
			return nil, err
		}
		var head, notifyCase, injectCase, doneCase, timerDue []string
		countsFetching := false
		ast.Inspect(lp.Body, func(n ast.Node) bool {
			switch x := n.(type) {
			case *ast.ForStmt:
				if x.Cond == nil && x.Init == nil && len(head) == 0 {
					for _, st := range x.Body.List {
						if _, ok := st.(*ast.SelectStmt); ok {
							break
						}
						head = append(head, shapeLines(fset, []ast.Stmt{st})...)
					}
				}
			case *ast.CommClause:
				if x.Comm == nil {
					return true
				}
				switch c := exprStr(fset, x.Comm); {
				case strings.Contains(c, "<-f.notify"):
					notifyCase = shapeLines(fset, x.Body)
				case strings.Contains(c, "<-f.inject"):
					injectCase = shapeLines(fset, x.Body)
				case strings.Contains(c, "<-f.done"):
					doneCase = shapeLines(fset, x.Body)
				case strings.Contains(c, "<-fetch.C"):
					ast.Inspect(&ast.BlockStmt{List: x.Body}, func(m ast.Node) bool {
						if is, ok := m.(*ast.IfStmt); ok && strings.Contains(exprStr(fset, is.Cond), "arriveTimeout") {
							timerDue = shapeLines(fset, []ast.Stmt{is})
							countsFetching = feCountsFetching(fset, is)
						}
						return true
					})
				}
			}
			return true
		})
		f.strList("FeLoopHeadShape", head)
		f.strList("FeNotifyCaseShape", notifyCase)
		f.strList("FeInjectCaseShape", injectCase)
		f.strList("FeDoneCaseShape", doneCase)
		f.strList("FeTimerDueShape", timerDue)
		f.raw("def FeTimerCountsFetching : Bool := %v   -- in the timer case `f.announces[announce.origin]++` follows `f.fetching[hash] = announce` in the same block (finding FGD1: it did not)\n", countsFetching)
		// ---- peer.go: the known sets ---------------------------------------------------------------------------------------
		var lruNew []string
		ast.Inspect(pf, func(n ast.Node) bool {
			if c, ok := n.(*ast.CallExpr); ok && exprStr(fset, c.Fun) == "lru.New" {
				lruNew = append(lruNew, exprStr(fset, c))
			}
			return true
		})
		f.strList("PeerKnownSetConstructors", lruNew)
		return f, nil
	})
}
